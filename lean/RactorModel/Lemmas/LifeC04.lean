import RactorModel.Lemmas.Life
import RactorModel.Lemmas.LifeCell

/-! Simulation of the `Life` actor by the C04 automaton (supervision events about one actor):
at most one `ActorStarted`, right after `post_start` returned ok; at most one terminal event, of
the constructor / reason that the trace explains; nothing after a `pre_start` failure; every event
goes to the supervisor observed at that moment; a supervised actor whose task ends has reported. -/

namespace Life.C04

def pastPostStart : Phase → Bool
  | .idle | .inMsg | .inSup | .postStop _ | .done => true
  | _ => false

/-- Phase-independent facts about a live (not `done`) actor and the automaton state. -/
structure Base (a : Actor) (s : St) : Prop where
  preFailed : s.preFailed = false ∧ s.mustStart = false
  terminal : s.terminalEmitted = false ∧ s.fanTerminal = none
  stopVal : (∀ r, a.stopVal = some r → r.isUser = true ∧ s.stopReason = some r) ∧
    (s.stopReason.isSome = true → a.stopVal.isSome = true ∨ s.took.isSome = true)
  drain : Item.drain ∈ a.msgQ → s.drainReq = true
  stopTx : s.stopReason.isSome = true → a.stopTx = false
  kill : a.sigVal = true → s.killed = true
  localEq : s.isLocal = a.isLocal

/-- What holds of a live (not `done`) actor at op boundaries. -/
structure Core (a : Actor) (s : St) : Prop extends Base a s where
  armed : a.phase ≠ .fresh → a.armed = true
  notify : a.phase.isTask = true → a.notifyOnCancel = true
  started : s.startedEmitted = true → pastPostStart a.phase = true
  postStop : (∀ r, a.phase = .postStop r → s.took = some r ∧ (r.isUser = true ∨ r = .drained)) ∧
    (s.took.isSome = true → ∃ r, a.phase = .postStop r)
  freshSig : a.phase = .fresh → a.sigVal = false

/-- Postcondition of every piece of a step of an actor that started the step with identity `id0`
and observed supervisor `sup0`: the automaton still remembers `sup0`. -/
def Post (id0 : Nat) (sup0 : Option Nat) (a : Actor) (s : St) : Prop :=
  a.id = id0 ∧ s.sup = sup0 ∧ (a.phase = .done ∨ Core a s)

def Inv (me : Nat) (a : Actor) (s : St) : Prop := Post me a.sup a s

variable (me : Nat)

/-! ### the automaton on each kind of event -/

theorem next_enter (s : St) (cb : Cb) (x : Arg) (h : s.mustStart = false) :
    next me s (.enter cb x) =
      .ok { s with startable := false, took := if cb = .postStop then tookOf s else s.took } := by
  simp [next, h]
theorem next_enter' (s : St) (cb : Cb) (x : Arg) (h : s.mustStart = false) (hcb : cb ≠ .postStop) :
    next me s (.enter cb x) = .ok { s with startable := false } := by
  simp [next, h, hcb]
@[simp] theorem next_tick (s : St) (cb : Cb) : next me s (.tick cb) = .ok s := rfl
@[simp] theorem next_sendRet (s : St) (b : Bool) (m : Nat) (ok : Bool) :
    next me s (.sendRet b m ok) = .ok s := rfl
@[simp] theorem next_supArrive (s : St) (e : SupEv) : next me s (.supArrive e) = .ok s := rfl
@[simp] theorem next_fxJoin (s : St) (g : String) : next me s (.fxJoin g) = .ok s := rfl
@[simp] theorem next_fxReply (s : St) (k v : Nat) (b : Bool) : next me s (.fxReply k v b) = .ok s := rfl
@[simp] theorem next_fxForget (s : St) (k : Nat) (b : Bool) : next me s (.fxForget k b) = .ok s := rfl
@[simp] theorem next_callRet (s : St) (k : Nat) (r : CallRes) : next me s (.callRet k r) = .ok s := rfl
@[simp] theorem next_callSent (s : St) (k : Nat) (b : Bool) : next me s (.callSent k b) = .ok s := rfl
@[simp] theorem next_polled (s : St) : next me s .polled = .ok s := rfl
@[simp] theorem next_waitRet (s : St) (w : Nat) (b : Bool) : next me s (.waitRet w b) = .ok s := rfl
theorem next_snap (s : St) (a : Actor) : next me s (.snap a.snap) = .ok s := by
  simp [next, Actor.snap]

theorem accepts_snapTail' (s : St) (a' : Actor) : accepts (next me) s (evs (snapTail a')) = .ok s := by
  unfold snapTail; split <;> simp [accepts_cons, next_snap]
@[simp] theorem next_isLocal (s : St) : next me s .isLocal = .ok { s with isLocal := true } := rfl
@[simp] theorem next_supIs (s : St) (p : Option Nat) : next me s (.supIs p) = .ok { s with sup := p } := rfl
@[simp] theorem next_aborted (s : St) : next me s .aborted = .ok { s with aborted := true } := rfl
@[simp] theorem next_dropped (s : St) : next me s .dropped = .ok { s with preFailed := true } := rfl
@[simp] theorem next_cancelled_pre (s : St) :
    next me s (.cancelled .preStart) = .ok { s with preFailed := true } := rfl
theorem next_cancelled_other (s : St) (cb : Cb) (h : cb ≠ .preStart) :
    next me s (.cancelled cb) = .ok s := by
  cases cb <;> first | rfl | exact absurd rfl h
@[simp] theorem next_stopRet (s : St) (b : Bool) (r : Reason) (ok : Bool) :
    next me s (.stopRet b r ok) = .ok (if ok then { s with stopReason := some r } else s) := by
  cases ok <;> rfl
@[simp] theorem next_killRet (s : St) (b : Bool) (ok : Bool) :
    next me s (.killRet b ok) = .ok (if ok then { s with killed := true } else s) := by
  cases ok <;> rfl
@[simp] theorem next_drainRet (s : St) (ok : Bool) :
    next me s (.drainRet ok) = .ok (if ok then { s with drainReq := true } else s) := by
  cases ok <;> rfl
/-- The spawn results of a start that failed for an ordinary reason. -/
def SpawnRet.isFail : SpawnRet → Bool
  | .killed | .nolink | .startup _ _ => true
  | _ => false

def failUpd (r : SpawnRet) (s : St) : St :=
  match r with
  | .killed => { s with preFailed := true }
  | _ => s

theorem failUpd_sup (r : SpawnRet) (s : St) : (failUpd r s).sup = s.sup := by cases r <;> rfl

theorem next_spawnRet_err (s : St) (r : SpawnRet) (h : SpawnRet.isFail r = true) :
    next me s (.spawnRet r) = .ok (failUpd r s) := by
  cases r <;> first | rfl | simp [SpawnRet.isFail] at h
@[simp] theorem next_spawnRet_registered (s : St) : next me s (.spawnRet .registered) = .ok s := rfl
@[simp] theorem next_instant (s : St) : next me s .instant = .ok s := rfl
@[simp] theorem next_treeKill (s : St) : next me s .treeKill = .ok { s with killed := true } := rfl
theorem next_spawnRet_ok (s : St) (h : s.preFailed = false) : next me s (.spawnRet .ok) = .ok s := by
  simp [next, h]

/-- The automaton state after `exit cb r`. -/
def exitUpd (cb : Cb) (r : Res) (s : St) : St :=
  match cb, r with
  | .preStart, .ok => s
  | .preStart, _ => { s with preFailed := true }
  | .postStart, .ok => { s with startable := true, mustStart := s.sup.isSome }
  | .postStop, .ok => { s with postStopOk := true }
  | _, .ok => s
  | _, .err n => { s with fail := some (false, n) }
  | _, .panic n => { s with fail := some (true, n) }

@[simp] theorem next_exit (s : St) (cb : Cb) (r : Res) :
    next me s (.exit cb r) = .ok (exitUpd cb r s) := by
  cases cb <;> cases r <;> rfl

theorem next_join_ok (s : St) (h : s.sup.isSome = true → s.terminalEmitted = true) :
    next me s (.join .ok) = .ok s := by
  simp only [next]
  split
  · rename_i hc; simp at hc; have := h hc.1; simp_all
  · rfl

theorem next_join_cancelled (s : St) (ha : s.aborted = true)
    (h : s.sup.isSome = true → s.terminalEmitted = true) :
    next me s (.join .cancelled) = .ok s := by
  simp only [next, ha]
  simp only [Bool.not_true, Bool.false_eq_true, ↓reduceIte]
  split
  · rename_i hc; simp at hc; have := h hc.1; simp_all
  · rfl

theorem next_emit_started (s : St) (p : Nat) (hsup : s.sup = some p) (hpf : s.preFailed = false)
    (ht : s.terminalEmitted = false ∧ s.fanTerminal = none) (hse : s.startedEmitted = false) (hst : s.startable = true) :
    next me s (.emit p (.started me)) = .ok { s with startedEmitted := true, startable := false, mustStart := false } := by
  simp [next, SupEv.who, SupEv.isTerminal, hsup, hpf, ht.1, hse, hst]

theorem next_emit_terminal (s : St) (p : Nat) (e : SupEv) (hw : e.who = me) (hterm : e.isTerminal = true)
    (hsup : s.sup = some p) (hpf : s.preFailed = false ∧ s.mustStart = false) (ht : s.terminalEmitted = false ∧ s.fanTerminal = none)
    (hc : classify s e = .ok ()) :
    next me s (.emit p e) = .ok { s with terminalEmitted := true } := by
  simp [next, hw, hterm, hsup, hpf.1, hpf.2, ht.1, ht.2, hc]

theorem strip_who (e : SupEv) : e.strip.who = e.who := by cases e <;> rfl
theorem strip_strip (e : SupEv) : e.strip.strip = e.strip := by cases e <;> rfl
theorem strip_isTerminal (e : SupEv) : e.strip.isTerminal = e.isTerminal := by cases e <;> rfl

/-- the supervisor's terminal event right after the monitors got their copy of it -/
theorem next_emit_terminal_fan (s : St) (p : Nat) (e : SupEv) (hw : e.who = me) (hterm : e.isTerminal = true)
    (hsup : s.sup = some p) (hpf : s.preFailed = false ∧ s.mustStart = false) (ht : s.terminalEmitted = false)
    (hf : s.fanTerminal = some e.strip) (hc : classify s e = .ok ()) :
    next me s (.emit p e) = .ok { s with terminalEmitted := true } := by
  simp [next, hw, hterm, hsup, hpf.1, hpf.2, ht, hf, hc]

theorem next_monFan_terminal (s : St) (reg : List Nat) (e : SupEv) (hw : e.who = me) (hterm : e.isTerminal = true)
    (hpf : s.preFailed = false) (ht : s.terminalEmitted = false ∧ s.fanTerminal = none) :
    next me s (.monFan reg reg e.strip) = .ok { s with fanTerminal := some e.strip } := by
  simp [next, strip_who, strip_strip, strip_isTerminal, hw, hterm, hpf, ht.1, ht.2]

theorem next_monFan_started (s : St) (reg : List Nat) (hpf : s.preFailed = false)
    (ht : s.terminalEmitted = false ∧ s.fanTerminal = none) (hst : s.startable = true) :
    next me s (.monFan reg reg (SupEv.started me).strip) = .ok s := by
  simp [next, SupEv.strip, SupEv.who, SupEv.isTerminal, hpf, ht.1, ht.2, hst]

theorem classify_fan (s : St) (x : Option SupEv) (e : SupEv) :
    classify { s with fanTerminal := x } e = classify s e := rfl


/-! ### exit paths -/

theorem cleanup_none (a : Actor) :
    evs (cleanup a none).2 = [] ∧ (cleanup a none).1.id = a.id ∧ (cleanup a none).1.phase = a.phase := by
  unfold cleanup
  split
  · simp
  · cases hs : a.sup <;> simp [Actor.setStatus, hs]

/-- `notify_supervisor` of a terminal event: the monitors' copy (if any), then the supervisor's. -/
theorem notify_terminal (a : Actor) (e : SupEv) (s : St) (hsup : s.sup = a.sup)
    (hpf : s.preFailed = false ∧ s.mustStart = false) (ht : s.terminalEmitted = false ∧ s.fanTerminal = none)
    (hw : e.who = me) (hterm : e.isTerminal = true)
    (hc : a.sup.isSome = true → classify s e = .ok ()) :
    ∃ s', accepts (next me) s (evs (notifyOuts a e)) = .ok s' ∧ s'.sup = s.sup ∧
      s'.aborted = s.aborted ∧ (s.sup.isSome = true → s'.terminalEmitted = true) := by
  unfold notifyOuts
  cases hm : a.mons with
  | nil =>
    cases hs : a.sup with
    | none =>
      refine ⟨s, by simp, rfl, rfl, ?_⟩
      intro h; rw [hsup, hs] at h; simp at h
    | some p =>
      have hsp : s.sup = some p := by rw [hsup, hs]
      refine ⟨{ s with terminalEmitted := true }, ?_, rfl, rfl, fun _ => rfl⟩
      simp only [List.nil_append, evs_cons_ev, evs_nil]
      rw [accepts_cons_ok _ _ (next_emit_terminal me s p e hw hterm hsp hpf ht (hc (by simp [hs])))]
      rfl
  | cons m ms =>
    have hfan := next_monFan_terminal me s (m :: ms) e hw hterm hpf.1 ht
    cases hs : a.sup with
    | none =>
      refine ⟨{ s with fanTerminal := some e.strip }, ?_, rfl, rfl, ?_⟩
      · simp only [evs_append, evs_cons_ev, evs_map_monSend, evs_nil, List.append_nil]
        rw [accepts_cons_ok _ _ hfan]
        rfl
      · intro h; rw [hsup, hs] at h; simp at h
    | some p =>
      have hsp : s.sup = some p := by rw [hsup, hs]
      refine ⟨{ s with fanTerminal := some e.strip, terminalEmitted := true }, ?_, rfl, rfl, fun _ => rfl⟩
      simp only [evs_append, evs_cons_ev, evs_map_monSend, evs_nil, List.append_nil, List.nil_append]
      rw [List.cons_append, List.nil_append, accepts_cons_ok _ _ hfan]
      rw [accepts_cons_ok _ _ (next_emit_terminal_fan me { s with fanTerminal := some e.strip } p e hw hterm hsp hpf ht.1 rfl
        (by rw [classify_fan]; exact hc (by simp [hs])))]
      rfl

/-- `notify_supervisor_and_monitors(ActorStarted)` right after `post_start` returned ok. -/
theorem notify_started (b : Actor) (s0 : St) (hid : b.id = me) (hsup : s0.sup = b.sup)
    (hpf : s0.preFailed = false) (ht : s0.terminalEmitted = false ∧ s0.fanTerminal = none)
    (hst : s0.startable = true) (hse : s0.startedEmitted = false) :
    ∃ s', accepts (next me) s0 (evs (notifyOuts b (.started b.id))) = .ok s' ∧
      ((b.sup = none ∧ s' = s0) ∨
       (∃ p, b.sup = some p ∧ s' = { s0 with startedEmitted := true, startable := false, mustStart := false })) := by
  rw [hid]
  unfold notifyOuts
  cases hm : b.mons with
  | nil =>
    cases hs : b.sup with
    | none => exact ⟨s0, by simp, Or.inl ⟨rfl, rfl⟩⟩
    | some p =>
      refine ⟨_, ?_, Or.inr ⟨p, rfl, rfl⟩⟩
      simp only [List.nil_append, evs_cons_ev, evs_nil]
      rw [accepts_cons_ok _ _ (next_emit_started me s0 p (by rw [hsup, hs]) hpf ht hse hst)]
      rfl
  | cons m ms =>
    have hfan := next_monFan_started me s0 (m :: ms) hpf ht hst
    cases hs : b.sup with
    | none =>
      refine ⟨s0, ?_, Or.inl ⟨rfl, rfl⟩⟩
      simp only [evs_append, evs_cons_ev, evs_map_monSend, evs_nil, List.append_nil]
      rw [accepts_cons_ok _ _ hfan]
      rfl
    | some p =>
      refine ⟨_, ?_, Or.inr ⟨p, rfl, rfl⟩⟩
      simp only [evs_append, evs_cons_ev, evs_map_monSend, evs_nil, List.append_nil, List.nil_append]
      rw [List.cons_append, List.nil_append, accepts_cons_ok _ _ hfan]
      rw [accepts_cons_ok _ _ (next_emit_started me s0 p (by rw [hsup, hs]) hpf ht hse hst)]
      rfl

theorem cleanup_some (a : Actor) (e : SupEv) (s : St) (hid : a.id = me) (hsup : s.sup = a.sup)
    (harmed : a.armed = true) (hpf : s.preFailed = false ∧ s.mustStart = false) (ht : s.terminalEmitted = false ∧ s.fanTerminal = none)
    (hw : e.who = me) (hterm : e.isTerminal = true)
    (hc : a.sup.isSome = true → classify s e = .ok ()) :
    ∃ s', accepts (next me) s (evs (cleanup a (some e)).2) = .ok s' ∧ s'.sup = s.sup ∧
      s'.aborted = s.aborted ∧ (s.sup.isSome = true → s'.terminalEmitted = true) ∧
      (cleanup a (some e)).1.id = me ∧ (cleanup a (some e)).1.phase = a.phase := by
  obtain ⟨s', hacc, h1, h2, h3⟩ := notify_terminal me ({ (a.setStatus .stopping) with kids := none } : Actor) e s
    (by simpa [Actor.setStatus] using hsup) hpf ht hw hterm (by simpa [Actor.setStatus] using hc)
  unfold cleanup
  simp only [harmed, Bool.not_true, Bool.false_eq_true, ↓reduceIte]
  refine ⟨s', ?_, h1, h2, h3, by simp [Actor.setStatus, hid], by simp [Actor.setStatus]⟩
  simp only [evs_append, evs_cons_eff, evs_nil, List.nil_append]
  rw [accepts_append _ _ hacc]
  cases hs : a.sup <;> simp [Actor.setStatus, hs]

theorem finish_sim (a : Actor) (e : SupEv) (s : St) (hid : a.id = me) (hsup : s.sup = a.sup)
    (harmed : a.armed = true) (hpf : s.preFailed = false ∧ s.mustStart = false) (ht : s.terminalEmitted = false ∧ s.fanTerminal = none)
    (hw : e.who = me) (hterm : e.isTerminal = true)
    (hc : a.sup.isSome = true → classify s e = .ok ()) :
    Sim (next me) (Post me s.sup) s (finish a e) := by
  obtain ⟨s1, hacc, h1, _, h3, h4, _⟩ := cleanup_some me a e s hid hsup harmed hpf ht hw hterm hc
  refine ⟨s1, ?_, ?_, h1, Or.inl (by simp [finish, Actor.dropPorts])⟩
  · simp only [finish, andThen_snd, evs_append, evs_cons_ev, evs_nil]
    rw [accepts_append _ _ hacc]
    rw [accepts_cons_ok _ _ (next_join_ok me s1 (by rw [h1]; exact h3))]
    rfl
  · simpa [finish, Actor.dropPorts] using h4

theorem failSpawn_sim (a : Actor) (r : SpawnRet) (s : St) (hid : a.id = me) (hr : SpawnRet.isFail r = true) :
    Sim (next me) (Post me s.sup) s (failSpawn a r) := by
  obtain ⟨h1, h2, _⟩ := cleanup_none a
  refine ⟨failUpd r s, ?_, ?_, failUpd_sup r s, Or.inl (by simp [failSpawn, Actor.dropPorts])⟩
  · simp only [failSpawn, andThen_snd, evs_append, h1, evs_cons_ev, evs_nil, List.nil_append]
    rw [accepts_cons_ok _ _ (next_spawnRet_err me s r hr)]
    rfl
  · simp [failSpawn, Actor.dropPorts, h2, hid]

theorem classify_killed_noState (s : St) (c : Nat) (hk : s.killed = true) :
    classify s (.terminated c false .killed) = .ok () := by
  simp [classify, hk]

theorem killedOutsideLoop_sim (a : Actor) (s : St) (hid : a.id = me) (hsup : s.sup = a.sup)
    (harmed : a.armed = true) (hpf : s.preFailed = false ∧ s.mustStart = false) (ht : s.terminalEmitted = false ∧ s.fanTerminal = none)
    (hk : a.sup.isSome = true → s.killed = true) :
    Sim (next me) (Post me s.sup) s (killedOutsideLoop a) := by
  unfold killedOutsideLoop
  refine Sim.andThen _ (R1 := fun a1 s1 => s1 = s ∧ a1 = { a with kids := none }) ⟨s, by simp [handleSignal], rfl, rfl⟩ ?_
  rintro a1 s1 ⟨rfl, rfl⟩
  exact finish_sim me _ _ _ hid hsup harmed hpf ht (by simp [SupEv.who, hid]) rfl
    (fun h => classify_killed_noState s1 _ (hk h))

theorem killedInLoop_sim (a : Actor) (s : St) (hid : a.id = me) (hsup : s.sup = a.sup)
    (harmed : a.armed = true) (hpf : s.preFailed = false ∧ s.mustStart = false) (ht : s.terminalEmitted = false ∧ s.fanTerminal = none)
    (hk : a.sup.isSome = true → s.killed = true) :
    Sim (next me) (Post me s.sup) s (killedInLoop a) := by
  unfold killedInLoop
  refine Sim.andThen _ (R1 := fun a1 s1 => s1 = s ∧ a1 = { a with kids := none }) ⟨s, by simp [handleSignal], rfl, rfl⟩ ?_
  rintro a1 s1 ⟨rfl, rfl⟩
  exact finish_sim me _ _ _ (by simp [Actor.setStatus, hid]) (by simp [Actor.setStatus, hsup])
    (by simp [Actor.setStatus, harmed]) hpf ht (by simp [SupEv.who, hid]) rfl
    (fun h => classify_killed_noState s1 _ (hk (by simpa [Actor.setStatus] using h)))


/-! ### the message loop -/

theorem Base.notStartable {a : Actor} {s : St} (h : Base a s) : Base a { s with startable := false } :=
  ⟨h.preFailed, h.terminal, h.stopVal, h.drain, h.stopTx, h.kill, h.localEq⟩

theorem tookOf_isSome (s : St) : (tookOf s).isSome = true := by
  unfold tookOf; split <;> rfl

theorem postStop_of_none {ph : Phase} {s : St} (h1 : ∀ r, ph ≠ .postStop r) (h2 : s.took = none) :
    (∀ r, ph = .postStop r → s.took = some r ∧ (r.isUser = true ∨ r = .drained)) ∧
    (s.took.isSome = true → ∃ r, ph = .postStop r) :=
  ⟨fun r hr => absurd hr (h1 r), fun h => by rw [h2] at h; cases h⟩

theorem Core.tookNone {a : Actor} {s : St} (hc : Core a s) (h : ∀ r, a.phase ≠ .postStop r) : s.took = none := by
  cases ht : s.took with
  | none => rfl
  | some x =>
    obtain ⟨r, hr⟩ := hc.postStop.2 (by simp [ht])
    exact absurd hr (h r)

/-- The loop leaves through `ActorLoopResult::stop(r)`: `post_stop` is entered; `r` is the request the
automaton says the loop took. The stop port of `a` is empty (the stop was just taken out, or the
drain marker was reached with no stop pending). -/
theorem enterPostStop_sim (a : Actor) (r : Reason) (s : St) (hid : a.id = me)
    (hpf : s.preFailed = false ∧ s.mustStart = false) (ht : s.terminalEmitted = false ∧ s.fanTerminal = none)
    (hsv : a.stopVal = none) (hdr : Item.drain ∈ a.msgQ → s.drainReq = true)
    (hstx : s.stopReason.isSome = true → a.stopTx = false) (hk : a.sigVal = true → s.killed = true)
    (hloc : s.isLocal = a.isLocal)
    (harmed : a.armed = true) (hn : a.notifyOnCancel = true) (htook : tookOf s = some r)
    (hru : r.isUser = true ∨ r = .drained) :
    Sim (next me) (Post me s.sup) s (enterPostStop a r) := by
  refine ⟨{ s with startable := false, took := tookOf s }, ?_, ?_, rfl, Or.inr ?_⟩
  · simp [enterPostStop, accepts_cons, next_enter me s .postStop .none hpf.2]
  · simp [enterPostStop, Actor.setStatus, hid]
  · exact { preFailed := hpf, terminal := ht,
            localEq := (by simpa [enterPostStop, Actor.setStatus] using hloc),
            freshSig := (by intro hfr; simp [enterPostStop] at hfr),
            stopVal := ⟨by intro r' hr'; simp [enterPostStop, Actor.setStatus, hsv] at hr',
                        fun _ => Or.inr (tookOf_isSome s)⟩,
            drain := by simpa [enterPostStop, Actor.setStatus] using hdr,
            stopTx := by simpa [enterPostStop, Actor.setStatus] using hstx,
            kill := by simpa [enterPostStop, Actor.setStatus] using hk,
            armed := by intro _; simpa [enterPostStop, Actor.setStatus] using harmed,
            notify := by intro _; simpa [enterPostStop, Actor.setStatus] using hn,
            started := by intro _; simp [enterPostStop, pastPostStart],
            postStop := ⟨by
              intro r' hr'
              have : r' = r := by simpa [enterPostStop] using hr'.symm
              subst this; exact ⟨htook, hru⟩,
              fun _ => ⟨r, by simp [enterPostStop]⟩⟩ }

theorem listen_sim (a : Actor) (s : St) (hid : a.id = me) (hsup : s.sup = a.sup) (hb : Base a s)
    (harmed : a.armed = true) (hn : a.notifyOnCancel = true) (htk : s.took = none) :
    Sim (next me) (Post me s.sup) s (listen a) := by
  have hms := hb.preFailed.2
  -- a live loop phase: nothing of the automaton's `took` yet
  have hps : ∀ (ph : Phase) (s' : St), s'.took = s.took → (∀ r, ph ≠ .postStop r) →
      (∀ r, ph = .postStop r → s'.took = some r ∧ (r.isUser = true ∨ r = .drained)) ∧
      (s'.took.isSome = true → ∃ r, ph = .postStop r) := by
    intro ph s' h1 h2
    refine ⟨fun r hr => absurd hr (h2 r), ?_⟩
    intro h; rw [h1, htk] at h; cases h
  unfold listen
  split
  · rename_i hsig
    refine killedInLoop_sim me _ s hid hsup harmed hb.preFailed hb.terminal ?_
    intro _
    exact hb.kill hsig
  · rename_i hsig
    simp only []
    split
    · rename_i r hr
      have hr' : a.stopVal = some r := hr
      have hsr := (hb.stopVal.1 r hr').2
      exact enterPostStop_sim me _ r s hid hb.preFailed hb.terminal rfl (by simpa using hb.drain)
        (by simpa using hb.stopTx) (by simpa using hb.kill) (by simpa using hb.localEq) harmed hn
        (by simp [tookOf, hsr]) (Or.inl (hb.stopVal.1 r hr').1)
    · rename_i hstop
      have hstop' : a.stopVal = none := hstop
      have hnoStop : s.stopReason = none := by
        cases hsr : s.stopReason with
        | none => rfl
        | some x =>
          rcases hb.stopVal.2 (by simp [hsr]) with h | h
          · rw [hstop'] at h; cases h
          · rw [htk] at h; cases h
      split
      · rename_i e q hq
        refine ⟨{ s with startable := false }, by simp [accepts_cons, next_enter' me s .sup _ hms], hid, rfl, Or.inr ?_⟩
        exact { preFailed := hb.preFailed, terminal := hb.terminal, localEq := (by simpa using hb.localEq), freshSig := (by intro hfr; simp at hfr),
                stopVal := by simpa using hb.stopVal, drain := by simpa using hb.drain,
                stopTx := by simpa using hb.stopTx, kill := by simpa using hb.kill,
                armed := by intro _; simpa using harmed, notify := by intro _; simpa using hn,
                started := by intro _; rfl, postStop := hps _ _ rfl (by simp) }
      · split
        · rename_i m q hm
          have hm' : a.msgQ = .msg m :: q := hm
          refine ⟨{ s with startable := false }, by simp [accepts_cons, next_enter' me s .handle _ hms], hid, rfl, Or.inr ?_⟩
          exact { preFailed := hb.preFailed, terminal := hb.terminal, localEq := (by simpa using hb.localEq), freshSig := (by intro hfr; simp at hfr),
                  stopVal := by simpa using hb.stopVal,
                  drain := by intro h; apply hb.drain; rw [hm']; exact List.mem_cons_of_mem _ (by simpa using h),
                  stopTx := by simpa using hb.stopTx, kill := by simpa using hb.kill,
                  armed := by intro _; simpa using harmed, notify := by intro _; simpa using hn,
                  started := by intro _; rfl, postStop := hps _ _ rfl (by simp) }
        · rename_i k q hm
          have hm' : a.msgQ = .call k :: q := hm
          refine ⟨{ s with startable := false }, by simp [accepts_cons, next_enter' me s .handle _ hms], hid, rfl, Or.inr ?_⟩
          exact { preFailed := hb.preFailed, terminal := hb.terminal, localEq := (by simpa using hb.localEq), freshSig := (by intro hfr; simp at hfr),
                  stopVal := by simpa using hb.stopVal,
                  drain := by intro h; apply hb.drain; rw [hm']; exact List.mem_cons_of_mem _ (by simpa using h),
                  stopTx := by simpa using hb.stopTx, kill := by simpa using hb.kill,
                  armed := by intro _; simpa using harmed, notify := by intro _; simpa using hn,
                  started := by intro _; rfl, postStop := hps _ _ rfl (by simp) }
        · rename_i q hm
          have hm' : a.msgQ = .drain :: q := hm
          exact enterPostStop_sim me _ .drained s hid hb.preFailed hb.terminal (by simpa using hstop')
            (by intro h; apply hb.drain; rw [hm']; exact List.mem_cons_of_mem _ (by simpa using h))
            (by simpa using hb.stopTx) (by simpa using hb.kill) (by simpa using hb.localEq) harmed hn
            (by simp [tookOf, hnoStop]) (Or.inr rfl)
        · refine ⟨s, by simp, hid, rfl, Or.inr ?_⟩
          exact { preFailed := hb.preFailed, terminal := hb.terminal, localEq := (by simpa using hb.localEq), freshSig := (by intro hfr; simp at hfr),
                  stopVal := by simpa using hb.stopVal, drain := by simpa using hb.drain,
                  stopTx := by simpa using hb.stopTx, kill := by simpa using hb.kill,
                  armed := by intro _; simpa using harmed, notify := by intro _; simpa using hn,
                  started := by intro _; rfl, postStop := hps _ _ rfl (by simp) }


/-! ### API calls (harness ops and the self side effects of a segment) -/

/-- a pending kill was announced to the automaton (holds inside a poll that found the signal port empty) -/
def KillStrong (a : Actor) (s : St) : Prop := a.sigVal = true → s.killed = true

/-- Frame of an API call: identity, phase, guard flags and supervisor do not move. -/
structure Frame (a0 a : Actor) : Prop where
  id : a.id = a0.id
  phase : a.phase = a0.phase
  sup : a.sup = a0.sup
  armed : a.armed = a0.armed
  notify : a.notifyOnCancel = a0.notifyOnCancel
  isLocal : a.isLocal = a0.isLocal

theorem Frame.refl (a : Actor) : Frame a a := ⟨rfl, rfl, rfl, rfl, rfl, rfl⟩
theorem Frame.trans {a b c : Actor} (h1 : Frame a b) (h2 : Frame b c) : Frame a c :=
  ⟨h2.id.trans h1.id, h2.phase.trans h1.phase, h2.sup.trans h1.sup, h2.armed.trans h1.armed,
   h2.notify.trans h1.notify, h2.isLocal.trans h1.isLocal⟩

theorem apiSend_frame (a : Actor) (m : Nat) : Frame a (apiSend a m).1 := by
  unfold apiSend; (repeat' split) <;> exact ⟨rfl, rfl, rfl, rfl, rfl, rfl⟩
theorem apiStop_frame (a : Actor) (r : Reason) : Frame a (apiStop a r).1 := by
  unfold apiStop; (repeat' split) <;> exact ⟨rfl, rfl, rfl, rfl, rfl, rfl⟩
theorem apiKill_frame (a : Actor) : Frame a (apiKill a).1 := by
  unfold apiKill; (repeat' split) <;> exact ⟨rfl, rfl, rfl, rfl, rfl, rfl⟩
theorem apiDrain_frame (a : Actor) : Frame a (apiDrain a).1 := by
  unfold apiDrain; simp only []; (repeat' split) <;> exact ⟨rfl, rfl, rfl, rfl, rfl, rfl⟩

theorem Core.ofFrame {a0 a : Actor} {s0 s : St} (hf : Frame a0 a) (hc : Core a0 s0) (hb : Base a s)
    (hfs : a0.phase = .fresh → a.sigVal = false)
    (hse : s.startedEmitted = s0.startedEmitted)
    (hps : (∀ r, a0.phase = .postStop r → s.took = some r ∧ (r.isUser = true ∨ r = .drained)) ∧
      (s.took.isSome = true → ∃ r, a0.phase = .postStop r)) : Core a s :=
  { hb with
    armed := by rw [hf.phase, hf.armed]; exact hc.armed
    notify := by rw [hf.phase, hf.notify]; exact hc.notify
    started := by rw [hf.phase, hse]; exact hc.started
    postStop := by rw [hf.phase]; exact hps
    freshSig := by rw [hf.phase]; exact hfs }

theorem apiSend_fields (a : Actor) (m : Nat) :
    (apiSend a m).1.stopVal = a.stopVal ∧ (apiSend a m).1.stopTx = a.stopTx ∧
    (apiSend a m).1.sigVal = a.sigVal ∧
    ((apiSend a m).1.msgQ = a.msgQ ∨ (apiSend a m).1.msgQ = a.msgQ ++ [.msg m]) := by
  unfold apiSend; (repeat' split) <;> simp

theorem send_core {a : Actor} {s : St} (m : Nat) (hc : Core a s) : Core (apiSend a m).1 s := by
  obtain ⟨h1, h2, h3, h4⟩ := apiSend_fields a m
  have hf := apiSend_frame a m
  refine Core.ofFrame hf hc ⟨hc.preFailed, hc.terminal, by rw [h1]; exact hc.stopVal, ?_, by rw [h2]; exact hc.stopTx,
    by rw [h3]; exact hc.kill, by rw [hf.isLocal]; simpa using hc.localEq⟩
    (by rw [h3]; exact hc.freshSig) rfl hc.postStop
  intro hd
  apply hc.drain
  rcases h4 with h4 | h4 <;> rw [h4] at hd
  · exact hd
  · simpa using hd

theorem send_killStrong {a : Actor} {s : St} (m : Nat) (h : KillStrong a s) : KillStrong (apiSend a m).1 s := by
  unfold KillStrong; rw [(apiSend_fields a m).2.2.1]; exact h

theorem apiStop_fields (a : Actor) (r : Reason) :
    (apiStop a r).1.msgQ = a.msgQ ∧ (apiStop a r).1.sigVal = a.sigVal ∧
    ((apiStop a r).2 = true → a.stopTx = true ∧ (apiStop a r).1.stopVal = some r ∧ (apiStop a r).1.stopTx = false) ∧
    ((apiStop a r).2 = false → (apiStop a r).1.stopVal = a.stopVal ∧ ((apiStop a r).1.stopTx = a.stopTx ∨ (apiStop a r).1.stopTx = false)) := by
  unfold apiStop; (repeat' split) <;> simp_all

theorem stop_core {a : Actor} {s : St} (r : Reason) (hu : r.isUser = true) (hc : Core a s) :
    Core (apiStop a r).1 (if (apiStop a r).2 then { s with stopReason := some r } else s) := by
  obtain ⟨h1, h2, h3, h4⟩ := apiStop_fields a r
  have hf := apiStop_frame a r
  cases hr : (apiStop a r).2 with
  | true =>
    obtain ⟨htx, hv, htx'⟩ := h3 hr
    have hnone : s.stopReason = none := by
      cases hsr : s.stopReason with
      | none => rfl
      | some x => have := hc.stopTx (by simp [hsr]); simp [this] at htx
    simp only [↓reduceIte]
    refine Core.ofFrame hf hc ⟨hc.preFailed, hc.terminal, ?_, by rw [h1]; exact hc.drain, fun _ => htx',
      by rw [h2]; exact hc.kill, by rw [hf.isLocal]; simpa using hc.localEq⟩
      (by rw [h2]; exact hc.freshSig) rfl hc.postStop
    exact ⟨by intro r' hr'; rw [hv] at hr'; cases hr'; exact ⟨hu, rfl⟩, fun _ => Or.inl (by rw [hv]; rfl)⟩
  | false =>
    obtain ⟨hv, htx⟩ := h4 hr
    simp only [Bool.false_eq_true, ↓reduceIte]
    refine Core.ofFrame hf hc ⟨hc.preFailed, hc.terminal, by rw [hv]; exact hc.stopVal, by rw [h1]; exact hc.drain, ?_,
      by rw [h2]; exact hc.kill, by rw [hf.isLocal]; simpa using hc.localEq⟩
      (by rw [h2]; exact hc.freshSig) rfl hc.postStop
    intro h
    rcases htx with htx | htx
    · rw [htx]; exact hc.stopTx h
    · exact htx

theorem stop_killStrong {a : Actor} {s : St} (r : Reason) (h : KillStrong a s) :
    KillStrong (apiStop a r).1 (if (apiStop a r).2 then { s with stopReason := some r } else s) := by
  unfold KillStrong; rw [(apiStop_fields a r).2.1]; split <;> exact h

theorem apiKill_fields (a : Actor) :
    (apiKill a).1.msgQ = a.msgQ ∧ (apiKill a).1.stopVal = a.stopVal ∧ (apiKill a).1.stopTx = a.stopTx ∧
    ((apiKill a).2 = false → (apiKill a).1.sigVal = a.sigVal) := by
  unfold apiKill; (repeat' split) <;> simp_all

theorem apiKill_fresh (a : Actor) (h : a.phase = .fresh) : (apiKill a).1.sigVal = a.sigVal := by
  unfold apiKill; (repeat' split) <;> simp_all [Actor.portsOpen]

theorem kill_core {a : Actor} {s : St} (hc : Core a s) :
    Core (apiKill a).1 (if (apiKill a).2 then { s with killed := true } else s) := by
  obtain ⟨h1, h2, h3, h4⟩ := apiKill_fields a
  have hf := apiKill_frame a
  cases hr : (apiKill a).2 with
  | true =>
    simp only [↓reduceIte]
    exact Core.ofFrame hf hc ⟨hc.preFailed, hc.terminal, by rw [h2]; exact hc.stopVal, by rw [h1]; exact hc.drain,
      by rw [h3]; exact hc.stopTx, fun _ => rfl, by rw [hf.isLocal]; simpa using hc.localEq⟩
      (fun hfr => by rw [apiKill_fresh a hfr]; exact hc.freshSig hfr) rfl hc.postStop
  | false =>
    simp only [Bool.false_eq_true, ↓reduceIte]
    exact Core.ofFrame hf hc ⟨hc.preFailed, hc.terminal, by rw [h2]; exact hc.stopVal, by rw [h1]; exact hc.drain,
      by rw [h3]; exact hc.stopTx, by rw [h4 hr]; exact hc.kill, by rw [hf.isLocal]; simpa using hc.localEq⟩
      (fun hfr => by rw [apiKill_fresh a hfr]; exact hc.freshSig hfr) rfl hc.postStop

theorem kill_killStrong {a : Actor} {s : St} (h : KillStrong a s) :
    KillStrong (apiKill a).1 (if (apiKill a).2 then { s with killed := true } else s) := by
  unfold KillStrong
  cases hr : (apiKill a).2 with
  | true => intro _; rfl
  | false => simp only [Bool.false_eq_true, ↓reduceIte]; rw [(apiKill_fields a).2.2.2 hr]; exact h

theorem apiDrain_fields (a : Actor) :
    (apiDrain a).1.stopVal = a.stopVal ∧ (apiDrain a).1.stopTx = a.stopTx ∧ (apiDrain a).1.sigVal = a.sigVal ∧
    ((apiDrain a).2 = true ∨ (apiDrain a).1.msgQ = a.msgQ) := by
  unfold apiDrain; simp only []; (repeat' split) <;> simp

theorem drain_core {a : Actor} {s : St} (hc : Core a s) :
    Core (apiDrain a).1 (if (apiDrain a).2 then { s with drainReq := true } else s) := by
  obtain ⟨h1, h2, h3, h4⟩ := apiDrain_fields a
  have hf := apiDrain_frame a
  cases hr : (apiDrain a).2 with
  | true =>
    simp only [↓reduceIte]
    refine Core.ofFrame hf hc ⟨hc.preFailed, hc.terminal, by rw [h1]; exact hc.stopVal, fun _ => rfl,
      by rw [h2]; exact hc.stopTx, by rw [h3]; exact hc.kill, by rw [hf.isLocal]; simpa using hc.localEq⟩
      (by rw [h3]; exact hc.freshSig) rfl hc.postStop
  | false =>
    simp only [Bool.false_eq_true, ↓reduceIte]
    rcases h4 with h4 | h4
    · rw [hr] at h4; cases h4
    · exact Core.ofFrame hf hc ⟨hc.preFailed, hc.terminal, by rw [h1]; exact hc.stopVal, by rw [h4]; exact hc.drain,
        by rw [h2]; exact hc.stopTx, by rw [h3]; exact hc.kill, by rw [hf.isLocal]; simpa using hc.localEq⟩
        (by rw [h3]; exact hc.freshSig) rfl hc.postStop

theorem Core.congr {a a' : Actor} {s : St} (h0 : a'.phase = a.phase) (h1 : a'.armed = a.armed)
    (h2 : a'.notifyOnCancel = a.notifyOnCancel) (h3 : a'.stopVal = a.stopVal) (h4 : a'.msgQ = a.msgQ)
    (h5 : a'.stopTx = a.stopTx) (h6 : a'.sigVal = a.sigVal) (h7 : a'.sup = a.sup)
    (h8 : a'.isLocal = a.isLocal) (hc : Core a s) : Core a' s :=
  { preFailed := hc.preFailed, terminal := hc.terminal
    localEq := by rw [h8]; exact hc.localEq
    freshSig := by rw [h0, h6]; exact hc.freshSig
    stopVal := by rw [h3]; exact hc.stopVal
    drain := by rw [h4]; exact hc.drain
    stopTx := by rw [h5]; exact hc.stopTx
    kill := by rw [h6]; exact hc.kill
    armed := by rw [h0, h1]; exact hc.armed
    notify := by rw [h0, h2]; exact hc.notify
    started := by rw [h0]; exact hc.started
    postStop := by rw [h0]; exact hc.postStop }

theorem Core.congr' {a a' : Actor} {s : St} (h0 : a'.phase = a.phase) (h1 : a'.armed = a.armed)
    (h2 : a'.notifyOnCancel = a.notifyOnCancel) (h3 : a'.stopVal = a.stopVal) (h4 : a'.msgQ = a.msgQ)
    (h5 : a'.stopTx = a.stopTx) (h6 : a'.sigVal = a.sigVal)
    (h8 : a'.isLocal = a.isLocal) (hc : Core a s) : Core a' s :=
  { preFailed := hc.preFailed, terminal := hc.terminal
    localEq := by rw [h8]; exact hc.localEq
    freshSig := by rw [h0, h6]; exact hc.freshSig
    stopVal := by rw [h3]; exact hc.stopVal
    drain := by rw [h4]; exact hc.drain
    stopTx := by rw [h5]; exact hc.stopTx
    kill := by rw [h6]; exact hc.kill
    armed := by rw [h0, h1]; exact hc.armed
    notify := by rw [h0, h2]; exact hc.notify
    started := by rw [h0]; exact hc.started
    postStop := by rw [h0]; exact hc.postStop }

/-- Relation after the side effects of a segment. -/
def FxRel (a0 : Actor) (s0 : St) (a : Actor) (s : St) : Prop :=
  Frame a0 a ∧ s.sup = s0.sup ∧ Core a s ∧ (KillStrong a0 s0 → KillStrong a s)

theorem Reason.ofUser_isUser (r : Option String) : (Reason.ofUser r).isUser = true := by
  cases r <;> rfl

theorem runFx_sim (a : Actor) (s : St) (f : Fx) (hc : Core a s) :
    Sim (next me) (FxRel a s) s (runFx a f) := by
  cases f with
  | sendSelf m =>
    exact ⟨s, by simp [runFx, accepts_cons], apiSend_frame a m, rfl, send_core m hc, send_killStrong m⟩
  | stopSelf r =>
    refine ⟨_, by simp [runFx, accepts_cons], apiStop_frame a _, ?_, stop_core _ (Reason.ofUser_isUser r) hc, stop_killStrong _⟩
    split <;> rfl
  | killSelf =>
    refine ⟨_, by simp [runFx, accepts_cons], apiKill_frame a, ?_, kill_core hc, kill_killStrong⟩
    split <;> rfl
  | joinGroup g =>
    refine ⟨s, by simp [runFx, accepts_cons], ?_⟩
    simp only [runFx]
    split
    · exact ⟨⟨rfl, rfl, rfl, rfl, rfl, rfl⟩, rfl,
        hc.congr (by rfl) (by rfl) (by rfl) (by rfl) (by rfl) (by rfl) (by rfl) (by rfl) (by rfl), id⟩
    · exact ⟨Frame.refl a, rfl, hc, id⟩
  | reply k v =>
    simp only [runFx]
    split
    · exact ⟨s, by simp [accepts_cons], ⟨rfl, rfl, rfl, rfl, rfl, rfl⟩, rfl,
        hc.congr (by rfl) (by rfl) (by rfl) (by rfl) (by rfl) (by rfl) (by rfl) (by rfl) (by rfl), id⟩
    · exact ⟨s, by simp [accepts_cons], Frame.refl a, rfl, hc, id⟩
  | forget k =>
    simp only [runFx]
    split
    · exact ⟨s, by simp [accepts_cons], ⟨rfl, rfl, rfl, rfl, rfl, rfl⟩, rfl,
        hc.congr (by rfl) (by rfl) (by rfl) (by rfl) (by rfl) (by rfl) (by rfl) (by rfl) (by rfl), id⟩
    · exact ⟨s, by simp [accepts_cons], Frame.refl a, rfl, hc, id⟩
  | spawnChild c => exact ⟨s, by simp [runFx, accepts_cons, next], Frame.refl a, rfl, hc, id⟩

theorem runFxs_sim (fs : List Fx) (a : Actor) (s : St) (hc : Core a s) :
    Sim (next me) (FxRel a s) s (runFxs a fs) := by
  induction fs generalizing a s with
  | nil => exact ⟨s, rfl, Frame.refl a, rfl, hc, id⟩
  | cons f fs ih =>
    unfold runFxs
    refine Sim.andThen _ (runFx_sim me a s f hc) ?_
    intro a1 s1 ⟨hf, hs, hc1, hk1⟩
    refine Sim.mono _ (ih a1 s1 hc1) ?_
    intro a2 s2 ⟨hf2, hs2, hc2, hk2⟩
    exact ⟨hf.trans hf2, hs2.trans hs, hc2, fun h => hk2 (hk1 h)⟩


/-! ### a segment inside an open callback -/

theorem runSeg_sim (a : Actor) (s : St) (cb : Cb) (sg : Seg) (k : Actor → Res → M)
    (hid : a.id = me) (hc : Core a s) (hsig : a.sigVal = false)
    (hk : ∀ a1 s2 r, Frame a a1 → s2.sup = s.sup → Core a1 s2 → KillStrong a1 s2 →
        Sim (next me) (Post me s.sup) (exitUpd cb r s2) (k a1 r)) :
    Sim (next me) (Post me s.sup) s (runSeg a cb sg k) := by
  unfold runSeg
  refine Sim.andThen _ (R1 := fun a1 s1 => a1 = a ∧ s1 = s) ⟨s, by simp [say, accepts_cons], rfl, rfl⟩ ?_
  rintro a1 s1 ⟨rfl, rfl⟩
  refine Sim.andThen _ (runFxs_sim me sg.fx a1 s1 hc) ?_
  intro a2 s2 ⟨hf, hs2, hc2, hk2⟩
  have hks : KillStrong a2 s2 := hk2 (by intro h; rw [hsig] at h; cases h)
  cases ht : sg.term with
  | tick =>
    exact ⟨s2, rfl, by simpa [hf.id] using hid, hs2, Or.inr (hc2.congr (by rfl) (by rfl) (by rfl) (by rfl) (by rfl) (by rfl) (by rfl) (by rfl) (by rfl))⟩
  | ok =>
    simp only []
    refine Sim.andThen _ (R1 := fun a3 s3 => a3 = a2 ∧ s3 = exitUpd cb .ok s2) ⟨_, by simp [say, accepts_cons, Term.res], rfl, rfl⟩ ?_
    rintro a3 s3 ⟨rfl, rfl⟩
    exact hk a3 s2 .ok hf hs2 hc2 hks
  | err n =>
    simp only []
    refine Sim.andThen _ (R1 := fun a3 s3 => a3 = a2 ∧ s3 = exitUpd cb (.err n) s2) ⟨_, by simp [say, accepts_cons, Term.res], rfl, rfl⟩ ?_
    rintro a3 s3 ⟨rfl, rfl⟩
    exact hk a3 s2 (.err n) hf hs2 hc2 hks
  | panic n =>
    simp only []
    refine Sim.andThen _ (R1 := fun a3 s3 => a3 = a2 ∧ s3 = exitUpd cb (.panic n) s2) ⟨_, by simp [say, accepts_cons, Term.res], rfl, rfl⟩ ?_
    rintro a3 s3 ⟨rfl, rfl⟩
    exact hk a3 s2 (.panic n) hf hs2 hc2 hks

theorem classify_failed (s : St) (c : Nat) (p : Bool) (n : Nat) (h : s.fail = some (p, n)) :
    classify s (.failed c p n) = .ok () := by
  simp [classify, h]

theorem classify_graceful (s : St) (c : Nat) (r : Reason) (hps : s.postStopOk = true)
    (hr : r.isUser = true ∨ r = .drained) (htk : s.took = some r) :
    classify s (.terminated c (!s.isLocal) r) = .ok () := by
  rcases hr with hu | hd
  · cases r <;> simp [Reason.isUser] at hu <;> cases hl : s.isLocal <;> simp [classify, hps, htk, hl]
  · subst hd; cases hl : s.isLocal <;> simp [classify, hps, htk, hl]

theorem classify_cancelled (s : St) (c : Nat) (h : s.aborted = true) :
    classify s (.terminated c false .cancelled) = .ok () := by
  simp [classify, h]

theorem Base.congr {a a' : Actor} {s : St} (h3 : a'.stopVal = a.stopVal) (h4 : a'.msgQ = a.msgQ)
    (h5 : a'.stopTx = a.stopTx) (h6 : a'.sigVal = a.sigVal) (h7 : a'.sup = a.sup)
    (h8 : a'.isLocal = a.isLocal) (hb : Base a s) : Base a' s :=
  ⟨hb.preFailed, hb.terminal, by rw [h3]; exact hb.stopVal, by rw [h4]; exact hb.drain,
   by rw [h5]; exact hb.stopTx, by rw [h6]; exact hb.kill, by rw [h8]; exact hb.localEq⟩

theorem exitUpd_sup (cb : Cb) (r : Res) (s : St) : (exitUpd cb r s).sup = s.sup := by
  cases cb <;> cases r <;> rfl

theorem exitUpd_terminal (cb : Cb) (r : Res) (s : St) : (exitUpd cb r s).terminalEmitted = s.terminalEmitted := by
  cases cb <;> cases r <;> rfl

theorem exitUpd_preFailed (cb : Cb) (r : Res) (s : St) (h : cb ≠ .preStart) :
    (exitUpd cb r s).preFailed = s.preFailed := by
  cases cb <;> cases r <;> first | rfl | exact absurd rfl h

theorem exitUpd_mustStart (cb : Cb) (r : Res) (s : St) (h : cb = .postStart → r = .ok → s.sup = none)
    (hm : s.mustStart = false) : (exitUpd cb r s).mustStart = false := by
  cases cb <;> cases r <;> first | exact hm | (simp [exitUpd, h rfl rfl])

theorem exitUpd_took (cb : Cb) (r : Res) (s : St) : (exitUpd cb r s).took = s.took := by
  cases cb <;> cases r <;> rfl

theorem exitUpd_fan (cb : Cb) (r : Res) (s : St) : (exitUpd cb r s).fanTerminal = s.fanTerminal := by
  cases cb <;> cases r <;> rfl

theorem exitUpd_base {a : Actor} {s : St} (cb : Cb) (r : Res) (h : cb ≠ .preStart)
    (h2 : cb = .postStart → r = .ok → s.sup = none) (hb : Base a s) :
    Base a (exitUpd cb r s) := by
  refine ⟨⟨by rw [exitUpd_preFailed cb r s h]; exact hb.preFailed.1, exitUpd_mustStart cb r s h2 hb.preFailed.2⟩,
    by rw [exitUpd_terminal, exitUpd_fan]; exact hb.terminal, ?_, ?_, ?_, ?_, ?_⟩
  · cases cb <;> cases r <;> exact hb.stopVal
  · cases cb <;> cases r <;> exact hb.drain
  · cases cb <;> cases r <;> exact hb.stopTx
  · cases cb <;> cases r <;> exact hb.kill
  · cases cb <;> cases r <;> exact hb.localEq

theorem exitUpd_fail (cb : Cb) (r : Res) (s : St) (h : cb ≠ .preStart) (hr : r ≠ .ok) (a : Actor) :
    classify (exitUpd cb r s) (failedEv a r) = .ok () := by
  cases r with
  | ok => exact absurd rfl hr
  | err n => cases cb <;> first | exact absurd rfl h | exact classify_failed _ _ _ _ rfl
  | panic n => cases cb <;> first | exact absurd rfl h | exact classify_failed _ _ _ _ rfl

/-- The callback failed: `ActorFailed` with the error / panic text. -/
theorem failed_sim (a a' : Actor) (s2 : St) (cb : Cb) (r : Res) (hid : a.id = me) (hsup : s2.sup = a.sup)
    (hb : Base a s2) (harmed : a.armed = true) (hcb : cb ≠ .preStart) (hr : r ≠ .ok)
    (h1 : a'.id = a.id) (h2 : a'.sup = a.sup) (h3 : a'.armed = a.armed) :
    Sim (next me) (Post me s2.sup) (exitUpd cb r s2) (finish a' (failedEv a r)) := by
  have := finish_sim me a' (failedEv a r) (exitUpd cb r s2) (by rw [h1]; exact hid)
    (by rw [exitUpd_sup, h2]; exact hsup) (by rw [h3]; exact harmed)
    ⟨by rw [exitUpd_preFailed cb r s2 hcb]; exact hb.preFailed.1,
     exitUpd_mustStart cb r s2 (fun _ h => absurd h hr) hb.preFailed.2⟩ (by rw [exitUpd_terminal, exitUpd_fan]; exact hb.terminal)
    (by cases r <;> simp [failedEv, SupEv.who, hid]) (by cases r <;> rfl)
    (fun _ => exitUpd_fail cb r s2 hcb hr a)
  rwa [exitUpd_sup] at this

/-- After the open callback of a task phase returned. `s2` is the automaton state before the
`exit` event. -/
theorem afterExit_sim (a : Actor) (s2 : St) (cb : Cb) (r : Res) (hid : a.id = me) (hsup : s2.sup = a.sup)
    (hc : Core a s2) (hcb : a.phase.openCb = some cb) (htask : a.phase.isTask = true) :
    Sim (next me) (Post me s2.sup) (exitUpd cb r s2) (afterExit a r) := by
  subst hid
  have harmed : a.armed = true := hc.armed (by intro h; simp [h, Phase.isTask] at htask)
  have hn : a.notifyOnCancel = true := hc.notify htask
  have hlisten : cb ≠ .preStart → cb ≠ .postStart → (∀ x, a.phase ≠ .postStop x) →
      Sim (next a.id) (Post a.id s2.sup) (exitUpd cb r s2) (listen a) := by
    intro h h' hnp
    have := listen_sim a.id a (exitUpd cb r s2) rfl (by rw [exitUpd_sup]; exact hsup)
      (exitUpd_base cb r h (fun hx => absurd hx h') hc.toBase) harmed hn
      (by rw [exitUpd_took]; exact hc.tookNone hnp)
    rwa [exitUpd_sup] at this
  cases hph : a.phase with
  | fresh => simp [hph, Phase.isTask] at htask
  | cell => simp [hph, Phase.isTask] at htask
  | pre => simp [hph, Phase.isTask] at htask
  | done => simp [hph, Phase.isTask] at htask
  | ready => simp [hph, Phase.openCb] at hcb
  | idle => simp [hph, Phase.openCb] at hcb
  | postStart =>
    have hcb' : cb = .postStart := by simp [hph, Phase.openCb] at hcb; exact hcb.symm
    subst hcb'
    cases r with
    | ok =>
      simp only [afterExit, hph]
      have hse : s2.startedEmitted = false := by
        cases h : s2.startedEmitted with
        | false => rfl
        | true => have := hc.started h; simp [hph, pastPostStart] at this
      have htk0 : s2.took = none := hc.tookNone (by simp [hph])
      refine Sim.andThen _ (R1 := fun a1 s1 => a1 = a.setStatus .running ∧ s1.sup = s2.sup ∧ Base a1 s1 ∧ s1.took = none) ?_ ?_
      · obtain ⟨s', hacc, hcase⟩ := notify_started a.id (a.setStatus .running) (exitUpd .postStart .ok s2)
          (by simp [Actor.setStatus]) (by rw [exitUpd_sup]; simpa [Actor.setStatus] using hsup)
          hc.preFailed.1 hc.terminal rfl hse
        rcases hcase with ⟨hs, rfl⟩ | ⟨p, hs, rfl⟩
        · have hs' : a.sup = none := by simpa [Actor.setStatus] using hs
          have hb := exitUpd_base (a := a) .postStart .ok (by simp) (fun _ _ => by rw [hsup, hs']) hc.toBase
          exact ⟨_, hacc, rfl, rfl, hb.congr (by rfl) (by rfl) (by rfl) (by rfl) (by rfl) (by rfl), htk0⟩
        · exact ⟨_, hacc, rfl, rfl,
            ⟨⟨hc.preFailed.1, rfl⟩, hc.terminal, hc.stopVal, hc.drain, hc.stopTx, hc.kill,
              by have := hc.localEq; simpa [exitUpd, Actor.setStatus] using this⟩, htk0⟩
      · rintro a1 s1 ⟨rfl, hs1, hb1, htk1⟩
        have := listen_sim a.id (a.setStatus .running) s1 (by simp [Actor.setStatus])
          (by rw [hs1]; simpa [Actor.setStatus] using hsup) hb1 (by simpa [Actor.setStatus] using harmed)
          (by simpa [Actor.setStatus] using hn) htk1
        rwa [hs1] at this
    | err n =>
      simp only [afterExit, hph]
      exact failed_sim a.id a a s2 _ _ rfl hsup hc.toBase harmed (by simp) (by simp) rfl rfl rfl
    | panic n =>
      simp only [afterExit, hph]
      exact failed_sim a.id a a s2 _ _ rfl hsup hc.toBase harmed (by simp) (by simp) rfl rfl rfl
  | inMsg =>
    have hcb' : cb = .handle := by simp [hph, Phase.openCb] at hcb; exact hcb.symm
    subst hcb'
    cases r with
    | ok => simp only [afterExit, hph]; exact hlisten (by simp) (by simp) (by simp [hph])
    | err n =>
      simp only [afterExit, hph]
      exact failed_sim a.id a _ s2 _ _ rfl hsup hc.toBase harmed (by simp) (by simp) rfl rfl rfl
    | panic n =>
      simp only [afterExit, hph]
      exact failed_sim a.id a _ s2 _ _ rfl hsup hc.toBase harmed (by simp) (by simp) rfl rfl rfl
  | inSup =>
    have hcb' : cb = .sup := by simp [hph, Phase.openCb] at hcb; exact hcb.symm
    subst hcb'
    cases r with
    | ok => simp only [afterExit, hph]; exact hlisten (by simp) (by simp) (by simp [hph])
    | err n =>
      simp only [afterExit, hph]
      exact failed_sim a.id a _ s2 _ _ rfl hsup hc.toBase harmed (by simp) (by simp) rfl rfl rfl
    | panic n =>
      simp only [afterExit, hph]
      exact failed_sim a.id a _ s2 _ _ rfl hsup hc.toBase harmed (by simp) (by simp) rfl rfl rfl
  | postStop rs =>
    have hcb' : cb = .postStop := by simp [hph, Phase.openCb] at hcb; exact hcb.symm
    subst hcb'
    cases r with
    | ok =>
      simp only [afterExit, hph]
      have hb := exitUpd_base (a := a) .postStop .ok (by simp) (by intro h; cases h) hc.toBase
      have hloc : a.isLocal = (exitUpd .postStop .ok s2).isLocal := hb.localEq.symm
      have := finish_sim a.id a (.terminated a.id (!a.isLocal) rs) (exitUpd .postStop .ok s2) rfl
        (by rw [exitUpd_sup]; exact hsup) harmed hb.preFailed hb.terminal (by simp [SupEv.who]) rfl
        (fun _ => by rw [hloc]; exact classify_graceful (exitUpd .postStop .ok s2) _ rs rfl (hc.postStop.1 rs hph).2 (hc.postStop.1 rs hph).1)
      rwa [exitUpd_sup] at this
    | err n =>
      simp only [afterExit, hph]
      exact failed_sim a.id a a s2 _ _ rfl hsup hc.toBase harmed (by simp) (by simp) rfl rfl rfl
    | panic n =>
      simp only [afterExit, hph]
      exact failed_sim a.id a a s2 _ _ rfl hsup hc.toBase harmed (by simp) (by simp) rfl rfl rfl


theorem afterPre_sim (a : Actor) (s2 : St) (supOk : Bool) (r : Res) (hid : a.id = me)
    (hc : Core a s2) (hph : a.phase = .pre) (hks : KillStrong a s2) :
    Sim (next me) (Post me s2.sup) (exitUpd .preStart r s2) (afterPre a supOk r) := by
  have hse : s2.startedEmitted = false := by
    cases h : s2.startedEmitted with
    | false => rfl
    | true => have := hc.started h; simp [hph, pastPostStart] at this
  have harmed : a.armed = true := hc.armed (by simp [hph])
  cases r with
  | err n =>
    have := failSpawn_sim me a (.startup false n) (exitUpd .preStart (.err n) s2) hid rfl
    simpa [afterPre, exitUpd_sup] using this
  | panic n =>
    have := failSpawn_sim me a (.startup true n) (exitUpd .preStart (.panic n) s2) hid rfl
    simpa [afterPre, exitUpd_sup] using this
  | ok =>
    simp only [afterPre]
    have hlinked : ∀ a' : Actor, a'.id = a.id → a'.phase = .ready → a'.armed = a.armed → a'.notifyOnCancel = true →
        a'.stopVal = a.stopVal → a'.msgQ = a.msgQ → a'.stopTx = a.stopTx → a'.sigVal = a.sigVal →
        a'.isLocal = a.isLocal → Post me s2.sup a' (exitUpd .preStart .ok s2) := by
      intro a' h1 h2 h3 h4 h5 h6 h7 h8 h9
      refine ⟨by rw [h1]; exact hid, rfl, Or.inr ?_⟩
      exact { preFailed := hc.preFailed, terminal := hc.terminal
              localEq := by rw [h9]; exact hc.localEq
              freshSig := by intro hfr; rw [h2] at hfr; cases hfr
              stopVal := by rw [h5]; exact hc.stopVal
              drain := by rw [h6]; exact hc.drain
              stopTx := by rw [h7]; exact hc.stopTx
              kill := by rw [h8]; intro h; exact hks h
              armed := by intro _; rw [h3]; exact harmed
              notify := by intro _; exact h4
              started := by intro h; rw [show (exitUpd Cb.preStart Res.ok s2).startedEmitted = s2.startedEmitted from rfl, hse] at h; cases h
              postStop := postStop_of_none (by rw [h2]; simp) (hc.tookNone (by simp [hph])) }
    split
    · split
      · have := failSpawn_sim me a .nolink (exitUpd .preStart .ok s2) hid rfl
        simpa [exitUpd_sup] using this
      · refine ⟨exitUpd .preStart .ok s2, ?_, hlinked _ rfl rfl rfl rfl rfl rfl rfl rfl rfl⟩
        simp only [andThen_snd, evs_append, evs_doLink, evs_cons_ev, evs_nil, List.nil_append]
        rw [accepts_cons_ok _ _ (next_spawnRet_ok me (exitUpd .preStart .ok s2) hc.preFailed.1)]
        rfl
    · refine ⟨exitUpd .preStart .ok s2, ?_, hlinked _ rfl rfl rfl rfl rfl rfl rfl rfl rfl⟩
      simp only [evs_cons_ev, evs_nil]
      rw [accepts_cons_ok _ _ (next_spawnRet_ok me (exitUpd .preStart .ok s2) hc.preFailed.1)]
      rfl

theorem openCb_ne_pre {ph : Phase} {cb : Cb} (h : ph.openCb = some cb) (ht : ph.isTask = true) : cb ≠ .preStart := by
  cases ph <;> simp [Phase.openCb, Phase.isTask] at h ht <;> subst h <;> simp

theorem pollOpen_sim (a : Actor) (s : St) (cb : Cb) (hid : a.id = me) (hsup : s.sup = a.sup) (hc : Core a s)
    (hcb : a.phase.openCb = some cb) (htask : a.phase.isTask = true) :
    Sim (next me) (Post me s.sup) s (pollOpen a cb) := by
  have harmed : a.armed = true := hc.armed (by intro h; simp [h, Phase.isTask] at htask)
  unfold pollOpen
  simp only []
  split
  · rename_i hsig
    have hk : a.sup.isSome = true → s.killed = true := by
      intro _
      exact hc.kill hsig
    refine Sim.andThen _ (R1 := fun a1 s1 => s1 = s ∧ a1 = { a with woken := false, sigVal := false })
      ⟨s, by simp [say, accepts_cons, next_cancelled_other me s cb (openCb_ne_pre hcb htask)], rfl, rfl⟩ ?_
    rintro a1 s1 ⟨rfl, rfl⟩
    split
    · exact killedInLoop_sim me _ s1 hid hsup harmed hc.preFailed hc.terminal hk
    · exact killedInLoop_sim me _ s1 hid hsup harmed hc.preFailed hc.terminal hk
    · exact killedOutsideLoop_sim me _ s1 hid hsup harmed hc.preFailed hc.terminal hk
  · rename_i hsig
    split
    · exact ⟨s, rfl, hid, rfl, Or.inr (hc.congr (by rfl) (by rfl) (by rfl) (by rfl) (by rfl) (by rfl) (by rfl) (by rfl) (by rfl))⟩
    · rename_i sg hsg
      have hc' : Core ({ a with woken := false, sigW := true, seg := none } : Actor) s :=
        hc.congr (by rfl) (by rfl) (by rfl) (by rfl) (by rfl) (by rfl) (by rfl) (by rfl) (by rfl)
      refine runSeg_sim me _ s cb sg afterExit hid hc' (by simpa using hsig) ?_
      intro a1 s2 r hf hs2 hc1 _
      have := afterExit_sim me a1 s2 cb r (by rw [hf.id]; exact hid) (by rw [hs2, hsup, hf.sup]) hc1
        (by rw [hf.phase]; exact hcb) (by rw [hf.phase]; exact htask)
      rwa [hs2] at this

theorem Inv.core {a : Actor} {s : St} (h : Inv me a s) (hnd : a.phase ≠ .done) : Core a s := by
  rcases h.2.2 with h | h
  · exact absurd h hnd
  · exact h

theorem opPoll_sim (a : Actor) (s : St) (h : Inv me a s) : Sim (next me) (Post me a.sup) s (opPoll a) := by
  have hid := h.1
  have hsup := h.2.1
  rw [← hsup]
  unfold opPoll
  split
  · rename_i hph
    have hc := Inv.core me h (by simp [hph])
    have harmed : a.armed = true := hc.armed (by simp [hph])
    simp only []
    split
    · rename_i hsig
      have hk : a.sup.isSome = true → s.killed = true := by
        intro _
        exact hc.kill hsig
      exact killedOutsideLoop_sim me _ s hid hsup harmed hc.preFailed hc.terminal hk
    · refine ⟨{ s with startable := false }, by simp [accepts_cons, next_enter' me s .postStart _ hc.preFailed.2], hid, rfl, Or.inr ?_⟩
      have hse : s.startedEmitted = false := by
        cases h' : s.startedEmitted with
        | false => rfl
        | true => have := hc.started h'; simp [hph, pastPostStart] at this
      exact { preFailed := hc.preFailed, terminal := hc.terminal
              localEq := by simpa using hc.localEq
              freshSig := by intro hfr; simp at hfr
              stopVal := by simpa using hc.stopVal, drain := by simpa using hc.drain
              stopTx := by simpa using hc.stopTx, kill := by simpa using hc.kill
              armed := by intro _; simpa using harmed
              notify := by intro _; simpa using hc.notify (by simp [hph, Phase.isTask])
              started := by intro h'; simp [hse] at h'
              postStop := postStop_of_none (by simp) (hc.tookNone (by simp [hph])) }
  · rename_i hph
    have hc := Inv.core me h (by simp [hph])
    exact listen_sim me _ s hid hsup (hc.toBase.congr (by rfl) (by rfl) (by rfl) (by rfl) (by rfl) (by rfl))
      (hc.armed (by simp [hph])) (hc.notify (by simp [hph, Phase.isTask])) (hc.tookNone (by simp [hph]))
  · rename_i hph
    exact pollOpen_sim me a s _ hid hsup (Inv.core me h (by simp [hph])) (by simp [hph, Phase.openCb]) (by simp [hph, Phase.isTask])
  · rename_i hph
    exact pollOpen_sim me a s _ hid hsup (Inv.core me h (by simp [hph])) (by simp [hph, Phase.openCb]) (by simp [hph, Phase.isTask])
  · rename_i hph
    exact pollOpen_sim me a s _ hid hsup (Inv.core me h (by simp [hph])) (by simp [hph, Phase.openCb]) (by simp [hph, Phase.isTask])
  · rename_i hph
    exact pollOpen_sim me a s _ hid hsup (Inv.core me h (by simp [hph])) (by simp [hph, Phase.openCb]) (by simp [hph, Phase.isTask])
  · exact ⟨s, rfl, by rw [hsup]; exact h⟩


theorem opSpawn_sim (a : Actor) (s : St) (sup : Option Nat) (name : Option String) (nameFree : Bool)
    (isLocal supOk : Bool) (h : Inv me a s) :
    Sim (next me) (Post me a.sup) s (opSpawn a sup name nameFree isLocal supOk) := by
  have hid := h.1
  have hsup := h.2.1
  rw [← hsup]
  unfold opSpawn
  split
  · rename_i hph
    split
    · refine ⟨s, ?_, by rw [hsup]; exact h⟩
      simp only [evs_cons_ev, evs_nil]
      rw [accepts_cons_ok _ _ (next_spawnRet_registered me s)]
      rfl
    have hc := Inv.core me h (by simp [hph])
    have hse : s.startedEmitted = false := by
      cases h' : s.startedEmitted with
      | false => rfl
      | true => have := hc.started h'; simp [hph, pastPostStart] at this
    have hsig : a.sigVal = false := hc.freshSig hph
    -- the new actor in phase `pre`, with whatever supervisor link `opSpawn` made
    have hnew : ∀ (a' : Actor) (s' : St), a'.phase = .pre → a'.armed = true → a'.stopVal = a.stopVal →
        a'.msgQ = a.msgQ → a'.stopTx = a.stopTx → a'.sigVal = a.sigVal → s'.isLocal = a'.isLocal →
        s'.preFailed = s.preFailed → s'.terminalEmitted = s.terminalEmitted → s'.stopReason = s.stopReason →
        s'.drainReq = s.drainReq → s'.startedEmitted = s.startedEmitted → s'.mustStart = s.mustStart →
        s'.took = s.took → s'.fanTerminal = s.fanTerminal → Core a' s' := by
      intro a' s' h0 h1 h3 h4 h5 h6 hl p1 p2 p3 p4 p5 p7 p8 p9
      exact { preFailed := by rw [p1, p7]; exact hc.preFailed, terminal := by rw [p2, p9]; exact hc.terminal
              localEq := hl
              freshSig := by intro hfr; rw [h0] at hfr; cases hfr
              stopVal := by rw [h3, p3, p8]; exact hc.stopVal
              drain := by rw [h4, p4]; exact hc.drain
              stopTx := by rw [h5, p3]; exact hc.stopTx
              kill := by rw [h6, hsig]; intro hk; cases hk
              armed := by intro _; exact h1
              notify := by intro h'; rw [h0] at h'; simp [Phase.isTask] at h'
              started := by intro h'; rw [p5, hse] at h'; cases h'
              postStop := postStop_of_none (by rw [h0]; simp) (by rw [p8]; exact hc.tookNone (by simp [hph])) }
    split
    · split
      · split
        · -- thread-local, link refused: nothing happened
          refine ⟨s, ?_, by rw [hsup]; exact h⟩
          simp only [evs_cons_ev, evs_nil]
          rw [accepts_cons_ok _ _ (next_spawnRet_err me s .nolink rfl)]
          rfl
        · refine ⟨{ s with isLocal := true, startable := false },
            by simp [accepts_cons, next_enter' me _ .preStart _ (show ({ s with isLocal := true } : St).mustStart = false from hc.preFailed.2)],
            hid, rfl, Or.inr ?_⟩
          exact hnew _ _ rfl rfl rfl rfl rfl rfl rfl rfl rfl rfl rfl rfl rfl rfl rfl
      · refine ⟨{ s with isLocal := true, startable := false },
          by simp [accepts_cons, next_enter' me _ .preStart _ (show ({ s with isLocal := true } : St).mustStart = false from hc.preFailed.2)],
          hid, rfl, Or.inr ?_⟩
        exact hnew _ _ rfl rfl rfl rfl rfl rfl rfl rfl rfl rfl rfl rfl rfl rfl rfl
    · refine ⟨{ s with startable := false }, by simp [accepts_cons, next_enter' me s .preStart _ hc.preFailed.2], hid, rfl, Or.inr ?_⟩
      exact hnew _ _ rfl rfl rfl rfl rfl rfl (by simpa using hc.localEq) rfl rfl rfl rfl rfl rfl rfl rfl
  · exact ⟨s, rfl, by rw [hsup]; exact h⟩

theorem core_enter_pre {a a' : Actor} {s : St} (hc : Core a s) (hse : s.startedEmitted = false)
    (h0 : a'.phase = .pre) (h1 : a'.armed = true) (h3 : a'.stopVal = a.stopVal) (h4 : a'.msgQ = a.msgQ)
    (h5 : a'.stopTx = a.stopTx) (h6 : a'.sigVal = a.sigVal) (h8 : a'.isLocal = a.isLocal)
    (hnp : ∀ r, a.phase ≠ .postStop r) :
    Core a' { s with startable := false } :=
  { preFailed := hc.preFailed, terminal := hc.terminal
    localEq := by rw [h8]; exact hc.localEq
    freshSig := by intro hfr; rw [h0] at hfr; cases hfr
    stopVal := by rw [h3]; exact hc.stopVal
    drain := by rw [h4]; exact hc.drain
    stopTx := by rw [h5]; exact hc.stopTx
    kill := by rw [h6]; exact hc.kill
    armed := fun _ => h1
    notify := by intro h'; rw [h0] at h'; simp [Phase.isTask] at h'
    started := by
      intro h'
      rw [show ({ s with startable := false } : St).startedEmitted = s.startedEmitted from rfl, hse] at h'
      cases h'
    postStop := postStop_of_none (by rw [h0]; simp) (hc.tookNone hnp) }

theorem beginPre_sim (a : Actor) (s : St) (hid : a.id = me) (hc : Core a s) (hph : a.phase = .cell) :
    Sim (next me) (Post me s.sup) s (beginPre a) := by
  have hse : s.startedEmitted = false := by
    cases h' : s.startedEmitted with
    | false => rfl
    | true => have := hc.started h'; simp [hph, pastPostStart] at this
  unfold beginPre
  split
  · refine Sim.andThen _ (R1 := fun a2 s2 => s2 = s ∧ a2.id = me)
      ⟨s, by simp [handleSignal], rfl, by simpa [handleSignal] using hid⟩ ?_
    rintro a2 s2 ⟨rfl, hid2⟩
    exact failSpawn_sim me a2 .killed s2 hid2 rfl
  · refine ⟨{ s with startable := false }, by simp [accepts_cons, next_enter' me s .preStart _ hc.preFailed.2],
      by simpa using hid, rfl, Or.inr ?_⟩
    exact core_enter_pre hc hse rfl (hc.armed (by simp [hph])) rfl rfl rfl rfl rfl (by simp [hph])

theorem startInstant_sim (a : Actor) (s : St) (supOk : Bool) (hid : a.id = me) (hc : Core a s)
    (hph : a.phase = .cell) (hst : a.status = .unstarted) :
    Sim (next me) (Post me s.sup) s (startInstant a supOk) := by
  unfold startInstant
  simp only [hst, ne_eq, not_true_eq_false, ↓reduceIte]
  have hc' : Core ({ a with status := .starting } : Actor) s :=
    hc.congr' (by rfl) (by rfl) (by rfl) (by rfl) (by rfl) (by rfl) (by rfl) (by rfl)
  split
  · split
    · split
      · exact failSpawn_sim me _ .nolink s hid rfl
      · refine Sim.andThen _ (R1 := fun a1 s1 => s1 = s ∧ a1.id = me ∧ a1.phase = .cell ∧ Core a1 s)
          ⟨s, by simp, rfl, by simpa using hid, by simpa using hph,
           hc.congr' (by simp) (by simp) (by simp) (by simp) (by simp) (by simp) (by simp) (by simp)⟩ ?_
        rintro a1 s1 ⟨rfl, h1, h2, h3⟩
        exact beginPre_sim me a1 s1 h1 h3 h2
    · exact beginPre_sim me _ s hid hc' hph
  · exact beginPre_sim me _ s hid hc' hph

theorem opSpawnInstant_sim (a : Actor) (s : St) (sup : Option Nat) (name : Option String) (nameFree : Bool)
    (isLocal : Bool) (h : Inv me a s) :
    Sim (next me) (Post me a.sup) s (opSpawnInstant a sup name nameFree isLocal) := by
  have hid := h.1
  have hsup := h.2.1
  rw [← hsup]
  unfold opSpawnInstant
  split
  · rename_i hph
    split
    · exact ⟨s, by simp [accepts_cons], by rw [hsup]; exact h⟩
    have hc := Inv.core me h (by simp [hph])
    have hse : s.startedEmitted = false := by
      cases h' : s.startedEmitted with
      | false => rfl
      | true => have := hc.started h'; simp [hph, pastPostStart] at this
    have hnew : ∀ (a' : Actor) (s' : St), a'.phase = .cell → a'.armed = true → a'.stopVal = a.stopVal →
        a'.msgQ = a.msgQ → a'.stopTx = a.stopTx → a'.sigVal = a.sigVal → s'.isLocal = a'.isLocal →
        s'.preFailed = s.preFailed → s'.terminalEmitted = s.terminalEmitted → s'.stopReason = s.stopReason →
        s'.drainReq = s.drainReq → s'.startedEmitted = s.startedEmitted → s'.killed = s.killed →
        s'.mustStart = s.mustStart → s'.took = s.took → s'.fanTerminal = s.fanTerminal → Core a' s' := by
      intro a' s' h0 h1 h3 h4 h5 h6 hl p1 p2 p3 p4 p5 p6 p7 p8 p9
      exact { preFailed := by rw [p1, p7]; exact hc.preFailed, terminal := by rw [p2, p9]; exact hc.terminal
              localEq := hl
              freshSig := by intro hfr; rw [h0] at hfr; cases hfr
              stopVal := by rw [h3, p3, p8]; exact hc.stopVal
              drain := by rw [h4, p4]; exact hc.drain
              stopTx := by rw [h5, p3]; exact hc.stopTx
              kill := by rw [h6, p6]; exact hc.kill
              armed := by intro _; exact h1
              notify := by intro h'; rw [h0] at h'; simp [Phase.isTask] at h'
              started := by intro h'; rw [p5, hse] at h'; cases h'
              postStop := postStop_of_none (by rw [h0]; simp) (by rw [p8]; exact hc.tookNone (by simp [hph])) }
    split
    · refine ⟨{ s with isLocal := true }, by simp [accepts_cons], hid, rfl, Or.inr ?_⟩
      exact hnew _ _ rfl rfl rfl rfl rfl rfl rfl rfl rfl rfl rfl rfl rfl rfl rfl rfl
    · refine ⟨s, by simp [accepts_cons], hid, rfl, Or.inr ?_⟩
      exact hnew _ _ rfl rfl rfl rfl rfl rfl (by simpa using hc.localEq) rfl rfl rfl rfl rfl rfl rfl rfl rfl
  · exact ⟨s, rfl, by rw [hsup]; exact h⟩

theorem opPollSpawn_sim (a : Actor) (s : St) (supOk : Bool) (h : Inv me a s) (hj : CellOk a) :
    Sim (next me) (Post me a.sup) s (opPollSpawn a supOk) := by
  have hid := h.1
  have hsup := h.2.1
  rw [← hsup]
  unfold opPollSpawn
  split
  · rename_i hph
    exact startInstant_sim me a s supOk hid (Inv.core me h (by simp [hph])) hph (hj (by simp [hph, Phase.early]))
  · rename_i hph
    have hc := Inv.core me h (by simp [hph])
    split
    · refine Sim.andThen _ (R1 := fun a1 s1 => s1.sup = s.sup ∧ a1.id = me)
        ⟨{ s with preFailed := true }, by simp [say, accepts_cons], rfl, hid⟩ ?_
      rintro a1 s1 ⟨hs1, hid1⟩
      refine Sim.andThen _ (R1 := fun a2 s2 => s2 = s1 ∧ a2.id = me) ⟨s1, by simp [handleSignal], rfl, by simpa [handleSignal] using hid1⟩ ?_
      rintro a2 s2 ⟨rfl, hid2⟩
      have := failSpawn_sim me a2 .killed s2 hid2 rfl
      rwa [hs1] at this
    · rename_i hsig
      split
      · exact ⟨s, rfl, by rw [hsup]; exact h⟩
      · rename_i sg hsg
        have hc' : Core ({ a with seg := none } : Actor) s :=
          hc.congr (by rfl) (by rfl) (by rfl) (by rfl) (by rfl) (by rfl) (by rfl) (by rfl) (by rfl)
        refine runSeg_sim me _ s .preStart sg _ hid hc' (by simpa using hsig) ?_
        intro a1 s2 r hf hs2 hc1 hks
        have := afterPre_sim me a1 s2 supOk r (by rw [hf.id]; exact hid) hc1 (by rw [hf.phase]; exact hph) hks
        rwa [hs2] at this
  · exact ⟨s, rfl, by rw [hsup]; exact h⟩

theorem opDropSpawn_sim (a : Actor) (s : St) (h : Inv me a s) :
    Sim (next me) (Post me a.sup) s (opDropSpawn a) := by
  have hid := h.1
  have hsup := h.2.1
  rw [← hsup]
  unfold opDropSpawn
  split
  · obtain ⟨h1, h2, _⟩ := cleanup_none a
    refine ⟨{ s with preFailed := true }, ?_, ?_, rfl, Or.inl (by simp [Actor.dropPorts])⟩
    · simp only [andThen_snd, andThen_fst, evs_append, evs_cons_ev, evs_cons_note, evs_nil, h1, List.append_nil]
      rw [accepts_cons_ok _ _ (next_dropped me s)]
      rfl
    · simp [Actor.dropPorts, h2, hid]
  · obtain ⟨h1, h2, _⟩ := cleanup_none a
    refine ⟨{ s with preFailed := true }, ?_, ?_, rfl, Or.inl (by simp [Actor.dropPorts])⟩
    · simp only [andThen_snd, andThen_fst, evs_append, evs_cons_ev, evs_nil, h1, List.append_nil, evs_ite_note]
      rw [accepts_cons_ok _ _ (next_dropped me s), accepts_cons_ok _ _ (next_cancelled_pre me _)]
      rfl
    · simp [Actor.dropPorts, h2, hid]
  · exact ⟨s, rfl, by rw [hsup]; exact h⟩

theorem opAbort_sim (a : Actor) (s : St) (h : Inv me a s) :
    Sim (next me) (Post me a.sup) s (opAbort a) := by
  have hid := h.1
  have hsup := h.2.1
  rw [← hsup]
  unfold opAbort
  split
  · rename_i htask
    have hc := Inv.core me h (by intro hd; simp [hd, Phase.isTask] at htask)
    have harmed : a.armed = true := hc.armed (by intro hd; simp [hd, Phase.isTask] at htask)
    have hn : a.notifyOnCancel = true := hc.notify htask
    refine Sim.andThen _ (R1 := fun a1 s1 => a1 = a ∧ s1 = { s with aborted := true }) ?_ ?_
    · cases hcb : a.phase.openCb with
      | none => exact ⟨_, by simp [accepts_cons], rfl, rfl⟩
      | some cb =>
        exact ⟨_, by simp [accepts_cons, next_cancelled_other me _ cb (openCb_ne_pre hcb htask)], rfl, rfl⟩
    · rintro a1 s1 ⟨rfl, rfl⟩
      simp only [hn, ↓reduceIte]
      obtain ⟨s2, hacc, h1, h2, h3, h4, _⟩ := cleanup_some me a1 (.terminated a1.id false .cancelled)
        { s with aborted := true } hid hsup harmed hc.preFailed hc.terminal (by simp [SupEv.who, hid]) rfl
        (fun _ => classify_cancelled _ _ rfl)
      refine ⟨s2, ?_, ?_, h1, Or.inl (by simp [Actor.dropPorts])⟩
      · simp only [andThen_snd, evs_append, evs_cons_ev, evs_nil]
        rw [accepts_append _ _ hacc]
        rw [accepts_cons_ok _ _ (next_join_cancelled me s2 (by rw [h2]) (by rw [h1]; exact h3))]
        rfl
      · simpa [Actor.dropPorts] using h4
  · exact ⟨s, rfl, by rw [hsup]; exact h⟩

theorem Post.congr {id0 : Nat} {sup0 : Option Nat} {a a' : Actor} {s : St} (hi : a'.id = a.id)
    (h0 : a'.phase = a.phase) (h1 : a'.armed = a.armed)
    (h2 : a'.notifyOnCancel = a.notifyOnCancel) (h3 : a'.stopVal = a.stopVal) (h4 : a'.msgQ = a.msgQ)
    (h5 : a'.stopTx = a.stopTx) (h6 : a'.sigVal = a.sigVal) (h7 : a'.sup = a.sup) (h8 : a'.isLocal = a.isLocal)
    (h : Post id0 sup0 a s) : Post id0 sup0 a' s := by
  refine ⟨by rw [hi]; exact h.1, h.2.1, ?_⟩
  rcases h.2.2 with hd | hc
  · left; rw [h0, hd]
  · right; exact hc.congr h0 h1 h2 h3 h4 h5 h6 h7 h8

theorem opResume_sim (a : Actor) (s : St) (sg : Seg) (h : Inv me a s) :
    Sim (next me) (Post me a.sup) s (opResume a sg) := by
  unfold opResume
  split
  · exact ⟨s, rfl, h⟩
  · split
    · exact ⟨s, rfl, h⟩
    · exact ⟨s, rfl, Post.congr (by rfl) (by rfl) (by rfl) (by rfl) (by rfl) (by rfl) (by rfl) (by rfl) (by rfl) (by rfl) h⟩

/-- `Post` across an API call that preserves the frame. -/
theorem Post.api {a a' : Actor} {s s' : St} (hf : Frame a a') (hs : s'.sup = s.sup)
    (hc : Core a s → Core a' s') (h : Inv me a s) : Post me a.sup a' s' := by
  refine ⟨by rw [hf.id]; exact h.1, by rw [hs]; exact h.2.1, ?_⟩
  rcases h.2.2 with hd | hcore
  · left; rw [hf.phase, hd]
  · right; exact hc hcore

theorem envOp_sim (a : Actor) (s : St) (op : AOp) (h : Inv me a s) :
    Sim (next me) (Post me a.sup) s (a.envOp op) := by
  cases op with
  | send m =>
    exact ⟨s, by simp [Actor.envOp, accepts_cons], Post.api me (apiSend_frame a m) rfl (send_core m) h⟩
  | stop r =>
    refine ⟨_, by simp [Actor.envOp, accepts_cons], Post.api me (apiStop_frame a _) ?_ (stop_core _ (Reason.ofUser_isUser r)) h⟩
    split <;> rfl
  | kill =>
    refine ⟨_, by simp [Actor.envOp, accepts_cons], Post.api me (apiKill_frame a) ?_ kill_core h⟩
    split <;> rfl
  | drain =>
    refine ⟨_, by simp [Actor.envOp, accepts_cons], Post.api me (apiDrain_frame a) ?_ drain_core h⟩
    split <;> rfl
  | supArrive e =>
    simp only [Actor.envOp, opSupArrive]
    split
    · exact ⟨s, by simp [accepts_cons], Post.congr (by rfl) (by rfl) (by rfl) (by rfl) (by rfl) (by rfl) (by rfl) (by rfl) (by rfl) (by rfl) h⟩
    · exact ⟨s, by simp [accepts_cons], h⟩
  | treeTaken =>
    simp only [Actor.envOp, opTreeTaken]
    have hf := apiKill_frame { a with sup := none }
    obtain ⟨h1, h2, h3, h4⟩ := apiKill_fields { a with sup := none }
    split
    · -- the kill is issued; `s'` = the automaton after the optional `treeKill`
      have hmain : ∀ s' : St, s'.sup = s.sup → s'.preFailed = s.preFailed → s'.terminalEmitted = s.terminalEmitted →
          s'.stopReason = s.stopReason → s'.drainReq = s.drainReq → s'.isLocal = s.isLocal →
          s'.startedEmitted = s.startedEmitted → s'.mustStart = s.mustStart → s'.took = s.took →
          s'.fanTerminal = s.fanTerminal →
          (Core a s → (apiKill { a with sup := none }).1.sigVal = true → s'.killed = true) →
          Post me a.sup ({ (apiKill { a with sup := none }).1 with kids := none } : Actor) s' := by
        intro s' q0 q1 q2 q3 q4 q5 q6 q7 q8 q9 hk
        refine ⟨by simpa [hf.id] using h.1, by rw [q0]; exact h.2.1, ?_⟩
        rcases h.2.2 with hd | hc
        · left; simpa [hf.phase] using hd
        · right
          exact { preFailed := by rw [q1, q7]; exact hc.preFailed, terminal := by rw [q2, q9]; exact hc.terminal
                  localEq := by rw [q5]; simpa [hf.isLocal] using hc.localEq
                  freshSig := by
                    intro hfr
                    have hfr' : a.phase = .fresh := by simpa [hf.phase] using hfr
                    rw [apiKill_fresh _ (by simpa using hfr')]
                    exact hc.freshSig hfr'
                  stopVal := by rw [q3, q8]; simpa [h2] using hc.stopVal
                  drain := by rw [q4]; simpa [h1] using hc.drain
                  stopTx := by rw [q3]; simpa [h3] using hc.stopTx
                  kill := by simpa using hk hc
                  armed := by simpa [hf.phase, hf.armed] using hc.armed
                  notify := by simpa [hf.phase, hf.notify] using hc.notify
                  started := by rw [q6]; simpa [hf.phase] using hc.started
                  postStop := by rw [q8]; simpa [hf.phase] using hc.postStop }
      cases hk : (apiKill { a with sup := none }).2 with
      | true =>
        exact ⟨{ s with killed := true }, by simp [hk, accepts_cons], hmain _ rfl rfl rfl rfl rfl rfl rfl rfl rfl rfl (fun _ _ => rfl)⟩
      | false =>
        refine ⟨s, by simp [hk], hmain _ rfl rfl rfl rfl rfl rfl rfl rfl rfl rfl ?_⟩
        intro hc hsv
        rw [h4 hk] at hsv
        exact hc.kill (by simpa using hsv)
    · refine ⟨s, by simp, h.1, h.2.1, ?_⟩
      rcases h.2.2 with hd | hc
      · left; exact hd
      · right
        exact { preFailed := hc.preFailed, terminal := hc.terminal
                localEq := by simpa using hc.localEq, freshSig := by simpa using hc.freshSig
                stopVal := by simpa using hc.stopVal, drain := by simpa using hc.drain
                stopTx := by simpa using hc.stopTx, kill := by simpa using hc.kill
                armed := by simpa using hc.armed, notify := by simpa using hc.notify
                started := by simpa using hc.started, postStop := by simpa using hc.postStop }
  | link p ok =>
    simp only [Actor.envOp, opLink]
    split
    · exact ⟨s, rfl, h⟩
    · exact ⟨s, by simp, h.1, h.2.1, h.2.2.imp id (fun hc =>
        hc.congr' (by rfl) (by rfl) (by rfl) (by rfl) (by rfl) (by rfl) (by rfl) (by rfl))⟩
  | unlink p =>
    simp only [Actor.envOp, opUnlink]
    split
    · exact ⟨s, by simp, h.1, h.2.1, h.2.2.imp id (fun hc =>
        hc.congr' (by rfl) (by rfl) (by rfl) (by rfl) (by rfl) (by rfl) (by rfl) (by rfl))⟩
    · exact ⟨s, rfl, h⟩
  | kidAdd c => exact ⟨s, rfl, Post.congr (by rfl) (by rfl) (by rfl) (by rfl) (by rfl) (by rfl) (by rfl) (by rfl) (by rfl) (by rfl) h⟩
  | monAdd m => exact ⟨s, rfl, Post.congr (by rfl) (by rfl) (by rfl) (by rfl) (by rfl) (by rfl) (by rfl) (by rfl) (by rfl) (by rfl) h⟩
  | monDel m => exact ⟨s, rfl, Post.congr (by rfl) (by rfl) (by rfl) (by rfl) (by rfl) (by rfl) (by rfl) (by rfl) (by rfl) (by rfl) h⟩
  | monDrop m => exact ⟨s, by simp [Actor.envOp], Post.congr (by rfl) (by rfl) (by rfl) (by rfl) (by rfl) (by rfl) (by rfl) (by rfl) (by rfl) (by rfl) h⟩
  | kidDel c => exact ⟨s, rfl, Post.congr (by rfl) (by rfl) (by rfl) (by rfl) (by rfl) (by rfl) (by rfl) (by rfl) (by rfl) (by rfl) h⟩
  | call k =>
    refine ⟨s, by simp [Actor.envOp, accepts_cons], ?_⟩
    simp only [Actor.envOp, apiCall]
    (repeat' split) <;> first
      | exact h
      | (refine ⟨h.1, h.2.1, ?_⟩
         rcases h.2.2 with hd | hc
         · exact Or.inl hd
         · right
           exact { preFailed := hc.preFailed, terminal := hc.terminal, localEq := hc.localEq,
                   freshSig := hc.freshSig, stopVal := hc.stopVal,
                   drain := by intro hd; apply hc.drain; simpa using hd,
                   stopTx := hc.stopTx, kill := hc.kill, armed := hc.armed, notify := hc.notify,
                   started := hc.started, postStop := hc.postStop })
  | pollCall k =>
    simp only [Actor.envOp]
    split
    · exact ⟨s, by simp [accepts_cons], Post.congr (by rfl) (by rfl) (by rfl) (by rfl) (by rfl) (by rfl) (by rfl) (by rfl) (by rfl) (by rfl) h⟩
    · exact ⟨s, by simp [accepts_cons], Post.congr (by rfl) (by rfl) (by rfl) (by rfl) (by rfl) (by rfl) (by rfl) (by rfl) (by rfl) (by rfl) h⟩
    · exact ⟨s, by simp [accepts_cons], h⟩
    · exact ⟨s, rfl, h⟩
  | pollWait w => exact ⟨s, by simp [Actor.envOp, accepts_cons], h⟩
  | _ => exact ⟨s, rfl, h⟩

theorem stepCore_sim (a : Actor) (s : St) (op : AOp) (h : Inv me a s) (hj : CellOk a) :
    Sim (next me) (Post me a.sup) s (a.stepCore op) := by
  cases op with
  | spawn sup name nameFree isLocal supOk => exact opSpawn_sim me a s sup name nameFree isLocal supOk h
  | spawnInstant sup name nameFree isLocal => exact opSpawnInstant_sim me a s sup name nameFree isLocal h
  | pollSpawn supOk => exact opPollSpawn_sim me a s supOk h hj
  | dropSpawn => exact opDropSpawn_sim me a s h
  | poll => exact Sim.pollMark _ (next_polled me) (opPoll_sim me a s h)
  | abort => exact opAbort_sim me a s h
  | resume sg => exact opResume_sim me a s sg h
  | _ =>
    simp only [Actor.stepCore]
    split
    · exact ⟨s, rfl, h⟩
    · exact envOp_sim me a s _ h

theorem Core.setSup {a : Actor} {s : St} (p : Option Nat) (hc : Core a s) : Core a { s with sup := p } :=
  { preFailed := hc.preFailed, terminal := hc.terminal, localEq := hc.localEq,
    freshSig := hc.freshSig, stopVal := hc.stopVal, drain := hc.drain,
    stopTx := hc.stopTx, kill := hc.kill, armed := hc.armed, notify := hc.notify, started := hc.started,
    postStop := hc.postStop }

theorem step_sim (a : Actor) (s : St) (op : AOp) (h : Inv me a s) (hj : CellOk a) :
    Sim (next me) (Inv me) s (a.step op) := by
  obtain ⟨s1, hacc, hid, hsup, hrest⟩ := stepCore_sim me a s op h hj
  rw [step_eq]
  by_cases heq : (a.stepCore op).1.sup = a.sup
  · refine ⟨s1, ?_, hid, by rw [hsup, heq], hrest⟩
    simp only [supTail, heq, ↓reduceIte, List.append_nil, evs_append]
    rw [accepts_append _ _ hacc]
    exact accepts_snapTail' me s1 _
  · refine ⟨{ s1 with sup := (a.stepCore op).1.sup }, ?_, hid, rfl, ?_⟩
    · simp only [supTail, heq, ↓reduceIte, evs_append]
      rw [accepts_append (s' := { s1 with sup := (a.stepCore op).1.sup }) _ _ (by rw [accepts_append _ _ hacc]; simp [accepts_cons])]
      exact accepts_snapTail' me _ _
    · rcases hrest with hd | hc
      · exact Or.inl hd
      · exact Or.inr (hc.setSup _)

theorem run_sim (ops : List AOp) (a : Actor) (s : St) (h : Inv me a s) (s01 : Life.C01.St)
    (h01 : Life.C01.Inv a s01) (hj : CellOk a) :
    ∃ s', accepts (next me) s (a.run ops).2 = .ok s' ∧ Inv me (a.run ops).1 s' := by
  induction ops generalizing a s s01 with
  | nil => exact ⟨s, rfl, h⟩
  | cons op ops ih =>
    obtain ⟨s1, hacc, hinv⟩ := step_sim me a s op h hj
    obtain ⟨t1, _, h01'⟩ := Life.C01.step_sim a s01 op h01
    obtain ⟨s2, hacc2, hinv2⟩ := ih _ s1 hinv t1 h01' (cellOk_step a s01 op h01 hj)
    refine ⟨s2, ?_, hinv2⟩
    simp only [Actor.run]
    rw [accepts_append _ _ hacc]
    exact hacc2

theorem inv_init (id : Nat) : Inv id (Actor.init id) {} := by
  refine ⟨rfl, rfl, Or.inr ?_⟩
  exact { preFailed := ⟨rfl, rfl⟩, terminal := ⟨rfl, rfl⟩, localEq := rfl, freshSig := by simp [Actor.init],
          stopVal := by simp [Actor.init], drain := by simp [Actor.init],
          stopTx := by simp, kill := by simp [Actor.init], armed := by simp [Actor.init],
          notify := by simp [Actor.init, Phase.isTask], started := by simp, postStop := by simp [Actor.init] }


end Life.C04
