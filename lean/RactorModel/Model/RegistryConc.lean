/-!
# Model `Reg2` (C10, round 4) — constructor, `set_status` and the pid monitors as *programs*

Core Lean only.  Same code as `Model/Registry.lean` (`registry.rs`, `registry/pid_registry.rs`,
`actor_cell.rs::{new, new_remote, set_status}`), but

* every actor has a program counter: the order of the statements comes from the program text, not from
  a guard on the operation.  `ActorCell::new` = `registry::register` ; `register_pid` ; on failure of the
  second `registry::unregister(name)` (the rollback, an unguarded remove-by-key) — three separate steps
  (two DashMap operations and the rollback), so lookups and other constructors interleave between them;
  `set_status(st)` = `fetch_max` ; if this call moved the word from `< Stopping` to `≥ Stopping` the
  cleanup block `blockProg` (`demonitor` ; `unregister_pid` ; `registry::unregister`), statement by
  statement ; then, for `Stopped`, the waiters are notified — but `wait()` looks at the status word alone, so
  "`wait()` has returned" is `status = Stopped`, whatever the block has done so far.
  `publish a Stopped` is NOT guarded: called on an actor below `Stopping` it publishes `Stopped` first and
  unregisters afterwards (that is what the code does).  That every caller publishes `Stopping` first is a
  hypothesis of the theorems (`Ordered`), discharged for the source text by `Props/C10.lean`
  (`Extracted.cleanupOrder`, `Extracted.stoppedCallSites`).
* `register_pid` may fail for whatever reason the environment likes (`regPidFail`; in the code: the id is
  already in the table).
* the pid registry's monitors: `monitor` / `demonitor` (also the first statement of the cleanup block), and
  the fan-out of `PidLifecycleEvent::{Spawn, Terminate}` by `register_pid` / `unregister_pid` to the
  listeners registered at that instant; `log` is what was put on which listener's port, in order.
-/

namespace Reg2

def draining : Nat := 4
def stopping : Nat := 5
def stopped : Nat := 6

/-- statements of the cleanup block of `ActorCell::set_status` -/
inductive Stmt | demonitor | unregPid | unregName
  deriving DecidableEq, Repr

def Stmt.text : Stmt → String
  | .demonitor => "demonitor" | .unregPid => "unregister_pid" | .unregName => "unregister"

/-- the block in source order (tied to the source by `Extracted.setStatusOrder`) -/
def blockProg : List Stmt := [.demonitor, .unregPid, .unregName]

inductive Pc
  | none          -- no such cell
  | consName      -- `ActorCell::new(Some n)` entered: `registry::register` next
  | consPid       -- name inserted (or no name): `register_pid` next
  | consRollback  -- `register_pid` failed, the cell has a name: `registry::unregister(name)` next
  | failed        -- `new` returned `Err`; the cell is dropped
  | live          -- constructed, not inside `set_status`
  | blk (rest : List Stmt) (st : Nat)   -- inside `set_status(st)`, elected: statements left
  deriving DecidableEq, Repr

structure Actor where
  name : Option Nat := none
  remote : Bool := false
  status : Nat := 0
  pc : Pc := .none
  deriving DecidableEq, Repr

def upd {α : Type} (f : Nat → α) (i : Nat) (v : α) : Nat → α := fun x => if x = i then v else f x

structure State where
  act : Nat → Actor := fun _ => {}
  /-- the name table: a DashMap, at most one value per key -/
  names : Nat → Option Nat := fun _ => none
  pids : Nat → Bool := fun _ => false
  mons : Nat → Bool := fun _ => false
  /-- (listener, `true` = Spawn / `false` = Terminate, actor), oldest first -/
  log : List (Nat × Bool × Nat) := []
  /-- ids below `n` have been used (so that "the listeners at that instant" is a finite list) -/
  n : Nat := 0

def init : State := {}

inductive Op
  | new (a : Nat) (name : Option Nat)
  | newRemote (a : Nat) (name : Option Nat)
  | regName (a : Nat)
  | regPid (a : Nat)
  | regPidFail (a : Nat)
  | rollback (a : Nat)
  | publish (a st : Nat)
  | bstep (a : Nat)
  | monitor (m : Nat)
  | demonitor (m : Nat)
  deriving DecidableEq, Repr

/-- the listeners registered right now, in id order -/
def listeners (s : State) : List Nat := (List.range s.n).filter s.mons

def fanout (s : State) (kind : Bool) (a : Nat) : List (Nat × Bool × Nat) :=
  (listeners s).map (fun l => (l, kind, a))

def setPc (s : State) (a : Nat) (pc : Pc) : State := { s with act := upd s.act a { s.act a with pc := pc } }

/-- one statement of the cleanup block, executed by `a`'s thread -/
def exec (s : State) (a : Nat) : Stmt → State
  | .demonitor => { s with mons := upd s.mons a false }
  | .unregPid =>
    if !(s.act a).remote && s.pids a then { s with pids := upd s.pids a false, log := s.log ++ fanout s false a }
    else s
  | .unregName =>
    match (s.act a).name with
    | some n => if !(s.act a).remote then { s with names := upd s.names n none } else s
    | none => s

def step (s : State) : Op → State
  | .new a name =>
    if (s.act a).pc = .none then
      { s with act := upd s.act a { name := name, pc := if name.isSome then .consName else .consPid },
               n := max s.n (a + 1) }
    else s
  | .newRemote a name =>
    if (s.act a).pc = .none then
      { s with act := upd s.act a { name := name, remote := true, pc := .live }, n := max s.n (a + 1) }
    else s
  | .regName a =>
    match (s.act a).pc, (s.act a).name with
    | .consName, some n =>
      if s.names n = none then setPc { s with names := upd s.names n (some a) } a .consPid
      else setPc s a .failed        -- `AlreadyRegistered`: nothing else changes
    | _, _ => s
  | .regPid a =>
    if (s.act a).pc = .consPid then
      setPc { s with pids := upd s.pids a true, log := s.log ++ fanout s true a } a .live
    else s
  | .regPidFail a =>
    if (s.act a).pc = .consPid then
      setPc s a (if (s.act a).name.isSome then .consRollback else .failed)
    else s
  | .rollback a =>
    match (s.act a).pc, (s.act a).name with
    | .consRollback, some n => setPc { s with names := upd s.names n none } a .failed
    | _, _ => s
  | .publish a st =>
    if (s.act a).pc = .live ∧ st ≤ stopped then
      let x := s.act a
      let x' : Actor := { x with status := max x.status st,
                                 pc := if stopping ≤ st ∧ x.status < stopping then .blk blockProg st else .live }
      { s with act := upd s.act a x' }
    else s
  | .bstep a =>
    match (s.act a).pc with
    | .blk (stmt :: rest) st => setPc (exec s a stmt) a (.blk rest st)
    | .blk [] _ => setPc s a .live
    | _ => s
  | .monitor m => { s with mons := upd s.mons m true, n := max s.n (m + 1) }
  | .demonitor m => { s with mons := upd s.mons m false }

def run (s : State) (ops : List Op) : State := ops.foldl step s

/-- the caller-order hypothesis: `set_status(Stopped)` is only ever called on an actor whose
`set_status(Stopping)` has returned (same thread, synchronous) -/
def ordered (s : State) : Op → Bool
  | .publish a st => decide (st = stopped → stopping ≤ (s.act a).status)
  | _ => true

def Ordered : State → List Op → Bool
  | _, [] => true
  | s, op :: ops => ordered s op && Ordered (step s op) ops

/-- the name entry of `a` is in the table: from the insert to its own removal -/
def holds (x : Actor) : Bool :=
  !x.remote && x.name.isSome &&
  match x.pc with
  | .consPid | .consRollback => true
  | .live => decide (x.status < stopping)
  | .blk rest _ => rest.contains .unregName
  | _ => false

/-- `a` is in the pid table: from `register_pid` to its own `unregister_pid` -/
def pidHeld (x : Actor) : Bool :=
  !x.remote &&
  match x.pc with
  | .live => decide (x.status < stopping)
  | .blk rest _ => rest.contains .unregPid
  | _ => false

/-- `register_pid` has succeeded for `a` at some point -/
def spawned (x : Actor) : Bool :=
  !x.remote && match x.pc with | .live | .blk _ _ => true | _ => false

/-- `unregister_pid` has removed `a` -/
def terminated (x : Actor) : Bool := spawned x && !pidHeld x

/-! ### the observations of the cluster harness (`regmon.rs`), API level -/

def whereIs (s : State) (n : Nat) : Option Nat := s.names n
def whereIsPid (s : State) (a : Nat) : Option Nat := if s.pids a then some a else none
def allPids (s : State) : List Nat := (List.range s.n).filter s.pids

end Reg2
