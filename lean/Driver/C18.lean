import RactorModel.Model.Election
import RactorModel.Model.Handshake
import RactorModel.Model.Listener
import Driver.Common

/-! Driver for the `Election` model (C18).

ops (written by the harness after executing them on the real code):
  `elect <this> <peer> <id:srv:nonce,…|->`          → elected ids in order
  `world <nameA> <nameB> <aInit:nonce:idA:idB,…>`    → `<electA> | <electB>` (impl: the two real calls)
  `ns <thisName>`                                    → `ok`           (fresh NodeServerState)
  `open <srv> <pid>`                                 → `ok`
  `register <pid> <peer> <nonce>`                    → `true|false`
  `checkc <pid>` / `checks <peer> <nonce>`           → reply
  `commit <pid>`                                     → `none` | `<survives> <losers sorted>`
  `elected <pid>`                                    → `true|false`
  `close <pid>`                                      → `ok`
  `visible`                                          → sorted pids GetSessions would list
  `hs <nameA> <nameB> <aInit:nonce:idA:idB,…>`        → `ok`   (two NodeServerStates, `Model/Handshake.lean`)
  `hauthA|hauthB|hpreA|hpreB|hseeA|hseeB <id>`, `hend` → `OA[open] OB[open] VA[listed] VB[listed]`
  `lsn <a|b> acc=<c…|-> dial=<c…|-> refused=<n>`     → `errs=<n> server=<c…|-> client=<c…|->`
      (real TCP engine, `Model/Listener.lean`: connections made to that node's real listener, connections it
      dialled with `client_connect` returning Ok, connects to a dead port; impl: how many of those returned
      Err, and the sessions the node opened (`node_session_opened`) with is_server true / false, in order)
-/

namespace Driver.C18
open Election Driver

def parseCand? (s : String) : Option Cand :=
  match splitOnChar s ':' with
  | [i, sv, n] => do
    let i ← i.toNat?; let sv ← parseBool? sv; let n ← n.toNat?
    pure ⟨i, sv, if n == 0 then none else some n⟩
  | _ => none

def parseCands? (s : String) : Option (List Cand) :=
  if s == "-" then some [] else (splitOnChar s ',').mapM parseCand?

def parseConn? (s : String) : Option Conn :=
  match splitOnChar s ':' with
  | [a, n, ia, ib] => do
    let a ← parseBool? a; let n ← n.toNat?; let ia ← ia.toNat?; let ib ← ib.toNat?
    pure ⟨a, n, ia, ib⟩
  | _ => none

def showReply : Reply → String
  | .noOther => "noOther" | .thisContinues => "thisContinues"
  | .otherContinues => "otherContinues" | .duplicate => "duplicate"

def sortNats (l : List Nat) : List Nat := (l.toArray.qsort (· < ·)).toList

def parseWorldImpl? (s : String) : Option (List Nat × List Nat) :=
  match s.splitOn " | " with
  | [a, b] => do pure (← natList? a.trimAscii.toString, ← natList? b.trimAscii.toString)
  | _ => none

/-- Driver state: the model state plus the pids the IMPLEMENTATION reported as ready
(`is_elected = true`) since the last state-changing op. -/
structure DS where
  ns : NS
  readyImpl : List Nat := []
  /-- sessions whose exit / failure the NodeServer's supervision handler has processed -/
  closed : List Nat := []
  hsO : Ordering := .lt
  hsCs : List Conn := []
  hsW : List Link := []
  /-- some end of a connection went away for a reason outside the election (`hfailA`/`hfailB`) -/
  hsFailed : Bool := false

def hsObs (w : List Link) : String :=
  let f (l : List Nat) := showNats (sortNats l)
  s!"OA[{f ((w.filter (·.openA)).map (·.c.idA))}] OB[{f ((w.filter (·.openB)).map (·.c.idB))}] " ++
  s!"VA[{f ((w.filter (fun l => l.openA && l.authA)).map (·.c.idA))}] VB[{f ((w.filter (fun l => l.openB && l.authB)).map (·.c.idB))}]"

def betweenBr (s tag : String) : Option (List Nat) :=
  match s.splitOn (tag ++ "[") with
  | [_, rest] => match rest.splitOn "]" with
    | x :: _ => natList? x
    | [] => none
  | _ => none

/-- the connection(s) both full elections keep: by `C18.agreement` exactly the acceptor's choice -/
def hsWinners (o : Ordering) (cs : List Conn) : List Conn :=
  let eA := electA o cs; let eB := electB o cs
  cs.filter (fun c => eA.contains c.idA && eB.contains c.idB)

/-- oracle on the implementation's observation: the winner is open on both nodes; at the end
both nodes hold exactly the winner -/
def hsJudge (o : Ordering) (cs : List Conn) (impl : String) (atEnd : Bool) (failed : Bool := false) : List String :=
  match betweenBr impl "OA", betweenBr impl "OB" with
  | some oa, some ob =>
    -- with ends failing the winner may be gone (`C18.with_failures_never_two_links`): at rest both
    -- nodes hold the same connections and at most one
    if failed then
      (if !atEnd then [] else
        match oa, ob with
        | [], [] => []
        | [x], [y] => if cs.any (fun c => c.idA == x && c.idB == y) then [] else ["hs-two-links-or-different-links"]
        | _, _ => ["hs-two-links-or-different-links"])
    else
    let ws := hsWinners o cs
    (if ws.all (fun c => oa.contains c.idA && ob.contains c.idB) then [] else ["hs-winner-closed"]) ++
    (if !atEnd then [] else
      match oa, ob with
      | [x], [y] => if cs.any (fun c => c.idA == x && c.idB == y) then [] else ["hs-not-one-same-link"]
      | _, _ => ["hs-not-one-same-link"])
  | _, _ => ["unparsable"]

def hsOp? (k : String) (id : Nat) : Option HOp :=
  match k with
  | "hauthA" => some (.authA id) | "hauthB" => some (.authB id)
  | "hpreA" => some (.preA id) | "hpreB" => some (.preB id)
  | "hseeA" => some (.seeA id) | "hseeB" => some (.seeB id)
  | _ => none

def stepHs (ds : DS) (op impl : String) : Option (DS × StepOut) :=
  match words op with
  | ["hs", nameA, nameB, cs] =>
    match (splitOnChar cs ',').mapM parseConn? with
    | some cs =>
      some ({ ds with hsO := nameOrd nameB nameA, hsCs := cs, hsW := hsInit cs, hsFailed := false }, { model := "ok" })
    | none => some (ds, { model := "bad-op" })
  | ["hdial", c] =>
    -- a late dial (`FOp.dial`): a fresh link; the election winner is from now on the winner over
    -- the larger set (`C18.late_dials_converge`)
    match parseConn? c with
    | some c =>
      let w' := fStep ds.hsO ds.hsW (.dial c)
      let cs' := ds.hsCs ++ [c]
      let orc := hsJudge ds.hsO cs' impl false ds.hsFailed
      some ({ ds with hsCs := cs', hsW := w' }, { model := hsObs w', oracle := orc, nontrivial := true })
    | none => some (ds, { model := "bad-op" })
  | ["hfailA", id] | ["hfailB", id] =>
    match id.toNat? with
    | some id =>
      let isA := (words op).head? == some "hfailA"
      let w' := fStep ds.hsO ds.hsW (if isA then .failA id else .failB id)
      some ({ ds with hsW := w', hsFailed := true }, { model := hsObs w', oracle := hsJudge ds.hsO ds.hsCs impl false true, nontrivial := w' != ds.hsW })
    | none => some (ds, { model := "bad-op" })
  | ["hend"] =>
    let orc := hsJudge ds.hsO ds.hsCs impl true ds.hsFailed
    let out : StepOut := { model := hsObs ds.hsW, oracle := orc, nontrivial := decide (ds.hsCs.length > 1) }
    some (ds, out)
  | [k, id] =>
    match id.toNat? with
    | some id =>
      if k == "hpsA" || k == "hpsB" then
        -- the pre-check through `check_session` (`stepPreSA` / `stepPreSB`)
        let w' := if k == "hpsA" then stepPreSA ds.hsO ds.hsW id else stepPreSB ds.hsO ds.hsW id
        let orc := hsJudge ds.hsO ds.hsCs impl false ds.hsFailed
        some ({ ds with hsW := w' }, { model := hsObs w', oracle := orc, nontrivial := w' != ds.hsW })
      else
      match hsOp? k id with
      | some hop =>
        let w' := hsStep ds.hsO ds.hsW hop
        let changed : Bool := w' != ds.hsW
        let orc := hsJudge ds.hsO ds.hsCs impl false ds.hsFailed
        let out : StepOut := { model := hsObs w', oracle := orc, nontrivial := changed }
        some ({ ds with hsW := w' }, out)
      | none => none
    | none => none
  | _ => none

/-- oracle: among sessions the implementation reports ready at one instant, at most one
per peer is server-side (accepting node keeps exactly one; `commit_leaves_elected_set`). -/
def readyOk (st : NS) (ready : List Nat) : Bool :=
  let rs := st.sessions.filter (fun s => ready.contains s.id && s.isServer)
  rs.all (fun a => rs.all (fun b => a.id == b.id || a.peerName != b.peerName || a.peerName == some st.thisName))

def stepNS (st : NS) (op impl : String) : NS × StepOut :=
  match words op with
  | ["elect", this, peer, cs] =>
    match parseCands? cs with
    | some cs =>
      let r := elect (nameOrd peer this) cs
      -- oracle on the implementation's answer: only candidates, never empty for non-empty input
      let orc := match natList? impl with
        | some e =>
          (if e.all (fun i => cs.any (·.id == i)) then [] else ["elected-not-a-candidate"]) ++
          (if cs.isEmpty || !e.isEmpty then [] else ["elected-empty"])
        | none => ["unparsable"]
      (st, { model := showNats r, oracle := orc,
             nontrivial := decide (cs.length > 1) && cs.any (·.isServer) && cs.any (fun c => !c.isServer) })
    | none => (st, { model := "bad-op" })
  | ["world", nameA, nameB, cs] =>
    match (splitOnChar cs ',').mapM parseConn? with
    | some cs =>
      let o := nameOrd nameB nameA
      let eA := electA o cs; let eB := electB o cs
      let orc := match parseWorldImpl? impl with
        | some (iA, iB) => if worldOk cs iA iB then [] else ["two-node-agreement"]
        | none => ["unparsable"]
      (st, { model := s!"{showNats eA} | {showNats eB}", oracle := orc, nontrivial := decide (cs.length > 1) })
    | none => (st, { model := "bad-op" })
  | ["e2e", nameA, nameB, _k, dirs] =>
    -- outcome-only op: the nonces are drawn by the implementation, so the model does not
    -- predict WHICH same-direction duplicate survives; the oracle judges the outcome.
    let ds := dirs.toList.map (· == 'a')
    let parseIdx (s : String) : Option (List Nat) :=
      if s == "-" then some [] else (splitOnChar s ',').mapM (fun x => (x.drop 1).toString.toNat?)
    let (orc, dirOk) := match impl.splitOn "|" with
      | [ka, kb, ra, rb, rawA, rawB] =>
        match parseIdx ka, parseIdx kb, parseIdx ra, parseIdx rb, parseIdx rawA, parseIdx rawB with
        | some ka, some kb, some ra, some rb, some rawA, some rawB =>
          -- `ra`/`rb`: ready events of the sessions still listed, NOT de-duplicated (a session reported
          -- twice fails `e2eOk`); `rawA`/`rawB`: every ready event in order: each session at most once,
          -- only sessions of this world, and the kept one was reported
          ((if e2eOk ds.length ka kb ra rb then [] else ["e2e-not-one-same-link"]) ++
           (if rawA.eraseDups.length == rawA.length && rawB.eraseDups.length == rawB.length &&
               (rawA ++ rawB).all (· < ds.length) then [] else ["ready-reported-twice"]),
           e2eDirectionAsModel (nameOrd nameB nameA) ds ka)
        | _, _, _, _, _, _ => (["unparsable"], true)
      | _ => (["unparsable"], true)
    (st, { model := if dirOk then impl else "model: survivor must be a dial of the node whose name sorts last",
           oracle := orc, nontrivial := decide (ds.length > 1) })
  | ["lsn", _node, acc, dial, refused] =>
    -- the real accept loop / client connect against `Model/Listener.lean`: run the model on the events
    -- the harness caused and compare the sessions it predicts with the ones the node opened
    let parseIdx (s : String) : Option (List Nat) :=
      if s == "-" then some [] else (splitOnChar s ',').mapM (fun x => (x.drop 1).toString.toNat?)
    let fld (k : String) (l : String) : Option String :=
      (words l).findSome? fun w => if w.startsWith (k ++ "=") then some (w.drop (k.length + 1)).toString else none
    let f (l : List Nat) := if l.isEmpty then "-" else ",".intercalate (l.map (fun i => s!"c{i}"))
    match (fld "acc" (acc ++ " " ++ dial ++ " " ++ refused)).bind parseIdx,
          (fld "dial" (acc ++ " " ++ dial ++ " " ++ refused)).bind parseIdx,
          (fld "refused" (acc ++ " " ++ dial ++ " " ++ refused)).bind String.toNat? with
    | some acc, some dial, some refused =>
      -- model: one accept / connect event per connection in index order, the refused connects, then drain;
      -- ghost connection numbers are positions in that order
      let order := (acc ++ dial).mergeSort (· ≤ ·)
      let evs : List Listener.Ev := order.map (fun i => if acc.contains i then .accept .ok else .connect .ok) ++
        List.replicate refused (.connect .refused)
      let m := Listener.drain (Listener.run {} evs)
      let back (l : List Nat) : List Nat := l.filterMap (fun j => order[j]?)
      let mSrv := back (Listener.serverSessions m)
      let mCli := back (Listener.clientSessions m)
      let orc := match (fld "errs" impl).bind String.toNat?, (fld "server" impl).bind parseIdx, (fld "client" impl).bind parseIdx with
        | some errs, some srv, some cli =>
          (if Listener.ok acc.length dial.length refused errs srv.length cli.length then [] else ["listener-sessions-differ-from-connections"]) ++
          (if srv.mergeSort (· ≤ ·) == acc.mergeSort (· ≤ ·) then [] else ["accepted-connection-without-exactly-one-server-session"]) ++
          (if cli.mergeSort (· ≤ ·) == dial.mergeSort (· ≤ ·) then [] else ["dialled-connection-without-exactly-one-client-session"]) ++
          (if errs == refused then [] else ["refused-connect-not-reported"])
        | _, _, _ => ["unparsable"]
      (st, { model := s!"errs={m.connectErrs} server={f (mSrv.mergeSort (· ≤ ·))} client={f (mCli.mergeSort (· ≤ ·))}",
             oracle := orc, nontrivial := decide (acc.length + dial.length > 1) })
    | _, _, _ => (st, { model := "bad-op" })
  | ["e2r", _nameA, _nameB, d1, d2, _by] =>
    -- session death, cleanup and re-election on reconnection (real handlers): k1 connections converge;
    -- the link's session dies on one node => at rest nobody lists anything of it; k2 fresh dials
    -- converge on one of the NEW connections; every closed session was reported disconnected once
    let k1 := d1.length; let k2 := d2.length
    let parseIdx (s : String) : Option (List Nat) :=
      if s == "-" then some [] else (splitOnChar s ',').mapM (fun x => (x.drop 1).toString.toNat?)
    let two (s : String) : Option (List Nat × List Nat) := match s.splitOn "|" with
      | [x, y] => do pure (← parseIdx x, ← parseIdx y)
      | _ => none
    let orc := match words impl with
      | [p1, p2, p3] =>
        match two p1, two p2, p3.splitOn "|" with
        | some (a1, b1), some (a2, b2), [ka, kb, ra, rb, da, db] =>
          match parseIdx ka, parseIdx kb, parseIdx ra, parseIdx rb, parseIdx da, parseIdx db with
          | some ka, some kb, some ra, some rb, some da, some db =>
            (if e2eOk k1 a1 b1 a1 b1 then [] else ["e2e-not-one-same-link"]) ++
            (if a2.isEmpty && b2.isEmpty then [] else ["e2e-dead-session-still-listed"]) ++
            (if e2eOk (k1 + k2) ka kb ra rb && ka.all (· ≥ k1) then [] else ["e2e-no-re-election-after-reconnect"]) ++
            (let expect := (List.range (k1 + k2)).filter (fun i => !ka.contains i)
             if da == expect && db == expect then [] else ["e2e-disconnect-not-reported-once"])
          | _, _, _, _, _, _ => ["unparsable"]
        | _, _, _ => ["unparsable"]
      | _ => ["unparsable"]
    (st, { model := impl, oracle := orc, nontrivial := true })
  | ["e2t", nameA, nameB, adv, c1] =>
    -- the election's own deadline (`CheckSession`, 500 ms): c0 dialled by B is up and ready, A dials
    -- c1, A's NodeServer is not scheduled while the clock advances by `adv` ms. Whatever `adv`: both
    -- nodes must end with one and the same link — the one both full elections keep — and every
    -- session is reported ready at most once.
    let o := nameOrd nameB nameA
    let c1ByA := c1 == "c1=a"
    let cs : List Conn := [⟨false, 1, 0, 0⟩, ⟨c1ByA, 2, 1, 1⟩]
    let w := (electA o cs).filter (fun i => (electB o cs).contains i)
    let f (l : List Nat) := if l.isEmpty then "-" else ",".intercalate (l.map (fun i => s!"c{i}"))
    let parseIdx (s : String) : Option (List Nat) :=
      if s == "-" then some [] else (splitOnChar s ',').mapM (fun x => (x.drop 1).toString.toNat?)
    let orc := match words impl with
      | [_, after] =>
        match after.splitOn "|" with
        | [ka, kb, ra, rb] =>
          match parseIdx ka, parseIdx kb, parseIdx ra, parseIdx rb with
          | some ka, some kb, some ra, some rb =>
            (if ka.isEmpty && kb.isEmpty then ["e2e-no-link-after-check-timeout"]
             else if e2eOk 2 ka kb (ra.filter ka.contains) (rb.filter kb.contains) then [] else ["e2e-not-one-same-link"]) ++
            (if ra.eraseDups.length == ra.length && rb.eraseDups.length == rb.length then [] else ["ready-reported-twice"])
          | _, _, _, _ => ["unparsable"]
        | _ => ["unparsable"]
      | _ => ["unparsable"]
    let _ := adv
    -- c1 dialled by B: same direction as c0, the real nonces decide (and a pre-authentication
    -- deadline miss on A closes c1 only): outcome judged by the oracle, not predicted
    (st, { model := if c1ByA then s!"c0/c0 {f w}|{f w}|c0,c1|c0,c1" else impl, oracle := orc, nontrivial := true })
  | "ni" :: what :: _ =>
    -- paired non-interference experiment (theorems `unauthenticated_cannot_influence_*`):
    -- the implementation's answer with an unauthenticated name-spoofing session present
    -- must equal its answer without it.
    if what == "begin" then (st, { model := "ok" }) else
    let orc := match impl.splitOn " | " with
      | [a, b] =>
        if a == b then []
        -- `check_session` (theorem `unauthenticated_can_only_let_continue`): a spoofer sharing
        -- (name, nonce) may turn the reply into `noOther`, never into one that stops the asker
        else if what == "checks" && a == "noOther" then []
        else ["unauthenticated-session-influenced-" ++ what]
      | _ => ["unparsable"]
    (st, { model := impl, oracle := orc, nontrivial := what == "commit" })
  | ["ns", this] => ({ thisName := this, sessions := [] }, { model := "ok" })
  | ["open", srv, pid] =>
    match parseBool? srv, pid.toNat? with
    | some srv, some pid =>
      (st.opened pid srv, { model := "ok" })
    | _, _ => (st, { model := "bad-op" })
  | ["register", pid, peer, nonce] =>
    match pid.toNat?, nonce.toNat? with
    | some pid, some nonce =>
      let (st', b) := st.register pid peer nonce
      (st', { model := toString b })
    | _, _ => (st, { model := "bad-op" })
  | ["checkc", pid] =>
    match pid.toNat? with
    | some pid => (st, { model := showReply (st.checkCandidate pid), nontrivial := true })
    | none => (st, { model := "bad-op" })
  | ["checks", peer, nonce] =>
    match nonce.toNat? with
    | some nonce => (st, { model := showReply (st.checkSession peer nonce), nontrivial := true })
    | none => (st, { model := "bad-op" })
  | ["commit", pid] =>
    match pid.toNat? with
    | some pid =>
      match st.commit pid with
      | none => (st, { model := "none" })
      | some (st', surv, losers) =>
        -- oracle: at most one authenticated+elected *server-side* session per peer afterwards
        (st', { model := s!"{surv} {showNats (sortNats losers)}", nontrivial := !losers.isEmpty })
    | none => (st, { model := "bad-op" })
  | ["elected", pid] =>
    match pid.toNat? with
    | some pid => (st, { model := toString (st.isElected pid) })
    | none => (st, { model := "bad-op" })
  | ["postauth", pid] =>
    -- what the session does right after authenticating: is it elected, and what does its
    -- own CheckSession answer (it stops itself unless the answer lets it continue)
    match pid.toNat? with
    | some pid =>
      let m := match st.postAuthReply pid with
        | some r => s!"{st.isElected pid} {showReply r}"
        | none => "none"
      let orc := match words impl with
        | ["true", r] => if r == "noOther" || r == "thisContinues" then [] else ["elected-session-told-to-stop"]
        | _ => []
      (st, { model := m, oracle := orc, nontrivial := true })
    | none => (st, { model := "bad-op" })
  | ["close", pid] | ["closef", pid] =>
    -- exit / failure of a session: the real supervision handler of the NodeServer
    match pid.toNat? with
    | some pid => (st.close pid, { model := if (st.find pid).isSome then "ok" else impl,
                                   nontrivial := (st.find pid).isSome })
    | none => (st, { model := "bad-op" })
  | ["residue"] =>
    let (a, b, c) := st.residue
    (st, { model := s!"ns={showNats (sortNats a)} ids={showNats (sortNats b)} auth={showNats (sortNats c)}" })
  | ["fresh", pid, peer, nonce] =>
    -- a (re)connecting session: register, check_candidate, commit_authenticated, is_elected and
    -- its own CheckSession
    match pid.toNat?, nonce.toNat? with
    | some pid, some nonce =>
      let alone := (st.sessionsOf peer).all (· == pid)
      let (st1, r) := st.register pid peer nonce
      let c := st1.checkCandidate pid
      let (st2, commit) := match st1.commit pid with
        | none => (st1, "none")
        | some (st2, s, l) => (st2, s!"{s} {showNats (sortNats l)}")
      let post := match st2.postAuthReply pid with
        | some rep => s!"{st2.isElected pid} {showReply rep}"
        | none => "false noOther"
      -- oracle (theorem `reconnection_is_accepted_afresh`): no other session claims this peer,
      -- so the session must be told there is no other connection, survive its own commit with
      -- no losers, be elected and continue
      let orc := if alone && r && impl != "true | noOther | true - | true noOther" then ["reconnection-not-accepted-afresh"] else []
      (st2, { model := s!"{r} | {showReply c} | {commit} | {post}", oracle := orc, nontrivial := true })
    | _, _ => (st, { model := "bad-op" })
  | ["visible"] =>
    (st, { model := showNats (sortNats st.listed) })
  | _ => (st, { model := "bad-op" })

def step (ds : DS) (op impl : String) : DS × StepOut :=
  match stepHs ds op impl with
  | some r => r
  | none =>
  let (ns', out) := stepNS ds.ns op impl
  match words op with
  | ["elected", pid] =>
    let ready := if impl == "true" then (pid.toNat?.map (· :: ds.readyImpl)).getD ds.readyImpl else ds.readyImpl
    let orc := if readyOk ns' ready then [] else ["two-ready-sessions-for-one-peer-on-acceptor"]
    ({ ns := ns', readyImpl := ready }, { out with oracle := out.oracle ++ orc })
  | ["close", pid] | ["closef", pid] =>
    ({ ds with ns := ns', readyImpl := [], closed := (pid.toNat?.map (· :: ds.closed)).getD ds.closed }, out)
  | ["residue"] =>
    -- on the implementation's own answer: nothing of a closed session is left in node_sessions,
    -- connection_ids or authenticated_sessions
    let fld := fun (k : String) => ((words impl).findSome? fun w =>
      if w.startsWith (k ++ "=") then natList? (w.drop (k.length + 1)).toString else none).getD []
    let orc := if residueOk ds.closed (fld "ns") (fld "ids") (fld "auth") then [] else ["closed-session-left-residue"]
    ({ ds with ns := ns' }, { out with oracle := out.oracle ++ orc, nontrivial := !ds.closed.isEmpty })
  | "fresh" :: _ => ({ ds with ns := ns' }, out)
  | "visible" :: _ | "checkc" :: _ | "checks" :: _ | "elect" :: _ | "world" :: _ | "e2e" :: _ | "e2t" :: _ | "e2r" :: _ | "lsn" :: _ | "ni" :: _ | "postauth" :: _ => ({ ds with ns := ns' }, out)
  | ["ns", _] => ({ ns := ns', readyImpl := [], closed := [] }, out)
  | _ => ({ ds with ns := ns', readyImpl := [] }, out)

def run (ops impl : Array String) : IO Tally :=
  replay ({ ns := { thisName := "", sessions := [] } } : DS) step ops impl

end Driver.C18
