/-
Model for the "requests before the actor has started" part of C07 (and of C02's "accepted ⇒
handled"): `spawn_instant` hands out the `ActorRef` while the cell is still `Unstarted` — the
start task has not been polled. Casts, `drain()`, `stop()` and `kill()` can already be issued.

Code (`actor_properties.rs`, `actor.rs`):
* `send_message`: refused once admission is closed (`drain` called) or the ports are gone (the
  actor stopped); otherwise the message is queued — an unstarted actor just accumulates them;
* `drain()`: closes admission; raises the status to `Draining` unless the actor is `Unstarted`
  (it must stay startable: `start` refuses anything but `Unstarted`) or already ≥ `Stopping`;
  enqueues the drain marker once (no sender is in flight at a quiescent point). On a stopped
  actor the marker cannot be enqueued: the first such call reports `Err`;
* `stop()` / `kill()`: one-shot ports; the requests wait there until the actor's task polls them;
* start task: `start` → `pre_start` under `run_with_signal` (a pending kill wins: "Actor killed
  during startup") → link → loop task: `post_start`, then by priority kill > stop > supervision
  > messages: a pending stop ends the actor before any queued message; otherwise the backlog is
  handled in order and the drain marker, reached after it, ends the actor with reason "Drained".

One actor; granularity: API calls at quiescent points (`poll` = the start task and then the
actor run until idle). Round 4: the start can be split at `pre_start`'s await point — `enter`
runs the start task until `pre_start` is suspended (status `Starting`), requests arrive in that
window (a cast is queued; `drain()` closes admission, LIFTS the status to `Draining` — only
`Unstarted` is exempt — and queues the marker; a stop waits in its port; a kill is seen at once by
`run_with_signal` and fails the start), then `poll ok|err` lets `pre_start` return. After the
return `start` links the actor to its supervisor with `SupervisionTree::link_starting`, which
accepts a child that a drain lifted to `Draining` (fix of round 4: before it the link was
refused, the start failed with "Supervisor is shutting down" and the accepted casts were
dropped), so the outcome no longer depends on whether the spawn is linked. The interleavings
below this granularity are the subject of `Model/EarlyStep.lean`. Import-free.
-/

namespace Early

inductive Phase | unstarted | starting | running | stopped
  deriving Repr, DecidableEq

inductive Op
  | cast | drain | stop | kill
  | poll (ok : Bool)          -- the start task runs (on); `ok` = what pre_start returns
  | enter                     -- the start task runs until pre_start is suspended at its await point
  deriving Repr, DecidableEq

structure S where
  phase : Phase := .unstarted
  closed : Bool := false            -- admission closed
  markerSent : Bool := false        -- DRAIN_MARKER_SENT
  marker : Bool := false            -- a drain marker sits in the mailbox (behind `queue`)
  queue : List Nat := []            -- accepted, not yet handled
  stopReq : Bool := false
  killReq : Bool := false
  handled : List Nat := []
  accepted : List Nat := []         -- ghost: ids whose send returned Ok
  refusedAfterDrain : Bool := true  -- ghost: every cast issued after a drain returned was refused
  drainCalled : Bool := false       -- ghost
  reason : Option String := none    -- exit reason as the supervisor sees it
  startResult : Option String := none
  joined : Bool := false            -- the harness has read the start's result
  lifted : Bool := false            -- a drain found the actor `Starting` and published `Draining`
  next : Nat := 0
  deriving Repr

/-- `pre_start` returns `ok` (a still pending kill wins), then link, loop task, backlog; the
harness reads the start's result. -/
def finishStart (s : S) (ok : Bool) : S × String :=
  let s := { s with joined := true }
  if s.killReq || !ok then
    -- killed during start-up / pre_start failed: no running actor, no supervision event
    ({ s with phase := .stopped, queue := [], marker := false, startResult := some "err:startup-failed" },
     "start=err:startup-failed")
  else if s.stopReq then
    -- the stop request outranks every queued message
    ({ s with phase := .stopped, queue := [], marker := false, reason := some "T:none", startResult := some "ok" },
     "start=ok")
  else
    let s := { s with handled := s.handled ++ s.queue, queue := [], startResult := some "ok" }
    if s.marker then
      ({ s with phase := .stopped, marker := false, reason := some "T:Drained" }, "start=ok")
    else ({ s with phase := .running }, "start=ok")

/-- result string of the op and the new state -/
def step (s : S) : Op → S × String
  | .cast =>
    let id := s.next
    let s := { s with next := s.next + 1 }
    if s.closed || s.phase == .stopped then
      (s, "err")
    else
      let s := { s with accepted := s.accepted ++ [id],
                        refusedAfterDrain := s.refusedAfterDrain && !s.drainCalled }
      match s.phase with
      | .running => ({ s with handled := s.handled ++ [id] }, "ok")   -- handled at once
      | _ => ({ s with queue := s.queue ++ [id] }, "ok")
  | .drain =>
    let s := { s with closed := true, drainCalled := true }
    match s.phase with
    | .starting =>
      let s := { s with lifted := true }
      if s.markerSent then (s, "ok") else ({ s with markerSent := true, marker := true }, "ok")
    | .stopped =>
      if s.markerSent then (s, "ok") else ({ s with markerSent := true }, "err")
    | .running =>
      -- the marker is reached at once: the backlog is empty at a quiescent point
      if s.markerSent then (s, "ok")
      else ({ s with markerSent := true, phase := .stopped, reason := some "T:Drained" }, "ok")
    | .unstarted =>
      if s.markerSent then (s, "ok") else ({ s with markerSent := true, marker := true }, "ok")
  | .stop =>
    match s.phase with
    | .unstarted => ({ s with stopReq := true }, "ok")
    | .starting => ({ s with stopReq := true }, "ok")
    | .running => ({ s with phase := .stopped, reason := some "T:none" }, "ok")
    | .stopped => (s, "ok")
  | .kill =>
    match s.phase with
    | .unstarted => ({ s with killReq := true }, "ok")
    | .starting =>
      -- `run_with_signal(pre_start)` sees the kill at once: "Actor killed during startup"
      ({ s with phase := .stopped, queue := [], marker := false, killReq := true,
                startResult := some "err:startup-failed" }, "ok")
    | .running => ({ s with phase := .stopped, reason := some "T:killed" }, "ok")
    | .stopped => (s, "ok")
  | .enter =>
    match s.phase with
    | .unstarted =>
      if s.killReq then
        -- the pending kill wins the (biased) select before pre_start is polled
        ({ s with phase := .stopped, queue := [], marker := false, startResult := some "err:startup-failed" },
         "start-over")
      else ({ s with phase := .starting }, "entered")
    | _ => (s, "enter=already")
  | .poll ok =>
    match s.phase with
    | .unstarted => finishStart s ok
    | .starting => finishStart s ok
    | _ =>
      if s.joined then (s, "start=already")
      else ({ s with joined := true }, "start=" ++ s.startResult.getD "?")

def run (ops : List Op) : S := ops.foldl (fun s op => (step s op).1) {}

/-- nothing but casts, drains and a successful start: no stop, kill or failure intervenes -/
def undisturbed (ops : List Op) : Bool :=
  ops.all (fun op => match op with | .cast => true | .drain => true | .poll ok => ok | .enter => true | _ => false)

def showStatus (s : S) : String :=
  match s.phase with
  | .unstarted => "Unstarted"
  | .starting => if s.lifted then "Draining" else "Starting"
  | .running => "Running"
  | .stopped => "Stopped"

/-- The C07 clause evaluated on one finished history (`accepted` / `handled` / `reason` as
observed): a drain was called, nothing intervened, the actor was started ⇒ everything accepted
was handled, in order, and the actor stopped with reason "Drained" (`linked`: a supervisor
observes the reason). -/
def c07ok (drained undist started linked : Bool) (accepted handled : List Nat) (status : String)
    (reason : String) : Bool :=
  !(drained && undist && started) ||
    (handled == accepted && status == "Stopped" && (!linked || reason == "T:Drained"))

end Early
