-- Root of the `RactorModel` library: every model, lemma and property module.
import RactorModel.Extracted
import RactorModel.Props.C18
import RactorModel.Props.C01
import RactorModel.Props.C03
import RactorModel.Props.C04
