import RactorModel.Model.FactoryOracle

/-! Router arithmetic for C14 (custom hash, round-robin). -/

namespace Factory

theorem rrNext_lt (last n : Nat) (hn : 0 < n) : rrNext last n < n := by
  unfold rrNext; split <;> omega

theorem rrNext_eq_mod (last n : Nat) (hl : last < n) : rrNext last n = (last + 1) % n := by
  unfold rrNext
  split
  · have : last + 1 = n := by omega
    rw [this, Nat.mod_self]
  · rw [Nat.mod_eq_of_lt (by omega)]

/-- the slots chosen for `k` consecutive jobs routed without a hint, starting after `last` -/
def rrSeq (n : Nat) : Nat → Nat → List Nat
  | 0, _ => []
  | k + 1, last => rrNext last n :: rrSeq n k (rrNext last n)

theorem rrSeq_eq (n : Nat) (hn : 0 < n) (k last : Nat) :
    rrSeq n k last = (List.range k).map (fun i => (rrNext last n + i) % n) := by
  induction k generalizing last with
  | zero => rfl
  | succ k ih =>
    have h0 := rrNext_lt last n hn
    rw [rrSeq, ih, List.range_succ_eq_map, List.map_cons, List.map_map]
    congr 1
    · rw [Nat.add_zero, Nat.mod_eq_of_lt h0]
    · apply List.map_congr_left
      intro i _
      simp only [Function.comp]
      rw [rrNext_eq_mod _ n h0, Nat.mod_add_mod]
      congr 1; omega

theorem mod_two (x n : Nat) (h : x < 2 * n) : x % n = if x < n then x else x - n := by
  split
  · exact Nat.mod_eq_of_lt ‹_›
  · rw [Nat.mod_eq_sub_mod (by omega), Nat.mod_eq_of_lt (by omega)]

/-- a rotation `i ↦ (c + i) % n` hits every residue exactly once on `0..n-1` -/
theorem rot_unique (n c w : Nat) (hc : c < n) (hw : w < n) :
    ∃ i, i < n ∧ (c + i) % n = w ∧ ∀ j, j < n → (c + j) % n = w → j = i := by
  refine ⟨if c ≤ w then w - c else w + n - c, ?_, ?_, ?_⟩
  · split <;> omega
  · rw [mod_two _ n (by split <;> omega)]
    split <;> split <;> omega
  · intro j hj hjw
    rw [mod_two _ n (by omega)] at hjw
    split at hjw <;> split <;> omega

end Factory
