import RactorModel.Lemmas.FactoryFrame

/-!
When does a draining factory stop (C13/C15): the stop signal is raised only by `is_drained`, and
`is_drained` answers yes only when EVERY worker slot — also one that a shrink has flagged
draining — is free and the factory queue is empty. Hence over every history `post_stop` is entered
with nothing queued anywhere.
-/

namespace Factory

/-- the stop machinery is untouched -/
structure Ctl (w w' : W) : Prop where
  stopSignal : w'.stopSignal = w.stopSignal
  stopped : w'.stopped = w.stopped
  drain : w'.drain = w.drain
  inbox : w'.inbox = w.inbox

theorem Ctl.refl (w : W) : Ctl w w := ⟨rfl, rfl, rfl, rfl⟩
theorem Ctl.trans {a b c : W} (h1 : Ctl a b) (h2 : Ctl b c) : Ctl a c :=
  ⟨h2.stopSignal.trans h1.stopSignal, h2.stopped.trans h1.stopped, h2.drain.trans h1.drain, h2.inbox.trans h1.inbox⟩

theorem ctl_availChange (w : W) (wid : Nat) (b : Bool) : Ctl w (w.availChange wid b) := by
  unfold W.availChange; split
  · split <;> exact ⟨rfl, rfl, rfl, rfl⟩
  · exact ⟨rfl, rfl, rfl, rfl⟩

theorem ctl_choose (w : W) (j : Job) (hint : Option Nat) : Ctl w (w.chooseTargetWorker j hint).2 := by
  unfold W.chooseTargetWorker
  split
  · split
    · exact ⟨rfl, rfl, rfl, rfl⟩
    · split
      · exact ⟨rfl, rfl, rfl, rfl⟩
      · split <;> exact ⟨rfl, rfl, rfl, rfl⟩
  · split <;> exact ⟨rfl, rfl, rfl, rfl⟩
  · split
    · exact ⟨rfl, rfl, rfl, rfl⟩
    · split
      · exact ⟨rfl, rfl, rfl, rfl⟩
      · split <;> exact ⟨rfl, rfl, rfl, rfl⟩
  · split
    · exact ⟨rfl, rfl, rfl, rfl⟩
    · split <;> exact ⟨rfl, rfl, rfl, rfl⟩
  · split <;> exact ⟨rfl, rfl, rfl, rfl⟩

theorem ctl_routeInner (w : W) (j : Job) (hint : Option Nat) : Ctl w (w.routeInner j hint).2 := by
  unfold W.routeInner
  have hs := ctl_choose w j hint
  cases hc : w.chooseTargetWorker j hint with
  | mk t w1 =>
    rw [hc] at hs
    simp only at hs ⊢
    cases t with
    | none => exact hs
    | some wid =>
      simp only
      cases hg : getW w1.pool wid with
      | none => exact hs
      | some p => exact hs.trans ⟨rfl, rfl, rfl, rfl⟩

theorem ctl_routeLimited (w : W) (j : Job) (hint : Option Nat) : Ctl w (w.routeLimited j hint).2 := by
  unfold W.routeLimited
  split
  · exact ctl_routeInner w j hint
  · rename_i c lb _
    simp only
    have h0 : Ctl w { w with rl := some (c, (LeakyBucket.check c lb w.env.now).1) } := ⟨rfl, rfl, rfl, rfl⟩
    split
    · split
      · split
        · rename_i hh _
          exact h0.trans (ctl_availChange _ hh true)
        · exact h0
      · exact h0
    · have hi := ctl_routeInner { w with rl := some (c, (LeakyBucket.check c lb w.env.now).1) } j hint
      cases hr : W.routeInner { w with rl := some (c, (LeakyBucket.check c lb w.env.now).1) } j hint with
      | mk r w2 =>
        rw [hr] at hi
        simp only at hi ⊢
        split
        · exact h0.trans (hi.trans ⟨rfl, rfl, rfl, rfl⟩)
        · exact h0.trans hi

theorem ctl_routeMessage (w : W) (j : Job) (hint : Option Nat) : Ctl w (w.routeMessage j hint).2 := by
  unfold W.routeMessage
  have hi := ctl_routeLimited w j hint
  cases hr : w.routeLimited j hint with
  | mk r w2 => rw [hr] at hi; exact hi.trans ⟨rfl, rfl, rfl, rfl⟩

theorem ctl_dropExpiredHead (fuel : Nat) (w : W) : Ctl w (W.dropExpiredHead fuel w) := by
  induction fuel generalizing w with
  | zero => exact Ctl.refl w
  | succ fuel ih =>
    unfold W.dropExpiredHead
    split
    · split
      · split
        · refine Ctl.trans ?_ (ih _)
          exact ⟨rfl, rfl, rfl, rfl⟩
        · exact Ctl.refl w
      · exact Ctl.refl w
    · exact Ctl.refl w

theorem ctl_routeLoop (hint : Option Nat) (fuel : Nat) (w : W) : Ctl w (W.routeLoop hint fuel w) := by
  induction fuel generalizing w with
  | zero => exact Ctl.refl w
  | succ fuel ih =>
    unfold W.routeLoop
    split
    · exact Ctl.refl w
    · rename_i j _
      have hs := ctl_choose w j hint
      cases hc : w.chooseTargetWorker j hint with
      | mk t w1 =>
        rw [hc] at hs
        simp only at hs ⊢
        cases t with
        | none => exact hs
        | some worker =>
          simp only
          cases hp : qPopFront w1.cfg w1.queue with
          | none => exact hs
          | some jq =>
            obtain ⟨j', q⟩ := jq
            simp only
            have h1 : Ctl w { w1 with queue := q } := hs.trans ⟨rfl, rfl, rfl, rfl⟩
            have hr := ctl_routeMessage { w1 with queue := q } j' (some worker)
            cases hrm : W.routeMessage { w1 with queue := q } j' (some worker) with
            | mk r w2 =>
              rw [hrm] at hr
              cases r with
              | handled => exact h1.trans hr
              | rateLimited =>
                simp only
                refine (h1.trans hr).trans (Ctl.trans ?_ (ih _))
                exact ⟨rfl, rfl, rfl, rfl⟩
              | backlog =>
                simp only
                exact (h1.trans hr).trans ⟨rfl, rfl, rfl, rfl⟩

theorem ctl_tryRoute (w : W) (hint : Option Nat) : Ctl w (w.tryRouteNextActiveJob hint) := by
  unfold W.tryRouteNextActiveJob
  exact (ctl_dropExpiredHead _ w).trans (ctl_routeLoop _ _ _)

theorem ctl_shedQueueOldest (limit fuel : Nat) (w : W) : Ctl w (W.shedQueueOldest limit fuel w) := by
  induction fuel generalizing w with
  | zero => exact Ctl.refl w
  | succ fuel ih =>
    unfold W.shedQueueOldest
    split
    · split
      · refine Ctl.trans ?_ (ih _)
        exact ⟨rfl, rfl, rfl, rfl⟩
      · exact ih w
    · exact Ctl.refl w

theorem ctl_maybeEnqueue (w : W) (j : Job) : Ctl w (w.maybeEnqueue j) := by
  unfold W.maybeEnqueue
  split
  · split <;> exact ⟨rfl, rfl, rfl, rfl⟩
  · dsimp only
    refine Ctl.trans ?_ (ctl_shedQueueOldest _ _ _)
    exact ⟨rfl, rfl, rfl, rfl⟩
  · exact ⟨rfl, rfl, rfl, rfl⟩

theorem ctl_growOne (w : W) (wid : Nat) : Ctl w (w.growOne wid) := by
  unfold W.growOne
  split
  · dsimp only
    split
    · apply Ctl.trans _ (ctl_availChange _ _ _)
      exact ⟨rfl, rfl, rfl, rfl⟩
    · exact ⟨rfl, rfl, rfl, rfl⟩
  · dsimp only
    apply Ctl.trans _ (ctl_availChange _ _ _)
    exact ⟨rfl, rfl, rfl, rfl⟩

theorem ctl_foldl {f : W → Nat → W} (hf : ∀ w k, Ctl w (f w k)) (l : List Nat) (w : W) : Ctl w (l.foldl f w) := by
  induction l generalizing w with
  | nil => exact Ctl.refl w
  | cons a l ih => exact (hf w a).trans (ih _)

theorem ctl_growPool (w : W) (n : Nat) : Ctl w (w.growPool n) := by
  unfold W.growPool; exact ctl_foldl (fun w k => ctl_growOne w _) _ w

theorem ctl_shrinkOne (w : W) (wid : Nat) : Ctl w (w.shrinkOne wid) := by
  unfold W.shrinkOne
  split
  · split
    · exact ⟨rfl, rfl, rfl, rfl⟩
    · exact (ctl_availChange w wid false).trans ⟨rfl, rfl, rfl, rfl⟩
  · exact Ctl.refl w

theorem ctl_shrinkPool (w : W) (n : Nat) : Ctl w (w.shrinkPool n) := by
  unfold W.shrinkPool; exact ctl_foldl (fun w k => ctl_shrinkOne w _) _ w

theorem ctl_flushAfterGrow (fuel : Nat) (w : W) : Ctl w (W.flushAfterGrow fuel w) := by
  induction fuel generalizing w with
  | zero => exact Ctl.refl w
  | succ fuel ih =>
    unfold W.flushAfterGrow
    simp only
    split
    · exact Ctl.refl w
    · split
      · exact ctl_tryRoute w none
      · exact (ctl_tryRoute w none).trans (ih _)

theorem ctl_resizePool (w : W) (n : Nat) : Ctl w (w.resizePool n) := by
  unfold W.resizePool
  split
  · exact Ctl.refl w
  · simp only
    split
    · apply Ctl.trans _ (ctl_flushAfterGrow _ _)
      exact (ctl_growPool w _).trans ⟨rfl, rfl, rfl, rfl⟩
    · split
      · exact (ctl_shrinkPool w _).trans ⟨rfl, rfl, rfl, rfl⟩
      · exact ⟨rfl, rfl, rfl, rfl⟩

theorem ctl_dispatch (w : W) (j : Job) : Ctl w (w.dispatch j) := by
  unfold W.dispatch
  split
  · exact ⟨rfl, rfl, rfl, rfl⟩
  · split
    · have hr := ctl_routeMessage w j none
      cases hrm : w.routeMessage j none with
      | mk r w2 =>
        rw [hrm] at hr
        cases r with
        | handled => exact hr
        | rateLimited => exact hr.trans ⟨rfl, rfl, rfl, rfl⟩
        | backlog => exact hr.trans (ctl_maybeEnqueue w2 j)
    · exact ⟨rfl, rfl, rfl, rfl⟩

theorem ctl_ite (c : Prop) [Decidable c] (w a b : W) (ha : Ctl w a) (hb : Ctl w b) : Ctl w (if c then a else b) := by
  split <;> assumption

theorem ctl_workerFinishedJob (w : W) (who key : Nat) : Ctl w (w.workerFinishedJob who key) := by
  unfold W.workerFinishedJob
  split
  · rename_i p _
    cases hwc : p.workerComplete w.env key with
    | mk p' e' =>
      simp only
      have h1 : Ctl w { w with pool := setW w.pool who p', env := e' } := ⟨rfl, rfl, rfl, rfl⟩
      split
      · split
        · exact ⟨rfl, rfl, rfl, rfl⟩
        · exact h1
      · apply ctl_ite
        · exact (h1.trans (ctl_tryRoute _ _)).trans (ctl_availChange _ _ _)
        · exact h1.trans (ctl_tryRoute _ _)
  · exact ctl_tryRoute w _

theorem ctl_removeExpired (w : W) : Ctl w w.removeExpired := by
  unfold W.removeExpired
  split
  · exact ⟨rfl, rfl, rfl, rfl⟩
  · exact Ctl.refl w

theorem ctl_calcRest (w : W) : Ctl w w.calcRest := by
  unfold W.calcRest
  exact (ctl_removeExpired w).trans ⟨rfl, rfl, rfl, rfl⟩

theorem ctl_updateSettings (w : W) (d : Option (Option (Nat × Mode))) (n : Option Nat) : Ctl w (w.updateSettings d n) := by
  unfold W.updateSettings
  have h1 : Ctl w (match d with
      | some d => { w with pool := w.pool.map (fun p => { p with disc := w.workerDiscard d }), disc := d }
      | none => w) := by
    cases d with
    | none => exact Ctl.refl w
    | some d => exact ⟨rfl, rfl, rfl, rfl⟩
  cases n with
  | none => exact h1
  | some n => exact h1.trans (ctl_resizePool _ n)

theorem ctl_afterReplace (w : W) (wid : Nat) : Ctl w (w.afterReplace wid) := by
  unfold W.afterReplace
  cases hret : w.retireIdleDrainingWorker wid with
  | some w2 =>
    simp only
    unfold W.retireIdleDrainingWorker at hret
    split at hret
    · split at hret
      · simp only [Option.some.injEq] at hret; subst hret
        exact ⟨rfl, rfl, rfl, rfl⟩
      · simp at hret
    · simp at hret
  | none =>
    simp only
    apply ctl_ite
    · exact (ctl_tryRoute _ _).trans (ctl_availChange _ _ _)
    · exact ctl_tryRoute _ _

theorem ctl_handleSupervisorEvt (w : W) (who : Nat) : Ctl w (w.handleSupervisorEvt who) := by
  unfold W.handleSupervisorEvt
  split
  · exact Ctl.refl w
  · rename_i wid _
    split
    · exact Ctl.refl w
    · rename_i p _
      simp only
      cases hrw : p.replaceWorker (w.env.spawn wid w.nextAid) w.nextAid with
      | mk p' e' =>
        simp only
        refine Ctl.trans ?_ (ctl_afterReplace _ wid)
        exact ⟨rfl, rfl, rfl, rfl⟩

/-- handling a message never touches the stop signal or the stop state, and never completes a drain -/
theorem handleMsg_stop (w : W) (m : FMsg) :
    (w.handleMsg m).stopSignal = w.stopSignal ∧ (w.handleMsg m).stopped = w.stopped ∧
    ((w.handleMsg m).drain = .drained → w.drain = .drained) := by
  have of_ctl : ∀ {w' : W}, Ctl w w' → w'.stopSignal = w.stopSignal ∧ w'.stopped = w.stopped ∧
      (w'.drain = .drained → w.drain = .drained) := fun c => ⟨c.stopSignal, c.stopped, fun h => by rw [← c.drain]; exact h⟩
  cases m with
  | dispatch j => exact of_ctl (ctl_dispatch w j)
  | finished who key => exact of_ctl (ctl_workerFinishedJob w who key)
  | adjust n => exact of_ctl (ctl_resizePool w n)
  | updateSettings d n => exact of_ctl (ctl_updateSettings w d n)
  | setHandler hd => exact ⟨rfl, rfl, fun h => h⟩
  | drainRequests => exact ⟨rfl, rfl, fun h => by cases h⟩
  | calculate =>
    show (if w.cfg.hasCC && w.armed then { w with armed := false, blocked := true } else w.calcRest).stopSignal = _ ∧
      (if w.cfg.hasCC && w.armed then { w with armed := false, blocked := true } else w.calcRest).stopped = _ ∧
      ((if w.cfg.hasCC && w.armed then { w with armed := false, blocked := true } else w.calcRest).drain = .drained → _)
    split
    · exact ⟨rfl, rfl, fun h => h⟩
    · exact of_ctl (ctl_calcRest w)
  | getQueueDepth => exact ⟨rfl, rfl, fun h => h⟩
  | getNumActiveWorkers => exact ⟨rfl, rfl, fun h => h⟩
  | getAvailableCapacity => exact ⟨rfl, rfl, fun h => h⟩

/-! ### the invariant -/

/-- a completed drain has raised the stop signal; while the signal is up and `post_stop` has not
run yet, the factory is not suspended, every worker slot (draining or not) is free and the
factory queue is empty -/
structure StopInv (w : W) : Prop where
  drained : w.drain = .drained → w.stopSignal = true
  idle : w.stopSignal = true → w.stopped = false →
    w.blocked = false ∧ (∀ p ∈ w.pool, p.isAvailable = true) ∧ w.queue = []

/-- (`is_drained`) a draining factory counts as drained only when every slot of the pool —
whether or not a shrink has flagged it draining — is free and the factory queue is empty -/
theorem isDrained_true (w : W) (hd : w.drain = .draining) (h : w.isDrained.1 = true) :
    (∀ p ∈ w.pool, p.isAvailable = true) ∧ w.queue = [] := by
  unfold W.isDrained at h
  rw [hd] at h
  simp only at h
  split at h
  · rename_i hc
    simp only [Bool.and_eq_true, List.all_eq_true, beq_iff_eq] at hc
    exact ⟨hc.1, List.eq_nil_of_length_eq_zero hc.2⟩
  · cases h

theorem StopInv.same {w w' : W} (h : StopInv w) (c : Ctl w w') (hb : w'.blocked = w.blocked)
    (hp : w'.pool = w.pool) (hq : w'.queue = w.queue) : StopInv w' := by
  refine ⟨fun hd => ?_, fun hs hst => ?_⟩
  · rw [c.stopSignal]; exact h.drained (by rw [← c.drain]; exact hd)
  · rw [hb, hp, hq]
    exact h.idle (by rw [← c.stopSignal]; exact hs) (by rw [← c.stopped]; exact hst)

theorem StopInv.same3 {w w' : W} (h : StopInv w) (c1 : w'.stopSignal = w.stopSignal) (c2 : w'.stopped = w.stopped)
    (c3 : w'.drain = w.drain) (hb : w'.blocked = w.blocked)
    (hp : w'.pool = w.pool) (hq : w'.queue = w.queue) : StopInv w' := by
  refine ⟨fun hd => ?_, fun hs hst => ?_⟩
  · rw [c1]; exact h.drained (by rw [← c3]; exact hd)
  · rw [hb, hp, hq]
    exact h.idle (by rw [← c1]; exact hs) (by rw [← c2]; exact hst)

/-- the stop machinery is untouched and the signal is down: whatever happened to pool and queue -/
theorem StopInv.nosignal {w w' : W} (h : StopInv w) (c : Ctl w w') (hs : w.stopSignal = false) : StopInv w' := by
  refine ⟨fun hd => ?_, fun hs' _ => ?_⟩
  · have := h.drained (by rw [← c.drain]; exact hd)
    rw [hs] at this; cases this
  · rw [c.stopSignal, hs] at hs'; cases hs'

theorem StopInv.stopped {w w' : W} (h : StopInv w) (c : Ctl w w') (hst : w.stopped = true) : StopInv w' := by
  refine ⟨fun hd => ?_, fun _ hst' => ?_⟩
  · rw [c.stopSignal]; exact h.drained (by rw [← c.drain]; exact hd)
  · rw [c.stopped, hst] at hst'; cases hst'

theorem isDrained_fst_snd (w : W) :
    w.isDrained.2.stopSignal = w.stopSignal ∧ w.isDrained.2.stopped = w.stopped ∧ w.isDrained.2.blocked = w.blocked ∧
    w.isDrained.2.pool = w.pool ∧ w.isDrained.2.queue = w.queue ∧
    (w.isDrained.1 = false → w.isDrained.2.drain = w.drain) := by
  unfold W.isDrained
  split
  · exact ⟨rfl, rfl, rfl, rfl, rfl, fun _ => rfl⟩
  · exact ⟨rfl, rfl, rfl, rfl, rfl, fun _ => rfl⟩
  · split
    · exact ⟨rfl, rfl, rfl, rfl, rfl, fun h => by cases h⟩
    · exact ⟨rfl, rfl, rfl, rfl, rfl, fun _ => rfl⟩

/-- the end of `handle` raises the stop signal only over an idle pool and an empty queue -/
theorem stopInv_afterHandle (w : W) (hs : w.stopSignal = false) (hd : w.drain ≠ .drained) : StopInv w.afterHandle := by
  unfold W.afterHandle
  split
  · exact ⟨fun h => absurd h hd, fun h _ => by rw [hs] at h; cases h⟩
  · rename_i hb
    have hb' : w.blocked = false := by cases hbb : w.blocked <;> simp_all
    obtain ⟨f1, f2, f3, f4, f5, f6⟩ := isDrained_fst_snd w
    cases hdr : w.drain with
    | drained => exact absurd hdr hd
    | notDraining =>
      have : w.isDrained = (false, w) := by unfold W.isDrained; rw [hdr]
      rw [this]
      simp only [Bool.false_eq_true, if_false]
      exact ⟨fun h => absurd h hd, fun h _ => by rw [hs] at h; cases h⟩
    | draining =>
      have ht := isDrained_true w hdr
      cases hi : w.isDrained with
      | mk d w2 =>
        rw [hi] at f1 f2 f3 f4 f5 f6 ht
        simp only at f1 f2 f3 f4 f5 f6 ht ⊢
        cases d with
        | true =>
          simp only [if_true]
          refine ⟨fun _ => rfl, fun _ _ => ?_⟩
          have := ht rfl
          exact ⟨by show w2.blocked = false; rw [f3]; exact hb', by show ∀ p ∈ w2.pool, _; rw [f4]; exact this.1,
            by show w2.queue = []; rw [f5]; exact this.2⟩
        | false =>
          simp only [Bool.false_eq_true, if_false]
          have hdd := f6 rfl
          exact ⟨fun h => absurd (hdd ▸ h) hd, fun h _ => by rw [f1, hs] at h; cases h⟩

theorem stopInv_postStop (w : W) (h : StopInv w) : StopInv w.postStop := by
  refine ⟨fun hd => h.drained hd, fun _ hst => ?_⟩
  have : w.postStop.stopped = true := rfl
  rw [this] at hst; cases hst

theorem stopInv_loopStep (w w' : W) (h : StopInv w) (hl : w.loopStep = some w') : StopInv w' := by
  unfold W.loopStep at hl
  split at hl
  · simp at hl
  · split at hl
    · simp only [Option.some.injEq] at hl; subst hl; exact stopInv_postStop w h
    · rename_i hsig
      have hs : w.stopSignal = false := by cases hh : w.stopSignal <;> simp_all
      split at hl
      · rename_i who rest _
        simp only [Option.some.injEq] at hl; subst hl
        exact h.nosignal (Ctl.trans (b := { w with env := { w.env with sup := rest } }) ⟨rfl, rfl, rfl, rfl⟩
          (ctl_handleSupervisorEvt _ who)) hs
      · split at hl
        · rename_i m rest _
          simp only [Option.some.injEq] at hl; subst hl
          obtain ⟨g1, _, g3⟩ := handleMsg_stop { w with inbox := rest } m
          apply stopInv_afterHandle
          · rw [g1]; exact hs
          · intro hd
            have := h.drained (g3 hd)
            rw [hs] at this; cases this
        · simp at hl

theorem stopInv_tryFinishStop (w : W) (h : StopInv w) : StopInv w.tryFinishStop := by
  unfold W.tryFinishStop
  split
  · exact h.same3 rfl rfl rfl rfl rfl rfl
  · exact h

theorem stopInv_runQ (fuel : Nat) (w : W) (h : StopInv w) : StopInv (W.runQ fuel w) := by
  induction fuel generalizing w with
  | zero => exact h
  | succ fuel ih =>
    unfold W.runQ
    cases hl : w.loopStep with
    | some w' => simp only; exact ih _ (stopInv_loopStep w w' h hl)
    | none =>
      simp only
      have hs : StopInv (W.tryFinishStop { w with env := w.env.settle }) :=
        stopInv_tryFinishStop _ (h.same ⟨rfl, rfl, rfl, rfl⟩ rfl rfl rfl)
      split
      · exact hs
      · exact ih _ hs

theorem stopInv_send (w : W) (m : FMsg) (h : StopInv w) : StopInv (w.send m) := by
  unfold W.send; split
  · exact h
  · exact h.same3 rfl rfl rfl rfl rfl rfl

theorem stopInv_advanceTo (t fuel : Nat) (w : W) (h : StopInv w) : StopInv (W.advanceTo t fuel w) := by
  induction fuel generalizing w with
  | zero => exact h.same ⟨rfl, rfl, rfl, rfl⟩ rfl rfl rfl
  | succ fuel ih =>
    unfold W.advanceTo
    split
    · simp only
      apply ih
      apply stopInv_runQ
      have h1 : StopInv { w.setNow w.nextCalc with nextCalc := t + CALCULATE_FREQUENCY * 1000000 } :=
        h.same ⟨rfl, rfl, rfl, rfl⟩ rfl rfl rfl
      exact stopInv_send _ _ h1
    · exact h.same ⟨rfl, rfl, rfl, rfl⟩ rfl rfl rfl

theorem stopInv_finish (w : W) (aid : Nat) (ok : Bool) (h : StopInv w) : StopInv (w.finish aid ok) := by
  unfold W.finish
  cases ha : w.env.getActor aid with
  | none => exact h
  | some a =>
    simp only
    cases hr : a.running with
    | none => exact h
    | some j =>
      simp only
      split
      · exact h
      · split
        · exact h.same ⟨rfl, rfl, rfl, rfl⟩ rfl rfl rfl
        · have h1 : StopInv { w with env := (w.env.emit (.finishOk aid)).emit (.handled aid j.id) } :=
            h.same ⟨rfl, rfl, rfl, rfl⟩ rfl rfl rfl
          have h2 := stopInv_send _ (.finished a.wid j.key) h1
          exact h2.same ⟨rfl, rfl, rfl, rfl⟩ rfl rfl rfl

theorem stopInv_emit (w : W) (ev : Ev) (h : StopInv w) : StopInv (w.emit ev) := h.same ⟨rfl, rfl, rfl, rfl⟩ rfl rfl rfl

theorem stopInv_applyOp (w : W) (op : Op) (h : StopInv w) : StopInv (w.applyOp op) := by
  cases op with
  | dispatch id key hash ttl acc =>
    simp only [W.applyOp]
    split
    · exact h
    · exact stopInv_send _ _ (stopInv_emit _ _ h)
  | finish aid ok => exact stopInv_finish w aid ok h
  | kill aid => exact h.same ⟨rfl, rfl, rfl, rfl⟩ rfl rfl rfl
  | resize n => exact stopInv_send _ _ (stopInv_emit _ _ h)
  | settings d n =>
    simp only [W.applyOp]
    apply stopInv_send
    cases d with
    | none => cases n with
      | none => exact h
      | some n => exact stopInv_emit _ _ h
    | some d => cases n with
      | none => exact stopInv_emit _ _ h
      | some n => exact stopInv_emit _ _ (stopInv_emit _ _ h)
  | drain => exact stopInv_send _ _ (stopInv_emit _ _ h)
  | setHandler hd => exact stopInv_send _ _ (stopInv_emit _ _ h)
  | advance => exact h
  | block => exact h.same ⟨rfl, rfl, rfl, rfl⟩ rfl rfl rfl
  | release n =>
    simp only [W.applyOp]
    split
    · rename_i hb
      -- the state `calc_rest` leaves, before the end-of-handle check
      have hc : Ctl w (W.calcRest (if ({ w.emit (.released n) with blocked := false } : W).poolSize != n
          then W.resizePool { w.emit (.released n) with blocked := false } n
          else { w.emit (.released n) with blocked := false })) := by
        refine Ctl.trans ?_ (ctl_calcRest _)
        split
        · exact Ctl.trans (b := { w.emit (.released n) with blocked := false }) ⟨rfl, rfl, rfl, rfl⟩ (ctl_resizePool _ _)
        · exact ⟨rfl, rfl, rfl, rfl⟩
      cases hs : w.stopSignal with
      | false =>
        apply stopInv_afterHandle
        · rw [hc.stopSignal]; exact hs
        · intro hd
          have := h.drained (by rw [← hc.drain]; exact hd)
          rw [hs] at this; cases this
      | true =>
        -- a suspended factory whose stop signal is up has already run `post_stop`
        have hst : w.stopped = true := by
          cases hst : w.stopped with
          | true => rfl
          | false => have := (h.idle hs hst).1; rw [hb] at this; cases this
        generalize hw1 : W.calcRest _ = w1 at hc ⊢
        have hst1 : w1.stopped = true := by rw [hc.stopped]; exact hst
        have hs1 : w1.stopSignal = true := by rw [hc.stopSignal]; exact hs
        unfold W.afterHandle
        split
        · exact ⟨fun _ => hs1, fun _ h' => by rw [hst1] at h'; cases h'⟩
        · obtain ⟨f1, f2, _, _, _, _⟩ := isDrained_fst_snd w1
          cases hi : w1.isDrained with
          | mk d w2 =>
            rw [hi] at f1 f2
            simp only at f1 f2 ⊢
            split
            · exact ⟨fun _ => rfl, fun _ h' => by
                have : w2.stopped = true := by rw [f2]; exact hst1
                rw [show ({ w2 with stopSignal := true } : W).stopped = w2.stopped from rfl, this] at h'; cases h'⟩
            · exact ⟨fun _ => by rw [f1]; exact hs1, fun _ h' => by rw [f2, hst1] at h'; cases h'⟩
    · exact h
  | nop => exact h

theorem stopInv_ask (w : W) (m : FMsg) (h : StopInv w) : StopInv (w.ask m) := by
  unfold W.ask
  split
  · exact h.same ⟨rfl, rfl, rfl, rfl⟩ rfl rfl rfl
  · simp only
    have h1 := stopInv_runQ RUN_FUEL _ (stopInv_send w m h)
    split
    · exact h1.same ⟨rfl, rfl, rfl, rfl⟩ rfl rfl rfl
    · exact h1

theorem stopInv_queries (w : W) (h : StopInv w) : StopInv w.queries := by
  unfold W.queries
  split
  · exact h.same ⟨rfl, rfl, rfl, rfl⟩ rfl rfl rfl
  · exact stopInv_ask _ _ (stopInv_ask _ _ (stopInv_ask _ _ (h.same ⟨rfl, rfl, rfl, rfl⟩ rfl rfl rfl)))

theorem stopInv_stepOp (w : W) (op : Op) (t0 tq te : Nat) (h : StopInv w) : StopInv (w.stepOp op t0 tq te) := by
  unfold W.stepOp
  simp only
  generalize hw1 : W.advanceTo t0 (advanceFuel w t0) w = w1
  have h1 : StopInv w1 := by rw [← hw1]; exact stopInv_advanceTo _ _ _ h
  generalize hw2 : W.runQ RUN_FUEL (w1.applyOp op) = w2
  have h2 : StopInv w2 := by rw [← hw2]; exact stopInv_runQ _ _ (stopInv_applyOp _ _ h1)
  generalize hw3 : W.advanceTo tq (advanceFuel w2 tq) w2 = w3
  have h3 : StopInv w3 := by rw [← hw3]; exact stopInv_advanceTo _ _ _ h2
  generalize hw4 : w3.queries = w4
  have h4 : StopInv w4 := by rw [← hw4]; exact stopInv_queries _ h3
  generalize hw5 : W.advanceTo te (advanceFuel w4 te) w4 = w5
  have h5 : StopInv w5 := by rw [← hw5]; exact stopInv_advanceTo _ _ _ h4
  have h6 : StopInv { w5 with lastWq := none } := h5.same ⟨rfl, rfl, rfl, rfl⟩ rfl rfl rfl
  exact stopInv_emit _ _ h6

theorem stopInv_runSteps (w : W) (steps : List Step) (h : StopInv w) : StopInv (w.runSteps steps) := by
  induction steps generalizing w with
  | nil => exact h
  | cons s rest ih => exact ih _ (stopInv_stepOp w s.op s.t0 s.tq s.te h)

theorem stopInv_init (c : CaseCfg) : StopInv (init c) := by
  unfold init
  simp only
  have hq := ctl_growPool
    ({ cfg := c.cfg, poolSize := 0, pool := [], byActor := [], avail := [], inQ := [], last := 0,
       rl := c.rl.map fun (r : Nat × Nat × Nat × Nat) =>
          let lc : LeakyBucket.Cfg := ⟨r.1, r.2.1, r.2.2.1, 10 ^ 40⟩
          (lc, LeakyBucket.new lc (some r.2.2.2) 0),
       queue := [], disc := c.disc, drain := .notDraining,
       handler := if c.cfg.hasHandler then some 0 else none,
       env := { actors := [], log := [], now := 0, sup := [] },
       nextAid := 0, stopSignal := false, stopped := false, inbox := [], blocked := false, armed := false,
       nextCalc := CALCULATE_FREQUENCY, answers := [], lastWq := none } : W) c.n
  refine ⟨fun hd => ?_, fun hs _ => ?_⟩
  · simp only [W.emit] at hd
    rw [hq.drain] at hd; cases hd
  · simp only [W.emit] at hs
    rw [hq.stopSignal] at hs; cases hs

/-- the stop invariant holds after every sequence of operations -/
theorem stopInv_always (c : CaseCfg) (steps : List Step) : StopInv ((init c).runSteps steps) :=
  stopInv_runSteps _ steps (stopInv_init c)

end Factory
