import RactorModel.Extracted
import RactorModel.Lemmas.TimersProps

/-!
# C12 — timers fire once, never early, and die with their target

Property theorems only.  Model: `Model/Timers.lean` (tied to `ractor/src/time.rs` on tokio's paused
clock by `harness/hcore/src/bin/timers.rs` + `Driver/C12.lean`), lemmas: `Lemmas/Timers*.lean`.

Two levels:
* **small steps** (`steps init ops`, `ops : List Op`): any interleaving of clock ticks, single polls
  of single timer tasks, runs of the target's task, aborts, stop/kill/drain calls and creations —
  timer tasks may be polled arbitrarily late.  `Timers.ok` holds in every reachable state.
* **quiescent runs** (`mrun init ms`, `ms : List MOp`): the clock only moves when every task is
  idle (what a runtime does that is not overloaded, and exactly what the harness executes).
  There the closed form holds (`Timers.okPrompt`).
`Timers.ok` and `Timers.okPrompt` are the predicates the driver evaluates on the histories observed
from the real implementation.

Time is in **microseconds**: periods and clock advances are arbitrary; tokio's timer wheel (1 ms
granularity, deadlines rounded UP) is the stated runtime axiom `Timers.wheelDeadline`. All
"never early" statements are in µs against the exact instant `created + k·period`.
-/

namespace C12
open Timers

/-- (the wheel axiom is sound for "never early" and costs less than a millisecond) -/
theorem wheel_rounds_up (armed p : Nat) :
    armed + p ≤ wheelDeadline armed p ∧ wheelDeadline armed p < armed + p + 1000 ∧
      wheelDeadline armed p % 1000 = 0 := by
  simp only [wheelDeadline, ceilMs]; omega

/-- For every schedule of the small steps the history satisfies `Timers.ok`: never early,
nothing in the future, one-shot timers act at most once and their handle tells what happened
(`pending`/`cancelled` ⇒ nothing was sent, `ok`/`err` ⇒ exactly one attempt, `err` only for
`send_after`), a finished task never acted after it finished, at most one (failing) attempt after
the target stopped accepting (the instant its message loop ended — also while `post_stop` is still
running), a `send_after` handle is `Ok` only for a send made no later than that instant and `Err` only
after it, exit reasons have a source, handled messages were sent. -/
theorem ok_all (ops : List Op) : ok (steps init ops) = true :=
  (Inv.init.steps ops).ok

/-- At every quiescent point of a quiescent run both predicates hold. -/
theorem ok_quiescent (ms : List MOp) : ok (mrun init ms) = true ∧ okPrompt (mrun init ms) = true :=
  ⟨(BInv.init.mrun ms).inv.ok, (BInv.init.mrun ms).okPrompt⟩

/-- `send_after` (also `exit_after`, `kill_after`): at most one action, and not before the period
has elapsed since the API call — for every schedule. -/
theorem oneShot_once_never_early (ops : List Op) (τ : Timer) (hτ : τ ∈ (steps init ops).timers)
    (hk : τ.kind.oneShot = true) :
    τ.sentAt.length ≤ 1 ∧ ∀ t ∈ τ.sentAt, τ.created + τ.period ≤ t :=
  oneShot_once_never_early' (Inv.init.steps ops) τ hτ hk

/-- Every action of every timer: the k-th (1-based) is no earlier than `created + k·period`. -/
theorem never_early (ops : List Op) (τ : Timer) (hτ : τ ∈ (steps init ops).timers)
    (k : Nat) (hk : k < τ.sentAt.length) : τ.created + (k + 1) * τ.period ≤ τ.sentAt[k] :=
  never_early' (Inv.init.steps ops) τ hτ k hk

/-- `send_after`, the fire step: when the sleeping task is polled at or after its wheel deadline it
sends exactly one message if the target still accepts (handle: `Ok`), and otherwise sends nothing
and reports the error through its handle. -/
theorem sendAfter_fires (ops : List Op) (i : Nat) (τ : Timer) (a : Nat)
    (hi : (steps init ops).timers[i]? = some τ) (hk : τ.kind = .sendAfter) (hp : τ.res = .pending)
    (ha : τ.armed = some a) (hd : wheelDeadline a τ.period ≤ (steps init ops).now) :
    let s := steps init ops
    let s' := step s (.fire i)
    ∃ τ', s'.timers[i]? = some τ' ∧ τ'.sentAt = [s.now] ∧
      (s.target.accepts = true → τ'.res = .ok ∧ s'.target.mbox = s.target.mbox ++ [(i, 1)]) ∧
      (s.target.accepts = false → τ'.res = .err ∧ s'.target.mbox = s.target.mbox) :=
  sendAfter_fires' (Inv.init.steps ops) i τ a hi hk hp ha hd

/-- A finished (returned or aborted) timer task never does anything again. -/
theorem finished_frozen (s : State) (i : Nat) (τ : Timer) (hi : s.timers[i]? = some τ)
    (hf : τ.res ≠ .pending) (ops : List Op) : (steps s ops).timers[i]? = some τ :=
  finished_frozen' s i τ hi hf ops

/-- Aborting a timer before its fire step prevents delivery: whatever happens afterwards, the
timer's action list stays what it was and its handle reports `cancelled`. -/
theorem abort_prevents (s : State) (i : Nat) (τ : Timer) (hi : s.timers[i]? = some τ)
    (hp : τ.res = .pending) (ops : List Op) :
    ∃ τ', (steps (step s (.abort i)) ops).timers[i]? = some τ' ∧ τ'.sentAt = τ.sentAt ∧ τ'.res = .cancelled :=
  abort_prevents' s i τ hi hp ops

/-- Closed form, no drift (quiescent runs): the k-th action of a timer happens no earlier than the
exact instant `created + k·period` and no later than the first quiescent point `c` at or after the
wheel deadline of that instant (less than a millisecond later); if the instant is a whole
millisecond and the clock visits it, the action happens exactly then. Deadlines never accumulate
rounding: the k-th is computed from `created`, not from the previous action. -/
theorem closed_form (ms : List MOp) (τ : Timer) (hτ : τ ∈ (mrun init ms).timers)
    (k : Nat) (hk : k < τ.sentAt.length) :
    τ.created + (k + 1) * τ.period ≤ τ.sentAt[k] ∧
    (∀ c ∈ (mrun init ms).visits, wheelDeadline τ.created ((k + 1) * τ.period) ≤ c → τ.sentAt[k] ≤ c) ∧
    (τ.created + (k + 1) * τ.period ∈ (mrun init ms).visits → (τ.created + (k + 1) * τ.period) % 1000 = 0 →
      τ.sentAt[k] = τ.created + (k + 1) * τ.period) :=
  closed_form' (BInv.init.mrun ms) τ hτ k hk

/-- (the handle reports the failed send) For every schedule: a `send_after` whose handle says
`Ok(())` tried to send no later than the instant the target stopped accepting (status ≥ Draining —
reached when `drain` is called or the message loop ends, NOT only when the actor is gone: while
`post_stop` runs nothing is accepted any more), and a handle that says `Err` belongs to a send made
after that instant. -/
theorem handle_reports_send (ops : List Op) (τ : Timer) (hτ : τ ∈ (steps init ops).timers)
    (hk : τ.kind = .sendAfter) :
    (τ.res = .ok → ∀ tc, (steps init ops).target.closedAt = some tc → ∀ t ∈ τ.sentAt, t ≤ tc) ∧
    (τ.res = .err → ∃ tc, (steps init ops).target.closedAt = some tc ∧ ∀ t ∈ τ.sentAt, tc ≤ t) :=
  handle_reports_send' (Inv.init.steps ops) τ hτ hk

/-- An interval task whose target left the active states — `closedAt`: the instant the message loop
ended or `drain` was called; the target may still sit in `post_stop` for as long as it likes — ends
within one period (quiescent
runs): once the clock has reached the wheel deadline of a full period past the instant the target
stopped accepting — and, for an interval created after that off the millisecond grid, the next
millisecond boundary after its creation (its "immediate" first tick is rounded up too) —, the task is gone; and in any schedule it makes at most one (failing) attempt after that instant. -/
theorem interval_dies_with_target (ms : List MOp) (τ : Timer) (hτ : τ ∈ (mrun init ms).timers)
    (hk : τ.kind = .interval) (tc : Nat) (hc : (mrun init ms).target.closedAt = some tc) :
    (wheelDeadline tc τ.period ≤ (mrun init ms).now → wheelDeadline τ.created 0 ≤ (mrun init ms).now →
      τ.res ≠ .pending) ∧
    (τ.sentAt.filter (fun t => decide (tc < t))).length ≤ 1 :=
  interval_dies' (BInv.init.mrun ms) τ hτ hk tc hc

/-- `exit_after` / `kill_after`: if the target exited with reason `"Exit after {m}ms"` then an
`exit_after(period)` timer with `period.as_millis() = m` acted, no earlier than its FULL period (in
µs, not the truncated millisecond count) after it was created and no later than the exit;
if it exited `"killed"`, somebody called `kill` or a `kill_after` timer acted no earlier than its
period. For every schedule. -/
theorem exit_reason (ops : List Op) (r : Reason) (te : Nat)
    (he : (steps init ops).target.exit = some (r, te)) :
    (∀ p, r = .exitAfter p → ∃ τ ∈ (steps init ops).timers, τ.kind = .exitAfter ∧ asMillis τ.period = p ∧
        ∃ t ∈ τ.sentAt, τ.created + τ.period ≤ t ∧ t ≤ te) ∧
    (r = .killed → (steps init ops).target.manualKill = true ∨
        ∃ τ ∈ (steps init ops).timers, τ.kind = .killAfter ∧
          ∃ t ∈ τ.sentAt, τ.created + τ.period ≤ t ∧ t ≤ te) ∧
    (r = .manual → (steps init ops).target.manualStop = true) :=
  exit_reason' (Inv.init.steps ops) r te he

/-- The documented reason string (compared verbatim with what the real supervisor receives). -/
theorem reason_string (p : Nat) : (Reason.exitAfter p).render = "Exit after " ++ toString p ++ "ms" := rfl

/-! ### Non-vacuity -/

/-- an interval of 3 ms over quiescent points 0,3,6,8,9,19 ms: messages at 3, 6, 9, then a burst of three at 19 -/
example : ((mrun init [.create .interval 3000, .adv 3000, .adv 3000, .adv 2000, .adv 1000, .adv 10000]).timers.map (·.sentAt))
    = [[3000, 6000, 9000, 19000, 19000, 19000]] := by decide

/-- sub-millisecond periods: exit_after(2500 µs) is still pending at 2 ms and stops the actor at 3 ms
with the (truncated) reason "Exit after 2ms"; exit_after(900 µs) does not fire at 0 -/
example : let s := mrun init [.create .exitAfter 2500, .adv 2000]
    s.timers.map (·.res) = [.pending] ∧ s.target.exit = none := by decide
example : (mrun init [.create .exitAfter 2500, .adv 2000, .adv 1000]).target.exit = some (.exitAfter 2, 3000) := by decide
example : (Reason.exitAfter 2).render = "Exit after 2ms" := by decide
example : let s := mrun init [.create .exitAfter 900, .adv 500, .adv 500]
    s.timers.map (·.sentAt) = [[1000]] ∧ s.target.exit = some (.exitAfter 0, 1000) := by decide

/-- an interval of 300 µs: its ticks at 300, 600, 900 µs all complete at the 1 ms boundary, the 4th
(1200 µs) at 2 ms; a timer created at 1.5 ms for 700 µs (exact 2.2 ms) fires at 3 ms -/
example : ((mrun init [.create .interval 300, .adv 500, .adv 500, .adv 1000]).timers.map (·.sentAt))
    = [[1000, 1000, 1000, 2000, 2000, 2000]] := by decide
example : ((mrun init [.adv 1500, .create .sendAfter 700, .adv 500, .adv 500, .adv 500]).timers.map (·.sentAt))
    = [[3000]] := by decide

/-- the "immediate" first tick of `interval()` is rounded up too: created at 5.001 ms for a dead
target, the task passes its loop head (and ends) only at 6 ms -/
example : let s := mrun init [.kill, .adv 5001, .create .interval 700]
    s.timers.map (·.res) = [.pending] := by decide
example : let s := mrun init [.kill, .adv 5001, .create .interval 700, .adv 999]
    s.timers.map (fun τ => (τ.res, τ.sentAt)) = [(.ok, [])] := by decide

/-- send_after racing kill_after at the same instant: the send is accepted (handle `ok`), the
target dies "killed" without handling it -/
example : let s := mrun init [.create .sendAfter 5000, .create .killAfter 5000, .adv 5000]
    s.timers.map (·.res) = [.ok, .ok] ∧ s.target.exit = some (.killed, 5000) ∧ s.target.handled = [] := by decide

/-- abort at the boundary (clock already at the deadline, task not yet polled): nothing is sent -/
example : let s := mrun init [.create .sendAfter 5000, .advAbort 5000 0, .adv 1000]
    s.timers.map (·.res) = [.cancelled] ∧ s.timers.map (·.sentAt) = [[]] := by decide

/-- a dead target: send_after reports the error, the interval makes one failing attempt and ends -/
example : let s := mrun init [.create .interval 3000, .create .sendAfter 4000, .adv 3000, .kill, .adv 3000]
    s.timers.map (·.res) = [.ok, .err] ∧ s.timers.map (·.sentAt) = [[3000, 6000], [6000]]
      ∧ s.target.handled = [(0, 1, 3000)] := by decide

/-- the target sits in a gated `post_stop` from 1 ms on (stopped, not gone): the interval makes one
failing attempt at its next tick and ends, a `send_after` created in that window reports the error,
`exit` appears only when `post_stop` is released (8 ms), with the reason of the stop -/
example : let s := mrun init [.create .interval 3000, .hold, .adv 1000, .stop, .create .sendAfter 2000, .adv 2000, .adv 4000]
    s.timers.map (fun τ => (τ.res, τ.sentAt)) = [(.ok, [3000]), (.err, [3000])] ∧
      s.target.closedAt = some 1000 ∧ s.target.stopping = some (.manual, 1000) ∧ s.target.exit = none := by decide
example : let s := mrun init [.create .interval 3000, .hold, .adv 1000, .stop, .adv 7000, .psrelease]
    s.target.exit = some (.manual, 8000) ∧ s.target.closedAt = some 1000 ∧ s.target.stopping = none := by decide
/-- a kill that arrives during `post_stop` cancels it: the reason becomes "killed" -/
example : let s := mrun init [.hold, .stop, .create .killAfter 2000, .adv 2000]
    s.target.exit = some (.killed, 2000) ∧ s.target.closedAt = some 0 := by decide
/-- a kill skips `post_stop` altogether -/
example : (mrun init [.hold, .adv 1000, .kill]).target.exit = some (.killed, 1000) := by decide

/-- exit_after with the documented reason -/
example : (mrun init [.create .exitAfter 7000, .adv 7000]).target.exit = some (.exitAfter 7, 7000) := by decide

/-! ### E-SRC, async-std backend (round 4)

The model's clock axioms are written after tokio (`sleep`, `interval` with the Burst behaviour). With
`--features async-std` ractor's `sleep` / `interval` are the ones of `async_std_primitives.rs`; these obligations
pin the source shape the free-running oracle run `as-free` relies on: `sleep(d)` forwards `d` unchanged to
`async_std::task::sleep`; `interval(d)` ticks first at once (`next_tick = now`), a tick reads the clock, sleeps the
remaining time only if the tick lies in the future and then moves the schedule by exactly `d`
(`next_tick += dur`: fixed rate, the k-th tick at `start + k·d`, late ticks are caught up in a burst). -/
theorem src_async_std_sleep : Extracted.asyncStdSleepBody = "async_std::task::sleep(dur).await;" := by decide
theorem src_async_std_interval :
    Extracted.asyncStdIntervalInit = "dur,next_tick:Instant::now(),"
    ∧ Extracted.asyncStdIntervalTickSteps =
        ["letnow=Instant::now()", "ifself.next_tick>now", "sleep(self.next_tick-now).await", "self.next_tick+=self.dur"]
    ∧ Extracted.asyncStdIntervalTickStatements = 4 := by decide

end C12

#print axioms C12.wheel_rounds_up
#print axioms C12.ok_all
#print axioms C12.ok_quiescent
#print axioms C12.oneShot_once_never_early
#print axioms C12.never_early
#print axioms C12.sendAfter_fires
#print axioms C12.finished_frozen
#print axioms C12.abort_prevents
#print axioms C12.closed_form
#print axioms C12.interval_dies_with_target
#print axioms C12.handle_reports_send
#print axioms C12.exit_reason
#print axioms C12.reason_string
#print axioms C12.src_async_std_sleep
#print axioms C12.src_async_std_interval
