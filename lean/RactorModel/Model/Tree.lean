/-!
# Model `Tree` (C05) — supervision links, `terminate`, the exit sequence

Core Lean only.  Read line by line from `ractor/src/actor/supervision.rs` (`link`, `unlink`,
`take_children`, all under `TREE_MUTATION_LOCK`), `actor_cell.rs` (`terminate`: iterative worklist) and
`actor.rs` (`ActorLifecycleGuard::cleanup`: publish Stopping → terminate → notify → unlink → publish Stopped).

Actors are numbered `0 … n-1` in creation order.  `kids p = none` is the *closed* child set
(`children: Mutex<Option<HashMap>>` after `take()`); an open set is a duplicate-free list (the HashMap is
keyed by actor id).  `killed x` records that `terminate` sent `x` the kill signal.
-/

namespace Tree

inductive Status | unstarted | starting | running | upgrading | draining | stopping | stopped
  deriving DecidableEq, Repr

/-- the `#[repr(u8)]` discriminants -/
def Status.toNat : Status → Nat
  | .unstarted => 0 | .starting => 1 | .running => 2 | .upgrading => 3
  | .draining => 4 | .stopping => 5 | .stopped => 6

def Status.name : Status → String
  | .unstarted => "Unstarted" | .starting => "Starting" | .running => "Running" | .upgrading => "Upgrading"
  | .draining => "Draining" | .stopping => "Stopping" | .stopped => "Stopped"

def Status.all : List Status := [.unstarted, .starting, .running, .upgrading, .draining, .stopping, .stopped]

/-- `status.fetch_max(new)`: the status never moves backwards -/
def Status.max (a b : Status) : Status := if a.toNat ≤ b.toNat then b else a

/-- point update of a function -/
def upd {α : Type} (f : Nat → α) (i : Nat) (v : α) : Nat → α := fun x => if x = i then v else f x

/-- HashMap insert keyed by id -/
def ins (c : Nat) (ks : List Nat) : List Nat := if c ∈ ks then ks else ks ++ [c]

structure State where
  n : Nat := 0
  sup : Nat → Option Nat := fun _ => none
  kids : Nat → Option (List Nat) := fun _ => some []
  status : Nat → Status := fun _ => .unstarted
  killed : Nat → Bool := fun _ => false

/-- Which statuses `terminate` sends the kill signal to.  `fixed = false`: the pinned code,
`actor.get_status() <= ActorStatus::Upgrading` (finding F1); `fixed = true`: `< ActorStatus::Stopping`. -/
def killCond (fixed : Bool) (st : Status) : Bool :=
  if fixed then decide (st.toNat < Status.stopping.toNat) else decide (st.toNat ≤ Status.upgrading.toNat)

/-- Which variant the code under test is (tied to the source by `Extracted.terminateKillCondition`,
see `Props/C05.lean`). -/
def codeFixed : Bool := true

/-- the textual form `extract.py` reads out of `ActorCell::terminate` -/
def killCondText (fixed : Bool) : String := if fixed then "< Stopping" else "<= Upgrading"

/-- A new cell (`ActorCell::new` + `set_status(Starting)` in `start`). -/
def spawn (s : State) : State :=
  { s with n := s.n + 1, status := upd s.status s.n .starting }

/-- `SupervisionTree::link_below(child, supervisor, child_limit)`, one region under the tree lock: the
child is refused at or above `lim`, the supervisor at or above `Draining`. -/
def linkBelow (lim : Nat) (s : State) (c p : Nat) : State × Bool :=
  if s.n ≤ c ∨ s.n ≤ p then (s, false)
  else if lim ≤ (s.status c).toNat ∨ Status.draining.toNat ≤ (s.status p).toNat then (s, false)
  else match s.kids p with
    | none => (s, false)
    | some ks =>
      if s.sup c = some p then ({ s with kids := upd s.kids p (some (ins c ks)) }, true)
      else
        let kids1 := upd s.kids p (some (ins c ks))
        match s.sup c with
        | none => ({ s with kids := kids1, sup := upd s.sup c (some p) }, true)
        | some q =>
          -- remove the child from its previous supervisor's set (if that set is still open)
          let kids2 := match kids1 q with
            | none => kids1
            | some qs => upd kids1 q (some (qs.erase c))
          ({ s with kids := kids2, sup := upd s.sup c (some p) }, true)

/-- `SupervisionTree::link(child, supervisor)` (the public `link` / `try_link`): child refused at `Draining`
and above. -/
def link (s : State) (c p : Nat) : State × Bool := linkBelow Status.draining.toNat s c p

/-- `SupervisionTree::link_starting`: the link `start` makes for the actor it is starting (after
`pre_start` for regular actors, before it for thread-local ones).  A `drain()` during `pre_start` has
lifted the child to `Draining`; it is linked nevertheless.  Only a child at `Stopping` or above is refused.
(Fix of finding F9, repo commit "drain() during pre_start no longer fails the start of a linked actor".) -/
def linkStart (s : State) (c p : Nat) : State × Bool := linkBelow Status.stopping.toNat s c p

/-- `SupervisionTree::unlink(child, supervisor)` -/
def unlink (s : State) (c p : Nat) : State :=
  if s.sup c = some p then
    { s with kids := (match s.kids p with
                      | none => s.kids
                      | some ks => upd s.kids p (some (ks.erase c))),
             sup := upd s.sup c none }
  else s

/-- `SupervisionTree::take_children(parent)`: close the set, detach the children. -/
def takeChildren (s : State) (p : Nat) : State × List Nat :=
  match s.kids p with
  | none => (s, [])
  | some ks =>
    ({ s with kids := upd s.kids p none,
              sup := fun x => if x ∈ ks ∧ s.sup x = some p then none else s.sup x }, ks)

/-- body of the `while let Some(actor) = pending.pop()` loop of `ActorCell::terminate` -/
def visit (fixed : Bool) (s : State) (x : Nat) : State × List Nat :=
  let s1 := if killCond fixed (s.status x) then { s with killed := upd s.killed x true } else s
  takeChildren s1 x

def loop (fixed : Bool) : Nat → State → List Nat → State
  | 0, s, _ => s
  | _ + 1, s, [] => s
  | f + 1, s, x :: rest => loop fixed f (visit fixed s x).1 ((visit fixed s x).2 ++ rest)

/-- number of (parent, child) entries in open child sets of the first `n` actors -/
def totalKids (s : State) : Nat → Nat
  | 0 => 0
  | i + 1 => totalKids s i + (match s.kids i with | some ks => ks.length | none => 0)

/-- `ActorCell::terminate`.  Every iteration pops one actor and moves the entries of one child set to
the worklist, so `totalKids + 1` iterations always suffice (`Lemmas/Tree.lean`). -/
def terminate (fixed : Bool) (s : State) (a : Nat) : State :=
  loop fixed (totalKids s s.n + 1) s [a]

def setStatus (s : State) (a : Nat) (st : Status) : State :=
  { s with status := upd s.status a ((s.status a).max st) }

/-- `if let Some(supervisor) = try_get_supervisor() { unlink(supervisor) }` -/
def detachSelf (s : State) (a : Nat) : State :=
  match s.sup a with
  | some p => unlink s a p
  | none => s

/-- `ActorLifecycleGuard::cleanup` (the supervisor notification has no effect on the tree):
publish Stopping → terminate → (notify) → unlink → publish Stopped. -/
def exit (fixed : Bool) (s : State) (a : Nat) : State :=
  setStatus (detachSelf (terminate fixed (setStatus s a .stopping) a) a) a .stopped

inductive Op
  | spawn
  | link (c p : Nat)
  | unlink (c p : Nat)
  | takeChildren (p : Nat)
  | terminate (a : Nat)
  | exit (a : Nat)
  /-- a status publication other than `Stopped` (which only `cleanup` publishes) -/
  | setStatus (a : Nat) (st : Status)
  deriving DecidableEq, Repr

def step (fixed : Bool) (s : State) : Op → State
  | .spawn => spawn s
  | .link c p => (link s c p).1
  | .unlink c p => unlink s c p
  | .takeChildren p => (takeChildren s p).1
  | .terminate a => terminate fixed s a
  | .exit a => exit fixed s a
  | .setStatus a st => if st = .stopped then s else setStatus s a st

def steps (fixed : Bool) (s : State) (ops : List Op) : State := ops.foldl (step fixed) s

def init : State := {}

/-! ### the exit sequence as a small-step machine (for the link/exit race)

One `xstep` = one region between two schedule points of the exiting actor's thread: a status
publication, one iteration of the `terminate` worklist (`take_children` is one region under the tree
lock), the unlink from the supervisor.  On the kill path `handle_signal` runs `terminate` once
*before* `Stopping` is published (`pre…`). -/

inductive Pc
  | pre (pending : List Nat)
  | pub
  | loop (pending : List Nat)
  | detach
  | publishStopped
  | done
  deriving DecidableEq, Repr

structure X where
  t : State
  pc : Pc

def xinit (kill : Bool) (a : Nat) (s : State) : X := ⟨s, if kill then .pre [a] else .pub⟩

def xstep (fixed : Bool) (a : Nat) (x : X) : X :=
  match x.pc with
  | .pre [] => ⟨x.t, .pub⟩
  | .pre (y :: rest) => ⟨(visit fixed x.t y).1, .pre ((visit fixed x.t y).2 ++ rest)⟩
  | .pub => ⟨setStatus x.t a .stopping, .loop [a]⟩
  | .loop [] => ⟨x.t, .detach⟩
  | .loop (y :: rest) => ⟨(visit fixed x.t y).1, .loop ((visit fixed x.t y).2 ++ rest)⟩
  | .detach => ⟨detachSelf x.t a, .publishStopped⟩
  | .publishStopped => ⟨setStatus x.t a .stopped, .done⟩
  | .done => x

def xrun (fixed : Bool) (a : Nat) : Nat → X → X
  | 0, x => x
  | k + 1, x => xrun fixed a k (xstep fixed a x)

/-- `k` steps of `a`'s exit, then the linker's atomic region `link c p`, then `n` more steps -/
def raceRun (fixed kill : Bool) (s : State) (a c p k n : Nat) : X × Bool :=
  let x1 := xrun fixed a k (xinit kill a s)
  let r := link x1.t c p
  (xrun fixed a n ⟨r.1, x1.pc⟩, r.2)

/-! ### the property predicate on a snapshot (evaluated on what the implementation reports) -/

/-- two-sided consistency on the first `n` actors: `sup c = some p ↔ c ∈ kids p` -/
def linksOk (s : State) : Bool :=
  (List.range s.n).all fun c =>
    (match s.sup c with
     | some p => decide (p < s.n) && (match s.kids p with | some ks => ks.contains c | none => false)
     | none => true)
    && (List.range s.n).all fun p =>
      match s.kids p with
      | some ks => !ks.contains c || s.sup c == some p
      | none => true

/-- a stopped actor has neither supervisor nor children -/
def stoppedOk (s : State) : Bool :=
  (List.range s.n).all fun a =>
    s.status a != .stopped || (s.sup a == none && (s.kids a == none || s.kids a == some []))

/-- a draining / stopping / stopped actor has a supervisor or children only if they were linked
before; what can be checked on a snapshot: nothing is linked under a stopped actor (in `stoppedOk`),
and no child set contains duplicates or unknown ids -/
def setsOk (s : State) : Bool :=
  (List.range s.n).all fun p =>
    match s.kids p with
    | some ks => ks.all (fun c => decide (c < s.n)) && decide ks.Nodup
    | none => true

def ok (s : State) : Bool := linksOk s && stoppedOk s && setsOk s

/-! ### predicates over two consecutive snapshots (history clauses of the property) -/

/-- "when an actor exits, every actor linked beneath it at that moment, transitively, reaches
Stopped" at quiescent points, in edge form: every actor that is Stopped in `cur` and was not in `prev`
has all its `prev`-children Stopped in `cur` — or `Stopping`: a child that had already ended its message
loop and sits in a (user-defined, arbitrarily long) `post_stop` is exiting by itself and is not killed.
(Given `ok prev` a child of a live actor is itself live in `prev`, so it is then newly stopped too and the
clause propagates down the subtree, as far as actors that were already `Stopping`.) -/
def subtreeOk (prev cur : State) : Bool :=
  (List.range prev.n).all fun a =>
    !(cur.status a == .stopped && prev.status a != .stopped) ||
      ((prev.kids a).getD []).all (fun x => decide (Status.stopping.toNat ≤ (cur.status x).toNat))

/-- every child `a` has in `cur` it already had in `prev` -/
def kidsSubOk (prev cur : State) (a : Nat) : Bool :=
  match cur.kids a with
  | some ks => ks.all (fun c => ((prev.kids a).getD []).contains c)
  | none => true

/-- a draining / stopping / stopped actor never gains children nor a supervisor -/
def gainOk (prev cur : State) : Bool :=
  (List.range prev.n).all fun a =>
    decide ((prev.status a).toNat < Status.draining.toNat) ||
      (kidsSubOk prev cur a && (cur.sup a == none || cur.sup a == prev.sup a))

/-! ### macro layer: what the E-LTS harness executes at quiescent points

Every actor's handler blocks on a gate (`busy`), so that "Draining with a backlog" is reachable.
`exitM` is an exit followed by the exits of everything that was sent the kill signal. -/

/-- why an actor exited, as its supervisor is told (`ActorTerminated(_, _, reason)` / `ActorFailed`) -/
inductive Why | stopped | drained | killed | failed | cancelled
  deriving DecidableEq, Repr

/-- the reason text in the supervision event: `stop(None)` carries none -/
def Why.text : Why → String
  | .stopped => "none" | .drained => "Drained" | .killed => "killed" | .failed => "failed"
  | .cancelled => "actor_task_cancelled"

structure Act where
  gone : Bool := false
  busy : Bool := false
  queue : Nat := 0
  stopReq : Bool := false
  handled : Nat := 0
  /-- the one-shot stop port has been used (a later `stop()` is refused: `stop_and_wait` then returns
  at once, without waiting) -/
  stopSent : Bool := false
  /-- the harness armed the gate in this actor's `post_stop` -/
  hold : Bool := false
  /-- the actor ended its message loop gracefully, published `Stopping` and sits in `post_stop`;
  `ActorLifecycleGuard::cleanup` (terminate, unlink, Stopped) has not run yet -/
  inPs : Bool := false
  /-- why the actor left its message loop (reported when `cleanup` finally runs) -/
  why : Why := .stopped
  deriving DecidableEq, Repr

/-- a `*_children_and_wait` task: the children it still waits for -/
structure Waiter where
  pending : List Nat
  deriving DecidableEq, Repr

structure MState where
  t : State := {}
  act : Nat → Act := fun _ => {}
  /-- terminal supervision events handed to a supervisor's port: (who, to, why), oldest first -/
  evs : List (Nat × Nat × Why) := []
  waiters : List Waiter := []

def MState.alive (m : MState) (a : Nat) : Bool := decide (a < m.t.n) && !(m.act a).gone

/-- killed actors that have not exited yet exit (their task takes the kill signal) -/
def settle (fixed : Bool) : Nat → MState → MState
  | 0, m => m
  | f + 1, m =>
    match (List.range m.t.n).find? (fun x => m.t.killed x && !(m.act x).gone) with
    | none => m
    | some x => settle fixed f { m with t := exit fixed m.t x, act := upd m.act x { m.act x with gone := true, busy := false } }

/-- the tree / bookkeeping part of an exit at a quiescent point -/
def exitCore (fixed : Bool) (m : MState) (a : Nat) : MState :=
  settle fixed m.t.n { m with t := exit fixed m.t a, act := upd m.act a { m.act a with gone := true, busy := false } }

/-- … plus the terminal event: `cleanup` notifies the supervisor the actor has after its `terminate`
and before it unlinks itself.  (The actors taken down with it were detached first: no events.) -/
def exitM (fixed : Bool) (m : MState) (a : Nat) (w : Why := .killed) : MState :=
  { exitCore fixed m a with
    evs := m.evs ++ (match (terminate fixed (setStatus m.t a .stopping) a).sup a with
                     | some p => [(a, p, w)]
                     | none => []) }

/-- a graceful exit (stop, drained): `set_status(Stopping)`, then `post_stop`, then `cleanup`.  If the
gate in `post_stop` is armed the actor stays there — `Stopping`, children still linked, set still open. -/
def gexit (fixed : Bool) (m : MState) (a : Nat) (w : Why := .stopped) : MState :=
  if (m.act a).hold then
    { m with t := setStatus m.t a .stopping,
             act := upd m.act a { m.act a with inPs := true, busy := false, why := w } }
  else exitM fixed m a w

/-- alive and still in its message loop -/
def MState.looping (m : MState) (a : Nat) : Bool := m.alive a && !(m.act a).inPs

inductive MOp
  | spawn
  | spawnl (p : Nat)
  /-- `spawn_local_linked` (thread-local actor): the link is made BEFORE `pre_start`, which may then fail -/
  | spawnlt (p : Nat) (preStartFails : Bool)
  | link (c p : Nat)
  | unlink (c p : Nat)
  | block (a : Nat)
  | release (a : Nat)
  | drain (a : Nat)
  | stop (a : Nat)
  | kill (a : Nat)
  | fail (a : Nat)
  | abort (a : Nat)
  /-- arm the gate in `post_stop` -/
  | hold (a : Nat)
  /-- open the gate: `post_stop` returns, `cleanup` runs -/
  | psrelease (a : Nat)
  deriving DecidableEq, Repr

/-- result of the API call as the harness reports it -/
inductive Res | unit | ok | err | tt | ff
  deriving DecidableEq, Repr

def mstep (fixed : Bool) (m : MState) : MOp → MState × Res
  | .spawn => ({ m with t := setStatus (spawn m.t) m.t.n .running }, .ok)
  | .spawnl p =>
    let c := m.t.n
    let r := link (spawn m.t) c p
    if r.2 then ({ m with t := setStatus r.1 c .running }, .ok)
    else (exitCore fixed { m with t := r.1 } c, .err)   -- `cleanup(None)`: nobody is told
  | .spawnlt p fails =>
    let c := m.t.n
    let r := link (spawn m.t) c p
    -- a refused link fails the spawn before any user code has seen the cell: nothing observable is left
    if !r.2 then (m, .err)
    else if !fails then ({ m with t := setStatus r.1 c .running }, .ok)
    else (exitCore fixed { m with t := r.1 } c, .err)   -- a failed `pre_start` is reported by the spawn result only
  | .link c p => let r := link m.t c p; ({ m with t := r.1 }, if r.2 then .tt else .ff)
  | .unlink c p => ({ m with t := unlink m.t c p }, .unit)
  | .block a =>
    if m.alive a && decide ((m.t.status a).toNat < Status.draining.toNat) then
      let A := m.act a
      ({ m with act := upd m.act a (if A.busy then { A with queue := A.queue + 1 } else { A with busy := true }) }, .ok)
    else (m, .err)
  | .release a =>
    let A := m.act a
    if m.alive a && A.busy then
      let A := { A with handled := A.handled + 1 }
      if A.stopReq then (gexit fixed { m with act := upd m.act a A } a .stopped, .unit)
      else if A.queue > 0 then ({ m with act := upd m.act a { A with queue := A.queue - 1 } }, .unit)
      else
        let m' := { m with act := upd m.act a { A with busy := false } }
        if m.t.status a = .draining then (gexit fixed m' a .drained, .unit) else (m', .unit)
    else (m, .unit)
  | .drain a =>
    -- (an actor in `post_stop` no longer reads its ports: drain and stop have no effect on it)
    if m.looping a then
      let m' := { m with t := setStatus m.t a .draining }
      if (m.act a).busy then (m', .unit) else (gexit fixed m' a .drained, .unit)
    else (m, .unit)
  | .stop a =>
    -- the one-shot stop port is used up by the first `stop()`, whatever the state of the actor
    let m := { m with act := upd m.act a { m.act a with stopSent := true } }
    if m.looping a then
      if (m.act a).busy then ({ m with act := upd m.act a { m.act a with stopReq := true } }, .unit)
      else (gexit fixed m a .stopped, .unit)
    else (m, .unit)
  | .kill a => if m.alive a then (exitM fixed m a .killed, .unit) else (m, .unit)
  | .fail a => if m.looping a && !(m.act a).busy then (exitM fixed m a .failed, .unit) else (m, .unit)
  | .abort a => if m.alive a then (exitM fixed m a .cancelled, .unit) else (m, .unit)
  | .hold a =>
    if m.alive a then ({ m with act := upd m.act a { m.act a with hold := true } }, .unit) else (m, .unit)
  | .psrelease a =>
    if m.alive a && (m.act a).inPs then (exitM fixed m a (m.act a).why, .unit) else (m, .unit)

/-- a macro run: what one case of the E-LTS harness is -/
def mrun (fixed : Bool) (m : MState) (ops : List MOp) : MState := ops.foldl (fun m op => (mstep fixed m op).1) m

/-! ### the supervisor-side wrappers `stop_children`, `drain_children`, `*_and_wait`

`for_each_child(|c| c.stop(reason))` / `c.drain()`: the same request to every child linked at that
moment.  The waiting variants take the snapshot `get_children()` and run `stop_and_wait` / `drain_and_wait`
for each child in a `JoinSet`; `stop_and_wait` returns at once (with an error nobody looks at) when the
child's stop port was already used, otherwise both wait for the child to be `Stopped`. -/

inductive KOp
  | stopKids (a : Nat)
  | drainKids (a : Nat)
  | stopKidsWait (a : Nat)
  | drainKidsWait (a : Nat)
  deriving DecidableEq, Repr

def kidsOf (m : MState) (a : Nat) : List Nat := (m.t.kids a).getD []

def kstep (fixed : Bool) (m : MState) : KOp → MState
  | .stopKids a => mrun fixed m ((kidsOf m a).map .stop)
  | .drainKids a => mrun fixed m ((kidsOf m a).map .drain)
  | .stopKidsWait a =>
    let w : Waiter := ⟨(kidsOf m a).filter (fun c => !(m.act c).stopSent)⟩
    { mrun fixed m ((kidsOf m a).map .stop) with waiters := m.waiters ++ [w] }
  | .drainKidsWait a =>
    { mrun fixed m ((kidsOf m a).map .drain) with waiters := m.waiters ++ [⟨kidsOf m a⟩] }

/-! history clauses for the wrappers (C07: a drain handles everything accepted before it and ends
"Drained"), evaluated by the driver on the implementation's answers -/

/-- after `drain_children*` on `a` every actor that was its child is at least `Draining` -/
def drainKidsOk (prev cur : State) (a : Nat) : Bool :=
  ((prev.kids a).getD []).all (fun c => decide (Status.draining.toNat ≤ (cur.status c).toNat))

/-- the terminal events about former children of `a` caused by `drain_children*` carry "Drained" -/
def drainKidsReasonsOk (prev : State) (a : Nat) (evs : List (Nat × Nat × Why)) : Bool :=
  evs.all (fun e => !(((prev.kids a).getD []).contains e.1 && e.2.1 == a) || e.2.2 == .drained)

/-- an actor that was asked to drain, was never asked to stop, and ends its message loop by itself has
handled everything it accepted -/
def backlogOk (accepted handled : Nat) : Bool := handled == accepted

/-- the waiting task has returned: every child it waits for is gone -/
def Waiter.done (m : MState) (w : Waiter) : Bool := w.pending.all (fun c => (m.act c).gone)

end Tree
