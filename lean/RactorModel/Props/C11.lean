import RactorModel.Lemmas.PgSpec
import RactorModel.Lemmas.PgNotify
import RactorModel.Lemmas.PgConcGlob
import RactorModel.Lemmas.PgConcNotify
import RactorModel.Lemmas.PgConcLin
import RactorModel.Lemmas.PgConcLeak
import RactorModel.Lemmas.PgConcHold
import RactorModel.Lemmas.PgConcText
import RactorModel.Lemmas.PgConcRead
import RactorModel.Lemmas.PgConcLeaveStep
import RactorModel.Lemmas.PgConcLeaveCongr
import RactorModel.Model.PgText

/-!
# C11 — process groups reflect live membership and tell their monitors

Property theorems only. Model: `Model/Pg.lean` (the four indexes of `ractor/src/pg.rs` as
association lists, API-level atomic ops, notifications as op output); lemmas: `Lemmas/Pg*.lean`.
All statements are for every op sequence (`run init ops`) — any number of scopes, groups, actors,
duplicates inside one call, repeated joins, leaves of non-members, ops on stopped actors.
-/

namespace C11
open Pg AList

/-- Every reachable state satisfies the snapshot predicate `Pg.ok` that the driver evaluates on
`pg::verif_snapshot()` of the real implementation: unique keys; forward map ↔ reverse index
(members, group listeners, world listeners); scope index = groups with members; no empty
entries; stopping/stopped actors own nothing; sets have no duplicates. -/
theorem ok_reachable (ops : List Op) : ok (run init ops) = true :=
  ok_of_inv (inv_run inv_init ops)

/-- Cross-index agreement, spelled out. -/
theorem cross_index_agreement (ops : List Op) :
    let st := run init ops
    (∀ k a, a ∈ membersOf st k ↔ k ∈ relMem st a) ∧
    (∀ k m, m ∈ listenersOf st k ↔ k ∈ relGmon st m) ∧
    (∀ s m, m ∈ worldOf st s ↔ s ∈ relWmon st m) ∧
    (∀ s g, g ∈ idxOf st s ↔ membersOf st (s, g) ≠ []) ∧
    (∀ k gs, get st.map k = some gs → gs.members ≠ [] ∨ gs.listeners ≠ []) ∧
    (∀ s, get st.world s ≠ some []) ∧ (∀ s, get st.index s ≠ some []) := by
  intro st
  have h : Inv st := inv_run inv_init ops
  exact ⟨h.mem, h.gmon, h.wmon, h.idx, h.mapNE, h.worldNE, h.idxNE⟩

/-! ### Refinement: the forward map implements a set of (scope, group, actor) triples -/

theorem dead_step (st : State) (op : Op) (a : Nat) :
    a ∈ (step st op).1.dead ↔ a ∈ st.dead ∨ op = .exit a := by
  constructor
  · intro h
    cases op with
    | exit b =>
      simp only [step] at h
      by_cases hb : b ∈ st.dead
      · rw [exit_dead_noop st b hb] at h; exact Or.inl h
      · have : (exit st b).1.dead = st.dead ++ [b] := by
          cases hr : get st.rel b with
          | none => rw [exit_norel st b hb hr]
          | some r => rw [exit_rel st b hb hr]; unfold leaveAll; rw [afterDemon_rel_get]; rfl
        rw [this] at h
        simp only [List.mem_append, List.mem_singleton] at h
        rcases h with h | rfl
        · exact Or.inl h
        · exact Or.inr rfl
    | join s g as => simp only [step, join_dead] at h; exact Or.inl h
    | leave s g as =>
      simp only [step] at h
      cases hg : get st.map (s, g) with
      | none => rw [leave_noop st s g as hg] at h; exact Or.inl h
      | some gs => rw [leave_dead st s g as hg] at h; exact Or.inl h
    | monitor g b => simp only [step, monitor] at h; split at h <;> exact Or.inl h
    | monitorScope s b => simp only [step, monitorScope] at h; split at h <;> exact Or.inl h
    | demonitor g b => exact Or.inl h
    | demonitorScope s b => exact Or.inl h
    | newRemote b => exact Or.inl h
    | drain b => exact Or.inl h
  · rintro (h | rfl)
    · exact dead_mono_step st op h
    · exact exit_marks_dead st a

/-- **Refinement theorem.** For every op sequence, the membership read off the concrete forward
map is exactly the abstract set of triples evolved by the specification (`join` adds the live
actors of the call, `leave` removes the listed ones, `exit` removes the actor everywhere, the
monitor ops do nothing), and the set of stopping actors is the set of exited ones. -/
theorem membership_refines_spec (ops : List Op) :
    (fun s g a => member (run init ops) s g a) = (specRun (fun _ _ _ => False, fun _ => False) ops).1 ∧
    (fun a => a ∈ (run init ops).dead) = (specRun (fun _ _ _ => False, fun _ => False) ops).2 := by
  have gen : ∀ (ops : List Op) (st : State), Inv st →
      (fun s g a => member (run st ops) s g a) = (specRun (member st, fun a => a ∈ st.dead) ops).1 ∧
      (fun a => a ∈ (run st ops).dead) = (specRun (member st, fun a => a ∈ st.dead) ops).2 := by
    intro ops
    induction ops with
    | nil => intro st _; exact ⟨rfl, rfl⟩
    | cons op ops ih =>
      intro st hst
      have h1 : (fun s g a => member (step st op).1 s g a) = specMember (member st) (fun x => ¬ x ∈ st.dead) op := by
        funext s g a
        exact propext (member_step hst op s g a)
      have h2 : (fun a => a ∈ (step st op).1.dead) = fun a => a ∈ st.dead ∨ op = .exit a := by
        funext a
        exact propext (dead_step st op a)
      have := ih (step st op).1 (inv_step hst op)
      simp only [run, specRun]
      rw [← h1, ← h2]
      exact this
  have h0 : (member init) = fun _ _ _ => False := by
    funext s g a
    exact propext ⟨fun h => by simp [member, membersOf, init] at h, False.elim⟩
  have h1 : (fun a => a ∈ init.dead) = fun _ => False := by
    funext a
    exact propext ⟨fun h => by simp [init] at h, False.elim⟩
  have := gen ops init inv_init
  rw [h0, h1] at this
  exact this

/-! ### Every query is the projection of the membership relation -/

theorem getMembers_spec (st : State) (s g a : Nat) : a ∈ getMembers st s g ↔ member st s g a := Iff.rfl

theorem getLocalMembers_spec (st : State) (s g a : Nat) :
    a ∈ getLocalMembers st s g ↔ member st s g a ∧ a ∉ st.remote := by
  simp [getLocalMembers, member, List.mem_filter]

/-- a group is listed iff it has members (in some scope) -/
theorem whichGroups_spec (ops : List Op) (g : Nat) :
    g ∈ whichGroups (run init ops) ↔ ∃ s a, member (run init ops) s g a := by
  have h := inv_run inv_init ops
  simp only [whichGroups, List.mem_map, mem_nonEmptyKeys h, ne_nil_iff, member]
  constructor
  · rintro ⟨⟨s, g'⟩, ⟨a, ha⟩, rfl⟩; exact ⟨s, a, ha⟩
  · rintro ⟨s, a, ha⟩; exact ⟨(s, g), ⟨a, ha⟩, rfl⟩

theorem whichScopes_spec (ops : List Op) (s : Nat) :
    s ∈ whichScopes (run init ops) ↔ ∃ g a, member (run init ops) s g a := by
  have h := inv_run inv_init ops
  simp only [whichScopes, List.mem_map, mem_nonEmptyKeys h, ne_nil_iff, member]
  constructor
  · rintro ⟨⟨s', g⟩, ⟨a, ha⟩, rfl⟩; exact ⟨g, a, ha⟩
  · rintro ⟨g, a, ha⟩; exact ⟨(s, g), ⟨a, ha⟩, rfl⟩

theorem whichScopesAndGroups_spec (ops : List Op) (s g : Nat) :
    (s, g) ∈ whichScopesAndGroups (run init ops) ↔ ∃ a, member (run init ops) s g a := by
  have h := inv_run inv_init ops
  simp only [whichScopesAndGroups, mem_nonEmptyKeys h, ne_nil_iff, member]

/-- the scope index answers the same question (this is where the cross-index invariant is needed) -/
theorem whichScopedGroups_spec (ops : List Op) (s g : Nat) :
    g ∈ whichScopedGroups (run init ops) s ↔ ∃ a, member (run init ops) s g a := by
  have h := inv_run inv_init ops
  have := h.idx s g
  unfold idxOf at this
  simp only [whichScopedGroups, this, ne_nil_iff, member]

/-! ### Stopping actors -/

/-- Once an actor has exited (its status is `≥ Stopping`), whatever is called afterwards — joins
naming it, monitors for it, repeated exits — it is a member of no group and a monitor of none. -/
theorem exited_actor_owns_nothing (before after : List Op) (a : Nat) :
    let st := run init (before ++ .exit a :: after)
    (∀ s g, ¬ member st s g a) ∧ (∀ k, ¬ monitorsGroup st k a) ∧ (∀ s, ¬ monitorsScope st s a) ∧
    get st.rel a = none := by
  intro st
  have hrun : ∀ (l1 l2 : List Op) (s0 : State), run s0 (l1 ++ l2) = run (run s0 l1) l2 := by
    intro l1
    induction l1 with
    | nil => intro l2 s0; rfl
    | cons op l1 ih => intro l2 s0; simp only [List.cons_append, run]; exact ih l2 _
  have h : Inv st := inv_run inv_init _
  have hd : a ∈ st.dead := by
    show a ∈ (run init (before ++ .exit a :: after)).dead
    rw [hrun]
    simp only [run]
    exact dead_mono_run after _ (exit_marks_dead _ a)
  obtain ⟨h1, h2, h3⟩ := dead_owns_nothing h hd
  exact ⟨fun s g => h1 (s, g), h2, h3, h.dead a hd⟩

/-- `drain()` — on a live actor or, late, through a stale reference on one that is already stopping —
is invisible to pg: it changes none of the four indexes, not the set of stopping actors, and
notifies nobody. (The seeded changes C10-4 / C11-4 let a late `drain()` rewind `Stopping` to
`Draining`, which re-opens the door of `join_scoped`/`monitor*`.) -/
theorem drain_is_invisible_to_pg (st : State) (a : Nat) : step st (.drain a) = (st, []) := rfl

/-- the late-drain-then-join window: an actor that has begun to stop is not re-admitted by a join
(or monitor) that follows a late `drain()`, however many of them -/
theorem late_drain_then_join_never_adds (before : List Op) (a s g : Nat) (as : List Nat) (k m : Nat) :
    let st := run init (before ++ .exit a :: [.drain a, .join s g as, .monitor k a, .drain a, .monitorScope m a])
    (∀ s' g', ¬ member st s' g' a) ∧ (∀ k', ¬ monitorsGroup st k' a) ∧ (∀ s', ¬ monitorsScope st s' a) := by
  intro st
  have := exited_actor_owns_nothing before [.drain a, .join s g as, .monitor k a, .drain a, .monitorScope m a] a
  exact ⟨this.1, this.2.1, this.2.2.1⟩

/-- in particular a join never adds a stopping actor -/
theorem join_never_adds_stopping (ops : List Op) (s g : Nat) (as : List Nat) (a : Nat)
    (hd : a ∈ (run init ops).dead) : ¬ member (join (run init ops) s g as).1 s g a := by
  have h := inv_run inv_init ops
  unfold member
  rw [join_members]
  rintro (x | ⟨_, _, y⟩)
  · exact (dead_owns_nothing h hd).1 _ x
  · exact y hd

/-! ### Notifications -/

/-- A `join` that adds somebody (resp. a `leave` of an existing group) emits exactly
`specEvents`: the event, with the call's scope, group and actor list (for `join`: the live actors
of the call, duplicates kept, already-joined actors kept — as the code does), once per group
monitor, once per scope monitor, once per all-scopes monitor; otherwise nothing. -/
theorem join_notifications (st : State) (s g : Nat) (as : List Nat) :
    (step st (.join s g as)).2 = specEvents st (.join s g as) := join_events st s g as

theorem leave_notifications (st : State) (s g : Nat) (as : List Nat) :
    (step st (.leave s g as)).2 = specEvents st (.leave s g as) := leave_events st s g as

/-- The automatic leave on exit emits one `Leave [a]` per group the actor was still in, to that
group's monitors, its scope's monitors and the all-scopes monitors (the exiting actor itself
excluded: it is demonitored first) — as a multiset (the order over groups is the iteration order
of a `HashSet`). -/
theorem exit_notifications (ops : List Op) (a : Nat) :
    ((step (run init ops) (.exit a)).2).Perm (specEvents (run init ops) (.exit a)) :=
  exit_events (inv_run inv_init ops) a

/-- the monitor ops notify nobody -/
theorem monitor_ops_silent (st : State) (op : Op)
    (h : match op with | .join .. | .leave .. | .exit _ => False | _ => True) : (step st op).2 = [] := by
  cases op <;> first | rfl | exact absurd h id

/-- `specEvents` counted per monitor: for every reachable state, a monitor `m` receives the
event as many times as it has subscriptions that cover the group (group, scope, all scopes) —
and therefore nothing if it has none. -/
theorem notification_count (ops : List Op) (isJoin : Bool) (s g : Nat) (as : List Nat) (m : Nat) :
    let st := run init ops
    ((expectedEvents st isJoin s g as).filter (fun e => e.monitor = m)).length =
      (if m ∈ listenersOf st (s, g) then 1 else 0) + (if m ∈ worldOf st s then 1 else 0) +
      (if m ∈ worldOf st allScopes then 1 else 0) := by
  intro st
  have h : Inv st := inv_run inv_init ops
  have key : ∀ l : List Nat, l.Nodup →
      ((l.map (fun x => Ev.mk x isJoin s g as)).filter (fun e => e.monitor = m)).length = if m ∈ l then 1 else 0 := by
    intro l hl
    induction l with
    | nil => rfl
    | cons x l ih =>
      rw [List.nodup_cons] at hl
      simp only [List.map_cons, List.filter_cons, List.mem_cons]
      by_cases e : x = m
      · subst e
        simp only [decide_true, ↓reduceIte, List.length_cons, true_or]
        rw [ih hl.2, if_neg hl.1]
      · have : ¬ m = x := fun y => e y.symm
        simp only [e, decide_false, Bool.false_eq_true, ↓reduceIte, this, false_or]
        exact ih hl.2
  unfold expectedEvents
  simp only [List.map_append, List.filter_append, List.length_append]
  rw [key _ (h.ndL _), key _ (h.ndW _), key _ (h.ndW _)]

/-! ### The join-vs-exit race, lock step (fine-grained model `Pg.Fine`) -/

/-- **Published-before-drain.** Start from any state the API can reach. Let actor `a`'s exit run
region by region (`mark` = publish `Stopping`; `demonitor_all`: drain, one entry per step; `leave_all`:
drain, one entry per step, finish) in any order of the drained keys, and let the environment run,
between any two of these regions and in any number, any public pg call at its locked region —
`join`/`monitor`/`monitor_scope` naming `a` included —, the post-lock clean-up regions of
`monitor*`/`join_scoped`, late `drain()`s of the exiter through stale references (`api (.drain a)`,
possibly followed by joins naming it), and whole exits of other actors. Then, for EVERY such schedule: once the
exit has finished, `a` is a member of no group and a listener of none (no zombie), `a` is marked
stopping, and this stays true for every continuation of the schedule. -/
theorem exit_race_no_zombie (ops : List Op) (a : Nat) (sched : List Fine.FOp) :
    let fs := Fine.frun a ⟨run init ops, .live⟩ sched
    fs.ph = .done →
      (∀ k, a ∉ membersOf fs.st k) ∧ (∀ k, a ∉ listenersOf fs.st k) ∧ (∀ s, a ∉ worldOf fs.st s) ∧
      a ∈ fs.st.dead := by
  intro fs hdone
  have h : Fine.ZInv a fs := Fine.zinv_frun sched (Fine.zinv_of_inv (inv_run inv_init ops) a)
  unfold Fine.ZInv at h
  rw [hdone] at h
  exact ⟨h.2.1, h.2.2.1, h.2.2.2, h.1⟩

/-- `done` is absorbing: no later step of anybody reopens the exit -/
theorem exit_done_stable (a : Nat) (fs : Fine.FState) (op : Fine.FOp) (h : fs.ph = .done) :
    (Fine.fstep a fs op).ph = .done := by
  obtain ⟨st, ph⟩ := fs
  subst h
  cases op <;> simp only [Fine.fstep] <;> first | rfl | (split <;> rfl)

/-- while the exit is in flight a join naming the exiter is rejected from the moment `Stopping`
is published: in every phase after `live` no environment step makes `a` a member of anything it
was not a member of before -/
theorem exit_race_no_late_join (a : Nat) (st : State) (op : Op) (hop : op ≠ .exit a) (hd : a ∈ st.dead)
    (k : Key) (h : a ∈ membersOf (step st op).1 k) : a ∈ membersOf st k :=
  (Fine.envOK_api a st op hop).shrinkM hd k h

/-- The fine-grained exit is the API-level `exit`: run region by region with nothing in between
(`mark`, `demTake`, one `demKey`/`demWKey` per drained monitor key, `demDone`, `take`, one `lvKey`
per drained membership, `finish`) it ends in phase `done` in a state with exactly the lookups of
`exit` in all four indexes and the same set of stopping actors — so every API-level theorem above
is also a statement about the un-raced fine-grained run. -/
theorem fine_exit_is_exit (ops : List Op) (a : Nat) (hd : a ∉ (run init ops).dead) :
    let st := run init ops
    let fs := Fine.frun a ⟨st, .live⟩ (Fine.exitSched (relGmon st a) (relWmon st a) (relMem st a))
    fs.ph = .done ∧
    (∀ k, get fs.st.map k = get (exit st a).1.map k) ∧ fs.st.index = (exit st a).1.index ∧
    fs.st.world = (exit st a).1.world ∧ (∀ b, get fs.st.rel b = get (exit st a).1.rel b) ∧
    fs.st.dead = (exit st a).1.dead := by
  intro st fs
  have h : Inv st := inv_run inv_init ops
  have e : fs = ⟨Fine.fineExitState st a, .done⟩ := Fine.frun_exitSched h a
  rw [e]
  exact ⟨rfl, Fine.fineExit_eq_exit h hd⟩

/-! ### Who is told is decided where the change is made (regions, not whole calls) -/

/-- `join_scoped` and `leave_scoped` are their entry region followed by their notification
region; everybody who is to be told — group, scope and all-scopes monitors — is recorded in the
entry region (`Pending.to = recipients` of that moment) and the notification region
(`notifyPending`) looks nothing up any more: it does not even take the state. So whatever
`monitor` / `demonitor` / `monitor_scope` / `demonitor_scope` calls run between the two regions,
the event goes to exactly the monitors of the time of the change. -/
theorem join_recipients_fixed_at_entry (st : State) (s g : Nat) (as : List Nat) :
    (as.filter (alive st) ≠ [] → (joinEntry st s g as).1 = (join st s g as).1) ∧
    (((joinEntry st s g as).2.map notifyPending).getD []) = (join st s g as).2 ∧
    ∀ p, (joinEntry st s g as).2 = some p → p.to = recipients st (s, g) := by
  refine ⟨(joinEntry_notify st s g as).1, (joinEntry_notify st s g as).2, ?_⟩
  intro p hp
  unfold joinEntry at hp
  by_cases c : as.filter (alive st) = []
  · simp [c] at hp
  · simp only [c, ↓reduceIte, Option.some.injEq] at hp
    rw [← hp]

theorem leave_recipients_fixed_at_entry (st : State) (s g : Nat) (as : List Nat) :
    (leaveEntry st s g as).1 = (leave st s g as).1 ∧
    (((leaveEntry st s g as).2.map notifyPending).getD []) = (leave st s g as).2 ∧
    ∀ p, (leaveEntry st s g as).2 = some p → p.to = recipients st (s, g) := by
  refine ⟨(leaveEntry_notify st s g as).1, (leaveEntry_notify st s g as).2, ?_⟩
  intro p hp
  unfold leaveEntry at hp
  cases hg : get st.map (s, g) with
  | none => simp [hg] at hp
  | some gs =>
    simp only [hg, Option.some.injEq] at hp
    rw [← hp]

/-- The automatic `Leave` of an exiting actor: the iteration of `leave_all` that takes the actor
out of group `k` records `recipients` of that very moment; no environment step — any public call
at its locked region, in particular `monitor`/`demonitor`/`monitor_scope`/`demonitor_scope`, any
clean-up region, any other actor's exit — touches the records; and what `finish` sends is a
function of the records alone. Hence the `Leave` of each group goes to exactly the listeners
present at the removal step, whatever interleaves afterwards. -/
theorem exit_leave_recipients_fixed_at_removal (a : Nat) (st : State) (mk : List Key)
    (removed : List (Key × List Nat)) :
    (∀ k, k ∈ mk → a ∈ membersOf st k →
      (Fine.fstep a ⟨st, .leaving mk removed⟩ (.lvKey k)).ph =
        .leaving (del k mk) (removed ++ [(k, recipients st k)])) ∧
    (∀ envs : List Fine.FOp, (∀ op ∈ envs, Fine.isEnv op = true) →
      (Fine.frun a ⟨st, .leaving mk removed⟩ envs).ph = .leaving mk removed) ∧
    (∀ st' : State, (finishLeave st' a removed).2 =
      removed.flatMap (fun r => r.2.map (fun m => Ev.mk m false r.1.1 r.1.2 [a]))) :=
  ⟨fun k hk hm => Fine.lvKey_records a st mk removed k hk hm,
   fun envs h => Fine.envs_keep_phase a envs _ h,
   fun st' => Fine.finishLeave_events st' a removed⟩

/-- Finding F7 (before the `fix:` commit the scope / all-scopes listeners were looked up in the
notification region): then the recipients are NOT fixed at the change. Witness: `join 1 0 [2]` has
taken effect, actor 1 subscribes to all scopes afterwards, and is among the recipients. -/
theorem recipients_legacy_not_fixed :
    let stEntry := run init [.join 1 0 [0, 1], .monitorScope 1 2]
    let stChanged := (join stEntry 1 0 [2]).1
    let stNotify := monitorScope stChanged 0 1
    recipients stEntry (1, 0) = [2] ∧ legacyRecipients stEntry stNotify (1, 0) = [2, 1] := by decide

/-! ### Non-vacuity -/

/-- actor 2 stops monitoring group (1,0) after actor 0 has been taken out of it but before the
notifications are sent: it is still told (the record was made at the removal) -/
example :
    let st0 := run init [.join 1 0 [0, 1], .monitor 0 2, .monitorScope 1 3]
    let fs := Fine.frun 0 ⟨st0, .live⟩
      [.mark, .demTake, .demDone, .take, .lvKey (1, 0), .api (.demonitor 0 2), .api (.demonitorScope 1 3)]
    fs.ph = .leaving [] [((1, 0), [2, 3])] ∧
    (finishLeave fs.st 0 [((1, 0), [2, 3])]).2 = [⟨2, false, 1, 0, [0]⟩, ⟨3, false, 1, 0, [0]⟩] := by decide

/-- an exit of actor 0 (member of (1,0), monitor of (1,0) and of all scopes) racing a join that
names it (rejected after `mark`), a leave, a monitor registration with its clean-up region: the
exit reaches `done` and nothing of actor 0 is left -/
example :
    let st0 := run init [.join 1 0 [0, 1], .monitor 0 0, .monitorScope 0 0]
    let fs := Fine.frun 0 ⟨st0, .live⟩
      [.mark, .api (.drain 0), .api (.join 1 1 [0, 2]), .demTake, .api (.monitor 1 0), .demKey (1, 0),
       .monRecheck 1 0, .demWKey 0, .demDone, .api (.leave 1 0 [1]), .take, .lvKey (1, 0), .api (.drain 0),
       .api (.join 1 0 [0]), .finish, .api (.join 1 0 [0])]
    fs.ph = .done ∧ getMembers fs.st 1 0 = [] ∧ getMembers fs.st 1 1 = [2] ∧ fs.st.rel.map (·.1) = [2, 1] ∧
    fs.st.dead = [0] ∧ ok fs.st = true := by decide

/-- actors 1,2 join (1,0) twice with a duplicate; 9 monitors the group, 8 the scope, 7 everything;
3 leaves though it never joined; 1 exits -/
example :
    let ops := [Op.monitor 0 9, .monitorScope 1 8, .monitorScope 0 7, .join 1 0 [1, 2, 1], .join 1 0 [2],
                .leave 1 0 [3], .exit 1]
    getMembers (run init ops) 1 0 = [2] ∧ whichGroups (run init ops) = [0] ∧
    (step (run init (ops.take 3)) (.join 1 0 [1, 2, 1])).2 =
      [⟨9, true, 1, 0, [1, 2, 1]⟩, ⟨8, true, 1, 0, [1, 2, 1]⟩, ⟨7, true, 1, 0, [1, 2, 1]⟩] ∧
    (step (run init (ops.take 6)) (.exit 1)).2 =
      [⟨9, false, 1, 0, [1]⟩, ⟨8, false, 1, 0, [1]⟩, ⟨7, false, 1, 0, [1]⟩] ∧
    ok (run init ops) = true := by decide

/-- a stopping actor is not added and a monitor registration for it leaves no trace -/
example :
    let st := run init [.join 1 0 [1], .exit 1, .join 1 0 [1, 2], .monitor 0 1, .monitorScope 0 1]
    getMembers st 1 0 = [2] ∧ st.rel.map (·.1) = [2] ∧ st.world = [] := by decide

/-! ### Everything concurrent, lock region by lock region (`Pg.Conc`)

`Model/PgConc.lean`: any number of actors exiting at the same time, each exit stepped region by region
(`mark`, `demonitor_all`: drain + one forward entry per step, `leave_all`: drain + one forward entry per
step + finish), any number of caller threads inside `join_scoped` / `leave_scoped` / `monitor` /
`monitor_scope` / `demonitor` / `demonitor_scope`, each stepped region by region in the order of
`pg.rs` — `join_scoped`'s entry-lock region itself one relations lock at a time (`joinLock`, one
`joinOne` per distinct actor with the status re-check, `joinCommit`), with every region that needs a
held group entry blocked and everything else (the relations-lock-only regions of the exits included)
running in between; a schedule is ANY list of `Tid`s. `g0 ops calls` = the threads about to make `calls`
in a state reached by the API-level history `ops`. -/

/-- the start of a concurrent run: API-level history `ops`, then the threads `calls`, nothing begun -/
def g0 (ops : List Op) (calls : List Conc.Pc) : Conc.G := Conc.start (run init ops) calls

theorem conc_inv (ops : List Op) (calls : List Conc.Pc) (sched : List Conc.Tid) (a : Nat) :
    Conc.VInv a (Conc.gView (Conc.run (g0 ops calls) sched)) (Conc.phaseOf (Conc.run (g0 ops calls) sched) a) :=
  (Conc.allInv_run (Conc.allInv_start (inv_run inv_init ops) calls).1
    (Conc.allInv_start (inv_run inv_init ops) calls).2 sched).1 a

/-- **The cross-index invariant, weakened exactly by what is in flight.** For EVERY schedule and every
actor `a`: (1) reverse ⊆ forward: a membership in `a`'s reverse index without its forward entry is one
that a `join_scoped` holding that group entry has accepted and not yet inserted (`accOf`) — nothing else;
a group-monitor or world-monitor entry without its forward entry is a stale one recorded in the ghosts
`staleG` / `staleW`: left by the entry region of a `demonitor` / `demonitor_scope` whose
`get_actor_relations` — done before the entry is taken — had found no `Arc` (a `monitor*` of the same actor
ran in between); (2) forward ⊆ reverse can
fail for `a` only inside `a`'s OWN exit, and then every stale forward entry (or accepted-but-uncommitted
membership) is one of the keys that exit has drained and not yet visited (`demon gk wk`: stale listener
entries ⊆ `gk` / `wk`; `leaving mk _`: stale member entries ⊆ `mk`); no operation of any other thread —
join, leave, monitor, demonitor, their clean-up regions, the regions of other actors' exits — ever
accounts for such a discrepancy; (3) what the exit has drained from the reverse index stays drained. -/
theorem conc_cross_index_windows (ops : List Op) (calls : List Conc.Pc) (sched : List Conc.Tid) (a : Nat) :
    let g := Conc.run (g0 ops calls) sched
    ((∀ k, k ∈ relMem g.st a → a ∈ membersOf g.st k ∨ a ∈ Conc.accOf g k) ∧
      (∀ k, k ∈ relGmon g.st a → a ∈ listenersOf g.st k ∨ (a, k) ∈ g.staleG) ∧
      (∀ s, s ∈ relWmon g.st a → a ∈ worldOf g.st s ∨ (a, s) ∈ g.staleW)) ∧
    (∀ k, a ∈ membersOf g.st k ∨ a ∈ Conc.accOf g k →
      k ∈ relMem g.st a ∨ ∃ mk rm, Conc.phaseOf g a = .leaving mk rm ∧ k ∈ mk) ∧
    (∀ k, a ∈ listenersOf g.st k → k ∈ relGmon g.st a ∨ ∃ gk wk, Conc.phaseOf g a = .demon gk wk ∧ k ∈ gk) ∧
    (∀ s, a ∈ worldOf g.st s → s ∈ relWmon g.st a ∨ ∃ gk wk, Conc.phaseOf g a = .demon gk wk ∧ s ∈ wk) ∧
    (Conc.drainedG (Conc.phaseOf g a) → (∀ k, k ∉ relGmon g.st a) ∧ (∀ s, s ∉ relWmon g.st a)) ∧
    (Conc.drainedM (Conc.phaseOf g a) → ∀ k, k ∉ relMem g.st a) := by
  intro g
  have h := conc_inv ops calls sched a
  refine ⟨⟨h.rM, h.rL, h.rW⟩, ?_, ?_, ?_, h.drG, h.drM⟩
  · intro k hk
    have := h.fM k hk
    generalize Conc.phaseOf g a = ph at this
    cases ph with
    | leaving mk rm => exact Or.inr ⟨mk, rm, rfl, this⟩
    | done => exact absurd this id
    | _ => exact Or.inl this
  · intro k hk
    have := h.fL k hk
    generalize Conc.phaseOf g a = ph at this
    cases ph with
    | live => exact Or.inl this
    | marked => exact Or.inl this
    | demon gk wk => exact Or.inr ⟨gk, wk, rfl, this⟩
    | _ => exact absurd this id
  · intro s hs
    have := h.fW s hs
    generalize Conc.phaseOf g a = ph at this
    cases ph with
    | live => exact Or.inl this
    | marked => exact Or.inl this
    | demon gk wk => exact Or.inr ⟨gk, wk, rfl, this⟩
    | _ => exact absurd this id

/-- Forward ↔ reverse agreement for every actor that is not inside its own exit — whatever all the
other threads and all the other exits are in the middle of: full `↔` for memberships (counted with what a
`join_scoped` holding the entry has accepted and is about to insert); every forward monitor entry has its
reverse entry (so the exit will find and remove it), and a reverse monitor entry has its forward entry
unless it is a recorded stale one. -/
theorem conc_agreement_outside_own_exit (ops : List Op) (calls : List Conc.Pc) (sched : List Conc.Tid) (a : Nat) :
    let g := Conc.run (g0 ops calls) sched
    (Conc.phaseOf g a = .live ∨ Conc.phaseOf g a = .marked) →
    (∀ k, (a ∈ membersOf g.st k ∨ a ∈ Conc.accOf g k) ↔ k ∈ relMem g.st a) ∧
    (∀ k, (a ∈ listenersOf g.st k → k ∈ relGmon g.st a) ∧
      (k ∈ relGmon g.st a → a ∈ listenersOf g.st k ∨ (a, k) ∈ g.staleG)) ∧
    (∀ s, (a ∈ worldOf g.st s → s ∈ relWmon g.st a) ∧
      (s ∈ relWmon g.st a → a ∈ worldOf g.st s ∨ (a, s) ∈ g.staleW)) := by
  intro g hp
  obtain ⟨⟨r1, r2, r3⟩, f1, f2, f3, _⟩ := conc_cross_index_windows ops calls sched a
  refine ⟨fun k => ⟨fun h => ?_, r1 k⟩, fun k => ⟨fun h => ?_, r2 k⟩, fun s => ⟨fun h => ?_, r3 s⟩⟩
  · rcases f1 k h with x | ⟨mk, rm, e, _⟩
    · exact x
    · rcases hp with hp | hp <;> (rw [hp] at e; cases e)
  · rcases f2 k h with x | ⟨gk, wk, e, _⟩
    · exact x
    · rcases hp with hp | hp <;> (rw [hp] at e; cases e)
  · rcases f3 s h with x | ⟨gk, wk, e, _⟩
    · exact x
    · rcases hp with hp | hp <;> (rw [hp] at e; cases e)

/-- **No zombie, for every exit of every schedule**: as soon as the exit of `a` has finished — whatever
the other exits and the callers are still in the middle of — `a` is stopping, a member of no group (not
even accepted by a `join_scoped` in the middle of its entry region), a listener of none, and its
reverse-index sets are empty. -/
theorem conc_no_zombie (ops : List Op) (calls : List Conc.Pc) (sched : List Conc.Tid) (a : Nat) :
    let g := Conc.run (g0 ops calls) sched
    Conc.phaseOf g a = .done →
    a ∈ g.st.dead ∧ (∀ k, a ∉ membersOf g.st k ∧ a ∉ Conc.accOf g k) ∧ (∀ k, a ∉ listenersOf g.st k) ∧
    (∀ s, a ∉ worldOf g.st s) ∧ (∀ k, k ∉ relMem g.st a) ∧ (∀ k, k ∉ relGmon g.st a) ∧ (∀ s, s ∉ relWmon g.st a) := by
  intro g hp
  have h := conc_inv ops calls sched a
  have hfM := h.fM; have hfL := h.fL; have hfW := h.fW; have hG := h.drG; have hM := h.drM; have hd := h.dead
  rw [hp] at hfM hfL hfW hG hM hd
  refine ⟨hd (by simp), fun k => ⟨fun x => hfM k (Or.inl x), fun x => hfM k (Or.inr x)⟩, fun k x => hfL k x,
    fun s x => hfW s x, hM trivial, (hG trivial).1, (hG trivial).2⟩

/-- **At rest** (every caller has returned, every exit that started has finished, no entry is held): no
stopping actor is a member or a monitor of anything; forward ↔ reverse agreement is total for memberships;
every forward monitor entry has its reverse entry, and a reverse monitor entry without its forward entry is a
recorded stale one (of an actor that is still alive: an exit drains them). -/
theorem conc_at_rest (ops : List Op) (calls : List Conc.Pc) (sched : List Conc.Tid) :
    let g := Conc.run (g0 ops calls) sched
    Conc.atRest g →
    (∀ a, a ∈ g.st.dead → (∀ k, a ∉ membersOf g.st k) ∧ (∀ k, a ∉ listenersOf g.st k) ∧ (∀ s, a ∉ worldOf g.st s)) ∧
    (∀ a k, a ∈ membersOf g.st k ↔ k ∈ relMem g.st a) ∧
    (∀ a k, (a ∈ listenersOf g.st k → k ∈ relGmon g.st a) ∧
      (k ∈ relGmon g.st a → a ∈ listenersOf g.st k ∨ ((a, k) ∈ g.staleG ∧ a ∉ g.st.dead))) ∧
    (∀ a s, (a ∈ worldOf g.st s → s ∈ relWmon g.st a) ∧
      (s ∈ relWmon g.st a → a ∈ worldOf g.st s ∨ ((a, s) ∈ g.staleW ∧ a ∉ g.st.dead))) := by
  intro g hr
  have hacc : ∀ k (x : Nat), x ∉ Conc.accOf g k := by
    intro k x hx
    unfold Conc.accOf at hx; rw [hr.2.2] at hx; cases hx
  have hclean : ∀ a, a ∈ g.st.dead → (∀ k, a ∉ membersOf g.st k) ∧ (∀ k, a ∉ listenersOf g.st k) ∧
      (∀ s, a ∉ worldOf g.st s) := by
    intro a hd
    rcases hr.2.1 a with hp | hp
    · obtain ⟨⟨c1, c2, c3⟩, _⟩ := (conc_inv ops calls sched a).old hp hd
      exact ⟨fun k x => c1 k (Or.inl x), c2, c3⟩
    · obtain ⟨_, c1, c2, c3, _⟩ := conc_no_zombie ops calls sched a hp
      exact ⟨fun k => (c1 k).1, c2, c3⟩
  -- the reverse-index sets of a stopping actor are empty at rest
  have hdeadrel : ∀ a, a ∈ g.st.dead → (∀ k, k ∉ relMem g.st a) ∧ (∀ k, k ∉ relGmon g.st a) ∧ (∀ s, s ∉ relWmon g.st a) := by
    intro a hd
    rcases hr.2.1 a with hp | hp
    · exact ((conc_inv ops calls sched a).old hp hd).2
    · obtain ⟨_, _, _, _, e1, e2, e3⟩ := conc_no_zombie ops calls sched a hp
      exact ⟨e1, e2, e3⟩
  have hfwd : ∀ a, (∀ k, (a ∈ membersOf g.st k ∨ a ∈ Conc.accOf g k) → k ∈ relMem g.st a) ∧
      (∀ k, a ∈ listenersOf g.st k → k ∈ relGmon g.st a) ∧ (∀ s, a ∈ worldOf g.st s → s ∈ relWmon g.st a) := by
    intro a
    rcases hr.2.1 a with hp | hp
    · obtain ⟨e1, e2, e3⟩ := conc_agreement_outside_own_exit ops calls sched a (Or.inl hp)
      exact ⟨fun k => (e1 k).mp, fun k => (e2 k).1, fun s => (e3 s).1⟩
    · obtain ⟨_, c1, c2, c3, _⟩ := conc_no_zombie ops calls sched a hp
      exact ⟨fun k h => h.elim (fun x => absurd x (c1 k).1) (fun x => absurd x (c1 k).2),
        fun k h => absurd h (c2 k), fun s h => absurd h (c3 s)⟩
  obtain hrev := fun a => (conc_cross_index_windows ops calls sched a).1
  refine ⟨hclean, ?_, ?_, ?_⟩
  · intro a k
    refine ⟨fun h => (hfwd a).1 k (Or.inl h), fun h => ?_⟩
    rcases (hrev a).1 k h with x | x
    · exact x
    · exact absurd x (hacc k a)
  · intro a k
    refine ⟨(hfwd a).2.1 k, fun h => ?_⟩
    rcases (hrev a).2.1 k h with x | x
    · exact Or.inl x
    · exact Or.inr ⟨x, fun hd => (hdeadrel a hd).2.1 k h⟩
  · intro a s
    refine ⟨(hfwd a).2.2 s, fun h => ?_⟩
    rcases (hrev a).2.2 s h with x | x
    · exact Or.inl x
    · exact Or.inr ⟨x, fun hd => (hdeadrel a hd).2.2 s h⟩

/-- **Every query is the projection of the membership relation — in EVERY state of every schedule**, not
only at rest: the forward map keeps unique keys and the scope index lists exactly the groups with
members (every region that adds or removes a member updates the index while it holds the entry). -/
theorem conc_queries_are_projections (ops : List Op) (calls : List Conc.Pc) (sched : List Conc.Tid) :
    let st := (Conc.run (g0 ops calls) sched).st
    (∀ s g a, a ∈ getMembers st s g ↔ member st s g a) ∧
    (∀ s g a, a ∈ getLocalMembers st s g ↔ member st s g a ∧ a ∉ st.remote) ∧
    (∀ g, g ∈ whichGroups st ↔ ∃ s a, member st s g a) ∧
    (∀ s, s ∈ whichScopes st ↔ ∃ g a, member st s g a) ∧
    (∀ s g, (s, g) ∈ whichScopesAndGroups st ↔ ∃ a, member st s g a) ∧
    (∀ s g, g ∈ whichScopedGroups st s ↔ ∃ a, member st s g a) := by
  intro st
  have hg : Conc.Glob st := Conc.glob_run (Conc.glob_of_inv (inv_run inv_init ops)) sched
  refine ⟨fun _ _ _ => Iff.rfl, fun s g a => getLocalMembers_spec st s g a, ?_, ?_, ?_, ?_⟩
  · intro g
    simp only [whichGroups, List.mem_map, Conc.mem_nonEmptyKeys_of_nodup hg.kMap, member]
    constructor
    · rintro ⟨⟨s, g'⟩, ⟨a, ha⟩, rfl⟩; exact ⟨s, a, ha⟩
    · rintro ⟨s, a, ha⟩; exact ⟨(s, g), ⟨a, ha⟩, rfl⟩
  · intro s
    simp only [whichScopes, List.mem_map, Conc.mem_nonEmptyKeys_of_nodup hg.kMap, member]
    constructor
    · rintro ⟨⟨s', g⟩, ⟨a, ha⟩, rfl⟩; exact ⟨g, a, ha⟩
    · rintro ⟨g, a, ha⟩; exact ⟨(s, g), ⟨a, ha⟩, rfl⟩
  · intro s g
    simp only [whichScopesAndGroups, Conc.mem_nonEmptyKeys_of_nodup hg.kMap, member]
  · intro s g
    have := hg.idx s g
    unfold idxOf at this
    simp only [whichScopedGroups, this, member]

/-- **Linearisation.** Every region of every thread changes the membership read off the forward map
exactly as the specification's transition for the region's linearised operation: a `join` takes effect at
the `joinCommit` that ends its entry-lock region, for exactly the actors it accepted — and an actor is
accepted only at an instant at which it is not stopping (its status re-check under its relations lock;
several actors of one call at several instants); a `leave` takes effect in its entry-lock region; the
automatic leave of an exiting actor takes effect one group at a time in the `leave_all` iterations; no
other region (filters, `joinLock`/`joinOne`, clean-ups, notification regions, monitor / demonitor
regions, the other exit regions, blocked steps) changes membership. Hence along every schedule the
concrete membership IS the abstract relation evolved by the linearised operations. -/
theorem conc_membership_linearizable (ops : List Op) (calls : List Conc.Pc) (sched : List Conc.Tid) (k : Key) (x : Nat) :
    (∀ (g : Conc.G) (t : Conc.Tid),
      x ∈ membersOf (Conc.step g t).st k ↔
        Conc.specLin (fun k x => x ∈ membersOf g.st k) (Conc.linOf g t) k x) ∧
    (∀ (g : Conc.G) (t : Conc.Tid), x ∈ Conc.accOf (Conc.step g t) k → x ∈ Conc.accOf g k ∨ x ∉ g.st.dead) ∧
    (x ∈ membersOf (Conc.run (g0 ops calls) sched).st k ↔
      Conc.absRun (fun k x => x ∈ membersOf (run init ops) k) (g0 ops calls) sched k x) :=
  ⟨fun g t => Conc.lin_step g t k x, fun g t => Conc.accepted_alive g t k x, Conc.lin_run (g0 ops calls) sched k x⟩

/-- **Each change is reported exactly once, to the listeners of the instant of the change.**
(1) Every region appends at most the change records of its own linearised operation and each record
carries `recipients` of the state the region ran in (group listeners ++ scope listeners ++ all-scopes
listeners read under the entry lock). (2) For every schedule, as multisets: everything sent so far plus
what the in-flight operations still owe (a caller between its entry region and its notification
region, an exit between a `leave_all` iteration and its `finish`) = one `notifyPending` per recorded
change. (3) At rest nothing is owed: the notifications sent are a permutation of exactly one event per
recorded recipient per change. -/
theorem conc_notifications_exactly_once (ops : List Op) (calls : List Conc.Pc) (sched : List Conc.Tid)
    (hfresh : ∀ pc ∈ calls, Conc.pcOwed pc = []) :
    let g := Conc.run (g0 ops calls) sched
    (∀ (g : Conc.G) (t : Conc.Tid), ∃ new, (Conc.step g t).changes = g.changes ++ new ∧
        ∀ p ∈ new, p.to = recipients g.st (p.s, p.g)) ∧
    (g.sent ++ Conc.owed g).Perm (g.changes.flatMap notifyPending) ∧
    (Conc.atRest g → g.sent.Perm (g.changes.flatMap notifyPending)) := by
  intro g
  have ha : Conc.Acct g := Conc.acct_run (Conc.acct_start _ calls hfresh) sched
  have hp : (g.sent ++ Conc.owed g).Perm (g.changes.flatMap notifyPending) := List.perm_iff_count.mpr ha.bal
  refine ⟨Conc.records_step, hp, ?_⟩
  intro hr
  have := Conc.owed_atRest ha.kEx hr
  rw [this, List.append_nil] at hp
  exact hp

/-- **Every effective membership change is reported** — for every region of every thread in every
state: if the region changes whether `x` is a member of group `k`, then it appends exactly one change
record, for that group, containing `x`, of the right kind (join iff `x` is a member afterwards), with the
recipients read in that very region (`recipients` of the state the region ran in). With
`conc_notifications_exactly_once` (one event per recorded recipient per record, as multisets, for all
schedules): each join, each leave and each automatic leave of a raced exit — one `Leave` per group the
exiting actor was still in when `leave_all` reached it; a group a racing `leave_scoped` took it out of
first is reported by that call instead — reaches exactly the monitors of the instant of the change. -/
theorem conc_every_change_recorded (g : Conc.G) (t : Conc.Tid) (k : Key) (x : Nat)
    (hch : ¬ (x ∈ membersOf (Conc.step g t).st k ↔ x ∈ membersOf g.st k)) :
    ∃ p, (Conc.step g t).changes = g.changes ++ [p] ∧ (p.s, p.g) = k ∧ x ∈ p.actors ∧
      (p.isJoin = true ↔ x ∈ membersOf (Conc.step g t).st k) ∧ p.to = recipients g.st k :=
  Conc.change_recorded g t k x hch

/-- **With the right actors.** Every record a region appends is sound for the state right after that
region: every actor it reports as joined is a member of the group then, every actor it reports as having
left is not. (A join's payload = the call's actors that were accepted, duplicates kept; a leave's payload =
the caller's list verbatim, so it may name actors that were not members — the surplus is never a member
afterwards.) -/
theorem conc_payload_sound (g : Conc.G) (t : Conc.Tid) :
    ∃ new, (Conc.step g t).changes = g.changes ++ new ∧ ∀ p ∈ new, ∀ x ∈ p.actors,
      (p.isJoin = true → x ∈ membersOf (Conc.step g t).st (p.s, p.g)) ∧
      (p.isJoin = false → x ∉ membersOf (Conc.step g t).st (p.s, p.g)) :=
  Conc.payload_step g t

/-- **The lock table is the holders' local state.** For every schedule (no thread starts inside an entry
region): a thread inside `join_scoped`'s entry region is the recorded holder of that group entry, the table
carries its own `actors`, what it still has to look at is among them — so the robustness guard
`x ∈ asOf …` in `joinOne` never fires (`joinOne` accepts exactly the actors that pass the status re-check),
and two threads are never inside the entry region of the same group. -/
theorem conc_join_guard_vacuous (ops : List Op) (calls : List Conc.Pc) (sched : List Conc.Tid)
    (hfresh : ∀ pc ∈ calls, ∀ s g as todo, pc ≠ .joinIn s g as todo) :
    let g := Conc.run (g0 ops calls) sched
    (∀ (i s g' : Nat) (as todo : List Nat) (x : Nat), g.thr[i]? = some (.joinIn s g' as (x :: todo)) →
      (Conc.asOf g (s, g')).contains x = true) ∧
    (∀ (i j s g' : Nat) (as as' todo todo' : List Nat), g.thr[i]? = some (.joinIn s g' as todo) →
      g.thr[j]? = some (.joinIn s g' as' todo') → i = j) := by
  intro g
  have h0 : Conc.HoldInv (g0 ops calls) := by
    intro i s g' as todo hi
    exact absurd rfl (hfresh _ (List.mem_of_getElem? hi) s g' as todo)
  have h : Conc.HoldInv g := Conc.holdInv_run h0 sched
  refine ⟨fun i s g' as todo x hp => Conc.join_guard_true h hp, ?_⟩
  intro i j s g' as as' todo todo' hi hj
  obtain ⟨⟨acc, hacc⟩, _⟩ := h i s g' as todo hi
  obtain ⟨⟨acc', hacc'⟩, _⟩ := h j s g' as' todo' hj
  rw [hacc] at hacc'
  simp only [Option.some.injEq, Prod.mk.injEq] at hacc'
  exact hacc'.1

/-- Where a stale reverse-only monitor entry comes from: only the entry region of a `demonitor` whose
`get_actor_relations` had found no `Arc` records one (and likewise `demonitor_scope` for `staleW`). -/
theorem conc_stale_origin (g : Conc.G) (t : Conc.Tid) (x : Nat) (k : Key) (h : (x, k) ∈ (Conc.step g t).staleG) :
    (x, k) ∈ g.staleG ∨
      ∃ i g1, t = .call i ∧ g.thr[i]? = some (.demonitorFwd g1 x) ∧ k = (defaultScope, g1) :=
  Conc.stale_origin g t x k h

/-- witness (the real code does this; found while modelling): actor 5 has no reverse-index entry;
`demonitor(0, 5)` fetches `None`; `monitor(0, 5)` runs completely (creates the entry, registers 5 on both
sides); the demonitor's entry region removes 5 from the forward listener list only. At rest 5 is not a
listener — the forward side is the linearised `monitor; demonitor` — but its reverse index still lists the
group: a stale entry, recorded in `staleG`. -/
example :
    let g := Conc.run (g0 [] [.demonitorCall 0 5, .monitor 0 5]) [.call 0, .call 1, .call 1, .call 0, .call 1]
    g.thr = [.done, .done] ∧ listenersOf g.st (defaultScope, 0) = [] ∧ relGmon g.st 5 = [(defaultScope, 0)] ∧
    g.staleG = [(5, (defaultScope, 0))] := by decide

/-- **No reverse-index leak under interleaving.** For every schedule: the reverse-index ENTRY of an actor
whose exit has finished (or that was stopping from the start) exists only while some `monitor` /
`monitor_scope` call naming it is between its `get_or_create_actor_relations` and the end of its re-check
region — which removes it again; at rest no stopping actor has an entry. -/
theorem conc_no_reverse_index_leak (ops : List Op) (calls : List Conc.Pc) (sched : List Conc.Tid) (a : Nat) :
    let g := Conc.run (g0 ops calls) sched
    (a ∈ g.st.dead → (Conc.phaseOf g a = .done ∨ Conc.phaseOf g a = .live) → (get g.st.rel a).isSome = true →
      ∃ (i : Nat) (pc : Conc.Pc), g.thr[i]? = some pc ∧ Conc.holdsRel a pc) ∧
    (Conc.atRest g → a ∈ g.st.dead → get g.st.rel a = none) := by
  intro g
  have hs := Conc.allInv_start (inv_run inv_init ops) calls
  have h : Conc.NoLeak g a :=
    Conc.noLeak_run hs.1 hs.2 (fun a => Conc.noLeak_start (inv_run inv_init ops) calls a) sched a
  refine ⟨fun hd hp hsome => h ⟨hd, hp⟩ hsome, ?_⟩
  intro hr hd
  cases hg : get g.st.rel a with
  | none => rfl
  | some r =>
    exfalso
    have hp : Conc.phaseOf g a = .done ∨ Conc.phaseOf g a = .live := (hr.2.1 a).symm
    obtain ⟨i, pc, hi, hq⟩ := h ⟨hd, hp⟩ (by unfold Conc.relSome; rw [hg]; rfl)
    have hmem : pc ∈ g.thr := List.mem_of_getElem? hi
    rw [hr.1 pc hmem] at hq
    exact hq

/-- non-vacuity: thread 0 joins actors 1 and 2 to a second group (1,1) while both exit and thread 1
starts monitoring scope 1. Actor 1 passes the status re-check of the join (`joinOne`), THEN publishes
`Stopping` and drains its reverse index (the accepted membership is among the drained keys), actor 2
publishes `Stopping` and is rejected by its own re-check; the exit's `lvKey (1,1)` is blocked while the
join holds the entry; the join commits `[1]` — a stopping actor becomes a member for a moment, accounted
for by the pending key of its own exit — and the exit then removes it and tells the scope monitor that
registered in between. At rest both are gone and every Leave was sent once. -/
example :
    let g := g0 [.join 1 0 [1, 2], .monitor 0 9] [.join 1 1 [1, 2], .monitorScope 1 8]
    let mid := Conc.run g [.call 0, .call 0, .call 0, .ex 1 .mark, .ex 1 .demTake, .ex 1 .demDone, .ex 1 .take,
      .ex 2 .mark, .call 1, .call 0]
    let mid2 := Conc.run mid [.ex 1 (.lvKey (1, 1)), .call 0]
    let fin := Conc.run mid2 [.call 1, .call 1, .ex 2 .demTake, .ex 2 .demDone, .ex 2 .take, .call 0,
      .ex 1 (.lvKey (1, 0)), .ex 1 (.lvKey (1, 1)), .ex 2 (.lvKey (1, 0)), .ex 2 .finish, .ex 1 .finish, .call 0]
    membersOf mid.st (1, 1) = [] ∧ Conc.accOf mid (1, 1) = [1] ∧ relMem mid.st 1 = [] ∧
    Conc.phaseOf mid 1 = .leaving [(1, 0), (1, 1)] [] ∧
    membersOf mid2.st (1, 1) = [1] ∧ Conc.phaseOf mid2 1 = .leaving [(1, 0), (1, 1)] [] ∧ mid2.locks = [] ∧
    membersOf fin.st (1, 0) = [] ∧ membersOf fin.st (1, 1) = [] ∧ fin.thr = [.done, .done] ∧
    Conc.phaseOf fin 1 = .done ∧ Conc.phaseOf fin 2 = .done ∧
    fin.sent = [⟨9, false, 1, 0, [2]⟩, ⟨8, false, 1, 0, [2]⟩, ⟨9, false, 1, 0, [1]⟩, ⟨8, false, 1, 0, [1]⟩,
      ⟨8, false, 1, 1, [1]⟩] ∧
    Conc.windowFailing mid2.st mid2.exits = [] ∧ Conc.windowFailing fin.st fin.exits = [] := by decide

/-- test (one instance, not a theorem): run with nobody in between, the stepped entry-lock region of
`join_scoped` (`joinLock`, one `joinOne` per distinct actor, `joinCommit`) ends in the state of the one-step
`joinEntry` that the E-THR engine replays (same lookups in the forward map, scope index and reverse
index), with the same payload (duplicates kept, the stopping actor 3 dropped) and the same recipients -/
example :
    let st0 := run init [.join 1 0 [1, 2], .monitor 0 9, .monitorScope 1 8, .exit 3]
    let g := Conc.run (Conc.start st0 [.joinFiltered 1 0 [2, 4, 3, 4, 2]]) (List.replicate 5 (.call 0))
    let je := joinEntry st0 1 0 [2, 4, 3, 4, 2]
    g.thr = [.joinEntered 1 0 [2, 4, 3, 4, 2] je.2] ∧ g.locks = [] ∧
    je.2 = some ⟨true, 1, 0, [2, 4, 4, 2], [9, 8]⟩ ∧
    get g.st.map (1, 0) = get je.1.map (1, 0) ∧ g.st.index = je.1.index ∧
    ([1, 2, 3, 4].all fun a => get g.st.rel a == get je.1.rel a) = true := by decide

/-! ### Wave 2: the notification clause against the property text, readers as threads -/

/-- **The notification clause, one region against the text** (`Lemmas/PgConcText.lean`; `monitoring` = "monitoring
that group, its scope or all scopes", `changed` = the region changed whether `x` is a member of `k`; neither is
read off `pg.rs`). For every state and every region of every thread, `new` = the records it appends:
(a) every EFFECTIVE change `(k, x)` is covered by exactly one record, for that scope and group, of the right
kind, naming `x`, addressed to exactly the actors monitoring `k`, its scope or all scopes in the state the
region ran in; (b) every record is addressed to exactly those monitors — nobody else; (c) everything a record
reports is true of the state after the region, and a record that is NOT effective is either a `Join` of
actors that were all members already or a `Leave` of actors none of which was a member — the implementation
reports these to the monitors too (see `ineffective_leave_is_notified`). -/
theorem conc_notifications_per_text (g : Conc.G) (t : Conc.Tid) :
    ∃ new, (Conc.step g t).changes = g.changes ++ new ∧
      (∀ k x, Conc.changed g t k x → ∃ p, new = [p] ∧ (p.s, p.g) = k ∧ x ∈ p.actors ∧
        (p.isJoin = true ↔ x ∈ membersOf (Conc.step g t).st k) ∧ ∀ m, m ∈ p.to ↔ Conc.monitoring g.st m k) ∧
      (∀ p ∈ new, ∀ m, m ∈ p.to ↔ Conc.monitoring g.st m (p.s, p.g)) ∧
      (∀ p ∈ new, Conc.PayloadOk (Conc.step g t).st p ∧ (Conc.effectiveRec g t p ∨ Conc.ineffectiveRec g p)) :=
  Conc.text_step g t

/-- **Delivered to every monitor of the instant of the change and to no one else, end to end.** For every
thread set and every schedule, at rest: (1) every notification that was sent is the notification of a recorded
change, received by an actor that was monitoring that group, its scope or all scopes at the instant `i` of the
change's own region; (2) conversely every actor that was monitoring at that instant has been sent it.
(Multiplicities: `conc_notifications_exactly_once`.) -/
theorem conc_delivered_to_monitors_of_the_instant (ops : List Op) (calls : List Conc.Pc) (sched : List Conc.Tid)
    (hfresh : ∀ pc ∈ calls, Conc.pcOwed pc = []) :
    let g := Conc.run (g0 ops calls) sched
    Conc.atRest g →
    (∀ e ∈ g.sent, ∃ p ∈ g.changes, e = ⟨e.monitor, p.isJoin, p.s, p.g, p.actors⟩ ∧
      ∃ i, i < sched.length ∧ Conc.monitoring (Conc.stAt (g0 ops calls) sched i) e.monitor (p.s, p.g)) ∧
    (∀ p ∈ g.changes, ∃ i, i < sched.length ∧
      ∀ m, Conc.monitoring (Conc.stAt (g0 ops calls) sched i) m (p.s, p.g) → ⟨m, p.isJoin, p.s, p.g, p.actors⟩ ∈ g.sent) := by
  intro g hr
  have hperm := (conc_notifications_exactly_once ops calls sched hfresh).2.2 hr
  refine ⟨Conc.sent_only_to_monitors (g0 ops calls) sched rfl hperm, ?_⟩
  intro p hp
  rcases Conc.records_run (g0 ops calls) sched p hp with h | ⟨i, hi, h⟩
  · cases h
  · refine ⟨i, hi, fun m hm => ?_⟩
    apply hperm.mem_iff.mpr
    rw [List.mem_flatMap]
    exact ⟨p, hp, List.mem_map.mpr ⟨m, (h m).mpr hm, rfl⟩⟩

/-- **Decided against the text: an INEFFECTIVE leave is notified.** `leave_scoped` of actors none of which is a
member, on a group whose entry exists (it has other members or a group monitor), makes a `Leave` record with the
caller's list verbatim for every monitor of the group. The text's "every effective join or leave is delivered"
does not ask for it; read as "monitors are told of effective changes only" it is a deviation (what is reported is
still true: none of the named actors is a member afterwards, `conc_payload_sound`). -/
theorem ineffective_leave_is_notified (st : State) (s g : Nat) (as : List Nat)
    (he : (get st.map (s, g)).isSome) :
    (leaveEntry st s g as).2 = some ⟨false, s, g, as, recipients st (s, g)⟩ := by
  unfold leaveEntry
  cases h : get st.map (s, g) with
  | none => rw [h] at he; cases he
  | some gs => rfl

/-- witness: group (1,5) has member 1 and group monitor 9; thread 0 calls `leave_scoped(1, 5, [2])` — 2 is not a
member: membership is unchanged and monitor 9 is sent `Leave(1, 5, [2])` -/
example :
    let g := Conc.run (g0 [.join 1 5 [1], .monitor 5 9] [.leave 1 5 [2]]) [.call 0, .call 0]
    membersOf g.st (1, 5) = [1] ∧ membersOf (g0 [.join 1 5 [1], .monitor 5 9] [.leave 1 5 [2]]).st (1, 5) = [1] ∧
    g.sent = [⟨9, false, 1, 5, [2]⟩] ∧ g.thr = [.done] := by decide

/-- **Readers are threads: every region of a query reads the membership of ITS instant** (`Model/PgConcRead.lean`:
the six queries run next to any `Pg.Conc` writers, lock region by lock region; `map.iter()` shard by shard — ANY
shard function `sh`, any shard count `nSh` — with writers in between). For every thread set, every set of
readers and every schedule, with `M n` = the membership at the instant after `n` writer regions:
(0) `M n` is the abstract relation evolved by the linearised operations of the first `n` writer regions, and the
writers are not disturbed by the readers;
for every reader that has returned (`first` / `last` = the instants of its first and last region, `vis` = the
instants of its own regions, all in `[first, last]`):
(1) `get_members`, `get_local_members`, `which_scoped_groups` have ONE region (`first = last`): the answer is the
projection of `M last` — linearizable;
(2) `which_scopes_and_groups` / `which_groups` / `which_scopes`: a key (group, scope) is listed iff the group had
members at the instant ITS shard was read — so a listed group had members at some instant of the call, and a group
that has members at EVERY instant of the call is listed (every shard is read completely): linearizable per key;
the answer as a whole need not be the projection of any single instant (the `example` below: DashMap iteration
is not a snapshot). -/
theorem conc_readers_linearizable (ops : List Op) (calls : List Conc.Pc) (qs : List Conc.Query)
    (sh : Key → Nat) (nSh : Nat) (hsh : 0 < nSh) (rsched : List Conc.RTid) :
    let rg := Conc.rrun sh nSh (Conc.rstart (g0 ops calls) qs) rsched
    let M := fun (n : Nat) (k : Key) (x : Nat) => x ∈ membersOf (Conc.stAtH (g0 ops calls) rg.hist n) k
    (rg.hist = Conc.writersOf rsched ∧ rg.g = Conc.run (g0 ops calls) rg.hist ∧
      ∀ n k x, M n k x ↔
        Conc.absRun (fun k x => x ∈ membersOf (run init ops) k) (g0 ops calls) (rg.hist.take n) k x) ∧
    ∀ q ans acc vis first last, Conc.RPc.ret q ans acc vis first last ∈ rg.rd →
      (first ≤ last ∧ last ≤ rg.hist.length ∧ ∀ p ∈ vis, first ≤ p.2 ∧ p.2 ≤ last) ∧
      (∀ s g, q = .getMembers s g → first = last ∧ ∀ a, a ∈ ans ↔ M last (s, g) a) ∧
      (∀ s g, q = .getLocalMembers s g → first = last ∧
        ∀ a, a ∈ ans ↔ M last (s, g) a ∧ a ∉ (Conc.stAtH (g0 ops calls) rg.hist last).remote) ∧
      (∀ s, q = .whichScopedGroups s → first = last ∧ ∀ g, g ∈ ans ↔ ∃ a, M last (s, g) a) ∧
      (Conc.isIter q = true →
        (∀ k, k ∈ acc ↔ ∃ n, (k, n) ∈ vis ∧ ∃ a, M n k a) ∧
        (∀ k, (∀ n, first ≤ n → n ≤ last → ∃ a, M n k a) → k ∈ acc)) ∧
      (q = .whichScopesAndGroups → ans = []) ∧
      (q = .whichGroups → ∀ g, g ∈ ans ↔ ∃ s, (s, g) ∈ acc) ∧
      (q = .whichScopes → ∀ s, s ∈ ans ↔ ∃ g, (s, g) ∈ acc) := by
  intro rg M
  have hinv : Conc.RInv sh nSh (g0 ops calls) rg :=
    Conc.rinv_run (Conc.rinv_start sh nSh (g0 ops calls) qs) rsched
  have hh : rg.hist = Conc.writersOf rsched := by
    have := Conc.hist_run sh nSh (Conc.rstart (g0 ops calls) qs) rsched
    rw [show (Conc.rstart (g0 ops calls) qs).hist = [] from rfl, List.nil_append] at this
    exact this
  refine ⟨⟨hh, hinv.1, fun n k x => Conc.lin_run (g0 ops calls) (rg.hist.take n) k x⟩, ?_⟩
  intro q ans acc vis first last hmem
  have hok := hinv.2 _ hmem
  have hproj : ∀ n s g, g ∈ whichScopedGroups (Conc.stAtH (g0 ops calls) rg.hist n) s ↔ ∃ a, M n (s, g) a :=
    fun n s g => (conc_queries_are_projections ops calls (rg.hist.take n)).2.2.2.2.2 s g
  have hvis : first ≤ last ∧ last ≤ rg.hist.length ∧ ∀ p ∈ vis, first ≤ p.2 ∧ p.2 ≤ last := by
    by_cases hq : Conc.isIter q = true
    · exact (Conc.ret_iter_spec hok hq).1
    · obtain ⟨hfl, hn, hv, _⟩ := Conc.ret_single_spec hok (by simpa using hq)
      refine ⟨by omega, hn, fun p hp => ?_⟩
      rw [hv] at hp
      simp only [List.mem_singleton] at hp
      rw [hp]; exact ⟨by simp only []; omega, Nat.le_refl _⟩
  refine ⟨hvis, ?_, ?_, ?_, ?_, ?_, ?_, ?_⟩
  · rintro s g rfl
    obtain ⟨hfl, _, _, ha⟩ := Conc.ret_single_spec hok rfl
    exact ⟨hfl, fun a => by rw [ha]; exact Iff.rfl⟩
  · rintro s g rfl
    obtain ⟨hfl, _, _, ha⟩ := Conc.ret_single_spec hok rfl
    exact ⟨hfl, fun a => by rw [ha]; exact getLocalMembers_spec _ s g a⟩
  · rintro s rfl
    obtain ⟨hfl, _, _, ha⟩ := Conc.ret_single_spec hok rfl
    exact ⟨hfl, fun g => by rw [ha]; exact hproj last s g⟩
  · intro hq
    obtain ⟨_, hacc, hcomp, _⟩ := Conc.ret_iter_spec hok hq
    exact ⟨hacc, hcomp hsh⟩
  · rintro rfl
    exact (Conc.ret_iter_spec hok rfl).2.2.2
  · rintro rfl
    obtain ⟨_, _, _, ha⟩ := Conc.ret_iter_spec hok rfl
    intro g
    rw [ha]
    simp only [Conc.iterProj, List.mem_map]
    constructor
    · rintro ⟨⟨s, g'⟩, hk, rfl⟩; exact ⟨s, hk⟩
    · rintro ⟨s, hk⟩; exact ⟨(s, g), hk, rfl⟩
  · rintro rfl
    obtain ⟨_, _, _, ha⟩ := Conc.ret_iter_spec hok rfl
    intro s
    rw [ha]
    simp only [Conc.iterProj, List.mem_map]
    constructor
    · rintro ⟨⟨s', g⟩, hk, rfl⟩; exact ⟨g, hk⟩
    · rintro ⟨g, hk⟩; exact ⟨(s, g), hk, rfl⟩

/-- `map.iter()` is not a snapshot (non-vacuity of the reader model, and why (2) above is per key): two shards
(shard of a key = its group number mod 2); group (1,6) has member 2; a `which_scopes_and_groups` reads shard 0 and
finds (1,6); then a `leave_scoped(1,6,[2])` empties it and a `join_scoped(1,5,[1])` runs to its commit; the reader
reads shard 1, finds (1,5) and returns `[(1,6), (1,5)]` — although at no instant of the run both groups had
members; a `get_members(1,5)` started while the join holds the entry is blocked and then sees `[1]`. -/
example :
    let g := g0 [.join 1 6 [2]] [.leave 1 6 [2], .join 1 5 [1]]
    let rs : List Conc.RTid := [.r 0, .r 0, .w (.call 0), .w (.call 1), .w (.call 1), .w (.call 1),
      .r 1, .w (.call 1), .r 0, .r 0, .r 1]
    let rg := Conc.rrun (fun k => k.2) 2 (Conc.rstart g [.whichScopesAndGroups, .getMembers 1 5]) rs
    rg.rd = [.ret .whichScopesAndGroups [] [(1, 6), (1, 5)] [((1, 6), 0), ((1, 5), 5)] 0 5,
             .ret (.getMembers 1 5) [1] [] [((1, 5), 5)] 5 5] ∧
    ((List.range 6).all fun n =>
      (membersOf (Conc.stAtH g rg.hist n) (1, 5)).isEmpty || (membersOf (Conc.stAtH g rg.hist n) (1, 6)).isEmpty) = true := by
  decide

/-- **`leave_scoped`'s entry region, one relations lock at a time** (`Lemmas/PgConcLeaveStep.lean`). `Pg.Conc` takes
the region as one step; `pg.rs` takes — holding the group entry `k` — the relations lock of one actor of the call
after the other (`leaveRelOne`: `memberships.remove(&key)`), then updates the forward entry (`leaveFwdSt`).
(1) the region IS those iterations followed by the forward part; (2) an iteration touches only `rel[x].mem`;
(3) what any other region reads to decide something is unchanged by an iteration (only `x`'s own membership set,
read by `take` of `x`'s exit, has lost `k`); (4) an iteration commutes, as far as any lookup can tell (`SEq`), with
every region another thread can run while `k` is held: every region of every exit (`x`'s own included; `finish`
of another actor), `joinLock` / `joinOne` (another entry or another actor) / `joinCommit` / clean-up of joins (not
naming a stopping `x`), the entry region of any `leave_scoped`, every `monitor*` / `demonitor*` region (re-checks
naming another actor or a live one). The two residual cases are characterised exactly:
`Conc.leaveKey_nonmember` (the extra pending key of `take` is a no-op without a record) and
`Conc.removeEmptyRel_leaveRelOne` (`remove_empty_actor_relations(x)` of a stopping `x`: the two orders differ by
one EMPTY reverse-index entry of `x`, and only when `k` was the last thing in it). -/
theorem conc_leave_iterations_commute (st : State) (k : Key) (x : Nat) :
    (∀ s g as, (leaveEntry st s g as).1 =
      if (get st.map (s, g)).isSome then
        Conc.leaveFwdSt (as.foldl (fun st x => Conc.leaveRelOne st (s, g) x) st) (s, g) as else st) ∧
    ((Conc.leaveRelOne st k x).map = st.map ∧ (Conc.leaveRelOne st k x).index = st.index ∧
      (Conc.leaveRelOne st k x).world = st.world ∧ (Conc.leaveRelOne st k x).dead = st.dead ∧
      (∀ y, y ≠ x → get (Conc.leaveRelOne st k x).rel y = get st.rel y)) ∧
    ((∀ a, alive (Conc.leaveRelOne st k x) a = alive st a) ∧
      (∀ k', recipients (Conc.leaveRelOne st k x) k' = recipients st k') ∧
      (∀ a, (get (Conc.leaveRelOne st k x).rel a).isSome = (get st.rel a).isSome) ∧
      (∀ a, Conc.relGmonOf (Conc.leaveRelOne st k x) a = Conc.relGmonOf st a) ∧
      (∀ a, Conc.relWmonOf (Conc.leaveRelOne st k x) a = Conc.relWmonOf st a) ∧
      (∀ a, a ≠ x → Conc.relMemOf (Conc.leaveRelOne st k x) a = Conc.relMemOf st a)) ∧
    -- exits
    (∀ a, Conc.SEq (markDead (Conc.leaveRelOne st k x) a) (Conc.leaveRelOne (markDead st a) k x)) ∧
    (∀ a, Conc.SEq (demonTake (Conc.leaveRelOne st k x) a) (Conc.leaveRelOne (demonTake st a) k x)) ∧
    (∀ a k', Conc.SEq (demonKey (Conc.leaveRelOne st k x) a k') (Conc.leaveRelOne (demonKey st a k') k x)) ∧
    (∀ a s, Conc.SEq (demonWKey (Conc.leaveRelOne st k x) a s) (Conc.leaveRelOne (demonWKey st a s) k x)) ∧
    (∀ a, Conc.SEq (takeMem (Conc.leaveRelOne st k x) a) (Conc.leaveRelOne (takeMem st a) k x)) ∧
    (∀ a k', Conc.SEq (leaveKey (Conc.leaveRelOne st k x) a k').1 (Conc.leaveRelOne (leaveKey st a k').1 k x) ∧
      (leaveKey (Conc.leaveRelOne st k x) a k').2 = (leaveKey st a k').2) ∧
    (∀ a rm, a ≠ x →
      Conc.SEq (finishLeave (Conc.leaveRelOne st k x) a rm).1 (Conc.leaveRelOne (finishLeave st a rm).1 k x) ∧
      (finishLeave (Conc.leaveRelOne st k x) a rm).2 = (finishLeave st a rm).2) ∧
    -- joins and leaves
    (∀ k', Conc.SEq (Conc.touchGroup (Conc.leaveRelOne st k x) k') (Conc.leaveRelOne (Conc.touchGroup st k') k x)) ∧
    (∀ k' y, (y = x → k' ≠ k) →
      Conc.SEq (Conc.joinOne (Conc.leaveRelOne st k x) k' y) (Conc.leaveRelOne (Conc.joinOne st k' y) k x)) ∧
    (∀ k' j, Conc.SEq (Conc.joinCommit (Conc.leaveRelOne st k x) k' j) (Conc.leaveRelOne (Conc.joinCommit st k' j) k x)) ∧
    (∀ s g as, (x ∉ as ∨ alive st x = true) →
      Conc.SEq (joinCleanup (Conc.leaveRelOne st k x) s g as) (Conc.leaveRelOne (joinCleanup st s g as) k x)) ∧
    (∀ s g as, Conc.SEq (leaveEntry (Conc.leaveRelOne st k x) s g as).1 (Conc.leaveRelOne (leaveEntry st s g as).1 k x) ∧
      (leaveEntry (Conc.leaveRelOne st k x) s g as).2 = (leaveEntry st s g as).2) ∧
    -- monitors and demonitors
    (∀ g b, Conc.SEq (Conc.monitorEntry (Conc.leaveRelOne st k x) g b) (Conc.leaveRelOne (Conc.monitorEntry st g b) k x)) ∧
    (∀ s b, Conc.SEq (Conc.monitorScopeEntry (Conc.leaveRelOne st k x) s b)
      (Conc.leaveRelOne (Conc.monitorScopeEntry st s b) k x)) ∧
    (∀ g b, (b ≠ x ∨ alive st b = true) →
      Conc.SEq (monitorRecheck (Conc.leaveRelOne st k x) g b) (Conc.leaveRelOne (monitorRecheck st g b) k x)) ∧
    (∀ s b, (b ≠ x ∨ alive st b = true) →
      Conc.SEq (monitorScopeRecheck (Conc.leaveRelOne st k x) s b) (Conc.leaveRelOne (monitorScopeRecheck st s b) k x)) ∧
    (∀ g b, Conc.SEq (demonitor (Conc.leaveRelOne st k x) g b) (Conc.leaveRelOne (demonitor st g b) k x)) ∧
    (∀ s b, Conc.SEq (demonitorScope (Conc.leaveRelOne st k x) s b) (Conc.leaveRelOne (demonitorScope st s b) k x)) ∧
    (∀ g b, Conc.SEq (Conc.demonitorFwdSt (Conc.leaveRelOne st k x) g b) (Conc.leaveRelOne (Conc.demonitorFwdSt st g b) k x)) ∧
    (∀ s b, Conc.SEq (Conc.demonitorScopeFwdSt (Conc.leaveRelOne st k x) s b)
      (Conc.leaveRelOne (Conc.demonitorScopeFwdSt st s b) k x)) := by
  have hf := Conc.leaveRelOne_frame st k x
  have hr := Conc.leaveRelOne_reads st k x
  exact ⟨fun s g as => Conc.leave_stepped st s g as,
    ⟨hf.1, hf.2.1, hf.2.2.1, hf.2.2.2.1, hf.2.2.2.2.2.1⟩,
    ⟨hr.1, hr.2.2.1, hr.2.2.2.1, hr.2.2.2.2.1, hr.2.2.2.2.2.1, hr.2.2.2.2.2.2.1⟩,
    Conc.comm_markDead st k x, Conc.comm_demonTake st k x, fun a k' => Conc.comm_demonKey st k k' x a,
    fun a s => Conc.comm_demonWKey st k x a s, Conc.comm_takeMem st k x, fun a k' => Conc.comm_leaveKey st k k' x a,
    fun a rm h => Conc.comm_finishLeave st k x a rm h,
    fun k' => Conc.comm_touchGroup st k k' x, fun k' y h => Conc.comm_joinOne st k k' x y h,
    fun k' j => Conc.comm_joinCommit st k k' x j, fun s g as h => Conc.comm_joinCleanup st k x s g as h,
    fun s g as => Conc.comm_leaveEntry st k x s g as,
    fun g b => Conc.comm_monitorEntry st k x g b, fun s b => Conc.comm_monitorScopeEntry st k x s b,
    fun g b h => Conc.comm_monitorRecheck st k x g b h, fun s b h => Conc.comm_monitorScopeRecheck st k x s b h,
    fun g b => Conc.comm_demonitor st k x g b, fun s b => Conc.comm_demonitorScope st k x s b,
    fun g b => Conc.comm_demonitorFwd st k x g b, fun s b => Conc.comm_demonitorScopeFwd st k x s b⟩


/-- **An iteration of `leave_scoped` moves past every region of every thread — in `Pg.Conc.step` itself.** With
`withLeaveOne g k x` = the global state with the iteration for actor `x` of a `leave_scoped` holding entry `k`
applied: running ANY region of ANY exit (blocked or not, whatever its phase; for `x`'s own exit every region but
`take` / `finish`) or ANY region of ANY caller thread (filters, `joinLock`, `joinOne`, `joinCommit`, clean-ups,
notification regions, entry regions of leaves, every `monitor*` / `demonitor*` region; `callMovable` excludes only
the `joinOne` of `x` on the held entry itself — impossible while a leave holds it — and a
`remove_empty_actor_relations` of a stopping `x`) before or after the iteration gives the same global state: same
phases, program counters, lock table, change records with their recipients, notifications, stale ghosts, and the
same answer to every lookup in the four indexes (`GEq`). So the per-actor iterations of a stepped `leave_scoped` can
be moved, one region at a time, to sit right before its forward part — where, run contiguously, they are the merged
step (`conc_leave_iterations_commute` (1)). -/
theorem conc_leave_iteration_moves_past_every_region (g : Conc.G) (k : Key) (x : Nat) :
    (∀ a r, (a = x → r ≠ .take ∧ r ≠ .finish) →
      Conc.GEq (Conc.step (Conc.withLeaveOne g k x) (.ex a r)) (Conc.withLeaveOne (Conc.step g (.ex a r)) k x)) ∧
    (∀ i, (∀ pc, g.thr[i]? = some pc → Conc.callMovable g.st k x pc) →
      Conc.GEq (Conc.step (Conc.withLeaveOne g k x) (.call i)) (Conc.withLeaveOne (Conc.step g (.call i)) k x)) :=
  ⟨fun a r h => Conc.step_ex_comm g k x a r h, fun i h => Conc.step_call_comm g k x i h⟩


/-- **`Pg.Conc.step` depends on the reverse index through lookups only**: global states that agree on every lookup
(and on everything else) stay so under every region of every thread, hence along every schedule. -/
theorem conc_step_respects_lookups {g g' : Conc.G} (h : Conc.GEq g g') (ts : List Conc.Tid) :
    Conc.GEq (Conc.run g ts) (Conc.run g' ts) := Conc.run_congr h ts

/-- **The stepped entry region of `leave_scoped` IS the merged step of `Pg.Conc`** (`Lemmas/PgConcLeaveCongr.lean`).
Thread `i` is at `leave_scoped(s, g, as)`; `pg.rs` holds the group entry and takes the relations lock of one actor of
the call after the other; between two of these iterations ANY regions of other threads run (`segs` = the actors of
the call in order, each followed by the regions that ran after its iteration: regions of exits — of the actors of
the call too —, of joins holding other entries, of other leaves, monitors, demonitors; a region that needs the held
entry is blocked, i.e. not there); then the forward part. If the interleaving is `SteppedMovable` (it contains no
`take` / `finish` of the exit of an actor whose iteration is already done and no `remove_empty_actor_relations` of such
an actor that is stopping — the residual cases (i), (ii) of `conc_leave_iterations_commute`) and the entry exists, then:
the state after the forward part answers every lookup like the state after the SAME regions of the other threads
followed by the ONE-step entry region (`leaveEntry`); the record (payload, recipients) is that step's record; phases,
program counters, lock table, records and notifications of everybody else are the same. -/
theorem conc_leave_stepped_is_merged (g : Conc.G) (s g' : Nat) (segs : List (Nat × List Conc.Tid))
    (h : Conc.SteppedMovable g (s, g') segs)
    (he : (get (Conc.run g (segs.flatMap (·.2))).st.map (s, g')).isSome) :
    let as := segs.map (·.1)
    let fine := Conc.runStepped g (s, g') segs
    let coarse := Conc.run g (segs.flatMap (·.2))
    Conc.SEq (Conc.leaveFwdSt fine.st (s, g') as) (leaveEntry coarse.st s g' as).1 ∧
    (some (⟨false, s, g', as, recipients fine.st (s, g')⟩ : Pending)) = (leaveEntry coarse.st s g' as).2 ∧
    fine.thr = coarse.thr ∧ fine.exits = coarse.exits ∧ fine.locks = coarse.locks ∧ fine.sent = coarse.sent ∧
    fine.changes = coarse.changes :=
  Conc.leave_stepped_is_merged g s g' segs h he

/-- non-vacuity: `leave_scoped(1, 5, [1, 2])` stepped, with `mark` of actor 2's exit after the iteration for actor 1
and `mark`, `demTake` of actor 1's OWN exit after the iteration for actor 2: movable, and the stepped result has the
lookups of the merged step run after those three exit regions -/
example :
    let g := g0 [.join 1 5 [1, 2, 3], .monitor 5 9] [.leave 1 5 [1, 2]]
    let segs : List (Nat × List Conc.Tid) := [(1, [.ex 2 .mark]), (2, [.ex 1 .mark, .ex 1 .demTake])]
    Conc.SteppedMovable g (1, 5) segs ∧
    (let fine := Conc.leaveFwdSt (Conc.runStepped g (1, 5) segs).st (1, 5) [1, 2]
     let coarse := (Conc.step (Conc.run g [.ex 2 .mark, .ex 1 .mark, .ex 1 .demTake]) (.call 0)).st
     membersOf fine (1, 5) = [3] ∧ fine.map = coarse.map ∧ fine.index = coarse.index ∧ fine.dead = coarse.dead ∧
     ([1, 2, 3, 9].all fun a => get fine.rel a == get coarse.rel a) = true) := by
  refine ⟨?_, by decide⟩
  simp [Conc.SteppedMovable, Conc.Movable, Conc.movable1]

/-- non-vacuity of the residual case (ii): actor 1 is stopping, its only reverse-index entry is its membership of
(1,5): `remove_empty_actor_relations(1)` after the iteration removes the entry, before it leaves it behind empty -/
example :
    let st := markDead (run init [.join 1 5 [1]]) 1
    get (removeEmptyRel (Conc.leaveRelOne st (1, 5) 1).rel 1) 1 = none ∧
    get (Conc.leaveRelOne { st with rel := removeEmptyRel st.rel 1 } (1, 5) 1).rel 1 = some ⟨[], [], []⟩ := by decide

/-- the run-time text oracle (`Model/PgText.lean`, evaluated by the `lts` driver on the implementation's own
snapshots) on the witness of the ineffective leave: the clause as written passes (the event goes to a monitor of
that group and says nothing false, no effective change is missed); the STRICT reading (not wired into the driver)
flags it; a missed scope monitor is flagged by the clause as written (sabotage 13) -/
example :
    let p := run init [.monitor 0 2, .join 1 0 [0]]
    let q := (step p (.leave 1 0 [1])).1
    q = p ∧ (step p (.leave 1 0 [1])).2 = [⟨2, false, 1, 0, [1]⟩] ∧
    textNotifFailing p q [⟨2, false, 1, 0, [1]⟩] = [] ∧
    textNotifStrictFailing p q [⟨2, false, 1, 0, [1]⟩] =
      ["text-ineffective-change-notified", "text-payload-names-unchanged-actor"] ∧
    (let p' := run init [.monitorScope 3 4, .join 3 0 [4]]
     textNotifFailing p' (step p' (.leave 3 0 [4, 4])).1 [] =
       ["text-effective-change-not-delivered-once-per-subscription"] ∧
     textNotifFailing p' (step p' (.leave 3 0 [4, 4])).1 (step p' (.leave 3 0 [4, 4])).2 = []) := by decide

/-- the exit clause of the run-time text oracle (one un-raced `exit a` line of the `lts` engine): the scope monitor 4
must be sent `Leave(3, 0, [5])` when member 5 exits (flagged if it is not; the model's own events pass); an exiting
actor that monitors its own group is told nothing (it drops its monitor entries before it is taken out) -/
example :
    let p := run init [.monitorScope 3 4, .join 3 0 [5]]
    textExitFailing p (step p (.exit 5)).1 5 [] = ["text-effective-change-not-delivered-once-per-subscription"] ∧
    textExitFailing p (step p (.exit 5)).1 5 (step p (.exit 5)).2 = [] ∧
    (step p (.exit 5)).2 = [⟨4, false, 3, 0, [5]⟩] ∧
    (let p' := run init [.monitor 0 5, .join 1 0 [5]]
     (step p' (.exit 5)).2 = [] ∧ textExitFailing p' (step p' (.exit 5)).1 5 [] = []) := by decide

end C11

#print axioms C11.ok_reachable
#print axioms C11.cross_index_agreement
#print axioms C11.dead_step
#print axioms C11.membership_refines_spec
#print axioms C11.getMembers_spec
#print axioms C11.getLocalMembers_spec
#print axioms C11.whichGroups_spec
#print axioms C11.whichScopes_spec
#print axioms C11.whichScopesAndGroups_spec
#print axioms C11.whichScopedGroups_spec
#print axioms C11.exited_actor_owns_nothing
#print axioms C11.join_never_adds_stopping
#print axioms C11.drain_is_invisible_to_pg
#print axioms C11.late_drain_then_join_never_adds
#print axioms C11.join_notifications
#print axioms C11.leave_notifications
#print axioms C11.exit_notifications
#print axioms C11.monitor_ops_silent
#print axioms C11.notification_count
#print axioms C11.exit_race_no_zombie
#print axioms C11.exit_done_stable
#print axioms C11.exit_race_no_late_join
#print axioms C11.fine_exit_is_exit
#print axioms C11.join_recipients_fixed_at_entry
#print axioms C11.leave_recipients_fixed_at_entry
#print axioms C11.exit_leave_recipients_fixed_at_removal
#print axioms C11.recipients_legacy_not_fixed
#print axioms C11.conc_cross_index_windows
#print axioms C11.conc_agreement_outside_own_exit
#print axioms C11.conc_no_zombie
#print axioms C11.conc_at_rest
#print axioms C11.conc_queries_are_projections
#print axioms C11.conc_membership_linearizable
#print axioms C11.conc_notifications_exactly_once
#print axioms C11.conc_every_change_recorded
#print axioms C11.conc_inv
#print axioms C11.conc_no_reverse_index_leak
#print axioms C11.conc_payload_sound
#print axioms C11.conc_join_guard_vacuous
#print axioms C11.conc_stale_origin
#print axioms C11.conc_notifications_per_text
#print axioms C11.conc_delivered_to_monitors_of_the_instant
#print axioms C11.ineffective_leave_is_notified
#print axioms C11.conc_readers_linearizable
#print axioms C11.conc_leave_iterations_commute
#print axioms C11.conc_leave_iteration_moves_past_every_region
#print axioms C11.conc_step_respects_lookups
#print axioms C11.conc_leave_stepped_is_merged
