import RactorModel.Lemmas.PgFineEnv

/-! The lock-step invariant: whatever the environment does between the regions of `a`'s exit,
when the exit has finished `a` is a member of no group and a listener of none. -/

namespace Pg.Fine
open AList Pg

def mem1 (a : Nat) (st : State) : Prop := ∀ k, a ∈ membersOf st k → k ∈ relMem st a
def g1 (a : Nat) (st : State) : Prop := ∀ k, a ∈ listenersOf st k → k ∈ relGmon st a
def w1 (a : Nat) (st : State) : Prop := ∀ s, a ∈ worldOf st s → s ∈ relWmon st a
def noM (a : Nat) (st : State) : Prop := ∀ k, a ∉ membersOf st k
def noL (a : Nat) (st : State) : Prop := ∀ k, a ∉ listenersOf st k
def noW (a : Nat) (st : State) : Prop := ∀ s, a ∉ worldOf st s

/-- the invariant of the race, by phase of the exiter -/
def ZInv (a : Nat) (fs : FState) : Prop :=
  match fs.ph with
  | .live => mem1 a fs.st ∧ g1 a fs.st ∧ w1 a fs.st
  | .marked => a ∈ fs.st.dead ∧ mem1 a fs.st ∧ g1 a fs.st ∧ w1 a fs.st
  | .demon gk wk => a ∈ fs.st.dead ∧ mem1 a fs.st ∧ (∀ k, a ∈ listenersOf fs.st k → k ∈ gk) ∧
      (∀ s, a ∈ worldOf fs.st s → s ∈ wk)
  | .demonDone => a ∈ fs.st.dead ∧ mem1 a fs.st ∧ noL a fs.st ∧ noW a fs.st
  | .leaving mk _ => a ∈ fs.st.dead ∧ (∀ k, a ∈ membersOf fs.st k → k ∈ mk) ∧ noL a fs.st ∧ noW a fs.st
  | .done => a ∈ fs.st.dead ∧ noM a fs.st ∧ noL a fs.st ∧ noW a fs.st

/-- environment steps keep the invariant, whatever the phase -/
theorem zinv_env {a : Nat} {st st' : State} (ph : Phase) (e : EnvOK a st st') (h : ZInv a ⟨st, ph⟩) :
    ZInv a ⟨st', ph⟩ := by
  cases ph with
  | live => exact ⟨e.mem1 h.1, e.g1 h.2.1, e.w1 h.2.2⟩
  | marked => exact ⟨e.dead h.1, e.mem1 h.2.1, e.g1 h.2.2.1, e.w1 h.2.2.2⟩
  | demon gk wk =>
    exact ⟨e.dead h.1, e.mem1 h.2.1, fun k hk => h.2.2.1 k (e.shrinkL h.1 k hk),
      fun s hs => h.2.2.2 s (e.shrinkW h.1 s hs)⟩
  | demonDone =>
    exact ⟨e.dead h.1, e.mem1 h.2.1, fun k hk => h.2.2.1 k (e.shrinkL h.1 k hk),
      fun s hs => h.2.2.2 s (e.shrinkW h.1 s hs)⟩
  | leaving mk r =>
    exact ⟨e.dead h.1, fun k hk => h.2.1 k (e.shrinkM h.1 k hk), fun k hk => h.2.2.1 k (e.shrinkL h.1 k hk),
      fun s hs => h.2.2.2 s (e.shrinkW h.1 s hs)⟩
  | done =>
    exact ⟨e.dead h.1, fun k hk => h.2.1 k (e.shrinkM h.1 k hk), fun k hk => h.2.2.1 k (e.shrinkL h.1 k hk),
      fun s hs => h.2.2.2 s (e.shrinkW h.1 s hs)⟩

/-! ### the exiter's own regions -/

theorem demonTake_acc (st : State) (a : Nat) :
    (∀ k, membersOf (demonTake st a) k = membersOf st k) ∧ (∀ k, listenersOf (demonTake st a) k = listenersOf st k) ∧
    (∀ s, worldOf (demonTake st a) s = worldOf st s) ∧ relMem (demonTake st a) a = relMem st a ∧
    (demonTake st a).dead = st.dead := by
  refine ⟨fun _ => rfl, fun _ => rfl, fun _ => rfl, ?_, rfl⟩
  unfold relMem relOf demonTake
  simp only [get_alter, ↓reduceIte]
  cases get st.rel a <;> rfl

theorem takeMem_acc (st : State) (a : Nat) :
    (∀ k, membersOf (takeMem st a) k = membersOf st k) ∧ (∀ k, listenersOf (takeMem st a) k = listenersOf st k) ∧
    (∀ s, worldOf (takeMem st a) s = worldOf st s) ∧ (takeMem st a).dead = st.dead :=
  ⟨fun _ => rfl, fun _ => rfl, fun _ => rfl, rfl⟩

theorem demonKey_acc (st : State) (a : Nat) (k : Key) :
    (∀ k', membersOf (demonKey st a k) k' = membersOf st k') ∧
    (∀ k', listenersOf (demonKey st a k) k' = if k' = k then del a (listenersOf st k) else listenersOf st k') ∧
    (demonKey st a k).world = st.world ∧ (demonKey st a k).rel = st.rel ∧ (demonKey st a k).dead = st.dead := by
  refine ⟨?_, ?_, rfl, rfl, rfl⟩
  · intro k'; unfold membersOf demonKey; simp only [get_alter]
    by_cases e : k' = k
    · rw [if_pos e, dropListener_members, e]
    · rw [if_neg e]
  · intro k'; unfold listenersOf demonKey; simp only [get_alter]
    by_cases e : k' = k
    · rw [if_pos e, if_pos e, dropListener_listeners]
    · rw [if_neg e, if_neg e]

theorem demonWKey_acc (st : State) (a s : Nat) :
    (demonWKey st a s).map = st.map ∧
    (∀ s', worldOf (demonWKey st a s) s' = if s' = s then del a (worldOf st s) else worldOf st s') ∧
    (demonWKey st a s).rel = st.rel ∧ (demonWKey st a s).dead = st.dead := by
  refine ⟨rfl, ?_, rfl, rfl⟩
  intro s'; unfold worldOf demonWKey; simp only [get_alter]
  by_cases e : s' = s
  · rw [if_pos e, if_pos e, dropWorld_list]
  · rw [if_neg e, if_neg e]

theorem leaveKey_acc (st : State) (a : Nat) (k : Key) :
    (∀ k', membersOf (leaveKey st a k).1 k' = if k' = k then del a (membersOf st k) else membersOf st k') ∧
    (∀ k', listenersOf (leaveKey st a k).1 k' = listenersOf st k') ∧
    (leaveKey st a k).1.world = st.world ∧ (leaveKey st a k).1.dead = st.dead := by
  unfold leaveKey
  by_cases c : a ∈ membersOf st k
  · rw [if_pos c]
    refine ⟨?_, ?_, rfl, rfl⟩
    · intro k'; unfold membersOf; simp only [get_alter]
      by_cases e : k' = k
      · rw [if_pos e, if_pos e]
        unfold membersOf at c
        cases hg : get st.map k with
        | none => rw [hg] at c; cases c
        | some gs =>
          rw [hg] at c
          have c' : a ∈ gs.members := c
          simp only [dropMember, Option.bind_some, c', ↓reduceIte, members_gsNorm]; rfl
      · rw [if_neg e, if_neg e]
    · intro k'; unfold listenersOf; simp only [get_alter]
      by_cases e : k' = k
      · rw [if_pos e, dropMember_listeners, e]
      · rw [if_neg e]
  · rw [if_neg c]
    refine ⟨?_, fun _ => rfl, rfl, rfl⟩
    intro k'
    by_cases e : k' = k
    · rw [if_pos e, del_of_not_mem c, e]
    · rw [if_neg e]

theorem zinv_fstep {a : Nat} {fs : FState} (h : ZInv a fs) (op : FOp) : ZInv a (fstep a fs op) := by
  obtain ⟨st, ph⟩ := fs
  cases op with
  | api o =>
    simp only [fstep]
    by_cases e : o = .exit a
    · rw [if_pos e]; exact h
    · rw [if_neg e]; exact zinv_env ph (envOK_api a st o e) h
  | monRecheck g b => exact zinv_env ph (envOK_of_same (same_monitorRecheck st g b)) h
  | monScopeRecheck s b => exact zinv_env ph (envOK_of_same (same_monitorScopeRecheck st s b)) h
  | joinClean s g as => exact zinv_env ph (envOK_of_same (same_joinCleanup st s g as)) h
  | mark =>
    cases ph with
    | live =>
      simp only [fstep]
      refine ⟨?_, h.1, h.2.1, h.2.2⟩
      simp [markDead]
    | _ => exact h
  | demTake =>
    cases ph with
    | marked =>
      simp only [fstep]
      obtain ⟨hM, hL, hW, hRM, hD⟩ := demonTake_acc st a
      refine ⟨hD ▸ h.1, ?_, ?_, ?_⟩
      · intro k hk; rw [hM] at hk; rw [hRM]; exact h.2.1 k hk
      · intro k hk; rw [hL] at hk
        have := h.2.2.1 k hk
        rw [← relGmon_eq] at this; exact this
      · intro s hs; rw [hW] at hs
        have := h.2.2.2 s hs
        rw [← relWmon_eq] at this; exact this
    | _ => exact h
  | demKey k =>
    cases ph with
    | demon gk wk =>
      simp only [fstep]
      by_cases c : k ∈ gk
      · rw [if_pos c]
        obtain ⟨hM, hL, hW, hR, hD⟩ := demonKey_acc st a k
        refine ⟨hD ▸ h.1, ?_, ?_, ?_⟩
        · intro k' hk; rw [hM] at hk
          unfold relMem relOf; rw [hR]; exact h.2.1 k' hk
        · intro k' hk; rw [hL] at hk
          by_cases e : k' = k
          · rw [if_pos e] at hk; exact absurd rfl (mem_del.mp hk).2
          · rw [if_neg e] at hk; exact mem_del.mpr ⟨h.2.2.1 k' hk, e⟩
        · intro s hs; unfold worldOf at hs; rw [hW] at hs; exact h.2.2.2 s hs
      · rw [if_neg c]; exact h
    | _ => exact h
  | demWKey s =>
    cases ph with
    | demon gk wk =>
      simp only [fstep]
      by_cases c : s ∈ wk
      · rw [if_pos c]
        obtain ⟨hMp, hW, hR, hD⟩ := demonWKey_acc st a s
        refine ⟨hD ▸ h.1, ?_, ?_, ?_⟩
        · intro k' hk; unfold membersOf at hk; rw [hMp] at hk
          unfold relMem relOf; rw [hR]; exact h.2.1 k' hk
        · intro k' hk; unfold listenersOf at hk; rw [hMp] at hk; exact h.2.2.1 k' hk
        · intro s' hs; rw [hW] at hs
          by_cases e : s' = s
          · rw [if_pos e] at hs; exact absurd rfl (mem_del.mp hs).2
          · rw [if_neg e] at hs; exact mem_del.mpr ⟨h.2.2.2 s' hs, e⟩
      · rw [if_neg c]; exact h
    | _ => exact h
  | demDone =>
    cases ph with
    | demon gk wk =>
      cases gk with
      | nil =>
        cases wk with
        | nil =>
          simp only [fstep]
          refine ⟨h.1, h.2.1, ?_, ?_⟩
          · intro k hk; have := h.2.2.1 k hk; cases this
          · intro s hs; have := h.2.2.2 s hs; cases this
        | cons _ _ => exact h
      | cons _ _ => exact h
    | _ => exact h
  | take =>
    cases ph with
    | demonDone =>
      simp only [fstep]
      obtain ⟨hM, hL, hW, hD⟩ := takeMem_acc st a
      refine ⟨hD ▸ h.1, ?_, ?_, ?_⟩
      · intro k hk; rw [hM] at hk
        have := h.2.1 k hk
        rw [← relMem_eq] at this; exact this
      · intro k hk; rw [hL] at hk; exact h.2.2.1 k hk
      · intro s hs; rw [hW] at hs; exact h.2.2.2 s hs
    | _ => exact h
  | lvKey k =>
    cases ph with
    | leaving mk removed =>
      simp only [fstep]
      by_cases c : k ∈ mk
      · rw [if_pos c]
        obtain ⟨hM, hL, hW, hD⟩ := leaveKey_acc st a k
        refine ⟨hD ▸ h.1, ?_, ?_, ?_⟩
        · intro k' hk; rw [hM] at hk
          by_cases e : k' = k
          · rw [if_pos e] at hk; exact absurd rfl (mem_del.mp hk).2
          · rw [if_neg e] at hk; exact mem_del.mpr ⟨h.2.1 k' hk, e⟩
        · intro k' hk; rw [hL] at hk; exact h.2.2.1 k' hk
        · intro s hs; unfold worldOf at hs; rw [hW] at hs; exact h.2.2.2 s hs
      · rw [if_neg c]; exact h
    | _ => exact h
  | finish =>
    cases ph with
    | leaving mk removed =>
      cases mk with
      | nil =>
        simp only [fstep]
        refine ⟨h.1, ?_, h.2.2.1, h.2.2.2⟩
        intro k hk
        have : a ∈ membersOf st k := hk
        have := h.2.1 k this; cases this
      | cons _ _ => exact h
    | _ => exact h

theorem zinv_frun {a : Nat} (ops : List FOp) {fs : FState} (h : ZInv a fs) : ZInv a (frun a fs ops) := by
  induction ops generalizing fs with
  | nil => exact h
  | cons op ops ih => exact ih (zinv_fstep h op)

/-- a state reached by API-level ops is a valid start: the race invariant holds in phase `live` -/
theorem zinv_of_inv {st : State} (h : Inv st) (a : Nat) : ZInv a ⟨st, .live⟩ :=
  ⟨fun k hk => (h.mem k a).mp hk, fun k hk => (h.gmon k a).mp hk, fun s hs => (h.wmon s a).mp hs⟩

end Pg.Fine
