/-
Model of `ractor_cluster/src/node.rs`: `elect_sessions` and the `NodeServerState`
bookkeeping around it (`register_session`, `candidates_for_peer`, `check_candidate`,
`commit_authenticated`, `is_elected`).

Import-free (core Lean only) so that the line-protocol driver links as a `lean_exe`.

Actor ids are `Nat` (session actors are always `ActorId::Local(n)`, ordered by `n`);
a connection nonce is `Option Nat` where `none` is the legacy/zero nonce
(`NonZeroU64::new(0) = None`).  `ord` is `peer_name.cmp(this_node_name)`.
-/

namespace Election

structure Cand where
  id : Nat
  isServer : Bool
  conn : Option Nat
  deriving Repr, DecidableEq, BEq

/-- `candidates.iter().filter_map(|c| c.connection_id).min()` -/
def minConn (cs : List Cand) : Option Nat := (cs.filterMap (·.conn)).min?

/-- Stage 1: simultaneous connect rule (only when both directions are present). -/
def dirFilter (ord : Ordering) (cs : List Cand) : List Cand :=
  if cs.any (·.isServer) && cs.any (fun c => !c.isServer) then
    match ord with
    | .lt => cs.filter (fun c => c.isServer == false)
    | .gt => cs.filter (fun c => c.isServer == true)
    | .eq => cs
  else cs

/-- Stage 2: retain the minimal non-legacy nonce, if any candidate carries one. -/
def nonceFilter (cs : List Cand) : List Cand :=
  match minConn cs with
  | some m => cs.filter (fun c => c.conn == some m)
  | none => cs

/-- Stage 3: the accepting endpoint breaks remaining ties by smallest actor id. -/
def tieBreak (cs : List Cand) : List Cand :=
  if cs.length > 1 && cs.all (·.isServer) then
    match (cs.map (·.id)).min? with
    | some w => cs.filter (fun c => c.id == w)
    | none => cs
  else cs

def pipeline (ord : Ordering) (cs : List Cand) : List Cand :=
  tieBreak (nonceFilter (dirFilter ord cs))

/-- `elect_sessions(this, peer, candidates)`, statement by statement. -/
def elect (ord : Ordering) (cs : List Cand) : List Nat :=
  if cs.length ≤ 1 then cs.map (·.id)
  else (pipeline ord cs).map (·.id)

/-! ### `NodeServerState` bookkeeping -/

structure Session where
  id : Nat
  isServer : Bool
  peerName : Option String   -- `None` until the Name message was registered
  conn : Option Nat
  auth : Bool                -- member of `authenticated_sessions`
  deriving Repr, DecidableEq

structure NS where
  thisName : String
  sessions : List Session    -- `node_sessions` (a map keyed by unique actor id)
  deriving Repr

inductive Reply | noOther | thisContinues | otherContinues | duplicate
  deriving Repr, DecidableEq

def Session.toCand (s : Session) : Cand := ⟨s.id, s.isServer, s.conn⟩

def NS.candidatesFor (st : NS) (peer : String) (authOnly : Bool) : List Cand :=
  (st.sessions.filter (fun s => s.peerName == some peer && (!authOnly || s.auth))).map Session.toCand

def NS.find (st : NS) (id : Nat) : Option Session := st.sessions.find? (·.id == id)

def nameOrd (peer this : String) : Ordering := compare peer this

/-- `register_session` -/
def NS.register (st : NS) (id : Nat) (peer : String) (connId : Nat) : NS × Bool :=
  match st.find id with
  | none => (st, false)
  | some _ =>
    ({ st with sessions := st.sessions.map (fun s =>
        if s.id == id then { s with peerName := some peer, conn := if connId == 0 then none else some connId } else s) },
     true)

/-- `check_candidate` -/
def NS.checkCandidate (st : NS) (id : Nat) : Reply :=
  match st.find id with
  | none => .otherContinues
  | some s =>
    match s.peerName with
    | none => .otherContinues
    | some peer =>
      let base := st.candidatesFor peer true
      let cands := if s.auth then base else base ++ [s.toCand]
      let hadCompetition := decide (cands.length > 1)
      let elected := elect (nameOrd peer st.thisName) cands
      match elected.contains id, hadCompetition with
      | true, false => .noOther
      | true, true => .thisContinues
      | false, _ => .otherContinues

/-- `check_session` -/
def NS.checkSession (st : NS) (peer : String) (connId : Nat) : Reply :=
  let conn : Option Nat := if connId == 0 then none else some connId
  let matching := (st.sessions.filter (fun s => s.peerName == some peer && s.conn == conn)).map (·.id)
  match matching with
  | [id] => st.checkCandidate id
  | _ :: _ => .noOther
  | [] =>
    let existing := st.candidatesFor peer true
    if existing.isEmpty then .noOther
    else if existing.any (·.isServer) then .duplicate
    else if peer < st.thisName then .thisContinues
    else .otherContinues

/-- mark `id` as a member of `authenticated_sessions` -/
def NS.markAuth (st : NS) (id : Nat) : NS :=
  { st with sessions := st.sessions.map (fun x => if x.id == id then { x with auth := true } else x) }

/-- authenticated sessions of `peer` that were not elected -/
def NS.losersOf (st : NS) (peer : String) (elected : List Nat) : List Nat :=
  (st.sessions.filter (fun x => x.auth && x.peerName == some peer && !elected.contains x.id)).map (·.id)

/-- remove the losers from `authenticated_sessions` -/
def NS.deauth (st : NS) (losers : List Nat) : NS :=
  { st with sessions := st.sessions.map (fun x => if losers.contains x.id then { x with auth := false } else x) }

/-- `commit_authenticated`: returns the new state, whether the candidate survives and the
loser ids (whose `authenticated` flag is cleared). `none` when the session or its name is unknown. -/
def NS.commit (st : NS) (id : Nat) : Option (NS × Bool × List Nat) :=
  match st.find id with
  | none => none
  | some s =>
    match s.peerName with
    | none => none
    | some peer =>
      let st1 := st.markAuth id
      let elected := elect (nameOrd peer st.thisName) (st1.candidatesFor peer true)
      let losers := st1.losersOf peer elected
      some (st1.deauth losers, elected.contains id, losers)

/-- `is_elected` -/
def NS.isElected (st : NS) (id : Nat) : Bool :=
  match st.find id with
  | none => false
  | some s =>
    if !s.auth then false else
    match s.peerName with
    | none => false
    | some peer => (elect (nameOrd peer st.thisName) (st.candidatesFor peer true)).contains id

/-- What a session does right after it authenticated (`node_session.rs`): it asks
`CheckSession` with its peer's name and ITS OWN nonce and stops itself
(`session_election_lost`) unless the reply is `NoOtherConnection` or `ThisConnectionContinues`. -/
def NS.postAuthReply (st : NS) (id : Nat) : Option Reply :=
  match st.find id with
  | none => none
  | some s =>
    match s.peerName with
    | none => none
    | some peer => some (st.checkSession peer (s.conn.getD 0))

/-- `ConnectionOpened` / `ConnectionOpenedExternal`: a new entry of `node_sessions` under the
fresh actor id of the spawned `NodeSession`, nothing known about the peer yet -/
def NS.open (st : NS) (id : Nat) (isServer : Bool) : NS :=
  { st with sessions := st.sessions ++ [⟨id, isServer, none, none, false⟩] }

/-- `NodeServer::handle_supervisor_evt` for `ActorTerminated` / `ActorFailed` of a session:
`node_sessions.remove`, `connection_ids.remove`, `authenticated_sessions.remove` -/
def NS.close (st : NS) (id : Nat) : NS :=
  { st with sessions := st.sessions.filter (·.id != id) }

def NS.closeAll (st : NS) (ids : List Nat) : NS := ids.foldl NS.close st

/-- the sessions that claim (`register_session`) the peer name `peer` -/
def NS.sessionsOf (st : NS) (peer : String) : List Nat :=
  (st.sessions.filter (·.peerName == some peer)).map (·.id)

/-- what is left of the bookkeeping: keys of `node_sessions`, of `connection_ids` (one entry
per registered session) and `authenticated_sessions` -/
def NS.residue (st : NS) : List Nat × List Nat × List Nat :=
  (st.sessions.map (·.id), (st.sessions.filter (·.peerName.isSome)).map (·.id),
   (st.sessions.filter (·.auth)).map (·.id))

/-- run-time oracle: nothing of a closed session is left -/
def residueOk (closed : List Nat) (ns ids auth : List Nat) : Bool :=
  closed.all fun c => !ns.contains c && !ids.contains c && !auth.contains c

def Reply.continues : Reply → Bool
  | .noOther => true
  | .thisContinues => true
  | _ => false

/-! ### Two-node world: one physical connection seen from both ends -/

structure Conn where
  aInit : Bool      -- `true`: node A dialled this connection
  nonce : Nat       -- wire nonce, `0` = legacy
  idA : Nat         -- session actor id on node A
  idB : Nat         -- session actor id on node B
  deriving Repr, DecidableEq

def nz (n : Nat) : Option Nat := if n == 0 then none else some n

def viewA (c : Conn) : Cand := ⟨c.idA, !c.aInit, nz c.nonce⟩
def viewB (c : Conn) : Cand := ⟨c.idB, c.aInit, nz c.nonce⟩


/-- What node A / node B retain (`o = compare nameB nameA`). -/
def electA (o : Ordering) (cs : List Conn) : List Nat := elect o (cs.map viewA)
def electB (o : Ordering) (cs : List Conn) : List Nat := elect o.swap (cs.map viewB)

/-- Run-time oracle for C18 on the results `eA`, `eB` two nodes computed for the same
multiset of connections: both keep something, only known sessions, everything kept has one
direction and one nonce, the accepting side keeps exactly one connection and the
initiating side still holds it. -/
def worldOk (cs : List Conn) (eA eB : List Nat) : Bool :=
  let kA := cs.filter (fun c => eA.contains c.idA)
  let kB := cs.filter (fun c => eB.contains c.idB)
  eA.all (fun i => cs.any (·.idA == i)) && eB.all (fun i => cs.any (·.idB == i)) &&
  (kA ++ kB).all (fun c => (kA ++ kB).all (fun c' => c.aInit == c'.aInit && nz c.nonce == nz c'.nonce)) &&
  match kA with
  | [] => false
  | c :: _ =>
    if c.aInit then (kB.length == 1 && kB.all (fun x => kA.contains x))
    else (kA.length == 1 && kA.all (fun x => kB.contains x))

/-- End-to-end outcome oracle (exactly what C18 states about outcomes): `kept*` are the
connection indices each node still lists at quiescence, `ready*` the connections reported
ready that are still alive. Both nodes keep the same single connection and it is the only
live ready one. -/
def e2eOk (n : Nat) (keptA keptB readyA readyB : List Nat) : Bool :=
  match keptA, keptB with
  | [i], [j] => i == j && decide (i < n) && readyA == [i] && readyB == [j]
  | _, _ => false

/-- What the MODEL additionally predicts about the outcome (correspondence, not property):
when both directions were dialled the survivor is a dial of the node whose name sorts last
(`dirs[i] = true` iff node A dialled connection `i`, `o = compare nameB nameA`). -/
def e2eDirectionAsModel (o : Ordering) (dirs : List Bool) (keptA : List Nat) : Bool :=
  if dirs.any (· == true) && dirs.any (· == false) then
    match keptA, o with
    | [i], .lt => dirs[i]? == some true
    | [i], .gt => dirs[i]? == some false
    | _, _ => true
  else true

end Election

/-! ### session death and reconnection (round 4) -/

namespace Election

/-- `ConnectionOpened{,External}`: a new, nameless, unauthenticated entry (= `NS.open`) -/
def NS.opened (st : NS) (id : Nat) (isServer : Bool) : NS :=
  { st with sessions := st.sessions ++ [⟨id, isServer, none, none, false⟩] }

/-- what `GetSessions` lists -/
def NS.listed (st : NS) : List Nat := (st.sessions.filter (·.auth)).map (·.id)

end Election

/-! ### the `NodeServerState` as a transition system (round 4) -/

namespace Election

/-- the messages that change `NodeServerState` (node.rs `handle` / `handle_supervisor_evt`) -/
inductive NSOp
  | opened (id : Nat) (isServer : Bool)          -- `ConnectionOpened{,External}`
  | register (id : Nat) (peer : String) (connId : Nat)   -- `UpdateSession`
  | commit (id : Nat)                             -- `ConnectionAuthenticated`
  | close (id : Nat)                              -- `ActorTerminated` / `ActorFailed` of a session
  deriving Repr, DecidableEq

def nsStep (st : NS) : NSOp → NS
  | .opened id srv => st.opened id srv
  | .register id peer n => (st.register id peer n).1
  | .commit id => match st.commit id with
    | some (st', _, _) => st'
    | none => st
  | .close id => st.close id

def nsRun (thisName : String) (ops : List NSOp) : NS := ops.foldl nsStep { thisName := thisName, sessions := [] }

/-- session ids are never reused while a session with that id is in the table (actor ids are unique) -/
def nsFresh : NS → List NSOp → Prop
  | _, [] => True
  | st, op :: rest =>
    (match op with
      | .opened id _ => ∀ s ∈ st.sessions, s.id ≠ id
      | _ => True) ∧ nsFresh (nsStep st op) rest

end Election
