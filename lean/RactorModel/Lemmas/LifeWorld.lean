import RactorModel.Lemmas.Life

/-! Composition: `World.step` changes actors only through `Actor.step`, so in every run of the
composed world each actor's state and trace projection are a run of the single-actor model on some
list of single-actor ops. The per-actor theorems (quantified over all `List AOp`) therefore hold of
every actor of every world run. -/

namespace Life

/-- Actor `i`'s part of a tagged output list. -/
def projOuts (i : Nat) (l : List WOut) : List Out := (l.filter (fun o => o.1 = i)).map (·.2)

def projEvs (i : Nat) (l : List WOut) : List Ev := evs (projOuts i l)

@[simp] theorem projOuts_nil (i : Nat) : projOuts i [] = [] := rfl
@[simp] theorem projOuts_append (i : Nat) (l1 l2 : List WOut) :
    projOuts i (l1 ++ l2) = projOuts i l1 ++ projOuts i l2 := by
  simp [projOuts]
@[simp] theorem projEvs_nil (i : Nat) : projEvs i [] = [] := rfl
@[simp] theorem projEvs_append (i : Nat) (l1 l2 : List WOut) :
    projEvs i (l1 ++ l2) = projEvs i l1 ++ projEvs i l2 := by
  simp [projEvs]

theorem projOuts_tag_self (i : Nat) (l : List Out) : projOuts i (l.map (fun o => (i, o))) = l := by
  induction l with
  | nil => rfl
  | cons o l ih => simpa [projOuts] using ih

theorem projOuts_tag_other {i j : Nat} (h : j ≠ i) (l : List Out) : projOuts i (l.map (fun o => (j, o))) = [] := by
  induction l with
  | nil => rfl
  | cons o l ih => simpa [projOuts, h] using ih

theorem run_append (a : Actor) (l1 l2 : List AOp) :
    a.run (l1 ++ l2) = (((a.run l1).1.run l2).1, (a.run l1).2 ++ ((a.run l1).1.run l2).2) := by
  induction l1 generalizing a with
  | nil => simp [Actor.run]
  | cons op ops ih => simp [Actor.run, ih, List.append_assoc]

/-- `w'` extends `w` by `outs`: every actor made a run of the single-actor model. -/
def Ext (w w' : World) (outs : List WOut) : Prop :=
  ∀ i, ∃ aops, (w.get i).run aops = (w'.get i, projEvs i outs)

theorem Ext.refl (w : World) : Ext w w [] := fun _ => ⟨[], rfl⟩

theorem Ext.trans {w w1 w2 : World} {o1 o2 : List WOut} (h1 : Ext w w1 o1) (h2 : Ext w1 w2 o2) :
    Ext w w2 (o1 ++ o2) := by
  intro i
  obtain ⟨l1, e1⟩ := h1 i
  obtain ⟨l2, e2⟩ := h2 i
  refine ⟨l1 ++ l2, ?_⟩
  rw [run_append, e1]
  simp only [e2, projEvs_append]

theorem get_set_self (w : World) (i : Nat) (a : Actor) (h : i < w.actors.length) : (w.set i a).get i = a := by
  simp [World.get, World.set, h]

theorem get_set_other (w : World) {i j : Nat} (a : Actor) (h : i ≠ j) : (w.set j a).get i = w.get i := by
  simp [World.get, World.set, List.getElem?_set, h.symm]

theorem Ext.apply (w : World) (j : Nat) (op : AOp) : Ext w (w.apply j op).1 (w.apply j op).2 := by
  unfold World.apply
  split
  · rename_i hj
    intro i
    by_cases hij : i = j
    · subst hij
      refine ⟨[op], ?_⟩
      simp only [Actor.run, List.append_nil]
      rw [get_set_self _ _ _ hj]
      simp [projEvs, projOuts_tag_self]
    · refine ⟨[], ?_⟩
      simp only [Actor.run]
      rw [get_set_other _ _ hij]
      simp [projEvs, projOuts_tag_other (Ne.symm hij)]
  · exact Ext.refl w

theorem get_tables (w : World) (op : Op) (outs : List WOut) (i : Nat) : (w.tables op outs).get i = w.get i := by
  unfold World.tables
  split <;> (try split) <;> rfl

theorem get_addSlot (w : World) (a i : Nat) (h : a = w.actors.length) :
    ({ w with actors := w.actors ++ [Actor.init a] } : World).get i = w.get i := by
  subst h
  simp only [World.get]
  by_cases hi : i < w.actors.length
  · simp [List.getD, List.getElem?_append_left hi]
  · by_cases he : i = w.actors.length
    · subst he; simp [List.getD]
    · have : w.actors.length < i := by omega
      simp [List.getD, List.getElem?_append_right (Nat.le_of_lt this)]
      have h2 : i - w.actors.length ≠ 0 := by omega
      have h3 : ¬ i < w.actors.length := hi
      simp [List.getElem?_eq_none (Nat.le_of_lt this)]
      cases hk : i - w.actors.length with
      | zero => exact absurd hk h2
      | succ k => simp

theorem Ext.effects_cascade (fuel : Nat) :
    (∀ w outs, Ext w (World.effects fuel w outs).1 (World.effects fuel w outs).2) ∧
    (∀ w kids, Ext w (World.cascade fuel w kids).1 (World.cascade fuel w kids).2) := by
  induction fuel with
  | zero => exact ⟨fun w _ => by simp [World.effects]; exact Ext.refl w, fun w _ => by simp [World.cascade]; exact Ext.refl w⟩
  | succ n ih =>
    obtain ⟨ihe, ihc⟩ := ih
    constructor
    · intro w outs
      cases outs with
      | nil => simp [World.effects]; exact Ext.refl w
      | cons o rest =>
        obtain ⟨src, o⟩ := o
        simp only [World.effects]
        refine Ext.trans ?_ (ihe _ rest)
        split
        · exact Ext.apply w _ _
        · exact ihc w _
        · exact Ext.apply w _ _
        · exact Ext.apply w _ _
        · -- a child spawned from a callback: the slot (if new) is an untouched `Actor.init`
          rename_i c loc
          have hslot : Ext w (if c = w.actors.length then ({ w with actors := w.actors ++ [Actor.init c] } : World) else w) [] := by
            intro i
            refine ⟨[], ?_⟩
            simp only [Actor.run, projEvs_nil]
            split
            · rename_i h; rw [get_addSlot w c i h]
            · rfl
          have := Ext.trans hslot (Ext.apply _ c (.spawnInstant (some src) none true loc))
          simpa using this
        · split
          · exact Ext.apply w _ _
          · exact Ext.trans (Ext.apply w _ _) (Ext.apply _ _ _)
        · exact Ext.refl w
    · intro w kids
      cases kids with
      | nil => simp [World.cascade]; exact Ext.refl w
      | cons c cs =>
        simp only [World.cascade]
        exact Ext.trans (Ext.trans (Ext.apply w c .treeTaken) (ihe _ _)) (ihc _ cs)

/-- One harness op (not `case`) extends the world. -/
theorem Ext.step (w : World) (op : Op) (hc : op ≠ .case) :
    Ext w (w.step op).1 ((w.step op).2.1 ++ (w.step op).2.2) := by
  unfold World.step
  cases op with
  | case => exact absurd rfl hc
  | _ =>
    simp only []
    split
    · simp only [List.append_nil]
      intro i
      refine ⟨[], ?_⟩
      simp only [Actor.run, projEvs, projOuts]
      by_cases h0 : (0 : Nat) = i <;> simp [h0]
    · rename_i a aop _
      simp only []
      intro i
      have hslot : (if a = w.actors.length then ({ w with actors := w.actors ++ [Actor.init a] } : World) else w).get i = w.get i := by
        split
        · rename_i h; exact get_addSlot w a i h
        · rfl
      generalize (if a = w.actors.length then ({ w with actors := w.actors ++ [Actor.init a] } : World) else w) = w0 at hslot ⊢
      have key : ∀ fuel, ∃ aops, (w0.get i).run aops =
          ((World.effects fuel (w0.apply a aop).1 (w0.apply a aop).2).1.get i,
           projEvs i ((w0.apply a aop).2 ++ (World.effects fuel (w0.apply a aop).1 (w0.apply a aop).2).2)) :=
        fun fuel => Ext.trans (Ext.apply w0 a aop) ((Ext.effects_cascade fuel).1 _ _) i
      rw [get_tables, ← hslot]
      exact key _

theorem Ext.run (ops : List Op) (w : World) (h : ∀ op ∈ ops, op ≠ .case) :
    Ext w (w.run ops).1 (w.run ops).2 := by
  induction ops generalizing w with
  | nil => exact Ext.refl w
  | cons op ops ih =>
    simp only [World.run]
    exact Ext.trans (Ext.step w op (h op (List.mem_cons_self ..)))
      (ih _ (fun o ho => h o (List.mem_cons_of_mem _ ho)))

/-- In a run of the composed world from the empty world (one harness case), actor `i`'s state and
trace projection are those of the single-actor model on some list of single-actor ops. -/
theorem world_actor_run (ops : List Op) (h : ∀ op ∈ ops, op ≠ .case) (i : Nat) :
    ∃ aops, (Actor.init i).run aops = ((({} : World).run ops).1.get i, projEvs i (({} : World).run ops).2) := by
  have := Ext.run ops {} h i
  simpa [World.get] using this

end Life
