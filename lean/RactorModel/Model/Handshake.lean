import RactorModel.Model.Election

/-! # Two nodes, many connections, handshakes in any order (C18, small-step)

`Model/Election.lean` says what ONE election computes. This file puts the elections of the two
nodes into a transition system whose steps are the points at which `NodeServer` state changes
(`ractor_cluster/src/node.rs`, `node/node_session.rs`):

* `authA a` / `authB b` — the session with that id completed the challenge handshake on that
  node: `commit_authenticated` marks it authenticated, elects among the AUTHENTICATED sessions of
  the peer that are still open there, and the losers are closed (their session actors stop, the
  socket is dropped);
* `preA a` / `preB b` — `check_candidate` during the handshake of a not yet authenticated
  session: the candidates are the authenticated open sessions plus this one; if this one would
  not be elected it is closed before it authenticates;
* `seeA a` / `seeB b` — a node notices that the other end of a connection is gone and removes
  its own session.

Every step is taken by ONE node on ITS OWN knowledge (`activeA` / `activeB`): which sessions
have authenticated and are open there — an arbitrary sub-multiset of all connections, decided
by the schedule. No step fails a connection for reasons outside the election (no network
faults): the statement is about duplicate connections, not about loss of the link. -/

namespace Election

structure Link where
  c : Conn
  authA : Bool := false
  authB : Bool := false
  openA : Bool := true
  openB : Bool := true
  deriving Repr, DecidableEq

/-- all connections established, nothing authenticated yet -/
def hsInit (cs : List Conn) : List Link := cs.map (fun c => { c := c })

def activeA (w : List Link) : List Conn := (w.filter (fun l => l.authA && l.openA)).map (·.c)
def activeB (w : List Link) : List Conn := (w.filter (fun l => l.authB && l.openB)).map (·.c)

/-- candidates of `check_candidate` for the open, not yet authenticated session `a` -/
def candA (w : List Link) (a : Nat) : List Conn :=
  (w.filter (fun l => (l.authA || l.c.idA == a) && l.openA)).map (·.c)
def candB (w : List Link) (b : Nat) : List Conn :=
  (w.filter (fun l => (l.authB || l.c.idB == b) && l.openB)).map (·.c)

def pendingA (w : List Link) (a : Nat) : Bool := w.any (fun l => l.c.idA == a && l.openA && !l.authA)
def pendingB (w : List Link) (b : Nat) : Bool := w.any (fun l => l.c.idB == b && l.openB && !l.authB)

def closeLosersA (w : List Link) (el : List Nat) : List Link :=
  w.map (fun l => if l.authA && l.openA && !el.contains l.c.idA then { l with openA := false } else l)
def closeLosersB (w : List Link) (el : List Nat) : List Link :=
  w.map (fun l => if l.authB && l.openB && !el.contains l.c.idB then { l with openB := false } else l)

def markA (w : List Link) (a : Nat) : List Link :=
  w.map (fun l => if l.c.idA == a then { l with authA := true } else l)
def markB (w : List Link) (b : Nat) : List Link :=
  w.map (fun l => if l.c.idB == b then { l with authB := true } else l)

def stepAuthA (o : Ordering) (w : List Link) (a : Nat) : List Link :=
  if pendingA w a then closeLosersA (markA w a) (electA o (activeA (markA w a))) else w
def stepAuthB (o : Ordering) (w : List Link) (b : Nat) : List Link :=
  if pendingB w b then closeLosersB (markB w b) (electB o (activeB (markB w b))) else w

def stepPreA (o : Ordering) (w : List Link) (a : Nat) : List Link :=
  if pendingA w a && !(electA o (candA w a)).contains a then
    w.map (fun l => if l.c.idA == a then { l with openA := false } else l)
  else w
def stepPreB (o : Ordering) (w : List Link) (b : Nat) : List Link :=
  if pendingB w b && !(electB o (candB w b)).contains b then
    w.map (fun l => if l.c.idB == b then { l with openB := false } else l)
  else w

def stepSeeA (w : List Link) (a : Nat) : List Link :=
  w.map (fun l => if l.c.idA == a && !l.openB then { l with openA := false } else l)
def stepSeeB (w : List Link) (b : Nat) : List Link :=
  w.map (fun l => if l.c.idB == b && !l.openA then { l with openB := false } else l)

inductive HOp
  | authA (a : Nat) | authB (b : Nat)
  | preA (a : Nat) | preB (b : Nat)
  | seeA (a : Nat) | seeB (b : Nat)
  deriving Repr, DecidableEq

/-- `o = compare nameB nameA` (node A's view of the peer name against its own) -/
def hsStep (o : Ordering) (w : List Link) : HOp → List Link
  | .authA a => stepAuthA o w a
  | .authB b => stepAuthB o w b
  | .preA a => stepPreA o w a
  | .preB b => stepPreB o w b
  | .seeA a => stepSeeA w a
  | .seeB b => stepSeeB w b

def hsRun (o : Ordering) (cs : List Conn) (ops : List HOp) : List Link :=
  ops.foldl (hsStep o) (hsInit cs)

/-- connections still open on node A / node B -/
def openOnA (w : List Link) : List Conn := (w.filter (·.openA)).map (·.c)
def openOnB (w : List Link) : List Conn := (w.filter (·.openB)).map (·.c)

/-- nothing left to do: every connection that is open somewhere is open and authenticated on
both nodes -/
def hsQuiescent (w : List Link) : Bool :=
  w.all (fun l => l.openA == l.openB && (!l.openA || (l.authA && l.authB)))

end Election

/-! ## Late dials (round 4)

`hsInit` fixes the connection set before the run starts. Here connections are dialled at any
time — before, between and after the handshakes of the others, also when a link is already up and
ready: `DOp.dial c` appends a fresh, not yet authenticated link; `DOp.hs op` is a step of
`hsStep` on the connections dialled so far (a step naming a connection that does not exist yet
does nothing). -/

namespace Election

inductive DOp
  | dial (c : Conn)
  | hs (op : HOp)
  deriving Repr, DecidableEq

/-- state: the connections dialled so far, and their links -/
def dStep (o : Ordering) (s : List Conn × List Link) : DOp → List Conn × List Link
  | .dial c => (s.1 ++ [c], s.2 ++ [{ c := c }])
  | .hs op => (s.1, hsStep o s.2 op)

def dRun (o : Ordering) (ops : List DOp) : List Conn × List Link :=
  ops.foldl (dStep o) ([], [])

/-- the connections an op sequence dials, in order -/
def dials : List DOp → List Conn
  | [] => []
  | .dial c :: rest => c :: dials rest
  | .hs _ :: rest => dials rest

end Election

/-! ## Connections that go away for reasons outside the election (round 4)

`FOp.failA a` / `FOp.failB b`: node A's / node B's end of a connection closes at ANY time for a
reason that is not an election result — the transport fails, the peer process is gone, or the
session gives up by itself (`node_session.rs`: the pre-authentication `CheckSession` failed or
timed out ⇒ `Close`; the post-authentication `CheckSession` answered with an error ⇒
`myself.stop("session_election_lost")`). The other node notices through `seeA` / `seeB`.
Together with late dials (`dial`) and the election steps (`hs`). -/

namespace Election

inductive FOp
  | dial (c : Conn)
  | hs (op : HOp)
  | failA (a : Nat)
  | failB (b : Nat)
  deriving Repr, DecidableEq

def fStep (o : Ordering) (w : List Link) : FOp → List Link
  | .dial c => w ++ [{ c := c }]
  | .hs op => hsStep o w op
  | .failA a => w.map (fun l => if l.c.idA == a then { l with openA := false } else l)
  | .failB b => w.map (fun l => if l.c.idB == b then { l with openB := false } else l)

def fRun (o : Ordering) (ops : List FOp) : List Link := ops.foldl (fStep o) []

def fDials : List FOp → List Conn
  | [] => []
  | .dial c :: rest => c :: fDials rest
  | _ :: rest => fDials rest

end Election

/-! ## `node_session_ready` events (round 4)

`ROp.readyA a`: node A's `NodeServer` handles `ConnectionReady(a)` (node.rs): the subscribers get
`node_session_ready` iff `is_elected(a)` — the session is authenticated, still there, and elected
among the authenticated sessions of the peer. The event is appended to node A's log; the world is
not changed. All other ops are those of `fStep` (late dials, election steps, failing ends). -/

namespace Election

inductive ROp
  | f (op : FOp)
  | readyA (a : Nat)
  | readyB (b : Nat)
  deriving Repr, DecidableEq

structure RState where
  w : List Link := []
  logA : List Nat := []
  logB : List Nat := []
  deriving Repr

def rStep (o : Ordering) (s : RState) : ROp → RState
  | .f op => { s with w := fStep o s.w op }
  | .readyA a =>
    if s.w.any (fun l => l.c.idA == a && l.authA && l.openA) && (electA o (activeA s.w)).contains a
    then { s with logA := s.logA ++ [a] } else s
  | .readyB b =>
    if s.w.any (fun l => l.c.idB == b && l.authB && l.openB) && (electB o (activeB s.w)).contains b
    then { s with logB := s.logB ++ [b] } else s

def rRun (o : Ordering) (ops : List ROp) : RState := ops.foldl (rStep o) {}

def rProj : List ROp → List FOp
  | [] => []
  | .f op :: rest => op :: rProj rest
  | _ :: rest => rProj rest

/-- sessions reported ready on A / B that are still open there -/
def liveReadyA (s : RState) : List Nat := s.logA.filter (fun a => s.w.any (fun l => l.c.idA == a && l.openA))
def liveReadyB (s : RState) : List Nat := s.logB.filter (fun b => s.w.any (fun l => l.c.idB == b && l.openB))

end Election

/-! ## the pre-authentication check as the session performs it (round 4)

`stepPreA` is `check_candidate`. The session does not call that: it calls `CheckSession` with the
peer's name and its own nonce (`check_session`), which first looks the candidate up by (name, nonce)
among ALL registered sessions and answers `NoOtherConnection` (carry on) when more than one matches.
`stepPreSA` is that: the `preA` step when this connection's nonce is unique among the connections
open on A, nothing otherwise. -/

namespace Election

/-- ids of the sessions open on A / B whose nonce is `n` (all sessions here carry the peer's name) -/
def matchA (w : List Link) (n : Nat) : List Nat :=
  (w.filter (fun l => l.openA && nz l.c.nonce == nz n)).map (·.c.idA)
def matchB (w : List Link) (n : Nat) : List Nat :=
  (w.filter (fun l => l.openB && nz l.c.nonce == nz n)).map (·.c.idB)

def stepPreSA (o : Ordering) (w : List Link) (a : Nat) : List Link :=
  match w.find? (fun l => l.c.idA == a) with
  | some l => if (matchA w l.c.nonce).length == 1 then stepPreA o w a else w
  | none => w
def stepPreSB (o : Ordering) (w : List Link) (b : Nat) : List Link :=
  match w.find? (fun l => l.c.idB == b) with
  | some l => if (matchB w l.c.nonce).length == 1 then stepPreB o w b else w
  | none => w

end Election
