import RactorModel.Lemmas.TreeProps

/-! The exit sequence as a small-step machine: it computes `exit`, and a `link` at any position
either is refused or comes before everything — in which case the new child is in the kill set. -/

namespace Tree

theorem xrun_add (fixed : Bool) (a : Nat) : ∀ (m n : Nat) (x : X), xrun fixed a (m + n) x = xrun fixed a n (xrun fixed a m x) := by
  intro m
  induction m with
  | zero => intro n x; simp [xrun]
  | succ m ih => intro n x; rw [Nat.succ_add]; simp only [xrun]; exact ih n _

theorem xrun_done (fixed : Bool) (a : Nat) : ∀ (n : Nat) (t : State), xrun fixed a n ⟨t, .done⟩ = ⟨t, .done⟩ := by
  intro n
  induction n with
  | zero => intro t; rfl
  | succ n ih => intro t; simp only [xrun, xstep]; exact ih t

/-- the worklist phase of the machine computes `loop` (for any sufficient fuel) -/
theorem xrun_loop (fixed : Bool) (a : Nat) : ∀ (f : Nat) (t : State) (pending : List Nat), Inv t →
    pending.length + totalKids t t.n ≤ f →
    ∃ k, xrun fixed a k ⟨t, .loop pending⟩ = ⟨loop fixed f t pending, .detach⟩ := by
  intro f
  induction f with
  | zero =>
    intro t pending _ hf
    have : pending = [] := List.length_eq_zero_iff.mp (by omega)
    subst this; exact ⟨1, rfl⟩
  | succ f ih =>
    intro t pending hi hf
    cases pending with
    | nil => exact ⟨1, rfl⟩
    | cons y rest =>
      obtain ⟨k, hk⟩ := ih (visit fixed t y).1 ((visit fixed t y).2 ++ rest) (hi.visit fixed y) (fuel_step fixed hi hf)
      exact ⟨k + 1, by simp only [xrun, xstep, Tree.loop]; exact hk⟩

theorem xrun_pre (fixed : Bool) (a : Nat) : ∀ (f : Nat) (t : State) (pending : List Nat), Inv t →
    pending.length + totalKids t t.n ≤ f →
    ∃ k, xrun fixed a k ⟨t, .pre pending⟩ = ⟨loop fixed f t pending, .pub⟩ := by
  intro f
  induction f with
  | zero =>
    intro t pending _ hf
    have : pending = [] := List.length_eq_zero_iff.mp (by omega)
    subst this; exact ⟨1, rfl⟩
  | succ f ih =>
    intro t pending hi hf
    cases pending with
    | nil => exact ⟨1, rfl⟩
    | cons y rest =>
      obtain ⟨k, hk⟩ := ih (visit fixed t y).1 ((visit fixed t y).2 ++ rest) (hi.visit fixed y) (fuel_step fixed hi hf)
      exact ⟨k + 1, by simp only [xrun, xstep, Tree.loop]; exact hk⟩

/-- what the machine computes: `exit`, preceded on the kill path by one `terminate` -/
def xresult (fixed kill : Bool) (s : State) (a : Nat) : State :=
  if kill then exit fixed (terminate fixed s a) a else exit fixed s a

theorem xrun_from_pub (fixed : Bool) (a : Nat) (t : State) (hi : Inv t) :
    ∃ k, xrun fixed a k ⟨t, .pub⟩ = ⟨exit fixed t a, .done⟩ := by
  obtain ⟨k, hk⟩ := xrun_loop fixed a (totalKids (setStatus t a .stopping) (setStatus t a .stopping).n + 1)
    (setStatus t a .stopping) [a] (hi.setStatus a _ (by decide)) (by simp; omega)
  refine ⟨1 + k + 2, ?_⟩
  rw [xrun_add, xrun_add]
  have e1 : xrun fixed a 1 ⟨t, .pub⟩ = ⟨setStatus t a .stopping, .loop [a]⟩ := rfl
  rw [e1, hk]
  rfl

theorem xrun_complete (fixed kill : Bool) (s : State) (a : Nat) (hi : Inv s) :
    ∃ k, xrun fixed a k (xinit kill a s) = ⟨xresult fixed kill s a, .done⟩ := by
  cases kill with
  | false => exact xrun_from_pub fixed a s hi
  | true =>
    obtain ⟨k1, h1⟩ := xrun_pre fixed a (totalKids s s.n + 1) s [a] hi (by simp; omega)
    obtain ⟨k2, h2⟩ := xrun_from_pub fixed a (terminate fixed s a) (hi.terminate fixed a)
    refine ⟨k1 + k2, ?_⟩
    rw [xrun_add]
    have e1 : xinit true a s = ⟨s, .pre [a]⟩ := rfl
    rw [e1, h1]
    exact h2

/-- a finished run is *the* finished run -/
theorem xrun_done_unique (fixed kill : Bool) (s : State) (a n : Nat) (hi : Inv s)
    (h : (xrun fixed a n (xinit kill a s)).pc = .done) :
    (xrun fixed a n (xinit kill a s)).t = xresult fixed kill s a := by
  obtain ⟨k, hk⟩ := xrun_complete fixed kill s a hi
  have h1 : xrun fixed a (n + k) (xinit kill a s) = xrun fixed a n (xinit kill a s) := by
    rw [xrun_add]
    generalize xrun fixed a n (xinit kill a s) = x at h
    obtain ⟨t, pc⟩ := x
    simp only at h; subst h
    exact xrun_done fixed a k t
  have h2 : xrun fixed a (k + n) (xinit kill a s) = ⟨xresult fixed kill s a, .done⟩ := by
    rw [xrun_add, hk]; exact xrun_done fixed a n _
  rw [Nat.add_comm] at h1
  rw [← h1, h2]

/-- after its first step the exiting actor refuses every link: its child set is closed or its
published status is at least `Stopping` -/
def Refusing (a : Nat) (x : X) : Prop :=
  x.t.kids a = none ∨ Status.stopping.toNat ≤ (x.t.status a).toNat

theorem status_max_ge (st st' : Status) : st'.toNat ≤ (st.max st').toNat ∧ st.toNat ≤ (st.max st').toNat := by
  unfold Status.max; split <;> omega

theorem Refusing.visit {fixed : Bool} {a : Nat} {t : State} {pc pc' : Pc} (y : Nat)
    (h : Refusing a ⟨t, pc⟩) : Refusing a ⟨(visit fixed t y).1, pc'⟩ := by
  obtain ⟨_, hst, hkx, hky, _⟩ := visit_spec fixed t y
  rcases h with h | h
  · left
    show (Tree.visit fixed t y).1.kids a = none
    by_cases e : a = y
    · subst e; exact hkx
    · rw [hky a e]; exact h
  · right
    show Status.stopping.toNat ≤ ((Tree.visit fixed t y).1.status a).toNat
    rw [hst]; exact h

theorem Refusing.step {fixed : Bool} {a : Nat} {x : X} (h : Refusing a x) : Refusing a (xstep fixed a x) := by
  obtain ⟨t, pc⟩ := x
  cases pc with
  | pre pending =>
    cases pending with
    | nil => exact h
    | cons y rest => exact h.visit y
  | pub =>
    right
    show Status.stopping.toNat ≤ ((Tree.setStatus t a .stopping).status a).toNat
    simp only [Tree.setStatus, upd_same]
    exact (status_max_ge _ _).1
  | loop pending =>
    cases pending with
    | nil => exact h
    | cons y rest => exact h.visit y
  | detach =>
    rcases h with h | h
    · left
      show (detachSelf t a).kids a = none
      rcases detachSelf_kids t a a with e | ⟨ks, e, _⟩
      · exact e.trans h
      · rw [h] at e; cases e
    · right
      show Status.stopping.toNat ≤ ((detachSelf t a).status a).toNat
      rw [(detachSelf_frame t a).2.1]; exact h
  | publishStopped =>
    rcases h with h | h
    · exact .inl h
    · right
      show Status.stopping.toNat ≤ ((Tree.setStatus t a .stopped).status a).toNat
      simp only [Tree.setStatus, upd_same]
      exact Nat.le_trans h (status_max_ge _ _).2
  | done => exact h

/-- the very first step of the exit makes the actor refuse links -/
theorem Refusing.first (fixed kill : Bool) (a : Nat) (s : State) : Refusing a (xstep fixed a (xinit kill a s)) := by
  cases kill with
  | false =>
    right
    show Status.stopping.toNat ≤ ((Tree.setStatus s a .stopping).status a).toNat
    simp only [Tree.setStatus, upd_same]
    exact (status_max_ge _ _).1
  | true =>
    left
    show (Tree.visit fixed s a).1.kids a = none
    exact (visit_spec fixed s a).2.2.1

theorem Refusing.run {fixed : Bool} {a : Nat} : ∀ (n : Nat) {x : X}, Refusing a x → Refusing a (xrun fixed a n x) := by
  intro n
  induction n with
  | zero => intro x h; exact h
  | succ n ih => intro x h; exact ih h.step

theorem refusing_link {a : Nat} {x : X} (h : Refusing a x) (c : Nat) : link x.t c a = (x.t, false) := by
  apply link_refused
  rcases h with h | h
  · exact .inr h
  · left; unfold gate gateB; simp only [Status.toNat] at h ⊢; omega

end Tree

namespace Tree

/-- The link/exit race: `k` steps of `a`'s exit, then `link c a` (one atomic region), then the rest
of the exit.  Either the link is refused, or it came before the first step — and then the new child
is in the kill set of the exit (or is itself already stopping/stopped; on the pinned code: draining). -/
theorem race_link (fixed kill : Bool) (s : State) (hi : Inv s) (a c k n : Nat)
    (hdone : (raceRun fixed kill s a c a k n).1.pc = .done) :
    (raceRun fixed kill s a c a k n).2 = false ∨
    (k = 0 ∧ ((raceRun fixed kill s a c a k n).1.t.killed c = true ∨
      (if fixed then Status.stopping.toNat ≤ ((raceRun fixed kill s a c a k n).1.t.status c).toNat
       else Status.draining.toNat ≤ ((raceRun fixed kill s a c a k n).1.t.status c).toNat))) := by
  cases k with
  | succ k =>
    left
    have hr : Refusing a (xrun fixed a (k + 1) (xinit kill a s)) := by
      simp only [xrun]; exact (Refusing.first fixed kill a s).run k
    simp only [raceRun, refusing_link hr c]
  | zero =>
    cases hres : (link s c a).2 with
    | false => left; exact hres
    | true =>
      right
      refine ⟨rfl, ?_⟩
      obtain ⟨_, _, hsup⟩ := link_true hres
      have hi2 : Inv (link s c a).1 := hi.link c a
      have hst2 : (link s c a).1.status = s.status := (link_other hi (c := c) (p := a) (z := c)).2.2.2.1
      have hchild : child (link s c a).1 a c := (hi2.links c a).mp hsup
      have hd : Desc (link s c a).1 a c := .tail .refl hchild
      have hfin : (raceRun fixed kill s a c a 0 n).1 = xrun fixed a n (xinit kill a (link s c a).1) := rfl
      rw [hfin] at hdone ⊢
      rw [xrun_done_unique fixed kill _ a n hi2 hdone]
      generalize (link s c a).1 = t2 at hi2 hd hst2
      by_cases hca : c = a
      · -- a self-link: the actor itself ends up stopped
        subst hca
        right
        have : (xresult fixed kill t2 c).status c = .stopped := by
          unfold xresult; split <;> simp [exit_status]
        rw [this]; cases fixed <;> simp [Status.toNat]
      · cases kill with
        | false =>
          simp only [xresult, Bool.false_eq_true, ↓reduceIte]
          rcases exit_kills fixed t2 a hi2 c hd hca with h | h
          · exact .inl h
          · right; rw [exit_status]; simpa [hca] using h
        | true =>
          simp only [xresult, ↓reduceIte]
          obtain ⟨_, _, _, _, E, hst, _⟩ := terminate_spec fixed t2 a hi2
          have hi3 : Inv (terminate fixed t2 a) := hi2.terminate fixed a
          cases hc : killCond fixed (t2.status c) with
          | true =>
            left
            rw [exit_killed fixed _ a hi3 c]
            exact .inl ((E c).mpr (.inr ⟨hd, hc⟩))
          | false =>
            right
            rw [exit_status]; simp only [hca, ↓reduceIte, hst]
            obtain ⟨h1, h2⟩ := killCond_false hc
            cases fixed
            · simpa using h2 rfl
            · simpa using h1 rfl

end Tree

namespace Tree

/-! ### the general race: a link under any actor of the exiting subtree -/

/-- a finished run from any machine state is unique -/
theorem xrun_done_unique' (fixed : Bool) (a : Nat) (x : X) (r : State) (k n : Nat)
    (hk : xrun fixed a k x = ⟨r, .done⟩) (h : (xrun fixed a n x).pc = .done) : (xrun fixed a n x).t = r := by
  have h1 : xrun fixed a (n + k) x = xrun fixed a n x := by
    rw [xrun_add]
    generalize xrun fixed a n x = y at h
    obtain ⟨t, pc⟩ := y
    simp only at h; subst h
    exact xrun_done fixed a k t
  have h2 : xrun fixed a (k + n) x = ⟨r, .done⟩ := by
    rw [xrun_add, hk]; exact xrun_done fixed a n _
  rw [Nat.add_comm] at h1
  rw [← h1, h2]

/-- the tail of the exit after the worklist -/
def finish (s : State) (a : Nat) : State := setStatus (detachSelf s a) a .stopped

theorem xrun_from_loop (fixed : Bool) (a : Nat) (t : State) (pending : List Nat) (hi : Inv t) :
    ∃ k, xrun fixed a k ⟨t, .loop pending⟩ =
      ⟨finish (loop fixed (pending.length + totalKids t t.n) t pending) a, .done⟩ := by
  obtain ⟨k, hk⟩ := xrun_loop fixed a (pending.length + totalKids t t.n) t pending hi (Nat.le_refl _)
  exact ⟨k + 2, by rw [xrun_add, hk]; rfl⟩

theorem xrun_from_pre (fixed : Bool) (a : Nat) (t : State) (pending : List Nat) (hi : Inv t) :
    ∃ k, xrun fixed a k ⟨t, .pre pending⟩ =
      ⟨exit fixed (loop fixed (pending.length + totalKids t t.n) t pending) a, .done⟩ := by
  obtain ⟨k1, h1⟩ := xrun_pre fixed a (pending.length + totalKids t t.n) t pending hi (Nat.le_refl _)
  obtain ⟨k2, h2⟩ := xrun_from_pub fixed a _ (Inv.loop (fixed := fixed) (pending.length + totalKids t t.n) pending hi)
  exact ⟨k1 + k2, by rw [xrun_add, h1]; exact h2⟩

theorem finish_killed (s : State) (a : Nat) : (finish s a).killed = s.killed := (detachSelf_frame s a).1

theorem finish_status (s : State) (a z : Nat) : (finish s a).status z = if z = a then .stopped else s.status z := by
  have e : (finish s a).status z = upd (detachSelf s a).status a (((detachSelf s a).status a).max .stopped) z := rfl
  rw [e, (detachSelf_frame _ _).2.1, max_stopped, upd_apply]

/-- every actor of the exiting subtree is, at every moment of the exit, either already closed or still
ahead of the worklist -/
def Cover (s : State) (a : Nat) (x : X) : Prop :=
  ∀ d, Desc s a d → x.t.kids d = none ∨
    (match x.pc with
     | .pre l => Reach x.t l d
     | .loop l => Reach x.t l d
     | .pub => Reach x.t [a] d
     | _ => False)

theorem Cover.init (kill : Bool) (s : State) (a : Nat) : Cover s a (xinit kill a s) := by
  intro d hd
  right
  cases kill <;> exact ⟨a, List.mem_cons_self .., hd⟩

theorem Cover.step {fixed : Bool} {s : State} {a : Nat} {x : X} (h : Cover s a x) : Cover s a (xstep fixed a x) := by
  obtain ⟨t, pc⟩ := x
  intro d hd
  have hvisit : ∀ (y : Nat) (rest : List Nat), (t.kids d = none ∨ Reach t (y :: rest) d) →
      (visit fixed t y).1.kids d = none ∨ Reach (visit fixed t y).1 ((visit fixed t y).2 ++ rest) d := by
    intro y rest hh
    obtain ⟨_, _, hkx, hky, _⟩ := visit_spec fixed t y
    rcases hh with hh | hh
    · left
      by_cases e : d = y
      · subst e; exact hkx
      · rw [hky d e]; exact hh
    · rcases (reach_step fixed t y rest d).mp hh with e | e
      · left; subst e; exact hkx
      · exact .inr e
  cases pc with
  | pre pending =>
    cases pending with
    | nil =>
      rcases h d hd with h1 | ⟨y, hy, _⟩
      · exact .inl h1
      · cases hy
    | cons y rest => exact hvisit y rest (h d hd)
  | pub =>
    rcases h d hd with h1 | ⟨y, hy, hdy⟩
    · exact .inl h1
    · exact .inr ⟨y, hy, (desc_setStatus a .stopping).mpr hdy⟩
  | loop pending =>
    cases pending with
    | nil =>
      rcases h d hd with h1 | ⟨y, hy, _⟩
      · exact .inl h1
      · cases hy
    | cons y rest => exact hvisit y rest (h d hd)
  | detach =>
    rcases h d hd with h1 | h1
    · left
      show (detachSelf t a).kids d = none
      rcases detachSelf_kids t a d with e | ⟨ks, e, _⟩
      · exact e.trans h1
      · rw [h1] at e; cases e
    · exact h1.elim
  | publishStopped =>
    rcases h d hd with h1 | h1
    · exact .inl h1
    · exact h1.elim
  | done => exact h d hd

theorem Cover.run {fixed : Bool} {s : State} {a : Nat} : ∀ (n : Nat) {x : X}, Cover s a x → Cover s a (xrun fixed a n x) := by
  intro n
  induction n with
  | zero => intro x h; exact h
  | succ n ih => intro x h; exact ih h.step

/-- the tree invariant holds throughout the exit (the very last step, the publication of `Stopped`, is
covered by `Inv.exit` for the whole sequence) -/
def InvOrDone (x : X) : Prop := x.pc = .done ∨ Inv x.t

theorem InvOrDone.step {fixed : Bool} {a : Nat} {x : X} (h : InvOrDone x) : InvOrDone (xstep fixed a x) := by
  obtain ⟨t, pc⟩ := x
  rcases h with h | h
  · simp only at h; subst h; exact .inl rfl
  · simp only at h
    cases pc with
    | pre pending => cases pending with
      | nil => exact .inr h
      | cons y rest => exact .inr (h.visit fixed y)
    | pub => exact .inr (h.setStatus a _ (by decide))
    | loop pending => cases pending with
      | nil => exact .inr h
      | cons y rest => exact .inr (h.visit fixed y)
    | detach => exact .inr (h.detachSelf a)
    | publishStopped => exact .inl rfl
    | done => exact .inl rfl

theorem InvOrDone.run {fixed : Bool} {a : Nat} : ∀ (n : Nat) {x : X}, InvOrDone x → InvOrDone (xrun fixed a n x) := by
  intro n
  induction n with
  | zero => intro x h; exact h
  | succ n ih => intro x h; exact ih h.step

/-- linking an orphan erases no edge -/
theorem child_of_link_orphan {s : State} (_hi : Inv s) {c d : Nat} (hs : s.sup c = none) {w x : Nat}
    (hc : child s w x) : child (link s c d).1 w x := by
  rcases link_cases s c d with ⟨e, _⟩ | ⟨ks, hg, hk, hcase⟩
  · rw [e]; exact hc
  · rcases hcase with ⟨hs', _⟩ | ⟨_, e⟩ | ⟨q, hs', _, _⟩
    · rw [hs] at hs'; cases hs'
    · rw [e]
      obtain ⟨ks', hk', hx⟩ := hc
      by_cases ew : w = d
      · subst ew; rw [hk] at hk'; cases hk'
        exact ⟨ins c ks, by simp, mem_ins.mpr (.inr hx)⟩
      · exact ⟨ks', by simp [upd_ne _ _ ew, hk'], hx⟩
    · rw [hs] at hs'; cases hs'

/-- adding the edge `d → c` (a link of an orphan) keeps everything reachable that was reachable -/
theorem desc_link_orphan {s : State} (_hi : Inv s) {c d : Nat} (hs : s.sup c = none) {y z : Nat}
    (h : Desc s y z) : Desc (link s c d).1 y z := by
  have hchild : ∀ w x, child s w x → child (link s c d).1 w x := fun w x hc => child_of_link_orphan _hi hs hc
  have hchild' : ∀ w x, child s w x → child (link s c d).1 w x := by
    intro w x hc
    rcases link_cases s c d with ⟨e, _⟩ | ⟨ks, hg, hk, hcase⟩
    · rw [e]; exact hc
    · rcases hcase with ⟨hs', _⟩ | ⟨_, e⟩ | ⟨q, hs', _, _⟩
      · rw [hs] at hs'; cases hs'
      · rw [e]
        obtain ⟨ks', hk', hx⟩ := hc
        by_cases ew : w = d
        · subst ew; rw [hk] at hk'; cases hk'
          exact ⟨ins c ks, by simp, mem_ins.mpr (.inr hx)⟩
        · exact ⟨ks', by simp [upd_ne _ _ ew, hk'], hx⟩
      · rw [hs] at hs'; cases hs'
  induction h with
  | refl => exact .refl
  | tail _ hc ih => exact .tail ih (hchild _ _ hc)

theorem bound_of_stopped {fixed : Bool} {st : Status} (h : st = .stopped) :
    (if fixed then Status.stopping.toNat ≤ st.toNat else Status.draining.toNat ≤ st.toNat) := by
  subst h; cases fixed <;> simp [Status.toNat]

theorem bound_of_killCond {fixed : Bool} {st : Status} (h : killCond fixed st = false) :
    (if fixed then Status.stopping.toNat ≤ st.toNat else Status.draining.toNat ≤ st.toNat) := by
  obtain ⟨h1, h2⟩ := killCond_false h
  cases fixed
  · simpa using h2 rfl
  · simpa using h1 rfl

/-- the link step of the general race, from an arbitrary moment of the exit -/
theorem race_aux (fixed : Bool) (a c d n : Nat) (t : State) (pc : Pc)
    (hcov : t.kids d = none ∨
      (match pc with
       | .pre l => Reach t l d
       | .loop l => Reach t l d
       | .pub => Reach t [a] d
       | _ => False))
    (hinv : InvOrDone ⟨t, pc⟩) (horph : t.sup c = none)
    (hdone : (xrun fixed a n ⟨(link t c d).1, pc⟩).pc = .done) :
    (link t c d).2 = false ∨ (xrun fixed a n ⟨(link t c d).1, pc⟩).t.killed c = true ∨
      (if fixed then Status.stopping.toNat ≤ ((xrun fixed a n ⟨(link t c d).1, pc⟩).t.status c).toNat
       else Status.draining.toNat ≤ ((xrun fixed a n ⟨(link t c d).1, pc⟩).t.status c).toNat) := by
  cases hres : (link t c d).2 with
  | false => exact .inl rfl
  | true =>
    right
    obtain ⟨_, ⟨ks, hks⟩, hsup⟩ := link_true hres
    -- `d` is still open, so it is ahead of the worklist, and the exit is not over
    have hopen : t.kids d ≠ none := by rw [hks]; simp
    have hreach := hcov.resolve_left hopen
    have hit : Inv t := by
      rcases hinv with h | h
      · simp only at h; subst h; exact hreach.elim
      · exact h
    have hi2 : Inv (link t c d).1 := hit.link c d
    have hchild : child (link t c d).1 d c := (hi2.links c d).mp hsup
    have hlift : ∀ l, Reach t l d → Reach (link t c d).1 l c := by
      rintro l ⟨y, hy, hyd⟩
      exact ⟨y, hy, .tail (desc_link_orphan hit horph hyd) hchild⟩
    generalize (link t c d).1 = t2 at hi2 hlift hdone ⊢
    cases pc with
    | loop l =>
      have hrc := hlift l hreach
      obtain ⟨k, hk⟩ := xrun_from_loop fixed a t2 l hi2
      rw [xrun_done_unique' fixed a _ _ k n hk hdone]
      obtain ⟨_, _, _, _, E⟩ := loop_spec fixed (l.length + totalKids t2 t2.n) t2 l hi2 (Nat.le_refl _)
      rw [finish_killed, finish_status]
      by_cases hca : c = a
      · right; simp only [hca, ↓reduceIte]; exact bound_of_stopped rfl
      · cases hc : killCond fixed (t2.status c) with
        | true => exact .inl ((E c).mpr (.inr ⟨hrc, hc⟩))
        | false =>
          right
          simp only [hca, ↓reduceIte, (loop_status _ _ _).1]
          exact bound_of_killCond hc
    | pre l =>
      have hrc := hlift l hreach
      obtain ⟨k, hk⟩ := xrun_from_pre fixed a t2 l hi2
      rw [xrun_done_unique' fixed a _ _ k n hk hdone]
      obtain ⟨_, _, _, _, E⟩ := loop_spec fixed (l.length + totalKids t2 t2.n) t2 l hi2 (Nat.le_refl _)
      have hi3 : Inv (loop fixed (l.length + totalKids t2 t2.n) t2 l) := Inv.loop _ _ hi2
      rw [exit_status]
      by_cases hca : c = a
      · right; simp only [hca, ↓reduceIte]; exact bound_of_stopped rfl
      · cases hc : killCond fixed (t2.status c) with
        | true =>
          left
          rw [exit_killed fixed _ a hi3 c]
          exact .inl ((E c).mpr (.inr ⟨hrc, hc⟩))
        | false =>
          right
          simp only [hca, ↓reduceIte, (loop_status _ _ _).1]
          exact bound_of_killCond hc
    | pub =>
      obtain ⟨y, hy, hyc⟩ := hlift [a] hreach
      simp at hy; subst hy
      obtain ⟨k, hk⟩ := xrun_from_pub fixed y t2 hi2
      rw [xrun_done_unique' fixed y _ _ k n hk hdone, exit_status]
      by_cases hca : c = y
      · right; simp only [hca, ↓reduceIte]; exact bound_of_stopped rfl
      · rcases exit_kills fixed t2 y hi2 c hyc hca with h | h
        · exact .inl h
        · right; simp only [hca, ↓reduceIte]; exact h
    | detach => exact hreach.elim
    | publishStopped => exact hreach.elim
    | done => exact hreach.elim

/-- The general race: while `a` exits, an orphan `c` is linked (one atomic region) under *any* actor `d`
of the exiting subtree, at any position.  Either the link is refused or `c` has been sent the kill
signal by the end of the exit (or is itself the exiting actor / already stopping). -/
theorem race_link_any (fixed kill : Bool) (s : State) (hi : Inv s) (a c d k n : Nat) (hd : Desc s a d)
    (horph : (xrun fixed a k (xinit kill a s)).t.sup c = none)
    (hdone : (raceRun fixed kill s a c d k n).1.pc = .done) :
    (raceRun fixed kill s a c d k n).2 = false ∨ (raceRun fixed kill s a c d k n).1.t.killed c = true ∨
      (if fixed then Status.stopping.toNat ≤ ((raceRun fixed kill s a c d k n).1.t.status c).toNat
       else Status.draining.toNat ≤ ((raceRun fixed kill s a c d k n).1.t.status c).toNat) := by
  have hcov : Cover s a (xrun fixed a k (xinit kill a s)) := (Cover.init kill s a).run k
  have hinv : InvOrDone (xrun fixed a k (xinit kill a s)) := InvOrDone.run k (.inr hi)
  exact race_aux fixed a c d n _ _ (hcov d hd) hinv horph hdone

end Tree

namespace Tree

/-! ### handing a child over while its supervisor is exiting -/

/-- after an accepted (re)link the child is in exactly one child set: its new supervisor's -/
theorem relink_unique {s : State} (hi : Inv s) {c b : Nat} (h : (link s c b).2 = true) (p : Nat) :
    child (link s c b).1 p c ↔ p = b := by
  have hi2 := hi.link c b
  have hsup := (link_true h).2.2
  constructor
  · intro hc
    have := (hi2.links c p).mpr hc
    rw [hsup] at this; exact (Option.some.inj this).symm
  · rintro rfl; exact (hi2.links c p).mp hsup

/-- … and it is beneath `a` only if its new supervisor is -/
theorem desc_of_relinked {s : State} (hi : Inv s) {a b c : Nat} (h : (link s c b).2 = true) (hca : c ≠ a)
    (hd : Desc (link s c b).1 a c) : Desc (link s c b).1 a b := by
  cases hd with
  | refl => exact absurd rfl hca
  | tail hw hc => rw [(relink_unique hi h _).mp hc] at hw; exact hw

/-- the exit of a former supervisor does not touch a child that was handed over to somebody outside its
subtree: no kill signal, the new link stays -/
theorem relink_escapes_exit (fixed : Bool) {s : State} (hi : Inv s) {a b c : Nat} (h : (link s c b).2 = true)
    (hca : c ≠ a) (hnb : ¬ Desc (link s c b).1 a b) :
    (exit fixed (link s c b).1 a).killed c = s.killed c := by
  have hi2 := hi.link c b
  have hk := exit_killed fixed _ a hi2 c
  have hkl : (link s c b).1.killed = s.killed := (link_other hi (c := c) (p := b) (z := c)).2.2.2.2.1
  cases hkc : s.killed c with
  | true => exact hk.mpr (.inl (by rw [hkl]; exact hkc))
  | false =>
    cases hk' : (exit fixed (link s c b).1 a).killed c with
    | false => rfl
    | true =>
      rcases hk.mp hk' with h1 | h1
      · rw [hkl, hkc] at h1; cases h1
      · exact absurd (desc_of_relinked hi h hca h1.1) hnb

theorem detachSelf_sup_ne (s : State) {a z : Nat} (h : z ≠ a) : (detachSelf s a).sup z = s.sup z := by
  unfold detachSelf
  cases hs : s.sup a with
  | none => rfl
  | some p =>
    show (Tree.unlink s a p).sup z = s.sup z
    simp only [Tree.unlink, hs, ↓reduceIte]
    exact upd_ne _ _ h

/-- The `post_stop` window of a graceful exit as a race: `a` has published `Stopping` (step 1 of its exit)
and has not yet taken its children; its child `c` is relinked (one atomic region) to a supervisor `b`
outside `a`'s subtree; then `a` finishes its exit.  The link is accepted on the merits of `c` and `b`
alone, and at the end `c` has not been sent a kill signal by that exit and is still supervised by `b`. -/
theorem race_relink_post_stop (fixed : Bool) (s : State) (hi : Inv s) (a b c n : Nat) (hca : c ≠ a)
    (hres : (link (setStatus s a .stopping) c b).2 = true)
    (hnb : ¬ Desc (link (setStatus s a .stopping) c b).1 a b)
    (hdone : (raceRun fixed false s a c b 1 n).1.pc = .done) :
    (raceRun fixed false s a c b 1 n).2 = true ∧
    (raceRun fixed false s a c b 1 n).1.t.killed c = s.killed c ∧
    (raceRun fixed false s a c b 1 n).1.t.sup c = some b ∧
    (∀ p, child (link (setStatus s a .stopping) c b).1 p c ↔ p = b) := by
  have hi1 : Inv (setStatus s a .stopping) := hi.setStatus a _ (by decide)
  have hi2 := hi1.link c b
  have e1 : xrun fixed a 1 (xinit false a s) = ⟨setStatus s a .stopping, .loop [a]⟩ := rfl
  have efin : (raceRun fixed false s a c b 1 n).1 =
      xrun fixed a n ⟨(link (setStatus s a .stopping) c b).1, .loop [a]⟩ := by
    simp only [raceRun, e1]
  have eres : (raceRun fixed false s a c b 1 n).2 = (link (setStatus s a .stopping) c b).2 := by
    simp only [raceRun, e1]
  rw [efin] at hdone ⊢
  rw [eres]
  obtain ⟨k, hk⟩ := xrun_from_loop fixed a _ [a] hi2
  rw [xrun_done_unique' fixed a _ _ k n hk hdone]
  obtain ⟨_, _, _, D, E⟩ := loop_spec fixed ([a].length + totalKids _ _) _ [a] hi2 (Nat.le_refl _)
  have hnd : ¬ Desc (link (setStatus s a .stopping) c b).1 a c := fun hd => hnb (desc_of_relinked hi1 hres hca hd)
  have hkl : (link (setStatus s a .stopping) c b).1.killed = s.killed :=
    (link_other hi1 (c := c) (p := b) (z := c)).2.2.2.2.1
  refine ⟨hres, ?_, ?_, relink_unique hi1 hres⟩
  · rw [finish_killed]
    cases hkc : s.killed c with
    | true => exact (E c).mpr (.inl (by rw [hkl]; exact hkc))
    | false =>
      cases hk' : (loop fixed ([a].length + totalKids _ _) (link (setStatus s a .stopping) c b).1 [a]).killed c with
      | false => rfl
      | true =>
        rcases (E c).mp hk' with h1 | h1
        · rw [hkl, hkc] at h1; cases h1
        · exact absurd (reach_single.mp h1.1) hnd
  · show (detachSelf _ a).sup c = some b
    rw [detachSelf_sup_ne _ hca, D c, (link_true hres).2.2]
    rintro ⟨w, hw, hc⟩
    rw [(relink_unique hi1 hres w).mp hc] at hw
    exact hnb (reach_single.mp hw)

end Tree
