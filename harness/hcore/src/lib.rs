//! Reusable engines of the `hcore` correspondence harness.
//!
//! * [`lts`] — E-LTS controlled-task engine: paused single-thread runtime, every ractor task
//!   gated (one grant = one poll), scripted actors whose callbacks advance one *segment* at a
//!   time, hand-polled spawn futures, one ordered note log.

pub mod lts;
