//! C05 correspondence harness, E-THR part: `link` / `spawn_linked` racing the supervisor's exit
//! under a controlled OS-thread schedule.
//!
//! Thread A owns a `current_thread` runtime with the supervisor `0`, its children `1..=nc` and (for
//! `kind=link`) an orphan `nc+1`.  The exit cause is triggered, then A registers with
//! `verif::ThreadCtl`: from now on it parks at every schedule point (`status.publish`, `tree.take`,
//! `cleanup.*`, …).  Thread B parks at `tree.link` (inside `verif_try_link` resp. `spawn_linked`).
//! The controller lets A execute `j` regions, then B's link region, then A to the end.
//!
//! usage: treerace --seed S --cases N --out DIR [--replay-ops f] [--only-replay 1]
//!   (cases = how many extra random positions per shape beyond the exhaustive prefix `--prefix P`)

use std::sync::atomic::{AtomicBool, AtomicU64};
use std::sync::mpsc::{channel, Receiver, Sender};
use std::sync::{Arc, Mutex};
use std::time::Duration;

use hutil::{Args, Log, Rng, Stats};
use ractor::concurrency::JoinHandle;
use ractor::verif::{thread_register, thread_unregister, ThreadCtl, ThreadPhase};
use ractor::{Actor, ActorCell, ActorProcessingErr, ActorRef, SupervisionEvent};

enum NodeMsg {
    Fail,
    Panic,
}

struct Shared {
    cell: Mutex<Option<ActorCell>>,
    _handled: AtomicU64,
    _flag: AtomicBool,
}

struct Node(Arc<Shared>);

/// where the next `pre_start` publishes its cell (set by the spawn_linked racer only)
static SLOT: Mutex<Option<Arc<Mutex<Option<ActorCell>>>>> = Mutex::new(None);

impl Actor for Node {
    type Msg = NodeMsg;
    type State = ();
    type Arguments = ();
    async fn pre_start(&self, me: ActorRef<Self::Msg>, _: ()) -> Result<(), ActorProcessingErr> {
        *self.0.cell.lock().unwrap() = Some(me.get_cell());
        if let Some(slot) = SLOT.lock().unwrap().take() {
            *slot.lock().unwrap() = Some(me.get_cell());
        }
        Ok(())
    }
    async fn handle(&self, _me: ActorRef<Self::Msg>, m: Self::Msg, _s: &mut ()) -> Result<(), ActorProcessingErr> {
        match m {
            NodeMsg::Fail => Err("scripted failure".into()),
            NodeMsg::Panic => panic!("scripted panic"),
        }
    }
    async fn handle_supervisor_evt(
        &self,
        _me: ActorRef<Self::Msg>,
        _ev: SupervisionEvent,
        _s: &mut (),
    ) -> Result<(), ActorProcessingErr> {
        Ok(())
    }
}

fn shared() -> Arc<Shared> {
    Arc::new(Shared { cell: Mutex::new(None), _handled: AtomicU64::new(0), _flag: AtomicBool::new(false) })
}

async fn quiesce() {
    for _ in 0..64 {
        tokio::task::yield_now().await;
    }
}

#[derive(Clone, Copy, Debug, PartialEq)]
enum Cause {
    Stop,
    Kill,
    Abort,
    Fail,
    Panic,
    Drain,
}

impl Cause {
    fn name(self) -> &'static str {
        match self {
            Cause::Stop => "stop",
            Cause::Kill => "kill",
            Cause::Abort => "abort",
            Cause::Fail => "fail",
            Cause::Panic => "panic",
            Cause::Drain => "drain",
        }
    }
    fn parse(s: &str) -> Option<Cause> {
        Some(match s {
            "stop" => Cause::Stop,
            "kill" => Cause::Kill,
            "abort" => Cause::Abort,
            "fail" => Cause::Fail,
            "panic" => Cause::Panic,
            "drain" => Cause::Drain,
            _ => return None,
        })
    }
    const ALL: [Cause; 6] = [Cause::Stop, Cause::Kill, Cause::Abort, Cause::Fail, Cause::Panic, Cause::Drain];
}

#[derive(Clone, Copy, Debug, PartialEq)]
enum Kind {
    Link,
    SpawnL,
    /// child 1 of the exiting supervisor is handed over to another, healthy supervisor
    Relink,
    /// child 1 is unlinked from the exiting supervisor
    Unlink,
}

impl Kind {
    fn name(self) -> &'static str {
        match self {
            Kind::Link => "link",
            Kind::SpawnL => "spawnl",
            Kind::Relink => "relink",
            Kind::Unlink => "unlink",
        }
    }
}

#[derive(Clone, Copy, Debug)]
struct Case {
    cause: Cause,
    nc: usize,
    /// children form a chain 0 <- 1 <- 2 … instead of a star under 0
    chain: bool,
    /// the actor the racing link / spawn_linked targets (0 = the exiting supervisor)
    tgt: usize,
    kind: Kind,
    j: usize,
}

impl Case {
    fn text(&self) -> String {
        format!(
            "race cause={} nc={} shape={} tgt={} kind={} j={}",
            self.cause.name(),
            self.nc,
            if self.chain { "chain" } else { "star" },
            self.tgt,
            self.kind.name(),
            self.j
        )
    }
    fn parse(s: &str) -> Option<Case> {
        let mut c = Case { cause: Cause::Stop, nc: 0, chain: false, tgt: 0, kind: Kind::Link, j: 0 };
        let mut it = s.split_whitespace();
        if it.next()? != "race" {
            return None;
        }
        for w in it {
            let (k, v) = w.split_once('=')?;
            match k {
                "cause" => c.cause = Cause::parse(v)?,
                "nc" => c.nc = v.parse().ok()?,
                "shape" => c.chain = v == "chain",
                "tgt" => c.tgt = v.parse().ok()?,
                "kind" => {
                    c.kind = match v {
                        "link" => Kind::Link,
                        "relink" => Kind::Relink,
                        "unlink" => Kind::Unlink,
                        _ => Kind::SpawnL,
                    }
                }
                "j" => c.j = v.parse().ok()?,
                _ => {}
            }
        }
        Some(c)
    }
}

enum Cmd {
    Exit(Cause, Arc<ThreadCtl>),
    Settle,
    Quit,
}

struct Setup {
    cells: Vec<ActorCell>, // 0 = supervisor, 1..=nc children, (link) nc+1 orphan
}

/// Thread A: the runtime in which the supervisor and its children live.
fn thread_a(nc: usize, chain: bool, with_orphan: bool, tx: Sender<Setup>, rx: Receiver<Cmd>, done: Sender<()>) {
    let rt = tokio::runtime::Builder::new_current_thread().enable_all().build().unwrap();
    let mut handles: Vec<JoinHandle<()>> = Vec::new();
    let mut cells = Vec::new();
    rt.block_on(async {
        let (p, h) = Actor::spawn(None, Node(shared()), ()).await.unwrap();
        handles.push(h);
        cells.push(p.get_cell());
        for i in 0..nc {
            let sup = if chain { cells[i].clone() } else { p.get_cell() };
            let (c, h) = Actor::spawn_linked(None, Node(shared()), (), sup).await.unwrap();
            handles.push(h);
            cells.push(c.get_cell());
        }
        if with_orphan {
            let (c, h) = Actor::spawn(None, Node(shared()), ()).await.unwrap();
            handles.push(h);
            cells.push(c.get_cell());
        }
        quiesce().await;
    });
    tx.send(Setup { cells: cells.clone() }).unwrap();
    while let Ok(cmd) = rx.recv() {
        match cmd {
            Cmd::Exit(cause, ctl) => {
                // trigger the cause while unregistered (no parking inside stop/kill/drain themselves)
                match cause {
                    Cause::Stop => cells[0].stop(None),
                    Cause::Kill => cells[0].kill(),
                    Cause::Abort => handles[0].abort(),
                    Cause::Fail => {
                        let _ = cells[0].send_message(NodeMsg::Fail);
                    }
                    Cause::Panic => {
                        let _ = cells[0].send_message(NodeMsg::Panic);
                    }
                    Cause::Drain => {
                        let _ = cells[0].drain();
                    }
                }
                thread_register(ctl.clone());
                rt.block_on(quiesce());
                thread_unregister();
                ctl.finish();
            }
            Cmd::Settle => {
                rt.block_on(quiesce());
                done.send(()).unwrap();
            }
            Cmd::Quit => break,
        }
    }
    for c in &cells {
        c.kill();
    }
    rt.block_on(quiesce());
}

fn snapshot(cells: &[ActorCell]) -> String {
    let idx = |c: &ActorCell| cells.iter().position(|x| x.get_id() == c.get_id());
    let mut s = String::new();
    for (i, c) in cells.iter().enumerate() {
        let sup = c.try_get_supervisor().map(|p| idx(&p).map(|x| x.to_string()).unwrap_or("?".into())).unwrap_or("-".into());
        let mut kk: Vec<usize> = c.get_children().iter().map(|k| idx(k).unwrap_or(usize::MAX)).collect();
        kk.sort();
        let kids = if kk.is_empty() {
            "-".to_string()
        } else {
            kk.iter().map(|k| if *k == usize::MAX { "?".to_string() } else { k.to_string() }).collect::<Vec<_>>().join(",")
        };
        s.push_str(&format!(" {i}:{:?}:{sup}:{kids}:0", c.get_status()));
    }
    s
}

/// Returns the observation line, or `None` if A finished before `j` regions (position out of range).
fn run_case(c: &Case) -> Option<String> {
    let (tx_setup, rx_setup) = channel();
    let (tx_cmd, rx_cmd) = channel();
    let (tx_done, rx_done) = channel();
    // `link`: the extra root is the orphan to be linked; `relink`: it is the new supervisor
    let (nc, chain, with_orphan) = (c.nc, c.chain, c.kind == Kind::Link || c.kind == Kind::Relink);
    let ta = std::thread::spawn(move || thread_a(nc, chain, with_orphan, tx_setup, rx_cmd, tx_done));
    let setup = rx_setup.recv().unwrap();
    let mut cells = setup.cells.clone();
    let ctl_a = ThreadCtl::new();
    let ctl_b = ThreadCtl::new();
    tx_cmd.send(Cmd::Exit(c.cause, ctl_a.clone())).unwrap();

    // thread B: the linker
    let p_cell = cells[c.tgt.min(c.nc)].clone();
    let kind = c.kind;
    let orphan = if kind == Kind::Link || kind == Kind::Relink { Some(cells[nc + 1].clone()) } else { None };
    let child1 = cells.get(1).cloned();
    let sup0 = cells[0].clone();
    let ctl_b2 = ctl_b.clone();
    // the cell of the actor being spawn_linked becomes visible here as soon as its pre_start ran
    let mid_cell: Arc<Mutex<Option<ActorCell>>> = Arc::new(Mutex::new(None));
    let mid_cell2 = mid_cell.clone();
    let tb = std::thread::spawn(move || -> (String, Option<ActorCell>) {
        thread_register(ctl_b2.clone());
        let out = match kind {
            Kind::Link => (orphan.unwrap().verif_try_link(p_cell).to_string(), None),
            Kind::Relink => (child1.unwrap().verif_try_link(orphan.unwrap()).to_string(), None),
            Kind::Unlink => {
                child1.unwrap().unlink(sup0);
                ("unit".to_string(), None)
            }
            Kind::SpawnL => {
                let rt = tokio::runtime::Builder::new_current_thread().enable_all().build().unwrap();
                let sh = Arc::new(Shared { cell: Mutex::new(None), _handled: AtomicU64::new(0), _flag: AtomicBool::new(false) });
                let sh = { *SLOT.lock().unwrap() = Some(mid_cell2.clone()); sh };
                let r = rt.block_on(async {
                    let r = Actor::spawn_linked(None, Node(sh.clone()), (), p_cell).await;
                    quiesce().await;
                    r.map(|_| ())
                });
                // keep polling so that a killed child can exit
                rt.block_on(quiesce());
                let cell = sh.cell.lock().unwrap().clone();
                (if r.is_ok() { "ok".to_string() } else { "err".to_string() }, cell)
            }
        };
        thread_unregister();
        ctl_b2.finish();
        out
    });
    // bring B to the point just before its link region
    loop {
        match ctl_b.wait_parked() {
            ThreadPhase::AtPoint("tree.link") | ThreadPhase::AtPoint("tree.unlink") => break,
            ThreadPhase::AtPoint(_) => ctl_b.grant(),
            ThreadPhase::Done => break,
            ThreadPhase::Running => unreachable!(),
        }
    }
    // A executes j regions
    let mut in_range = true;
    let mut pts: Vec<String> = Vec::new();
    for _ in 0..c.j {
        match ctl_a.wait_parked() {
            ThreadPhase::Done => {
                in_range = false;
                break;
            }
            ThreadPhase::AtPoint(n) => {
                pts.push(n.to_string());
                ctl_a.grant()
            }
            ThreadPhase::Running => unreachable!(),
        }
    }
    let at = match ctl_a.wait_parked() {
        ThreadPhase::AtPoint(n) => n.to_string(),
        ThreadPhase::Done => {
            in_range = in_range && true;
            "done".to_string()
        }
        ThreadPhase::Running => unreachable!(),
    };
    // B's link region (one grant: runs until B's next point or its end)
    if ctl_b.phase() != ThreadPhase::Done {
        ctl_b.grant();
        // the region takes the tree lock only; A is parked outside every lock
        let _ = ctl_b.wait_parked_timeout(Duration::from_secs(5));
    }
    // both threads are parked outside every lock: look at the tree in the middle of the exit
    let mid = {
        let mut cs = cells.clone();
        if let Some(extra) = mid_cell.lock().unwrap().clone() {
            cs.push(extra);
        }
        snapshot(&cs)
    };
    // A to the end
    loop {
        match ctl_a.wait_parked() {
            ThreadPhase::Done => break,
            _ => ctl_a.grant(),
        }
    }
    // B to the end, freely
    ctl_b.release();
    let (res, new_cell) = tb.join().unwrap();
    if let Some(nc) = new_cell {
        cells.push(nc);
    }
    // let A's runtime take whatever signals arrived late, then look
    tx_cmd.send(Cmd::Settle).unwrap();
    rx_done.recv().unwrap();
    let line = format!("res={res} at={at} pts={} mid={} |{}", if pts.is_empty() { "-".to_string() } else { pts.join(",") },
        mid.trim().replace(' ', ";"), snapshot(&cells));
    tx_cmd.send(Cmd::Quit).unwrap();
    ta.join().unwrap();
    // relink / unlink of a child is only compared while the supervisor's own exit is in progress (afterwards
    // the children's exits interleave with the racer in ways the one-exit machine does not describe)
    if (c.kind == Kind::Relink || c.kind == Kind::Unlink) && pts.iter().any(|p| p == "notify.one") {
        return None;
    }
    if in_range {
        Some(line)
    } else {
        None
    }
}

fn main() {
    std::panic::set_hook(Box::new(|_| {}));
    let args = Args::parse();
    let seed = args.u64("seed", 1);
    let extra = args.u64("cases", 4);
    let prefix = args.u64("prefix", 6) as usize;
    let out = args.str("out", "/tmp/tree-race");
    let mut rng = Rng::new(seed);
    let mut st = Stats::default();
    let mut log = Log::create(std::path::Path::new(&out)).unwrap();
    let mut cases: Vec<Case> = Vec::new();
    if let Some(c) = args.0.get("replay-ops") {
        for f in c.split(',').filter(|f| !f.is_empty()) {
            let txt = std::fs::read_to_string(f).expect("replay file");
            for line in txt.lines() {
                if let Some(c) = Case::parse(line.trim()) {
                    cases.push(c);
                }
            }
        }
    }
    if args.u64("only-replay", 0) != 1 {
        // shapes: (children, chain?, link target)
        // (the order in which `terminate` visits *siblings* is the HashMap's and not observable in the
        // middle of the exit, so targets inside the subtree are only used where they have no sibling)
        let shapes: [(usize, bool, usize); 6] =
            [(0, false, 0), (1, false, 0), (2, false, 0), (1, false, 1), (2, true, 1), (2, true, 2)];
        for cause in Cause::ALL {
            for (nc, chain, tgt) in shapes {
                for kind in [Kind::Link, Kind::SpawnL] {
                    // exhaustive prefix of positions, then random deeper positions
                    for j in 0..=prefix {
                        cases.push(Case { cause, nc, chain, tgt, kind, j });
                    }
                    for _ in 0..extra {
                        cases.push(Case { cause, nc, chain, tgt, kind, j: rng.range(prefix as u64 + 1, 70) as usize });
                    }
                }
            }
            // a child of the exiting supervisor is relinked to a healthy supervisor / unlinked, at every
            // position — in particular while the supervisor is Stopping and has not taken its children yet
            for (nc, chain) in [(1usize, false), (2, false), (2, true)] {
                for kind in [Kind::Relink, Kind::Unlink] {
                    for j in 0..=prefix {
                        cases.push(Case { cause, nc, chain, tgt: 0, kind, j });
                    }
                    for _ in 0..extra {
                        cases.push(Case { cause, nc, chain, tgt: 0, kind, j: rng.range(prefix as u64 + 1, 70) as usize });
                    }
                }
            }
        }
    }
    for c in &cases {
        match run_case(c) {
            Some(line) => {
                st.bump("cases");
                st.bump(&format!("cause_{}", c.cause.name()));
                st.bump(&format!("kind_{}", c.kind.name()));
                if line.starts_with("res=true") || line.starts_with("res=ok") {
                    st.bump("link_succeeded");
                } else {
                    st.bump("link_refused");
                }
                log.rec(c.text(), line);
            }
            None => st.bump("position_past_end"),
        }
    }
    st.write_json(&std::path::Path::new(&out).join("stats.json"));
    log.finish();
}
