import RactorModel.Lemmas.TreeConc

/-! `Exiting` is stable, the edge lemma, "at rest every descendant is Stopped" for the concurrent
machines of `Model/TreeConc.lean`. -/

namespace Tree

theorem xact_ne_idle (t : State) (a : Nat) {pc : CPc} (h : pc ≠ .idle) : (xact t a pc).2 ≠ .idle := by
  cases pc with
  | idle => exact absurd rfl h
  | pub => simp [xact]
  | detach => simp [xact]
  | unl o => cases o <;> simp [xact]
  | publishStopped => simp [xact]
  | done => simp [xact]
  | term cl pend cur =>
    cases cur with
    | some y => rw [xact_take]; simp
    | none =>
      cases pend with
      | cons y rest => simp [xact]
      | nil => cases cl <;> simp [xact]

theorem cpc_ne_idle (g : CState) (op : COp) (x : Nat) (h : g.pc x ≠ .idle) : cpc g op x ≠ .idle := by
  rcases cpc_other g op x with e | ⟨k, _, hidle, _⟩ | e | ⟨cl, pend, pend', cur, _, _, _, hnew⟩
  · rw [e]; exact h
  · exact absurd hidle h
  · subst e; simp only [cpc, upd_apply, ↓reduceIte]; exact xact_ne_idle _ _ h
  · rw [hnew]; simp

theorem killCond_true_false {st : Status} (h : killCond true st = false) : Status.stopping.toNat ≤ st.toNat :=
  (killCond_false h).1 rfl

/-- an actor that is on its way out stays so -/
theorem exiting_step {g : CState} (h : CInv g) (op : COp) (x : Nat) (hx : Exiting g x) :
    Exiting (cstep g op) x := by
  obtain ⟨_, _, hkilled, hst, _⟩ := applyAct_facts h.inv (cact g op)
  rcases hx with hx | hx | hx | ⟨a, cl, pend, cur, hpc, hmem⟩
  · exact .inl (cpc_ne_idle g op x hx)
  · exact .inr (.inl (hkilled x hx))
  · have hlt : x < g.t.n := h.lt_of_status (by intro e; rw [e] at hx; simp [Status.toNat] at hx)
    exact .inr (.inr (.inl (Nat.le_trans hx (hst x hlt))))
  · rcases cpc_other g op a with e | ⟨k, _, hidle, _⟩ | e | ⟨cl', pend0, pend', cur', _, hpc0, hs, hnew⟩
    rotate_right
    · rw [hpc] at hpc0; cases hpc0
      exact .inr (.inr (.inr ⟨a, cl, pend', cur, hnew, (sameMembers_mem hs x).mp hmem⟩))
    · exact .inr (.inr (.inr ⟨a, cl, pend, cur, by show cpc g op a = _; rw [e, hpc], hmem⟩))
    · rw [hpc] at hidle; cases hidle
    · subst e
      cases cur with
      | some y =>
        refine .inr (.inr (.inr ⟨a, cl, (takeChildren g.t y).2 ++ pend, none, ?_, List.mem_append_right _ hmem⟩))
        show cpc g (.xstep a) a = _
        simp only [cpc, upd_apply, ↓reduceIte, hpc, xact_take]
      | none =>
        cases pend with
        | nil => cases hmem
        | cons y rest =>
          have hpc' : (cstep g (.xstep a)).pc a = .term cl rest (some y) := by
            show cpc g (.xstep a) a = _
            simp only [cpc, upd_apply, ↓reduceIte, hpc, xact]
          have hact : (cstep g (.xstep a)).t = applyAct g.t (.kill y) := by
            show applyAct g.t (cact g (.xstep a)) = _
            simp only [cact, hpc, xact]
          rcases List.mem_cons.mp hmem with e | e
          · subst e
            cases hk : killCond true (g.t.status x) with
            | true =>
              refine .inr (.inl ?_)
              rw [hact]; simp only [Tree.applyAct, hk, ↓reduceIte, upd_apply]
            | false =>
              refine .inr (.inr (.inl ?_))
              rw [hact, (kill_frame _ _).1]; exact killCond_true_false hk
          · exact .inr (.inr (.inr ⟨a, cl, rest, some y, hpc', e⟩))

theorem exiting_run {g : CState} (h : CInv g) (ops : List COp) (x : Nat) (hx : Exiting g x) :
    Exiting (crun g ops) x := by
  induction ops generalizing g with
  | nil => exact hx
  | cons op ops ih => exact ih (h.step op) (exiting_step h op x hx)

/-- at rest, on its way out means Stopped, closed, detached -/
theorem rest_exiting {g : CState} (h : CInv g) (hr : Rest g) {x : Nat} (hx : Exiting g x) :
    g.pc x = .done ∧ g.t.status x = .stopped ∧ g.t.kids x = none ∧ g.t.sup x = none := by
  have hd : g.pc x = .done := by
    rcases hx with hx | hx | hx | ⟨a, cl, pend, cur, hpc, _⟩
    · rcases (hr x).1 with e | e
      · exact absurd e hx
      · exact e
    · exact (hr x).2 (.inl hx)
    · exact (hr x).2 (.inr hx)
    · rcases (hr a).1 with e | e <;> rw [hpc] at e <;> cases e
  have hm := h.mach x
  rw [hd] at hm
  exact ⟨hd, status_stopped_of_toNat hm.1, hm.2.1, hm.2.2⟩

/-! ### the edge lemma -/

theorem unlink_child_keep {s : State} {p c c' p' : Nat} (hc : child s p c) :
    child (unlink s c' p') p c ∨ (c = c' ∧ s.sup c = some p') := by
  obtain ⟨ks, hk, hm⟩ := hc
  by_cases e : c = c'
  · subst e
    by_cases hs : s.sup c = some p'
    · exact .inr ⟨rfl, hs⟩
    · left; simp only [Tree.unlink, hs, ↓reduceIte]; exact ⟨ks, hk, hm⟩
  · left
    rcases unlink_kids s c' p' p with e1 | ⟨ks', e1, e2⟩
    · exact ⟨ks, by rw [e1]; exact hk, hm⟩
    · rw [hk] at e1; cases e1
      exact ⟨ks.erase c', e2, (List.mem_erase_of_ne e).mpr hm⟩

theorem link_child_keep {lim : Nat} {s : State} (h : Inv s) {p c c' q : Nat} (hc : child s p c) :
    child (linkBelow lim s c' q).1 p c ∨
      (c = c' ∧ (linkBelow lim s c' q).2 = true ∧ ∃ o, s.sup c = some o ∧ o ≠ q) := by
  obtain ⟨ks, hk, hm⟩ := hc
  rcases linkB_cases lim s c' q with ⟨e, _⟩ | ⟨qs0, hg, hkq, hcase⟩
  · left; rw [e]; exact ⟨ks, hk, hm⟩
  · have keep_p : ∀ kids' : Nat → Option (List Nat),
        kids' = upd s.kids q (some (ins c' qs0)) → ∃ ks', kids' p = some ks' ∧ c ∈ ks' := by
      intro kids' e; subst e
      simp only [upd_apply]; split
      · next e => subst e; rw [hkq] at hk; cases hk; exact ⟨_, rfl, mem_ins.mpr (.inr hm)⟩
      · exact ⟨ks, hk, hm⟩
    rcases hcase with ⟨hs, e⟩ | ⟨hs, e⟩ | ⟨o, hs, hoq, e⟩
    · left; rw [e]; exact keep_p _ rfl
    · left; rw [e]; exact keep_p _ rfl
    · by_cases ec : c = c'
      · subst ec
        have : s.sup c = some p := (h.links c p).mpr ⟨ks, hk, hm⟩
        by_cases epo : p = q
        · left; rw [e]
          obtain ⟨os, hko, _⟩ := (h.links c o).mp hs
          have hk1 : upd s.kids q (some (ins c qs0)) o = some os := by rw [upd_ne _ _ hoq]; exact hko
          simp only [hk1]
          rw [this] at hs; cases hs; exact absurd epo hoq
        · right; rw [e]; exact ⟨rfl, rfl, o, hs, hoq⟩
      · left; rw [e]
        obtain ⟨os, hko, _⟩ := (h.links c' o).mp hs
        have hk1 : upd s.kids q (some (ins c' qs0)) o = some os := by rw [upd_ne _ _ hoq]; exact hko
        simp only [hk1]
        obtain ⟨ks', hk', hm'⟩ := keep_p _ rfl
        show ∃ ks'', upd (upd s.kids q (some (ins c' qs0))) o (some (os.erase c')) p = some ks'' ∧ c ∈ ks''
        simp only [upd_apply]
        split
        · next e2 =>
          subst e2
          rw [upd_ne _ _ hoq, hko] at hk'; cases hk'
          exact ⟨_, rfl, (List.mem_erase_of_ne ec).mpr hm'⟩
        · simp only [upd_apply] at hk'; exact ⟨ks', hk', hm'⟩

/-- one step of anybody: a child stays in its supervisor's set, or is now on its way out, or was taken
away by an accepted `unlink` / hand-over `link` of an outside thread -/
theorem edge_step {g : CState} (h : CInv g) (op : COp) {p c : Nat} (hc : child g.t p c) :
    child (cstep g op).t p c ∨ Exiting (cstep g op) c ∨ escStep g op c = true := by
  have same : ∀ t' : State, t'.kids = g.t.kids → child t' p c := by
    intro t' e; obtain ⟨ks, hk, hm⟩ := hc; exact ⟨ks, by rw [e]; exact hk, hm⟩
  cases op with
  | spawn => exact .inl (same _ rfl)
  | begin a k => exact .inl (same _ rfl)
  | shuffle a p => exact .inl (same _ rfl)
  | setStatus a st =>
    left; show child (applyAct g.t (cact g (.setStatus a st))) p c
    simp only [cact]; split <;> exact same _ rfl
  | unlink c' p' =>
    rcases unlink_child_keep (c' := c') (p' := p') hc with e | ⟨e1, e2⟩
    · exact .inl e
    · right; right; subst e1; simp [escStep, e2]
  | link c' q =>
    rcases link_child_keep (lim := Status.draining.toNat) h.inv (c' := c') (q := q) hc with e | ⟨e1, e2, o, e3, e4⟩
    · exact .inl e
    · right; right; subst e1
      have e2' : (link g.t c q).2 = true := e2
      simp [escStep, e2', e3, e4]
  | linkStart c' q =>
    rcases link_child_keep (lim := Status.stopping.toNat) h.inv (c' := c') (q := q) hc with e | ⟨e1, e2, o, e3, e4⟩
    · exact .inl e
    · right; right; subst e1
      have e2' : (linkStart g.t c q).2 = true := e2
      simp [escStep, e2', e3, e4]
  | xstep a =>
    show child (applyAct g.t (cact g (.xstep a))) p c ∨ _ ∨ _
    simp only [cact]
    cases hpc : g.pc a with
    | idle => exact .inl (same _ rfl)
    | pub => exact .inl (same _ rfl)
    | detach => exact .inl (same _ rfl)
    | publishStopped => exact .inl (same _ rfl)
    | done => exact .inl (same _ rfl)
    | unl o =>
      cases o with
      | none => exact .inl (same _ rfl)
      | some q =>
        rcases unlink_child_keep (c' := a) (p' := q) hc with e | ⟨e1, _⟩
        · exact .inl e
        · subst e1
          refine .inr (.inl (.inl ?_))
          exact cpc_ne_idle g (.xstep c) c (by rw [hpc]; simp)
    | term cl pend cur =>
      cases cur with
      | none =>
        cases pend with
        | cons y rest => left; simp only [xact]; exact same _ (kill_frame _ _).2.1
        | nil => cases cl <;> exact .inl (same _ rfl)
      | some y =>
        rw [xact_take]
        by_cases e : p = y
        · subst e
          obtain ⟨ks, hk, hm⟩ := hc
          refine .inr (.inl (.inr (.inr (.inr ⟨a, cl, (takeChildren g.t p).2 ++ pend, none, ?_, ?_⟩))))
          · show cpc g (.xstep a) a = _
            simp only [cpc, upd_apply, ↓reduceIte, hpc, xact_take]
          · apply List.mem_append_left
            rw [takeChildren_some hk]; exact hm
        · left
          obtain ⟨ks, hk, hm⟩ := hc
          refine ⟨ks, ?_, hm⟩
          simp only [Tree.applyAct]
          cases hky : g.t.kids y with
          | none => rw [takeChildren_none hky]; exact hk
          | some ys => rw [takeChildren_some hky]; simp only [upd_ne _ _ e]; exact hk

/-- along any run: an edge of the start state is still there, or its child is on its way out, or the child
was taken away by an outside thread -/
theorem edge_run {g : CState} (h : CInv g) (ops : List COp) {p c : Nat} (hc : child g.t p c) :
    child (crun g ops).t p c ∨ Exiting (crun g ops) c ∨ escRun g ops c = true := by
  induction ops generalizing g with
  | nil => exact .inl hc
  | cons op ops ih =>
    simp only [crun, List.foldl_cons, escRun, Bool.or_eq_true]
    rcases edge_step h op hc with e | e | e
    · rcases ih (h.step op) e with r | r | r
      · exact .inl r
      · exact .inr (.inl r)
      · exact .inr (.inr (.inr r))
    · exact .inr (.inl (exiting_run (h.step op) ops c e))
    · exact .inr (.inr (.inl e))

/-- linked beneath `a`, properly -/
def DescP (s : State) (a z : Nat) : Prop := ∃ c, child s a c ∧ Desc s c z

theorem DescP.of_desc_child {s : State} {a y x : Nat} (hd : Desc s a y) (hc : child s y x) : DescP s a x := by
  induction hd generalizing x with
  | refl => exact ⟨x, hc, .refl⟩
  | tail _ hc' ih =>
    obtain ⟨c, h1, h2⟩ := ih hc'
    exact ⟨c, h1, .tail h2 hc⟩

/-- the general theorem: whatever the schedule, when the system comes to rest every actor that was linked
beneath an exiting actor (at any depth) is Stopped — unless an outside thread unlinked it, or one of the
actors between, or handed it over to another supervisor, while the exit was going on. -/
theorem rest_subtree {g : CState} (h : CInv g) (ops : List COp) {a z : Nat}
    (ha : Exiting g a) (hd : Desc g.t a z) (hr : Rest (crun g ops)) :
    Exiting (crun g ops) z ∨ ∃ y, DescP g.t a y ∧ Desc g.t y z ∧ escRun g ops y = true := by
  induction hd with
  | refl => exact .inl (exiting_run h ops a ha)
  | @tail y x hay hyx ih =>
    rcases ih with e | ⟨w, h1, h2, h3⟩
    · rcases edge_run h ops hyx with r | r | r
      · exfalso
        have := (rest_exiting (h.run ops) hr e).2.2.1
        obtain ⟨ks, hk, _⟩ := r
        rw [this] at hk; cases hk
      · exact .inl r
      · exact .inr ⟨x, DescP.of_desc_child hay hyx, .refl, r⟩
    · exact .inr ⟨w, h1, .tail h2 hyx, h3⟩

/-- a draining / stopping / stopped actor gains no child in any step of anybody; it gains no supervisor
either, except that a child a `drain()` lifted to `Draining` during `pre_start` is still linked by `start`
(`link_starting`) — a `Stopping` / `Stopped` one never -/
theorem conc_no_gain {g : CState} (h : CInv g) (op : COp) (z : Nat)
    (hz : Status.draining.toNat ≤ (g.t.status z).toNat) :
    (∀ x, child (cstep g op).t z x → child g.t z x) ∧
    ((Status.stopping.toNat ≤ (g.t.status z).toNat ∨ ∀ p, op ≠ .linkStart z p) →
      ∀ q, (cstep g op).t.sup z = some q → g.t.sup z = some q) := by
  obtain ⟨a, b⟩ := (applyAct_facts h.inv (cact g op)).2.1 z hz
  refine ⟨a, fun hc => b ?_⟩
  rcases hc with hc | hc
  · exact .inl hc
  · right; intro p e
    cases op with
    | linkStart c' p' =>
      simp only [cact, TAct.linkStart.injEq] at e
      exact hc p' (by rw [e.1])
    | spawn => simp [cact] at e
    | link c' p' => simp [cact] at e
    | unlink c' p' => simp [cact] at e
    | begin a' k => simp [cact] at e
    | shuffle a' p' => simp [cact] at e
    | setStatus a' st => simp only [cact] at e; split at e <;> cases e
    | xstep a' =>
      simp only [cact] at e
      cases hpc : g.pc a' with
      | idle => rw [hpc] at e; simp [xact] at e
      | pub => rw [hpc] at e; simp [xact] at e
      | detach => rw [hpc] at e; simp [xact] at e
      | unl o => rw [hpc] at e; cases o <;> simp [xact] at e
      | publishStopped => rw [hpc] at e; simp [xact] at e
      | done => rw [hpc] at e; simp [xact] at e
      | term cl pend cur =>
        rw [hpc] at e
        cases cur with
        | some y => rw [xact_take] at e; simp at e
        | none =>
          cases pend with
          | cons y rest => simp [xact] at e
          | nil => cases cl <;> simp [xact] at e

/-- the worklist iteration of `Tree.visit` is the kill test followed by `take_children` -/
theorem visit_eq_kill_take (t : State) (y : Nat) :
    visit true t y = takeChildren (applyAct t (.kill y)) y := rfl

end Tree
