/-
Model of `ractor/src/rpc/call_result.rs` (`CallResult<T>` and its combinators) and of the
conversion `impl From<CallResult<_>> for RactorErr<_>` (`ractor/src/errors.rs`) that the
`call!` / `call_t!` / `forward!` macros use. A panic is modelled as `Except.error msg` with the
exact panic message of the source; the laziness of the closure-taking combinators is made
observable by returning how often each closure ran.

Import-free (core Lean only).
-/

namespace CallRes

inductive CR (α : Type) where
  | success (v : α)
  | timeout
  | senderError
  deriving Repr, DecidableEq

variable {α β ε : Type}

def isSuccess : CR α → Bool
  | .success _ => true
  | _ => false

def isTimeout : CR α → Bool
  | .timeout => true
  | _ => false

def isSendError : CR α → Bool
  | .senderError => true
  | _ => false

/-- `unwrap` (`.error` = panic with that message; the double space is in the source) -/
def unwrap : CR α → Except String α
  | .success v => .ok v
  | .timeout => .error "called CallResult::<T>::unwrap()  on a `Timeout` value"
  | .senderError => .error "called CallResult::<T>::unwrap() on a `SenderError` value"

def expect (r : CR α) (msg : String) : Except String α :=
  match r with
  | .success v => .ok v
  | .timeout => .error (msg ++ " - called CallResult::<T>::expect()  on a `Timeout` value")
  | .senderError => .error (msg ++ " - called CallResult::<T>::expect() on a `SenderError` value")

def unwrapOr (r : CR α) (d : α) : α :=
  match r with
  | .success v => v
  | _ => d

/-- value, number of invocations of the default closure -/
def unwrapOrElse (r : CR α) (f : Unit → α) : α × Nat :=
  match r with
  | .success v => (v, 0)
  | _ => (f (), 1)

def successOr (r : CR α) (e : ε) : Except ε α :=
  match r with
  | .success v => .ok v
  | _ => .error e

def successOrElse (r : CR α) (e : Unit → ε) : Except ε α × Nat :=
  match r with
  | .success v => (.ok v, 0)
  | _ => (.error (e ()), 1)

def map (r : CR α) (f : α → β) : CR β :=
  match r with
  | .success v => .success (f v)
  | .timeout => .timeout
  | .senderError => .senderError

/-- how often `map` / `map_or` / `map_or_else` invoke the mapping closure -/
def mapCalls (r : CR α) : Nat := if isSuccess r then 1 else 0

def mapOr (r : CR α) (d : β) (f : α → β) : β :=
  match r with
  | .success v => f v
  | _ => d

/-- value, invocations of the default closure, invocations of the mapping closure -/
def mapOrElse (r : CR α) (d : Unit → β) (f : α → β) : β × Nat × Nat :=
  match r with
  | .success v => (f v, 0, 1)
  | _ => (d (), 1, 0)

/-- the two `RactorErr` values a `CallResult` converts to -/
inductive RErr where
  | timeout            -- `RactorErr::Timeout`
  | channelClosed      -- `RactorErr::Messaging(MessagingErr::ChannelClosed)`
  deriving Repr, DecidableEq

def toErr : CR α → Except String RErr
  | .senderError => .ok .channelClosed
  | .timeout => .ok .timeout
  | .success _ => .error "A successful `CallResult` cannot be mapped to a `RactorErr`"

/-! ### observations of one differential case (`T = u64`) and the oracle on them -/

structure Obs where
  isS : Bool
  isT : Bool
  isE : Bool
  unwrap : Except String Nat
  expect : Except String Nat
  unwrapOr : Nat
  unwrapOrElse : Nat × Nat
  successOr : Except Nat Nat
  successOrElse : Except Nat Nat × Nat
  map : CR Nat
  mapCalls : Nat
  mapOr : Nat
  mapOrElse : Nat × Nat × Nat
  toErr : Except String RErr

/-- what the model says the real combinators return on input `r` with default `d`, mapping `f`,
error value `e` and expect-message `msg` -/
def observe (r : CR Nat) (d : Nat) (f : Nat → Nat) (e : Nat) (msg : String) : Obs :=
  { isS := isSuccess r, isT := isTimeout r, isE := isSendError r,
    unwrap := unwrap r, expect := expect r msg,
    unwrapOr := unwrapOr r d, unwrapOrElse := unwrapOrElse r (fun _ => d),
    successOr := successOr r e, successOrElse := successOrElse r (fun _ => e),
    map := map r f, mapCalls := mapCalls r,
    mapOr := mapOr r (f d) f, mapOrElse := mapOrElse r (fun _ => f d) f,
    toErr := toErr r }

def exceptVal {ε α : Type} : Except ε α → Option α
  | .ok v => some v
  | .error _ => none

def exceptErr {ε α : Type} : Except ε α → Option ε
  | .ok _ => none
  | .error e => some e

/-- The property predicate on the IMPLEMENTATION's observations (clause names of what is
violated; `[]` = fine). Stated from first principles, not by comparison with `observe`:
panic messages are not judged here (they are compared by the differential). -/
def check (r : CR Nat) (d : Nat) (f : Nat → Nat) (e : Nat) (o : Obs) : List String :=
  let v? : Option Nat := match r with | .success v => some v | _ => none
  let lazyCalls : Nat := if v?.isSome then 0 else 1
  -- exactly one flag, and it is the variant's
  (if (o.isS, o.isT, o.isE) == (match r with
      | .success _ => (true, false, false) | .timeout => (false, true, false)
      | .senderError => (false, false, true)) then [] else ["c09.callresult-is-flags"]) ++
  -- unwrap / expect return the value on Success and panic otherwise
  (if exceptVal o.unwrap == v? && exceptVal o.expect == v? then [] else ["c09.callresult-unwrap-panic-mismatch"]) ++
  -- the defaulting forms never panic: the value on Success, the default otherwise; closures run lazily
  (if o.unwrapOr == v?.getD d && o.unwrapOrElse == (v?.getD d, lazyCalls) then [] else ["c09.callresult-unwrap-or"]) ++
  (if exceptVal o.successOr == v? && exceptVal o.successOrElse.1 == v? &&
      (v?.isSome || exceptErr o.successOr == some e) &&
      (v?.isSome || exceptErr o.successOrElse.1 == some e) &&
      o.successOrElse.2 == lazyCalls then [] else ["c09.callresult-success-or"]) ++
  -- map keeps the variant and applies the mapping exactly once, only on Success
  (if o.map == map r f &&
      o.mapCalls == 1 - lazyCalls then [] else ["c09.callresult-map"]) ++
  (if o.mapOr == (v?.map f).getD (f d) && o.mapOrElse == ((v?.map f).getD (f d), lazyCalls, 1 - lazyCalls) then []
   else ["c09.callresult-map-or"]) ++
  -- only the two failure variants convert to an error: Timeout ↦ Timeout, SenderError ↦ ChannelClosed
  (if exceptVal o.toErr == exceptVal (toErr r) then [] else ["c09.callresult-err-conversion"])

end CallRes
