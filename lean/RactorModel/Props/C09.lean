import RactorModel.Lemmas.Rpc
import RactorModel.Lemmas.RpcGroups
import RactorModel.Lemmas.RpcForward
import RactorModel.Lemmas.RpcSup
import RactorModel.Lemmas.RpcResults
import RactorModel.Lemmas.CallResult
import RactorModel.Lemmas.CallRace

/-!
# C09 — every RPC completes and replies are never cross-wired

Property theorems only. Model: `Model/Rpc.lean` (reply ports as linear resources with one
location each; callers with optional deadlines on the virtual clock; callee handlers, callee
exits, `multi_call`, `call_and_forward`). Lemmas: `Lemmas/Rpc.lean`.

All statements are for EVERY operation sequence (any number of actors, callers, outstanding
calls; any order of calls, handler actions, late replies, drops, exits, drains and clock
advances) — by the invariant `Rpc.Inv`, induction over the operation list.
-/

namespace C09
open Rpc

/-- The observable predicate `Rpc.ok` — which the driver evaluates on what the real callers
observed — holds in every reachable state. -/
theorem ok_reachable (ops : List Op) : ok (run ops) = true := ok_of_inv (inv_run ops)

/-- (wiring) A caller's result is read from the channel of port `c.rx` (`resolveVia`), not from
its own record, so the model can express a cross-wired caller (`crossWiredExample` below). In
every reachable state the receiving half a caller awaits belongs to the very port it created
and put into its request: `rx = p`. -/
theorem caller_reads_own_port (ops : List Op) (p : Nat) (c : Call)
    (hc : (run ops).calls[p]? = some c) : c.rx = p := (wire_run ops).rx p c hc

/-- (a port carries what was sent on it, once) `S.sent` is the ghost history of every
`RpcReplyPort::send` the callee side performed. A `send(v)` on port `p` happened iff the
channel of port `p` holds `v` — so at most one value is ever sent on a port. -/
theorem sent_iff_channel_holds (ops : List Op) (p : Nat) (c : Call) (v : Nat)
    (hc : (run ops).calls[p]? = some c) : (p, v) ∈ (run ops).sent ↔ c.loc = .replied v :=
  (wire_run ops).sent p c hc v

theorem port_written_at_most_once (ops : List Op) (p v w : Nat)
    (hv : (p, v) ∈ (run ops).sent) (hw : (p, w) ∈ (run ops).sent) : v = w := by
  have hlt := (wire_run ops).bound p v hv
  have hc : (run ops).calls[p]? = some ((run ops).calls[p]) := List.getElem?_eq_getElem hlt
  have h1 := ((wire_run ops).sent p _ hc v).mp hv
  have h2 := ((wire_run ops).sent p _ hc w).mp hw
  rw [h1] at h2; cases h2; rfl

/-- (no cross-wiring) A caller gets `Success v` only if the callee side performed `send(v)` on
the reply port created for that very call — the port `p` whose receiving half the caller reads
(`rx = p`) — and `v` is the only value ever sent on it; for any number of concurrent callers,
handlers replying late, from a detached task or from a stashed state. -/
theorem success_is_own_reply (ops : List Op) (p : Nat) (c : Call) (v : Nat)
    (hc : (run ops).calls[p]? = some c) (hs : c.res = some (.success v)) :
    c.rx = p ∧ (p, v) ∈ (run ops).sent ∧ (∀ w, (p, w) ∈ (run ops).sent → w = v) ∧ c.loc = .replied v := by
  have hl : c.loc = .replied v := by
    have := (inv_run ops).okc p c hc
    unfold callOk at this
    simpa [hs] using this
  have hsent := ((wire_run ops).sent p c hc v).mpr hl
  exact ⟨(wire_run ops).rx p c hc, hsent, fun w hw => port_written_at_most_once ops p w v hw hsent, hl⟩

/-- `SenderError` is reported only when this call's own port was dropped unanswered. -/
theorem senderError_is_own_drop (ops : List Op) (p : Nat) (c : Call)
    (hc : (run ops).calls[p]? = some c) (hs : c.res = some .senderError) : c.loc = .dropped := by
  have := (inv_run ops).okc p c hc
  unfold callOk at this
  simpa [hs] using this

/-- (every RPC completes) In every reachable state a caller is still waiting ONLY while its
port is alive somewhere — queued at or held by an actor that is still alive, or inside the
last state of a gracefully stopped callee whose termination event a LIVE supervisor still
holds (queued or stashed), or moved to a detached task — and (if it has a timeout) its
deadline has not passed. Contrapositive: once the callee has stopped, been killed, failed or
drained (its mailbox and everything it held is dropped) and nobody keeps its last state, or
the supervisor dropped the event or died, or the port was answered or dropped, or the deadline
passed, the caller has its answer: `Success`, `SenderError` or `Timeout`. -/
theorem waiting_only_while_port_alive (ops : List Op) (p : Nat) (c : Call)
    (hc : (run ops).calls[p]? = some c) (hw : c.res = none) :
    ((∃ a x, (c.loc = .mailbox a ∨ c.loc = .actor a) ∧ (run ops).actors[a]? = some x ∧ x.alive = true)
      ∨ (∃ (a u : Nat) (y : Sup), c.loc = .event a ∧ (run ops).sups[u]? = some y ∧ y.alive = true ∧ (a ∈ y.inbox ∨ a ∈ y.stash))
      ∨ c.loc = .detached) ∧
    (∀ d, c.deadline = some d → (run ops).now < d) := by
  have hok := (inv_run ops).okc p c hc
  have hloc := (inv_run ops).loc p c hc
  unfold callOk at hok
  simp only [hw, Bool.and_eq_true] at hok
  obtain ⟨h1, h2⟩ := hok
  refine ⟨?_, ?_⟩
  · unfold locOk at hloc
    cases hl : c.loc with
    | mailbox a =>
      simp only [hl] at hloc
      cases hA : (run ops).actors[a]? with
      | none => simp [hA] at hloc
      | some x => exact Or.inl ⟨a, x, Or.inl rfl, hA, by simpa [hA] using hloc⟩
    | actor a =>
      simp only [hl] at hloc
      cases hA : (run ops).actors[a]? with
      | none => simp [hA] at hloc
      | some x => exact Or.inl ⟨a, x, Or.inr rfl, hA, by simpa [hA] using hloc⟩
    | event a =>
      simp only [hl] at hloc
      obtain ⟨u, y, hy, ha, hm⟩ := supHolds_iff.mp hloc
      exact Or.inr (Or.inl ⟨a, u, y, rfl, hy, ha, hm⟩)
    | detached => exact Or.inr (Or.inr rfl)
    | replied v => simp [hl] at h1
    | dropped => simp [hl] at h1
  · intro d hd
    simpa [hd] using h2

/-- (callee exit completes the call) The actor that owns a waiting call's port is the CALLEE
itself: a caller still waits only if its callee is alive, or a detached task holds the port,
or the port sits in the CALLEE's own last state inside a termination event that a live
supervisor still holds. So when the callee stops, is killed, fails or finishes draining, every
caller whose port it still owned has its answer (`SenderError`) unless a supervisor keeps the
callee's state — nobody hangs on a dead callee whose state is gone. -/
theorem waits_only_for_live_callee (ops : List Op) (p : Nat) (c : Call)
    (hc : (run ops).calls[p]? = some c) (hw : c.res = none) :
    (∃ x, (run ops).actors[c.callee]? = some x ∧ x.alive = true) ∨ c.loc = .detached ∨
    (c.loc = .event c.callee ∧ ∃ (u : Nat) (y : Sup), (run ops).sups[u]? = some y ∧ y.alive = true ∧
      (c.callee ∈ y.inbox ∨ c.callee ∈ y.stash)) := by
  rcases (waiting_only_while_port_alive ops p c hc hw).1 with ⟨a, x, hl, hx, ha⟩ | ⟨a, u, y, hl, hy, hal, hm⟩ | hd
  · left
    have := own_run ops p c hc a (hl.elim Or.inl (fun h => Or.inr (Or.inl h)))
    rw [this]; exact ⟨x, hx, ha⟩
  · right; right
    have := own_run ops p c hc a (Or.inr (Or.inr hl))
    rw [this]; exact ⟨hl, u, y, hy, hal, hm⟩
  · exact Or.inr (Or.inl hd)

/-- (the property text, with its caveat visible) "If the callee stops, is killed, fails, drains or
drops the port without replying, the caller gets SenderError instead of hanging": once the callee
is no longer alive NO caller of it is still waiting — EXCEPT a caller whose port the callee's
handler had moved elsewhere: to a detached task, or into the callee's own state when that state,
boxed into `ActorTerminated(_, Some(state), _)` on a graceful stop, is still kept by a live
supervisor (`stateKept`). Kill and handler failure never box the state (`exitActor`), so the
second exception needs a graceful stop/drain AND a supervisor that retains the event; the default
`handle_supervisor_evt` drops it at once. Without these two, `c.res ≠ none`. -/
theorem dead_callee_completes_unless_port_moved (ops : List Op) (p : Nat) (c : Call) (x : Actor)
    (hc : (run ops).calls[p]? = some c) (hx : (run ops).actors[c.callee]? = some x) (hdead : x.alive = false)
    (hnd : c.loc ≠ .detached)
    (hns : ¬ (c.loc = .event c.callee ∧ supHolds (run ops).sups c.callee = true)) : c.res ≠ none := by
  intro hw
  rcases waits_only_for_live_callee ops p c hc hw with ⟨y, hy, hal⟩ | hd | ⟨hl, u, y, hy, hal, hm⟩
  · rw [hx] at hy; cases hy; rw [hdead] at hal; cases hal
  · exact hnd hd
  · exact hns ⟨hl, supHolds_iff.mpr ⟨u, y, hy, hal, hm⟩⟩

/-- (the caveat is real — witness) The unqualified sentence "if the callee stops … the caller gets
SenderError instead of hanging" is FALSE of the code: a callee whose handler kept the reply port
in its state stops gracefully under a supervisor that stashes the `ActorTerminated` event; the
callee is dead, the caller (no timeout) is still waiting, nothing is detached. (Corpus witness
`corpus/C09/e-lts-rpc-stash-keeps-caller-waiting.ops`; the real code behaves the same.) The wait
ends exactly when the supervisor drops the event, dies, or answers through the port
(`event_port_held_and_not_failed`, `dropped_port_completes`). -/
theorem stopped_callee_caller_may_wait_while_supervisor_keeps_state :
    ∃ (ops : List Op) (p : Nat) (c : Call) (x : Actor),
      (run ops).calls[p]? = some c ∧ c.res = none ∧ c.deadline = none ∧ c.loc ≠ .detached ∧
      (run ops).actors[c.callee]? = some x ∧ x.alive = false :=
  ⟨[.spawnSup, .spawnl 0, .call 0 none, .handle 0 .keep, .stop 0 .drop, .suphandle 0 true], 0,
   ⟨0, none, .event 0, none, none, none, 0, 0⟩, ⟨false, false, [], [], some 0⟩, by decide⟩

/-- (a kept state keeps its ports alive — and only a LIVE supervisor can keep it) A port
inside a termination event is held, queued or stashed, by a supervisor that is alive; and
while it is there its caller has NOT been failed: the caller is still waiting, or timed out
(or its `multi_call` bailed out) — never `SenderError`, never `Success`, before the event is
dropped or the supervisor answers through the port. -/
theorem event_port_held_and_not_failed (ops : List Op) (p : Nat) (c : Call) (a : Nat)
    (hc : (run ops).calls[p]? = some c) (hl : c.loc = .event a) :
    (∃ (u : Nat) (y : Sup), (run ops).sups[u]? = some y ∧ y.alive = true ∧ (a ∈ y.inbox ∨ a ∈ y.stash)) ∧
    (c.res = none ∨ c.res = some .timeout ∨ c.res = some .abandoned) ∧ c.callee = a := by
  have hloc := (inv_run ops).loc p c hc
  have hok := (inv_run ops).okc p c hc
  unfold locOk at hloc
  simp only [hl] at hloc
  refine ⟨supHolds_iff.mp hloc, ?_, own_run ops p c hc a (Or.inr (Or.inr hl))⟩
  unfold callOk at hok
  cases hr : c.res with
  | none => exact Or.inl rfl
  | some r => cases r <;> simp_all

/-- (the caller completes exactly when the event is dropped) As soon as a port has been
dropped — by a handler, with the callee's mailbox or state, or with the termination event that
carried it (supervisor dropped the event, dropped it from its stash, or died) — its caller is
complete: with `SenderError`, unless it had already timed out at or after its deadline (or
the send itself failed / its `multi_call` bailed out). Together with
`event_port_held_and_not_failed` and `senderError_is_own_drop`: `SenderError` is reported
exactly from the drop of the event on, never while a supervisor still holds the state. -/
theorem dropped_port_completes (ops : List Op) (p : Nat) (c : Call)
    (hc : (run ops).calls[p]? = some c) (hl : c.loc = .dropped) :
    c.res = some .senderError ∨ c.res = some .sendErr ∨ c.res = some .abandoned ∨
    (c.res = some .timeout ∧ ∃ d, c.deadline = some d ∧ d ≤ (run ops).now) := by
  have hok := (inv_run ops).okc p c hc
  unfold callOk at hok
  cases hr : c.res with
  | none => simp [hr, hl] at hok
  | some r =>
    cases r with
    | success v => simp [hr, hl] at hok
    | senderError => exact Or.inl rfl
    | sendErr => exact Or.inr (Or.inl rfl)
    | abandoned => exact Or.inr (Or.inr (Or.inl rfl))
    | timeout =>
      refine Or.inr (Or.inr (Or.inr ⟨rfl, ?_⟩))
      simp only [hr] at hok
      cases hd : c.deadline with
      | none => simp [hd] at hok
      | some d => exact ⟨d, rfl, by simpa [hd] using hok⟩

/-- (what dropping an event does) In ANY state: a port inside the event of actor `a` that no
live supervisor holds any more is dropped by the sweep that follows every supervisor-side
removal (`suphandle … drop`, `supdrop`, `supexit`) … -/
theorem orphaned_event_port_is_dropped (s : S) (p : Nat) (c : Call) (a : Nat)
    (hc : s.calls[p]? = some c) (hl : c.loc = .event a) (hno : supHolds s.sups a = false) :
    (sweep s).calls[p]? = some { c with loc := .dropped } :=
  sweep_orphan s p c a hc hl hno

/-- … and the `resolve` that ends the same step completes a caller still waiting on it with `SenderError`. -/
theorem dropped_waiting_call_gets_senderError (now : Nat) (c : Call)
    (hw : c.res = none) (hl : c.loc = .dropped) : (resolveCall now c).res = some .senderError := by
  unfold resolveCall; simp [hw, hl]

/-- A late reply through a port taken out of a stashed state completes the caller with
`Success` of that very value (`resolve` on a waiting call whose port was answered). -/
theorem replied_waiting_call_gets_success (now : Nat) (c : Call) (v : Nat)
    (hw : c.res = none) (hl : c.loc = .replied v) : (resolveCall now c).res = some (.success v) := by
  unfold resolveCall; simp [hw, hl]

/-- (timeout) With a timeout the caller has an answer no later than the deadline. -/
theorem answered_by_deadline (ops : List Op) (p : Nat) (c : Call) (d : Nat)
    (hc : (run ops).calls[p]? = some c) (hd : c.deadline = some d) (hnow : d ≤ (run ops).now) :
    c.res ≠ none := by
  intro hw
  have := (waiting_only_while_port_alive ops p c hc hw).2 d hd
  omega

/-- A `Timeout` is reported only at or after the deadline (never early). -/
theorem timeout_not_early (ops : List Op) (p : Nat) (c : Call)
    (hc : (run ops).calls[p]? = some c) (hs : c.res = some .timeout) :
    ∃ d, c.deadline = some d ∧ d ≤ (run ops).now := by
  have := (inv_run ops).okc p c hc
  unfold callOk at this
  simp only [hs] at this
  cases hd : c.deadline with
  | none => simp [hd] at this
  | some d => exact ⟨d, rfl, by simpa [hd] using this⟩

/-- (nothing survives the callee) No port is located in the mailbox or in the hands of a
stopped actor: when a callee exits every port it owned has been dropped (so those callers
got `SenderError`, not a hang). -/
theorem dead_actor_owns_no_port (ops : List Op) (p : Nat) (c : Call) (a : Nat) (x : Actor)
    (hc : (run ops).calls[p]? = some c) (hx : (run ops).actors[a]? = some x) (hdead : x.alive = false) :
    c.loc ≠ .mailbox a ∧ c.loc ≠ .actor a := by
  have hloc := (inv_run ops).loc p c hc
  unfold locOk at hloc
  constructor <;> intro hl <;> simp [hl, hx, hdead] at hloc

/-- (an event has ONE holder) In every reachable state the termination event of an actor is held
by at most one supervisor, at most once (queued or stashed), and only events of actors that have
stopped are held. -/
theorem event_held_by_one_supervisor (ops : List Op) (u u' a : Nat) (x x' : Sup)
    (hx : (run ops).sups[u]? = some x) (hx' : (run ops).sups[u']? = some x')
    (ha : a ∈ x.inbox ++ x.stash) :
    (x.inbox ++ x.stash).Nodup ∧ (u ≠ u' → a ∉ x'.inbox ++ x'.stash) ∧
    ∃ y, (run ops).actors[a]? = some y ∧ y.alive = false := by
  have hU := supUniq_run ops
  refine ⟨hU.nodup u x hx, fun hne => hU.disj u u' x x' a hne hx hx' ha, hU.dead u x a hx ha⟩

/-- (the caller completes EXACTLY when the event is dropped — the dynamic half) After any
operation sequence: if a live supervisor `u` has stashed the event of `a` and drops it
(`supdrop u a`), every port that was inside that event is dropped in that very step and a caller
still waiting on it has `SenderError` at the end of the step (a caller that already timed out
keeps its `Timeout`). Before that step the caller was not failed (`event_port_held_and_not_failed`). -/
theorem supdrop_completes_callers (ops : List Op) (u a p : Nat) (x : Sup) (c : Call)
    (hx : (run ops).sups[u]? = some x) (hal : x.alive = true) (ha : a ∈ x.stash)
    (hc : (run ops).calls[p]? = some c) (hl : c.loc = .event a) :
    ∃ c', (run (ops ++ [.supdrop u a])).calls[p]? = some c' ∧ c'.loc = .dropped ∧
      (c.res = none → c'.res = some .senderError) :=
  supdrop_completes ops u a p x c hx hal ha hc hl

/-- … the same when the supervisor drops the event at the head of its queue instead of stashing it … -/
theorem suphandle_drop_completes_callers (ops : List Op) (u a p : Nat) (x : Sup) (rest : List Nat) (c : Call)
    (hx : (run ops).sups[u]? = some x) (hal : x.alive = true) (hin : x.inbox = a :: rest)
    (hc : (run ops).calls[p]? = some c) (hl : c.loc = .event a) :
    ∃ c', (run (ops ++ [.suphandle u false])).calls[p]? = some c' ∧ c'.loc = .dropped ∧
      (c.res = none → c'.res = some .senderError) :=
  suphandle_drop_completes ops u a p x rest c hx hal hin hc hl

/-- … and when the supervisor itself is killed with the event queued or stashed. -/
theorem supexit_completes_callers (ops : List Op) (u a p : Nat) (x : Sup) (c : Call)
    (hx : (run ops).sups[u]? = some x) (hal : x.alive = true) (ha : a ∈ x.inbox ∨ a ∈ x.stash)
    (hc : (run ops).calls[p]? = some c) (hl : c.loc = .event a) :
    ∃ c', (run (ops ++ [.supexit u])).calls[p]? = some c' ∧ c'.loc = .dropped ∧
      (c.res = none → c'.res = some .senderError) :=
  supexit_completes ops u a p x c hx hal ha hc hl

/-- (nothing survives the supervisor) No port is inside an event that only dead supervisors
hold: when a supervisor dies, the events queued at it and the events it stashed are dropped
with everything in them. -/
theorem dead_supervisor_holds_no_event (ops : List Op) (p : Nat) (c : Call) (a : Nat)
    (hc : (run ops).calls[p]? = some c) (hl : c.loc = .event a)
    (hdead : ∀ (u : Nat) (y : Sup), (run ops).sups[u]? = some y → (a ∈ y.inbox ∨ a ∈ y.stash) → y.alive = false) : False := by
  obtain ⟨⟨u, y, hy, hal, hm⟩, _⟩ := event_port_held_and_not_failed ops p c a hc hl
  have := hdead u y hy hm
  rw [hal] at this; cases this

/-- (ports are linear) A port queued in a mailbox is queued exactly once, at exactly one actor. -/
theorem port_queued_once (ops : List Op) (a : Nat) (x : Actor) (p : Nat)
    (hx : (run ops).actors[a]? = some x) : x.mailbox.count (Item.call p) ≤ 1 :=
  (inv_run ops).nd a x p hx

/-- (`multi_call`, request order — every reachable state) `mreqs[g]` is the list of actors the
`g`-th `multi_call` was asked to call. The calls it created (`groupMembers`, in port order = the
order of the result vector, `groupResults`) target a PREFIX of that request, in request order; and
unless one of its sends failed (`groupFailed`: the caller got `Err` at once, there is no result
vector) they target the WHOLE request: one fresh port per requested actor, `results[i]` is the
result of the call to the `i`-th requested actor. -/
theorem multi_call_request_order (ops : List Op) (g : Nat) (reqs : List Nat)
    (hr : (run ops).mreqs[g]? = some reqs) :
    (groupMembers (run ops) g).map (·.callee) = reqs.take (groupMembers (run ops) g).length ∧
    (groupFailed (run ops) g = false → (groupMembers (run ops) g).map (·.callee) = reqs) := by
  obtain ⟨h1, h2⟩ := (ginv_run ops).mem g reqs hr
  have hlen : (memberCallees (run ops).calls g).length = (groupMembers (run ops) g).length := by
    simp [memberCallees, groupMembers]
  rw [hlen] at h1 h2
  refine ⟨h1, fun hnf => ?_⟩
  rcases h2 with h2 | h2
  · have : memberCallees (run ops).calls g = reqs := by
      rw [h1, h2]; exact List.take_of_length_le (Nat.le_refl _)
    exact this
  · have : groupFailed (run ops) g = true := h2
    rw [this] at hnf; cases hnf

/-- (`multi_call`, results are indexed by request) The `i`-th entry of the result vector is the
result of a call whose callee is the `i`-th requested actor — and, by `success_is_own_reply`, a
`Success v` in it is the value sent on that very call's own port. -/
theorem multi_call_result_index (ops : List Op) (g : Nat) (reqs : List Nat) (i : Nat) (c : Call)
    (hr : (run ops).mreqs[g]? = some reqs) (hc : (groupMembers (run ops) g)[i]? = some c) :
    reqs[i]? = some c.callee ∧ (groupResults (run ops) g)[i]? = some c.res := by
  have h1 := (multi_call_request_order ops g reqs hr).1
  have hi : i < (groupMembers (run ops) g).length := (List.getElem?_eq_some_iff.mp hc).1
  refine ⟨?_, by simp [groupResults, List.getElem?_map, hc]⟩
  have h2 : ((groupMembers (run ops) g).map (·.callee))[i]? = some c.callee := by
    simp [List.getElem?_map, hc]
  rw [h1, List.getElem?_take] at h2
  simpa [hi] using h2

/-- (`multi_call`, the result vector is written through the threaded index) `mresults[g]` models the
vector of rpc.rs: created with one empty entry per member, then `results[slot] = r` for each member as
it completes (`writeFrom`, in completion order), where `slot` is the `enumerate` index threaded into the
member's receiver task at send time. In every reachable state, for a group whose sends all succeeded:
the `i`-th member (request order) carries slot `i`, and the vector IS the list of the members' results
in request order (`groupResults`) — entries of members still waiting are empty. With
`multi_call_request_order` / `multi_call_result_index`: `results[i]` is the result of the call to the
`i`-th requested actor, whatever the completion order. -/
theorem multi_call_result_vector (ops : List Op) (g : Nat) (v : List (Option Res))
    (hv : (run ops).mresults[g]? = some v) (hnf : groupFailed (run ops) g = false) :
    v = groupResults (run ops) g ∧
    ∀ (i : Nat) (c : Call), (groupMembers (run ops) g)[i]? = some c → c.slot = i := by
  have hm := minv_run ops
  refine ⟨?_, ?_⟩
  · rw [hm.vec g v hv]
    unfold vecOf groupResults groupMembers
    apply List.map_congr_left
    intro c hc
    have : failedRes c = false := by
      unfold groupFailed groupMembers at hnf
      rw [List.any_eq_false] at hnf
      have := hnf c hc
      simpa using this
    simp [resView, this]
  · intro i c hc
    have hs := hm.slots g
    unfold slotsOf at hs
    have h1 : ((List.filter (gq g) (run ops).calls).map (·.slot))[i]? = some c.slot := by
      have : (List.filter (gq g) (run ops).calls)[i]? = some c := hc
      simp [List.getElem?_map, this]
    rw [hs] at h1
    have hi : i < ((List.filter (gq g) (run ops).calls).map (·.slot)).length := by
      have h2 : (List.filter (gq g) (run ops).calls)[i]? = some c := hc
      have := (List.getElem?_eq_some_iff.mp h2).1
      simpa using this
    rw [List.getElem?_range hi] at h1
    exact (Option.some.inj h1).symm

/-- (`multi_call`, answer by T) once the deadline of every member has passed the whole group is
done: `multi_call` has returned its vector (every member resolved individually —
`answered_by_deadline` — so the `JoinSet` is exhausted). -/
theorem multi_call_answered_by_deadline (ops : List Op) (g : Nat)
    (hd : ∀ c ∈ groupMembers (run ops) g, ∃ d, c.deadline = some d ∧ d ≤ (run ops).now) :
    groupDone (run ops) g = true := by
  unfold groupDone
  rw [List.all_eq_true]
  intro c hc
  obtain ⟨d, hd1, hd2⟩ := hd c hc
  have hmem : c ∈ (run ops).calls := (List.mem_filter.mp hc).1
  obtain ⟨p, hp⟩ := List.mem_iff_getElem?.mp hmem
  have := answered_by_deadline ops p c d hp hd1 hd2
  cases hres : c.res with
  | none => exact absurd hres this
  | some r => rfl

/-- (one `multi_call` step, any state) the calls it creates, in port order, target a prefix of the
requested actors. -/
theorem multi_call_step_request_order (s : S) (g : Nat) (t : Option Nat) (as : List Nat) :
    ∃ k, (sendMulti s g t as).calls.map (·.callee) = s.calls.map (·.callee) ++ as.take k :=
  sendMulti_callees s g t as

/-- (`call_and_forward` forwards EXACTLY once — every reachable state) `fwdlog` is the ghost record
of every forward ever attempted (call, target, value, accepted-by-target); its entries are exactly
the messages `deliverForwards` hands to the targets (`Rpc.deliverForwards_eq_log`). For every call
`p`: the number of forwards made for `p` is 1 if `p` is a forward-call whose caller task got
`Success`, and 0 otherwise (no forward on timeout / SenderError / for ordinary calls; never a
second one) — and that one forward went to `p`'s own target and carried `p`'s own reply (which by
`success_is_own_reply` is the value sent on `p`'s own port). -/
theorem forward_exactly_once (ops : List Op) (p : Nat) (c : Call) (hc : (run ops).calls[p]? = some c) :
    ((run ops).fwdlog.filter (fun e => e.1 == p)).length =
      (if (c.forward.isSome && isSucc c.res) = true then 1 else 0) ∧
    (∀ e ∈ (run ops).fwdlog, e.1 = p → c.forward = some e.2.1 ∧ c.res = some (.success e.2.2.1)) := by
  refine ⟨(finv_run ops).once p c hc, fun e he hep => ?_⟩
  subst hep
  exact (finv_run ops).val e he c hc

/-- `call_and_forward` forwards at most once per call: a call that already has its result
never triggers another forward (`deliverForwards` only looks at calls that were waiting). -/
theorem forward_only_on_transition (cs : List Call) (A : List Actor)
    (h : ∀ c ∈ cs, c.res ≠ none) : deliverForwards cs (cs.map (resolveCall 0)) A = A :=
  deliverForwards_resolved cs A h

/-! ### Non-vacuity -/

/-- cross-wiring IS expressible: a caller whose receiver belongs to another call's port would get
that call's reply (`caller_reads_own_port` shows no reachable state contains such a caller) -/
def crossWiredExample : List Call :=
  [⟨0, none, .replied 7, none, none, none, 1, 0⟩, ⟨0, none, .replied 9, none, none, none, 0, 0⟩]
example : (crossWiredExample.map (resolveVia 0 crossWiredExample)).map (·.res) =
    [some (.success 9), some (.success 7)] := by decide

/-- two callers, replies in swapped order, one callee killed while holding a third call,
a timeout, a late reply to the timed-out call -/
def exampleOps : List Op :=
  [.spawn, .spawn, .call 0 none, .call 0 (some 5), .call 1 none,
   .handle 0 .keep, .handle 0 (.reply 42), .handle 1 .keep, .later 0 (.reply 7),
   .exit 1, .call 0 (some 3), .advance 3, .handle 0 (.reply 9)]

example : ((run exampleOps).calls.map (·.res)) =
    [some (.success 7), some (.success 42), some .senderError, some .timeout] := by decide
example : ok (run exampleOps) = true := by decide

/-- multi_call with mixed outcomes (reply / drop / timeout), one with a failing send, and
call_and_forward: forwarded once, to a dead target (`false`), and not at all on timeout -/
def exampleGroups : List Op :=
  [.spawn, .spawn, .spawn, .mcall [0, 1, 2] (some 5), .handle 0 (.reply 11), .handle 1 .drop, .advance 5,
   .exit 2, .mcall [0, 2, 1] none, .fcall 0 1 none, .fcall 0 2 none, .fcall 0 1 (some 2),
   .handle 0 (.reply 7), .handle 0 (.reply 8), .handle 0 (.reply 9), .advance 2]
example : groupResults (run exampleGroups) 0 = [some (.success 11), some .senderError, some .timeout] := by decide +kernel
example : (run exampleGroups).mresults = [[some (.success 11), some .senderError, some .timeout], [none, none]] := by decide +kernel
example : (run exampleGroups).mreqs = [[0, 1, 2], [0, 2, 1]] ∧ groupFailed (run exampleGroups) 1 = true := by decide +kernel
example : (run exampleGroups).fwdlog = [(5, 1, 8, true), (6, 2, 9, false)] ∧
    ((run exampleGroups).calls.map (·.res)).drop 5 = [some (.success 8), some (.success 9), some .timeout] := by decide +kernel

/-- supervised callees: #0 keeps two ports in its state and stops gracefully — the callers keep
waiting while the supervisor has the event queued, then stashed; the supervisor answers one
through the stashed state, then drops the event (the other gets SenderError). #1 keeps a port,
is stopped and its event dropped unhandled-then-dropped; #2 keeps a port and is KILLED (no
state in the event: SenderError at once); #3's event dies with the supervisor. -/
def exampleSup : List Op :=
  [.spawnSup, .spawnl 0, .spawnl 0, .spawnl 0, .spawnl 0,
   .call 0 none, .call 0 none, .call 1 none, .call 2 none, .call 3 none,
   .handle 0 .keep, .handle 0 .keep, .handle 1 .keep, .handle 2 .keep, .handle 3 .keep,
   .stop 0 .drop, .stop 1 .drop, .exit 2]

example : ((run exampleSup).calls.map (·.res)) = [none, none, none, some .senderError, none] := by decide +kernel
example : ((run (exampleSup ++ [.suphandle 0 true, .later 0 (.reply 5)])).calls.map (·.res)) =
    [some (.success 5), none, none, some .senderError, none] := by decide +kernel
example : ((run (exampleSup ++ [.suphandle 0 true, .later 0 (.reply 5), .supdrop 0 0, .suphandle 0 false])).calls.map (·.res)) =
    [some (.success 5), some .senderError, some .senderError, some .senderError, none] := by decide +kernel
example : ((run (exampleSup ++ [.suphandle 0 true, .stop 3 .drop, .supexit 0])).calls.map (·.res)) =
    [some .senderError, some .senderError, some .senderError, some .senderError, some .senderError] := by decide +kernel
example : ok (run (exampleSup ++ [.suphandle 0 true, .later 0 (.reply 5), .supdrop 0 0])) = true := by decide +kernel

/-! ## BEGIN CallResult block (agent `ports`): `ractor/src/rpc/call_result.rs` and
`impl From<CallResult<_>> for RactorErr<_>` — model `Model/CallResult.lean`, lemmas
`Lemmas/CallResult.lean`, tie: E-PURE `harness/hcore/src/bin/rpc_pure.rs` + `Driver/C09Pure.lean`.
What a caller can do with the `CallResult` the theorems above hand it. -/
section CallResultBlock
open CallRes
variable {α β γ ε : Type}

/-- exactly one of `is_success` / `is_timeout` / `is_send_error` holds -/
theorem callResult_flags_exactly_one (r : CR α) :
    (isSuccess r = true ∧ isTimeout r = false ∧ isSendError r = false) ∨
    (isSuccess r = false ∧ isTimeout r = true ∧ isSendError r = false) ∨
    (isSuccess r = false ∧ isTimeout r = false ∧ isSendError r = true) := flags_exactly_one r

/-- `unwrap` returns exactly the reply of a `Success` and panics on (and only on) the two
failure variants; `expect` likewise, its panic text starting with the caller's message -/
theorem callResult_unwrap (r : CR α) (msg : String) :
    (∀ v, CallRes.unwrap r = .ok v ↔ r = .success v) ∧
    ((∃ m, CallRes.unwrap r = .error m) ↔ isSuccess r = false) ∧
    (∀ v, CallRes.expect r msg = .ok v ↔ r = .success v) ∧
    ((∃ m, CallRes.expect r msg = .error m) ↔ isSuccess r = false) ∧
    (∀ m, CallRes.expect r msg = .error m → ∃ tail, m = msg ++ tail) :=
  ⟨unwrap_ok_iff r, unwrap_panics_iff r, expect_ok_iff r msg, expect_panics_iff r msg,
   fun m h => expect_message r msg m h⟩

/-- the defaulting forms never panic: the reply on `Success`, the default otherwise; the
closure-taking ones are LAZY — the closure runs exactly once iff the result is not a
`Success`, never otherwise -/
theorem callResult_defaults_total_and_lazy (r : CR α) (d : α) (f : Unit → α) (e : ε) (g : Unit → ε) :
    unwrapOr r d = (match r with | .success v => v | _ => d) ∧
    unwrapOrElse r f = (unwrapOr r (f ()), if isSuccess r then 0 else 1) ∧
    successOr r e = (match r with | .success v => .ok v | _ => .error e) ∧
    successOrElse r g = (successOr r (g ()), if isSuccess r then 0 else 1) :=
  ⟨unwrapOr_eq r d, unwrapOrElse_eq r f, successOr_eq r e, successOrElse_eq r g⟩

/-- `map` is a functor on the reply that keeps the variant, and calls the mapping exactly once
iff `Success` -/
theorem callResult_map_functor (r : CR α) (f : α → β) (g : β → γ) :
    CallRes.map r id = r ∧ CallRes.map (CallRes.map r f) g = CallRes.map r (g ∘ f) ∧
    isSuccess (CallRes.map r f) = isSuccess r ∧ isTimeout (CallRes.map r f) = isTimeout r ∧
    isSendError (CallRes.map r f) = isSendError r ∧
    (∀ w, CallRes.map r f = .success w ↔ ∃ v, r = .success v ∧ f v = w) ∧
    mapCalls r = (if isSuccess r then 1 else 0) :=
  ⟨map_id r, map_comp r f g, (map_flags r f).1, (map_flags r f).2.1, (map_flags r f).2.2,
   map_success_iff r f, mapCalls_eq r⟩

/-- `map_or` / `map_or_else` factor through `map` and `unwrap_or`; exactly one of the two
closures of `map_or_else` runs, exactly once -/
theorem callResult_mapOr_via_map (r : CR α) (d : β) (dl : Unit → β) (f : α → β) :
    mapOr r d f = unwrapOr (CallRes.map r f) d ∧
    mapOrElse r dl f = (unwrapOr (CallRes.map r f) (dl ()), (if isSuccess r then 0 else 1), mapCalls r) :=
  ⟨mapOr_eq r d f, mapOrElse_eq r dl f⟩

/-- the conversion the `call!` / `call_t!` / `forward!` macros apply to a non-success result:
`Timeout ↦ RactorErr::Timeout`, `SenderError ↦ Messaging(ChannelClosed)`; it panics iff handed
a `Success` -/
theorem callResult_error_conversion (r : CR α) :
    ((∃ m, toErr r = .error m) ↔ isSuccess r = true) ∧
    (toErr r = .ok .timeout ↔ isTimeout r = true) ∧
    (toErr r = .ok .channelClosed ↔ isSendError r = true) :=
  ⟨toErr_panics_iff r, (toErr_ok r).1, (toErr_ok r).2⟩

/-- the run-time oracle `CallRes.check` (what `Driver/C09Pure.lean` evaluates on the real
combinators' outputs) accepts everything the model computes -/
theorem callResult_oracle_accepts_model (r : CR Nat) (d : Nat) (f : Nat → Nat) (e : Nat) (msg : String) :
    check r d f e (observe r d f e msg) = [] := check_observe r d f e msg

-- non-vacuity: the oracle is not trivially empty — it rejects an eager `unwrap_or_else`
example : check (.success 5) 3 (· + 1) 4
    { observe (.success 5) 3 (· + 1) 4 "boom" with unwrapOrElse := (5, 1) } = ["c09.callresult-unwrap-or"] := by
  decide

end CallResultBlock
/-! ## END CallResult block -/

/-! ## BEGIN CallRace block (agent `ports`): a `call` racing the callee's handlers and exit at the
granularity of the schedule points inside `send_message` — the interleavings of caller, callee
and killer that the quiescent-point engine above does not run. Model `Model/CallRace.lean`
(reply ports are separate one-shot cells addressed by id; the mailbox carries port ids), lemmas
`Lemmas/CallRace.lean`, tie: E-THR `harness/hcore/src/bin/rpcrace.rs` + `Driver/CallRace.lean`.
Every theorem is for ALL schedules: any number of callers, any interleaving of their micro-steps
(status check, ticket CAS with retries, box, push, ticket release, polls) with handler steps and
the three steps of the callee's exit (`Stopping`, `Stopped`, receiver dropped). -/
section CallRaceBlock
open CallRace

/-- (no hang) Once the callee's task has ended, a caller whose send had succeeded and who is
awaiting its reply gets an answer at its very next poll — `Success` or `SenderError`, never a
send error. -/
theorem race_no_hang (sched : List Step) (i : Nat)
    (hgone : (run init sched).rxAlive = false)
    (hw : (run init sched).pcs i = .waiting ∨ (run init sched).pcs i = .release true) :
    ∃ r, (step (run init sched) (.c i)).pcs i = .done r ∧ r ≠ .sendErr :=
  no_hang (inv_run sched inv_init) i hgone hw

/-- (the caller always comes back) After the callee has exited, a caller — wherever it is inside
`call`: before the status check, in the ticket CAS loop, about to push — returns within 6 of
its own steps. -/
theorem race_caller_terminates (sched : List Step) (i : Nat)
    (hgone : (run init sched).rxAlive = false) (hst : (run init sched).status ≥ 1) :
    ∃ n, n ≤ 6 ∧ ∃ r, (solo n (run init sched) i).pcs i = .done r :=
  caller_terminates (inv_run sched inv_init) i hgone hst

/-- (no cross-wiring, with ports as separate objects) A caller that got `Success v` read it
from the port IT created; that port was written by the handler that dequeued the message
carrying this very port id, with this call's value; no port is dequeued twice. -/
theorem race_success_is_own_reply (sched : List Step) (i v : Nat)
    (h : (run init sched).pcs i = .done (.success v)) :
    (run init sched).ports i = .written v ∧ v = val i ∧ (i, some v) ∈ (run init sched).handled ∧
      ∀ x, (i, x) ∈ (run init sched).handled → x = some v := by
  have hinv := inv_run sched inv_init
  have hp := hinv.doneSuccess i v h
  have hw := hinv.written i v hp
  exact ⟨hp, hw.1, hw.2, fun x hx => hinv.once i x (some v) hx hw.2⟩

/-- (`SenderError` = own port dropped unanswered) by the handler that dequeued it, or with the
mailbox when the callee's task ended — and then no handler ever saw it. -/
theorem race_senderError_cause (sched : List Step) (i : Nat)
    (h : (run init sched).pcs i = .done .senderError) :
    (run init sched).ports i = .closed ∧
      ((i, none) ∈ (run init sched).handled ∨
        (i ∈ (run init sched).flushed ∧ ∀ x, (i, x) ∉ (run init sched).handled)) := by
  have hinv := inv_run sched inv_init
  have := hinv.doneSenderError i h
  refine ⟨this.1, this.2.elim Or.inl fun a => Or.inr ⟨a, fun x hx => hinv.flushedFresh i x hx a⟩⟩

/-- (a refused send is never handled) `Err(SendErr)` means the message never entered the
mailbox: no handler dequeued it and it was not flushed either. -/
theorem race_refused_never_handled (sched : List Step) (i : Nat)
    (h : (run init sched).pcs i = .done .sendErr) :
    i ∉ (run init sched).queue ∧ (∀ x, (i, x) ∉ (run init sched).handled) ∧
      i ∉ (run init sched).flushed :=
  (inv_run sched inv_init).doneSendErr i h

/-- (a waiting caller's port is somewhere live) While a caller is still waiting with an
unanswered port, the message carrying it is in the mailbox of a callee whose receiver exists. -/
theorem race_waiting_means_queued (sched : List Step) (i : Nat)
    (hw : (run init sched).pcs i = .waiting) (hu : (run init sched).ports i = .unset) :
    i ∈ (run init sched).queue ∧ (run init sched).rxAlive = true := by
  have hinv := inv_run sched inv_init
  have hq := hinv.live i (Or.inl hw) hu
  refine ⟨hq, ?_⟩
  cases hr : (run init sched).rxAlive with
  | true => rfl
  | false => have := hinv.rxGone hr; rw [this] at hq; cases hq

/-- the run-time oracle `CallRace.judge` accepts every result the model hands to a caller -/
theorem race_oracle_accepts_model (sched : List CallRace.Step) (i : Nat) (r : CallRace.Res)
    (hr : obsRes (run init sched) i = some r) (gone : Bool) (polls : Nat) :
    judge (some r) gone polls i (handledAs (run init sched) i) = [] :=
  judge_resolved (inv_run sched inv_init) i r hr gone polls

-- non-vacuity: the push lands after `Stopping` was published but before the receiver is dropped — the message
-- is flushed, the caller gets `SenderError`; and a second caller whose CAS fails once retries
example : ((run init [.c 0, .c 0, .c 0, .c 0, .c 0, .setStopping, .c 0, .c 0, .dropRx, .setStopped, .c 0]).pcs 0)
    = .done .senderError := by decide
example : ((run init [.c 0, .c 0, .c 0, .c 1, .c 1, .c 1, .c 0, .c 1, .c 1]).pcs 1, (run init
    [.c 0, .c 0, .c 0, .c 1, .c 1, .c 1, .c 0, .c 1, .c 1]).count) = (.box, 2) := by decide
example : judge none true 1 0 none = ["c09.caller-left-hanging"] := by decide

end CallRaceBlock
/-! ## END CallRace block -/

end C09

#print axioms C09.ok_reachable
#print axioms C09.caller_reads_own_port
#print axioms C09.sent_iff_channel_holds
#print axioms C09.port_written_at_most_once
#print axioms C09.success_is_own_reply
#print axioms C09.senderError_is_own_drop
#print axioms C09.waiting_only_while_port_alive
#print axioms C09.waits_only_for_live_callee
#print axioms C09.dead_callee_completes_unless_port_moved
#print axioms C09.stopped_callee_caller_may_wait_while_supervisor_keeps_state
#print axioms C09.event_port_held_and_not_failed
#print axioms C09.dropped_port_completes
#print axioms C09.orphaned_event_port_is_dropped
#print axioms C09.dropped_waiting_call_gets_senderError
#print axioms C09.replied_waiting_call_gets_success
#print axioms C09.event_held_by_one_supervisor
#print axioms C09.supdrop_completes_callers
#print axioms C09.suphandle_drop_completes_callers
#print axioms C09.supexit_completes_callers
#print axioms C09.dead_supervisor_holds_no_event
#print axioms C09.answered_by_deadline
#print axioms C09.timeout_not_early
#print axioms C09.dead_actor_owns_no_port
#print axioms C09.port_queued_once
#print axioms C09.multi_call_request_order
#print axioms C09.multi_call_result_index
#print axioms C09.multi_call_result_vector
#print axioms C09.multi_call_answered_by_deadline
#print axioms C09.multi_call_step_request_order
#print axioms C09.forward_exactly_once
#print axioms C09.forward_only_on_transition
#print axioms C09.callResult_flags_exactly_one
#print axioms C09.callResult_unwrap
#print axioms C09.callResult_defaults_total_and_lazy
#print axioms C09.callResult_map_functor
#print axioms C09.callResult_mapOr_via_map
#print axioms C09.callResult_error_conversion
#print axioms C09.callResult_oracle_accepts_model
#print axioms C09.race_no_hang
#print axioms C09.race_caller_terminates
#print axioms C09.race_success_is_own_reply
#print axioms C09.race_senderError_cause
#print axioms C09.race_refused_never_handled
#print axioms C09.race_waiting_means_queued
#print axioms C09.race_oracle_accepts_model
