import RactorModel.Lemmas.Handshake

/-! Late dials (C18, round 4): a connection dialled at any time behaves like one that was there from
the start and stayed idle — so the convergence theorem holds for the connections dialled SO FAR at
every moment of a run. -/

namespace Election

/-- the op does not name the connection `c` (on the node it is a step of) -/
def HOp.free (c : Conn) : HOp → Prop
  | .authA a | .preA a | .seeA a => a ≠ c.idA
  | .authB b | .preB b | .seeB b => b ≠ c.idB

/-- the op names a connection of `cs` -/
def HOp.known (cs : List Conn) : HOp → Prop
  | .authA a | .preA a | .seeA a => a ∈ cs.map (·.idA)
  | .authB b | .preB b | .seeB b => b ∈ cs.map (·.idB)

instance (cs : List Conn) (op : HOp) : Decidable (op.known cs) := by
  cases op <;> unfold HOp.known <;> infer_instance

/-- the fresh link of a connection just dialled -/
def freshLink (c : Conn) : Link := { c := c }

theorem pendingA_fresh (w : List Link) (c : Conn) (a : Nat) (h : (c.idA == a) = false) :
    pendingA (w ++ [freshLink c]) a = pendingA w a := by
  simp [pendingA, freshLink, h]
theorem pendingB_fresh (w : List Link) (c : Conn) (b : Nat) (h : (c.idB == b) = false) :
    pendingB (w ++ [freshLink c]) b = pendingB w b := by
  simp [pendingB, freshLink, h]
theorem markA_fresh (w : List Link) (c : Conn) (a : Nat) (h : (c.idA == a) = false) :
    markA (w ++ [freshLink c]) a = markA w a ++ [freshLink c] := by
  have h' : ¬ c.idA = a := by simpa using h
  simp [markA, freshLink, h']
theorem markB_fresh (w : List Link) (c : Conn) (b : Nat) (h : (c.idB == b) = false) :
    markB (w ++ [freshLink c]) b = markB w b ++ [freshLink c] := by
  have h' : ¬ c.idB = b := by simpa using h
  simp [markB, freshLink, h']
theorem activeA_fresh (w : List Link) (c : Conn) : activeA (w ++ [freshLink c]) = activeA w := by
  simp [activeA, freshLink]
theorem activeB_fresh (w : List Link) (c : Conn) : activeB (w ++ [freshLink c]) = activeB w := by
  simp [activeB, freshLink]
theorem closeLosersA_fresh (w : List Link) (c : Conn) (el : List Nat) :
    closeLosersA (w ++ [freshLink c]) el = closeLosersA w el ++ [freshLink c] := by
  simp [closeLosersA, freshLink]
theorem closeLosersB_fresh (w : List Link) (c : Conn) (el : List Nat) :
    closeLosersB (w ++ [freshLink c]) el = closeLosersB w el ++ [freshLink c] := by
  simp [closeLosersB, freshLink]
theorem candA_fresh (w : List Link) (c : Conn) (a : Nat) (h : (c.idA == a) = false) :
    candA (w ++ [freshLink c]) a = candA w a := by
  simp [candA, freshLink, h]
theorem candB_fresh (w : List Link) (c : Conn) (b : Nat) (h : (c.idB == b) = false) :
    candB (w ++ [freshLink c]) b = candB w b := by
  simp [candB, freshLink, h]

/-- a fresh link does not take part in anything until it is named -/
theorem hsStep_append_fresh (o : Ordering) (w : List Link) (c : Conn) (op : HOp) (hf : op.free c) :
    hsStep o (w ++ [freshLink c]) op = hsStep o w op ++ [freshLink c] := by
  cases op with
  | authA a =>
    have ha : (c.idA == a) = false := beq_eq_false_iff_ne.mpr (Ne.symm hf)
    simp only [hsStep, stepAuthA, pendingA_fresh w c a ha]
    by_cases hp : pendingA w a = true
    · simp only [hp, if_true, markA_fresh w c a ha, activeA_fresh, closeLosersA_fresh]
    · simp only [hp, Bool.false_eq_true, if_false]
  | authB b =>
    have hb : (c.idB == b) = false := beq_eq_false_iff_ne.mpr (Ne.symm hf)
    simp only [hsStep, stepAuthB, pendingB_fresh w c b hb]
    by_cases hp : pendingB w b = true
    · simp only [hp, if_true, markB_fresh w c b hb, activeB_fresh, closeLosersB_fresh]
    · simp only [hp, Bool.false_eq_true, if_false]
  | preA a =>
    have ha : (c.idA == a) = false := beq_eq_false_iff_ne.mpr (Ne.symm hf)
    simp only [hsStep, stepPreA, pendingA_fresh w c a ha, candA_fresh w c a ha]
    have ha' : ¬ c.idA = a := by simpa using ha
    split
    · simp [freshLink, ha']
    · rfl
  | preB b =>
    have hb : (c.idB == b) = false := beq_eq_false_iff_ne.mpr (Ne.symm hf)
    simp only [hsStep, stepPreB, pendingB_fresh w c b hb, candB_fresh w c b hb]
    have hb' : ¬ c.idB = b := by simpa using hb
    split
    · simp [freshLink, hb']
    · rfl
  | seeA a => simp [hsStep, stepSeeA, freshLink]
  | seeB b => simp [hsStep, stepSeeB, freshLink]

theorem foldl_append_fresh (o : Ordering) (c : Conn) (ops : List HOp) (hf : ∀ op ∈ ops, op.free c) :
    ∀ w, ops.foldl (hsStep o) (w ++ [freshLink c]) = ops.foldl (hsStep o) w ++ [freshLink c] := by
  induction ops with
  | nil => intro w; rfl
  | cons op t ih =>
    intro w
    simp only [List.foldl_cons]
    rw [hsStep_append_fresh o w c op (hf op (by simp))]
    exact ih (fun op' h => hf op' (by simp [h])) _

theorem hsRun_append_fresh (o : Ordering) (cs : List Conn) (c : Conn) (ops : List HOp)
    (hf : ∀ op ∈ ops, op.free c) :
    hsRun o (cs ++ [c]) ops = hsRun o cs ops ++ [freshLink c] := by
  unfold hsRun
  have : hsInit (cs ++ [c]) = hsInit cs ++ [freshLink c] := by simp [hsInit, freshLink]
  rw [this]
  exact foldl_append_fresh o c ops hf _

/-! ### steps keep the connection list; a step naming an unknown connection does nothing -/

theorem hsStep_conns (o : Ordering) (w : List Link) (op : HOp) : (hsStep o w op).map (·.c) = w.map (·.c) := by
  cases op with
  | authA a =>
    simp only [hsStep, stepAuthA]
    split
    · rw [closeLosersA_eq, markA_eq, map_c_map (clA_c _), map_c_map (mkA_c _)]
    · rfl
  | authB b =>
    simp only [hsStep, stepAuthB]
    split
    · rw [closeLosersB_eq, markB_eq, map_c_map (clB_c _), map_c_map (mkB_c _)]
    · rfl
  | preA a =>
    simp only [hsStep, stepPreA]
    split
    · exact map_c_map (f := dropA a) (dropA_c a) w
    · rfl
  | preB b =>
    simp only [hsStep, stepPreB]
    split
    · exact map_c_map (f := dropB b) (dropB_c b) w
    · rfl
  | seeA a => exact map_c_map (f := seeAf a) (seeAf_c a) w
  | seeB b => exact map_c_map (f := seeBf b) (seeBf_c b) w

theorem hsRun_conns (o : Ordering) (cs : List Conn) (ops : List HOp) : (hsRun o cs ops).map (·.c) = cs := by
  unfold hsRun
  suffices h : ∀ w : List Link, (ops.foldl (hsStep o) w).map (·.c) = w.map (·.c) by
    rw [h]; simp [hsInit, Function.comp_def]
  induction ops with
  | nil => intro w; rfl
  | cons op t ih => intro w; simp only [List.foldl_cons]; rw [ih, hsStep_conns]

theorem map_noop {f : Link → Link} (w : List Link) (h : ∀ l ∈ w, f l = l) : w.map f = w := by
  induction w with
  | nil => rfl
  | cons x t ih =>
    simp only [List.map_cons]
    rw [h x (by simp), ih (fun l hl => h l (by simp [hl]))]

theorem hsStep_unknown (o : Ordering) (w : List Link) (op : HOp) (h : ¬ op.known (w.map (·.c))) :
    hsStep o w op = w := by
  cases op with
  | authA a =>
    have hn : ∀ l ∈ w, (l.c.idA == a) = false := by
      intro l hl
      apply beq_eq_false_iff_ne.mpr
      intro he
      exact h (by simp only [HOp.known, List.map_map, List.mem_map]; exact ⟨l, hl, he⟩)
    have hp : pendingA w a = false := by
      simp only [pendingA, List.any_eq_false]
      intro l hl; simp [hn l hl]
    simp [hsStep, stepAuthA, hp]
  | authB b =>
    have hn : ∀ l ∈ w, (l.c.idB == b) = false := by
      intro l hl
      apply beq_eq_false_iff_ne.mpr
      intro he
      exact h (by simp only [HOp.known, List.map_map, List.mem_map]; exact ⟨l, hl, he⟩)
    have hp : pendingB w b = false := by
      simp only [pendingB, List.any_eq_false]
      intro l hl; simp [hn l hl]
    simp [hsStep, stepAuthB, hp]
  | preA a =>
    have hn : ∀ l ∈ w, (l.c.idA == a) = false := by
      intro l hl
      apply beq_eq_false_iff_ne.mpr
      intro he
      exact h (by simp only [HOp.known, List.map_map, List.mem_map]; exact ⟨l, hl, he⟩)
    have hp : pendingA w a = false := by
      simp only [pendingA, List.any_eq_false]
      intro l hl; simp [hn l hl]
    simp [hsStep, stepPreA, hp]
  | preB b =>
    have hn : ∀ l ∈ w, (l.c.idB == b) = false := by
      intro l hl
      apply beq_eq_false_iff_ne.mpr
      intro he
      exact h (by simp only [HOp.known, List.map_map, List.mem_map]; exact ⟨l, hl, he⟩)
    have hp : pendingB w b = false := by
      simp only [pendingB, List.any_eq_false]
      intro l hl; simp [hn l hl]
    simp [hsStep, stepPreB, hp]
  | seeA a =>
    simp only [hsStep, stepSeeA]
    apply map_noop
    intro l hl
    have : (l.c.idA == a) = false := by
      apply beq_eq_false_iff_ne.mpr
      intro he
      exact h (by simp only [HOp.known, List.map_map, List.mem_map]; exact ⟨l, hl, he⟩)
    simp [this]
  | seeB b =>
    simp only [hsStep, stepSeeB]
    apply map_noop
    intro l hl
    have : (l.c.idB == b) = false := by
      apply beq_eq_false_iff_ne.mpr
      intro he
      exact h (by simp only [HOp.known, List.map_map, List.mem_map]; exact ⟨l, hl, he⟩)
    simp [this]

/-! ### the run with late dials is a run over the connections dialled so far -/

/-- `s.2` is what `hsRun` produces over the connections dialled so far, for some op sequence that
only names those connections -/
def DInv (o : Ordering) (s : List Conn × List Link) : Prop :=
  ∃ ops' : List HOp, (∀ op ∈ ops', op.known s.1) ∧ s.2 = hsRun o s.1 ops'

theorem known_free {cs : List Conn} {c : Conn} {op : HOp}
    (hA : c.idA ∉ cs.map (·.idA)) (hB : c.idB ∉ cs.map (·.idB)) (h : op.known cs) : op.free c := by
  cases op <;> simp only [HOp.known, HOp.free] at h ⊢ <;> intro he <;> subst he
  · exact hA h
  · exact hB h
  · exact hA h
  · exact hB h
  · exact hA h
  · exact hB h

theorem known_mono {cs : List Conn} {c : Conn} {op : HOp} (h : op.known cs) : op.known (cs ++ [c]) := by
  cases op <;> simp only [HOp.known, List.map_append, List.mem_append] at h ⊢ <;> exact Or.inl h

theorem DInv.step (o : Ordering) (s : List Conn × List Link) (x : DOp) (I : DInv o s)
    (hfresh : ∀ c, x = .dial c → c.idA ∉ s.1.map (·.idA) ∧ c.idB ∉ s.1.map (·.idB)) :
    DInv o (dStep o s x) := by
  obtain ⟨ops', hk, hw⟩ := I
  cases x with
  | dial c =>
    obtain ⟨hA, hB⟩ := hfresh c rfl
    refine ⟨ops', fun op hop => known_mono (hk op hop), ?_⟩
    simp only [dStep]
    rw [hw, hsRun_append_fresh o s.1 c ops' (fun op hop => known_free hA hB (hk op hop))]
    rfl
  | hs op =>
    simp only [dStep]
    by_cases hkn : op.known s.1
    · refine ⟨ops' ++ [op], ?_, ?_⟩
      · intro op' hop'
        rcases List.mem_append.mp hop' with h | h
        · exact hk op' h
        · simp only [List.mem_singleton] at h; subst h; exact hkn
      · rw [hw]; simp [hsRun, List.foldl_append]
    · refine ⟨ops', hk, ?_⟩
      have hc : s.2.map (·.c) = s.1 := by rw [hw]; exact hsRun_conns o s.1 ops'
      rw [hsStep_unknown o s.2 op (by rw [hc]; exact hkn)]
      exact hw

theorem dRun_aux (o : Ordering) (ops : List DOp) : ∀ s : List Conn × List Link, DInv o s →
    ((s.1 ++ dials ops).map (·.idA)).Nodup → ((s.1 ++ dials ops).map (·.idB)).Nodup →
    DInv o (ops.foldl (dStep o) s) ∧ (ops.foldl (dStep o) s).1 = s.1 ++ dials ops := by
  induction ops with
  | nil => intro s I _ _; exact ⟨I, by simp [dials]⟩
  | cons x rest ih =>
    intro s I hA hB
    simp only [List.foldl_cons]
    cases x with
    | dial c =>
      have hA' : ((s.1 ++ [c] ++ dials rest).map (·.idA)).Nodup := by simpa [dials, List.append_assoc] using hA
      have hB' : ((s.1 ++ [c] ++ dials rest).map (·.idB)).Nodup := by simpa [dials, List.append_assoc] using hB
      have hfA : c.idA ∉ s.1.map (·.idA) := by
        simp only [dials, List.map_append, List.map_cons] at hA
        have := (List.nodup_append.mp hA).2.2
        intro hin
        exact this _ hin _ (by simp) rfl
      have hfB : c.idB ∉ s.1.map (·.idB) := by
        simp only [dials, List.map_append, List.map_cons] at hB
        have := (List.nodup_append.mp hB).2.2
        intro hin
        exact this _ hin _ (by simp) rfl
      have I' := DInv.step o s (.dial c) I (fun c' h => by cases h; exact ⟨hfA, hfB⟩)
      obtain ⟨r1, r2⟩ := ih (dStep o s (.dial c)) I' (by simpa [dStep] using hA') (by simpa [dStep] using hB')
      exact ⟨r1, by rw [r2]; simp [dStep, dials]⟩
    | hs op =>
      have I' := DInv.step o s (.hs op) I (fun c' h => by cases h)
      obtain ⟨r1, r2⟩ := ih (dStep o s (.hs op)) I' (by simpa [dStep, dials] using hA) (by simpa [dStep, dials] using hB)
      exact ⟨r1, by rw [r2]; simp [dStep, dials]⟩

/-- the state reached with late dials IS a state `hsRun` reaches over the connections dialled -/
theorem dRun_is_hsRun (o : Ordering) (ops : List DOp)
    (hA : ((dials ops).map (·.idA)).Nodup) (hB : ((dials ops).map (·.idB)).Nodup) :
    (dRun o ops).1 = dials ops ∧ ∃ ops', (dRun o ops).2 = hsRun o (dials ops) ops' := by
  have I0 : DInv o (([], []) : List Conn × List Link) := ⟨[], by simp, by simp [hsRun, hsInit]⟩
  obtain ⟨⟨ops', _, hw⟩, h2⟩ := dRun_aux o ops ([], []) I0 (by simpa using hA) (by simpa using hB)
  simp only [List.nil_append] at h2
  refine ⟨h2, ops', ?_⟩
  unfold dRun
  rw [hw, h2]

end Election
