import RactorModel.Model.Tree
import RactorModel.Model.TreeConc
import Driver.Common

/-! Driver for the `Tree` model (C05), E-LTS part.

ops (macro ops executed by `harness/hcore/src/bin/tree.rs` at quiescent points):
  `case <n>` · `spawn` · `spawnl <p>` · `link <c> <p>` · `unlink <c> <p>` · `block <a>` · `release <a>`
  `drain <a>` · `stop <a>` · `kill <a>` · `fail <a>` · `panic <a>` · `abort <a>`
observation: `r=<unit|ok|err|true|false> | <i>:<Status>:<sup|->:<kids,…|->:<handled> …`
-/

namespace Driver.C05
open Tree Driver

structure DState where
  m : MState := {}
  v : State := {}       -- the implementation's previous snapshot
  -- history of the implementation's own answers, for the C07 clauses on the children wrappers
  accepted : Nat → Nat := fun _ => 0      -- `block` answered ok
  drainedF : Nat → Bool := fun _ => false -- asked to drain (directly or through drain_children*)
  stopF : Nat → Bool := fun _ => false    -- asked to stop (directly or through stop_children*)
  onlyC07 : Bool := false

def showRes : Res → String
  | .unit => "unit" | .ok => "ok" | .err => "err" | .tt => "true" | .ff => "false"

def sortNats (l : List Nat) : List Nat := (l.toArray.qsort (· < ·)).toList

def showActor (m : MState) (i : Nat) : String :=
  let sup := match m.t.sup i with | some p => toString p | none => "-"
  let kids := match m.t.kids i with | some ks => showNats (sortNats ks) | none => "-"
  s!"{i}:{(m.t.status i).name}:{sup}:{kids}:{(m.act i).handled}"

def sortStrs (l : List String) : List String := (l.toArray.qsort (· < ·)).toList

def showEvs (l : List (Nat × Nat × Why)) : String :=
  if l.isEmpty then "-" else ",".intercalate (sortStrs (l.map fun e => s!"{e.1}>{e.2.1}:{e.2.2.text}"))

def showWaiters (m : MState) : String :=
  if m.waiters.isEmpty then "-" else ",".intercalate (m.waiters.map fun w => if w.done m then "done" else "pending")

def observe (old m : MState) (r : Res) : String :=
  s!"r={showRes r} ev={showEvs (m.evs.drop old.evs.length)} w={showWaiters m} |" ++
    String.join ((List.range m.t.n).map fun i => " " ++ showActor m i)

def parseKOp? (ws : List String) : Option KOp :=
  match ws with
  | ["stopkids", a] => a.toNat?.map .stopKids
  | ["drainkids", a] => a.toNat?.map .drainKids
  | ["stopkidswait", a] => a.toNat?.map .stopKidsWait
  | ["drainkidswait", a] => a.toNat?.map .drainKidsWait
  | _ => none

def parseMOp? (ws : List String) : Option MOp :=
  match ws with
  | ["spawn"] => some .spawn
  | ["spawnl", p] => p.toNat?.map .spawnl
  | ["spawnlt", p, f] => p.toNat?.map (fun p => .spawnlt p (f == "fail"))
  | ["link", c, p] => do pure (.link (← c.toNat?) (← p.toNat?))
  | ["unlink", c, p] => do pure (.unlink (← c.toNat?) (← p.toNat?))
  | ["block", a] => a.toNat?.map .block
  | ["release", a] => a.toNat?.map .release
  | ["drain", a] => a.toNat?.map .drain
  | ["stop", a] => a.toNat?.map .stop
  | ["kill", a] => a.toNat?.map .kill
  | ["fail", a] => a.toNat?.map .fail
  | ["panic", a] => a.toNat?.map .fail
  | ["abort", a] => a.toNat?.map .abort
  | ["hold", a] => a.toNat?.map .hold
  | ["psrelease", a] => a.toNat?.map .psrelease
  | _ => none

def parseStatus? (s : String) : Option Status := Status.all.find? (·.name == s)

/-- one actor entry `i:Status:sup:kids:handled` -/
def parseActor? (s : String) : Option (Nat × Status × Option Nat × List Nat) :=
  match splitOnChar s ':' with
  | [i, st, sup, kids, _] => do
    let i ← i.toNat?
    let st ← parseStatus? st
    let sup ← if sup == "-" then some none else sup.toNat?.map some
    let kids ← natList? kids
    pure (i, st, sup, kids)
  | _ => none

/-- handled counts, by actor -/
def parseHandled (s : String) : Nat → Nat :=
  match s.splitOn " |" with
  | [_, rest] =>
    let hs := (words rest).map fun w => match splitOnChar w ':' with
      | [_, _, _, _, h] => h.toNat?.getD 0
      | _ => 0
    fun i => hs.getD i 0
  | _ => fun _ => 0

def parseWhy? (s : String) : Option Why :=
  [Why.stopped, .drained, .killed, .failed, .cancelled].find? (·.text == s)

/-- `ev=who>to:reason,…` of an implementation line -/
def parseEvs (s : String) : Option (List (Nat × Nat × Why)) :=
  match (words ((s.splitOn " |").headD "")).find? (·.startsWith "ev=") with
  | none => some []
  | some w =>
    let body := (w.drop 3).toString
    if body == "-" then some [] else
    (splitOnChar body ',').mapM fun e =>
      match splitOnChar e ':' with
      | [wt, why] => match splitOnChar wt '>' with
        | [a, b] => do pure (← a.toNat?, ← b.toNat?, ← parseWhy? why)
        | _ => none
      | _ => none

/-- the C07 clauses for the children wrappers, on the implementation's own answers -/
def oracleC07 (st : DState) (cur : State) (ws : List String) (impl : String) : List String :=
  let prev := st.v
  let handled := parseHandled impl
  match parseEvs impl with
  | none => ["C07.unparsable-events"]
  | some evs =>
    (match ws with
     | [k, a] =>
       match a.toNat? with
       | some a =>
         if k == "drainkids" || k == "drainkidswait" then
           (if drainKidsOk prev cur a then [] else ["C07.drained-child-not-draining"])
           ++ (if drainKidsReasonsOk prev a evs then [] else ["C07.drained-child-wrong-reason"])
         else if k == "release" then
           -- the actor ended its message loop by itself in this op
           (if cur.status a == .stopped && prev.status a != .stopped && st.drainedF a && !st.stopF a
                && !backlogOk (st.accepted a) (handled a)
            then ["C07.drained-child-dropped-backlog"] else [])
           ++ (if cur.status a == .stopped && prev.status a == .draining && st.drainedF a && !st.stopF a
                && evs.any (fun e => e.1 == a && e.2.2 != .drained)
               then ["C07.drained-child-wrong-reason"] else [])
         else []
       | none => []
     | _ => [])

/-- bookkeeping of what the implementation was asked and answered -/
def track (st : DState) (ws : List String) (ir : String) : DState :=
  let kidsPrev (a : Nat) : List Nat := (st.v.kids a).getD []
  match ws with
  | ["block", a] => match a.toNat? with
    | some a => if ir == "ok" then { st with accepted := upd st.accepted a (st.accepted a + 1) } else st
    | none => st
  | [k, a] => match a.toNat? with
    | some a =>
      if k == "drain" then { st with drainedF := upd st.drainedF a true }
      else if k == "stop" then { st with stopF := upd st.stopF a true }
      else if k == "drainkids" || k == "drainkidswait" then
        { st with drainedF := fun x => st.drainedF x || (kidsPrev a).contains x }
      else if k == "stopkids" || k == "stopkidswait" then
        { st with stopF := fun x => st.stopF x || (kidsPrev a).contains x }
      else st
    | none => st
  | _ => st

/-- the implementation's snapshot as a `Tree.State` (closed and empty child sets look alike) -/
def parseSnapshot? (s : String) : Option (String × State) :=
  match s.splitOn " |" with
  | [r, rest] => do
    let r ← match words r with
      | r0 :: _ => if r0.startsWith "r=" then some (r0.drop 2).toString else none
      | [] => none
    let as ← (words rest).mapM parseActor?
    -- entries must be numbered 0..n-1
    if (as.map (·.1)) != List.range as.length then none else
    let arr := as.toArray
    pure (r, { n := as.length,
               sup := fun i => match arr[i]? with | some a => a.2.2.1 | none => none,
               kids := fun i => match arr[i]? with | some a => some a.2.2.2 | none => some [],
               status := fun i => match arr[i]? with | some a => a.2.1 | none => .unstarted })
  | _ => none

def sameLinks (a b : State) : Bool :=
  a.n == b.n && (List.range a.n).all fun i =>
    a.sup i == b.sup i && (a.kids i).map sortNats == (b.kids i).map sortNats

def oracle (prev cur : State) (mop : MOp) (r : String) : List String :=
  (if ok cur then [] else
      (if linksOk cur then [] else ["C05.ok links"]) ++
      (if stoppedOk cur then [] else ["C05.ok stopped-has-links"]) ++
      (if setsOk cur then [] else ["C05.ok child-set"]))
  ++ (if subtreeOk prev cur then [] else ["C05.subtree-dies"])
  ++ (if gainOk prev cur then [] else ["C05.gain"])
  ++ (match mop with
      | .link c p =>
        if r == "true" then
          (if cur.sup c == some p && ((cur.kids p).getD []).contains c then [] else ["C05.link-true-not-linked"])
        else if r == "false" then
          (if sameLinks prev cur then [] else ["C05.link-false-changed"])
        else ["C05.link-result"]
      | .unlink c p =>
        -- a stale unlink (`p` is not the child's supervisor) changes nothing
        if prev.sup c != some p && !sameLinks prev cur then ["C05.stale-unlink-changed"] else []
      | .spawnlt _ _ =>
        if r == "ok" || r == "err" then [] else ["C05.spawn-result"]
      | .spawnl p =>
        let c := prev.n
        if r == "ok" then
          (if cur.sup c == some p && ((cur.kids p).getD []).contains c then [] else ["C05.spawn-ok-not-linked"])
        else if r == "err" then
          (if cur.status c == .stopped then [] else ["C05.spawn-err-not-stopped"])
        else ["C05.spawn-result"]
      | _ => [])

/-! E-THR: `race cause=<c> nc=<n> kind=<link|spawnl> j=<j>`
observation `res=<true|false|ok|err> at=<point> | <snapshot>` -/

structure Race where
  cause : String
  nc : Nat
  chain : Bool
  tgt : Nat
  spawnl : Bool
  kind : String := "link"
  j : Nat

def parseRace? (ws : List String) : Option Race := do
  let get (k : String) : Option String :=
    (ws.find? (·.startsWith (k ++ "="))).map (fun w => (w.drop (k.length + 1)).toString)
  pure { cause := ← get "cause", nc := ← (← get "nc").toNat?, chain := (get "shape") == some "chain",
         tgt := ((get "tgt").bind (·.toNat?)).getD 0,
         spawnl := (← get "kind") == "spawnl", kind := ← get "kind", j := ← (← get "j").toNat? }

/-- what of the supervisor's exit has been executed, read off the names of the schedule points
that started the executed regions: worklist visits (`tree.take`), the first `status.publish`
(Stopping), `cleanup.unlink`, the `status.publish` after `cleanup.stopped` (Stopped).  `beyond`: the
children's own exits have begun (no mid-exit comparison there). -/
structure Progress where
  visits : Nat := 0
  pub : Bool := false
  detach : Bool := false
  seenCleanupStopped : Bool := false
  stopped : Bool := false
  beyond : Bool := false

def progressOf (pts : List String) : Progress :=
  pts.foldl (fun (g : Progress) name =>
    if g.stopped then
      (if name == "tree.take" || name == "status.publish" || name.startsWith "cleanup." then { g with beyond := true } else g)
    else if name == "tree.take" then { g with visits := g.visits + 1 }
    else if name == "status.publish" then
      (if !g.pub then { g with pub := true } else if g.seenCleanupStopped then { g with stopped := true } else g)
    else if name == "cleanup.unlink" then { g with detach := true }
    else if name == "cleanup.stopped" then { g with seenCleanupStopped := true }
    else g) {}

/-- number of machine steps that correspond to the executed regions (silent steps are taken eagerly) -/
def stepsFor (kill : Bool) (s : State) (a : Nat) (g : Progress) : Nat := Id.run do
  let mut x := xinit kill a s
  let mut g := g
  let mut k := 0
  for _ in [0:4 * s.n + 32] do
    let go ← match x.pc with
      | .pre [] => pure true
      | .pre (_ :: _) => if g.visits > 0 then do g := { g with visits := g.visits - 1 }; pure true else pure false
      | .pub => if g.pub then do g := { g with pub := false }; pure true else pure false
      | .loop [] => pure (g.detach || g.visits > 0 || g.stopped)
      | .loop (_ :: _) => if g.visits > 0 then do g := { g with visits := g.visits - 1 }; pure true else pure false
      | .detach => if g.detach then do g := { g with detach := false }; pure true else pure false
      | .publishStopped => if g.stopped then do g := { g with stopped := false }; pure true else pure false
      | .done => pure false
    if go then
      x := xstep codeFixed a x
      k := k + 1
  return k

/-! round 4: the same race through the concurrent machines of `Model/TreeConc.lean` (kill test and
`take_children` as separate steps; the supervisor's machine and, afterwards, the machines of every actor
that was sent the kill signal, round-robin) -/

/-- the model keeps its maps as functions; tabulate them after every step so that a lookup does not walk
(and, for the program counters, re-evaluate) the whole history of closures -/
def normC (g : CState) : CState :=
  let n := g.t.n + 1
  let sup := (Array.range n).map g.t.sup
  let kids := (Array.range n).map g.t.kids
  let status := (Array.range n).map g.t.status
  let killed := (Array.range n).map g.t.killed
  let pc := (Array.range n).map g.pc
  { t := { n := g.t.n, sup := fun x => (sup[x]?).getD none, kids := fun x => (kids[x]?).getD (some []),
           status := fun x => (status[x]?).getD .unstarted, killed := fun x => (killed[x]?).getD false },
    pc := fun x => (pc[x]?).getD .idle }

def cstepN (g : CState) (op : COp) : CState := normC (cstep g op)

/-- `k` steps of the one-machine model = that many statements of machine `a` of the concurrent model -/
def concSteps (a : Nat) : Nat → X → CState → X × CState
  | 0, x, g => (x, g)
  | k + 1, x, g =>
    let n := match x.pc with
      | .pre (_ :: _) => 2 | .loop (_ :: _) => 2 | .detach => 2 | _ => 1
    concSteps a k (xstep codeFixed a x) ((List.replicate n (COp.xstep a)).foldl cstepN g)

/-- run machine `a` to its end -/
def concFinish (a : Nat) : Nat → CState → CState
  | 0, g => g
  | f + 1, g => if g.pc a == .done || g.pc a == .idle then g else concFinish a f (cstepN g (.xstep a))

/-- everybody who was sent the kill signal takes it; all machines run round-robin, until rest -/
def concSettle : Nat → CState → CState
  | 0, g => g
  | f + 1, g =>
    let ids := List.range g.t.n
    let g1 := ids.foldl (fun g x => if g.t.killed x && g.pc x == .idle then cstepN g (.begin x true) else g) g
    let busy := ids.filter (fun x => !(g1.pc x == .done || g1.pc x == .idle))
    if busy.isEmpty then g1 else concSettle f (busy.foldl (fun g x => cstepN g (.xstep x)) g1)

def concRace (kill : Bool) (s3 : State) (k : Nat) (racer : COp) (after : CState → CState) : State :=
  let g0 := cstepN ⟨s3, fun _ => .idle⟩ (.begin 0 kill)
  let (_, g1) := concSteps 0 k (xinit kill 0 s3) g0
  -- the schedule point `tree.take` sits between the kill test and `take_children`
  let g1 := match g1.pc 0 with | .term _ (_ :: _) none => cstepN g1 (.xstep 0) | _ => g1
  let g2 := cstepN g1 racer
  let g3 := concFinish 0 (8 * s3.n + 64) g2
  (concSettle (8 * s3.n + 64) (after g3)).t

/-- the model's prediction for one race case: result, mid-exit state, final state -/
def raceModel (r : Race) (pts : List String) : MState × String × Nat × State × Bool × State :=
  -- supervisor 0, children 1..nc, then the orphan (link) or the new child in `Starting` (spawn_linked)
  let s0 := setStatus (spawn init) 0 .running
  let s1 := (List.range r.nc).foldl (fun s i =>
    setStatus (link (spawn s) (i + 1) (if r.chain then i else 0)).1 (i + 1) .running) s0
  let d := min r.tgt r.nc
  let c := r.nc + 1
  let s2 := if r.spawnl then spawn s1 else if r.kind == "unlink" then s1 else setStatus (spawn s1) c .running
  let s3 := if r.cause == "drain" then setStatus s2 0 .draining else s2
  let kill := r.cause == "kill"
  let g := progressOf pts
  let k := stepsFor kill s3 0 g
  -- the racer's atomic region: link of the orphan / new child under `d`; relink of child 1 under the extra
  -- root; unlink of child 1 from the exiting supervisor
  let x1 := xrun codeFixed 0 k (xinit kill 0 s3)
  let (mid, x, res) :=
    if r.kind == "relink" then
      let rr := raceRun codeFixed kill s3 0 1 c k (4 * s3.n + 32)
      ((link x1.t 1 c).1, rr.1, rr.2)
    else if r.kind == "unlink" then
      let t2 := unlink x1.t 1 0
      (t2, xrun codeFixed 0 (4 * s3.n + 32) ⟨t2, x1.pc⟩, true)
    else
      let rr := raceRun codeFixed kill s3 0 c d k (4 * s3.n + 32)
      ((link x1.t c d).1, rr.1, rr.2)
  let m0 : MState := { t := x.t, act := upd (fun _ => {}) 0 { gone := true } }
  -- spawn_linked: a refused link fails the spawn (the new cell is cleaned up), an accepted one goes on to Running
  let m1 := if r.spawnl then
      (if res then { m0 with t := setStatus m0.t c .running } else exitM codeFixed m0 c)
    else m0
  let m2 := settle codeFixed m1.t.n m1
  let resS := if r.spawnl then (if res then "ok" else "err") else if r.kind == "unlink" then "unit" else toString res
  let racer : COp := if r.kind == "relink" then .link 1 c else if r.kind == "unlink" then .unlink 1 0 else .link c d
  let conc := concRace kill s3 k racer (fun g =>
    if r.spawnl then (if res then cstepN g (.setStatus c .running) else concFinish c (8 * s3.n + 64) (cstepN g (.begin c false))) else g)
  (m2, resS, c, mid, g.beyond, conc)

def showSnap (t : State) (sep : String) : String :=
  sep.intercalate ((List.range t.n).map fun i => showActor { t := t } i)

def raceStep (r : Race) (impl : String) : StepOut :=
  let field (k : String) : String :=
    match (words impl).find? (·.startsWith (k ++ "=")) with | some w => (w.drop (k.length + 1)).toString | none => "?"
  let pts := if field "pts" == "-" then [] else splitOnChar (field "pts") ','
  let (m, resS, c, mid, beyond, conc) := raceModel r pts
  -- `at`: predicted for position 0 (the first schedule point of the exit), copied otherwise
  let at_ := if r.j == 0 then (if r.cause == "kill" then "tree.take" else
                 if r.cause == "drain" then field "at" else "status.publish") else field "at"
  let midS := if beyond then field "mid" else showSnap mid ";"
  -- the concurrent machines must arrive at the same final tree; if not, show theirs (a DIFF)
  let concS := if showSnap conc " " == showSnap m.t " " then "" else " CONC=" ++ showSnap conc ";"
  let model := s!"res={resS} at={at_} pts={field "pts"} mid={midS} | {showSnap m.t " "}{concS}"
  let orc := match impl.splitOn " |" with
    | [_, rest] =>
      match parseSnapshot? ("r=x |" ++ rest), parseSnapshot? ("r=x | " ++ (field "mid").replace ";" " ") with
      | some (_, cur), some (_, midI) =>
        let ir := field "res"
        (if ok cur then [] else ["C05.ok race-snapshot"])
        -- both threads parked outside the tree lock: the link maps are consistent in the middle of the exit too
        ++ (if linksOk midI && setsOk midI && stoppedOk midI then [] else ["C05.ok mid-exit-snapshot"])
        ++ (if r.kind == "relink" || r.kind == "unlink" || ir == "false" || ir == "err" || cur.status c == .stopped
            then [] else ["C05.race-orphan"])
        -- a child handed over to a healthy supervisor (or unlinked) before the exiting one took its
        -- children must not be taken down by that exit: it is no longer linked beneath it
        ++ (if (r.kind == "relink" && ir == "true" || r.kind == "unlink") && !pts.contains "tree.take" then
              (if cur.status 1 == .running && (r.kind == "unlink" || cur.sup 1 == some c) then []
               else ["C05.killed-by-former-supervisor"])
            else [])
        ++ (if r.kind == "relink" || r.kind == "unlink" then
              (if cur.status 0 == .stopped then [] else ["C05.subtree-dies"])
            else if (List.range (r.nc + 1)).all (fun i => cur.status i == .stopped) then [] else ["C05.subtree-dies"])
        ++ (if ir == "err" && cur.status c != .stopped then ["C05.spawn-err-not-stopped"] else [])
      | _, _ => ["unparsable"]
    | _ => ["unparsable"]
  { model := model, oracle := orc, nontrivial := true }

def step (st : DState) (op impl : String) : DState × StepOut :=
  match (words op).filter (fun w => !w.startsWith "h=") with
  | ["case", _] => ({ onlyC07 := st.onlyC07 }, { model := "ok" })
  | "race" :: ws =>
    match parseRace? ws with
    | some r => (st, raceStep r impl)
    | none => (st, { model := "bad-op" })
  | ws =>
    -- a basic macro op or one of the children wrappers
    let stepd : Option (MState × Res × MOp) :=
      match parseMOp? ws with
      | some mop => let (m', r) := mstep codeFixed st.m mop; some (m', r, mop)
      | none =>
        match ws with
        | [k, cnt, _mode] =>
          -- a parent that links `cnt` children under itself in `pre_start` and then fails to start (Err, panic,
          -- dropped start future; Send or thread-local): the cell, the children, then the lifecycle guard's cleanup
          -- of the parent — nobody is told (`cleanup(None)`, and the parent has no supervisor)
          if k == "spawnpre" || k == "spawnpret" then
            let p := st.m.t.n
            let ops : List MOp := [.spawn] ++ List.replicate (cnt.toNat?.getD 0) (.spawnl p) ++ [.abort p]
            some (mrun codeFixed st.m ops, Res.err, MOp.hold 0)
          else none
        | _ => (parseKOp? ws).map fun k => (kstep codeFixed st.m k, Res.unit, MOp.hold 0)
    match stepd with
    | none => (st, { model := "bad-op" })
    | some (m', r, mop) =>
      let obs := observe st.m m' r
      match parseSnapshot? impl with
      | none => ({ st with m := m' }, { model := obs, oracle := ["unparsable"] })
      | some (ir, cur) =>
        let c07 := oracleC07 st cur ws impl
        -- a failed start takes the subtree it had built: everybody this op created is Stopped
        let pre : Bool := match ws with
          | k :: _ => (k == "spawnpre" || k == "spawnpret") &&
              !((List.range cur.n).all (fun i => i < st.v.n || cur.status i == .stopped))
          | [] => false
        let orc := if st.onlyC07 then c07 else oracle st.v cur mop ir ++ c07 ++ (if pre then ["C05.failed-start-left-subtree"] else [])
        -- non-trivial: an exit that took at least one other actor with it, a refused link / spawn,
        -- a relink, a children wrapper that had somebody to act on
        let stoppedBefore := (List.range st.m.t.n).countP (fun i => st.m.t.status i == .stopped)
        let stoppedAfter := (List.range m'.t.n).countP (fun i => m'.t.status i == .stopped)
        let nt := stoppedAfter ≥ stoppedBefore + 2 || r == .ff || r == .err ||
          (match mop with
           | .link c _ => (st.m.t.sup c).isSome && r == .tt
           | _ => false) ||
          (match parseKOp? ws with
           | some (.stopKids a) | some (.drainKids a) | some (.stopKidsWait a) | some (.drainKidsWait a) =>
             !(kidsOf st.m a).isEmpty
           | none => false)
        let st' := track st ws ir
        ({ st' with m := m', v := cur },
         { model := if st.onlyC07 then impl else obs, oracle := orc, nontrivial := nt })

def run (ops impl : Array String) : IO Tally :=
  replay ({} : DState) step ops impl

/-- the same engine judged by the C07 clauses only (registered under C07) -/
def runC07 (ops impl : Array String) : IO Tally :=
  replay ({ onlyC07 := true } : DState) (fun st op impl =>
    let (st', out) := step st op impl
    ({ st' with onlyC07 := true }, out)) ops impl

end Driver.C05
