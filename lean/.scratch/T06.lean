import RactorModel.Lemmas.GenAdmission
import RactorModel.Model.ExitRace
namespace C06
section XlateTie
open Generated.Admission

/-- the condition under which `ActorCell::set_status` runs the registry/pg cleanup
(model: the election at pc `publish`). -/
theorem generated_set_status_cleanup_condition_eq_model (enq : Except MessagingErr Unit) (s prev : ActorStatus) :
    ActorCell.set_status_runs_cleanup enq s prev
      = (decide (s.toNat ≥ ExitRace.stStopping) && decide (prev.toNat < ExitRace.stStopping)) := by
  cases s <;> cases prev <;> rfl

/-- the condition under which `ActorCell::set_status` notifies the stop listeners. -/
theorem generated_set_status_notify_condition_eq_model (enq : Except MessagingErr Unit) (s prev : ActorStatus) :
    ActorCell.set_status_notifies enq s prev
      = (s.toNat == ExitRace.stStopped && decide (prev.toNat < ExitRace.stStopped)) := by
  cases s <;> cases prev <;> rfl
end XlateTie
end C06
