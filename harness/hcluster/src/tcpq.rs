//! Real loopback TCP support shared by the cluster harnesses (`--tcp 1` of c17 / c18e2e / c20).
//!
//! Free-running sockets are nondeterministic; the harnesses nevertheless need "everything that was
//! sent has been received and handled" as an OBSERVABLE condition (never sleep-and-hope). Every
//! TCP connection of a `--tcp` run has BOTH ends inside this process (harness peer <-> node,
//! node <-> harness relay), so the kernel itself can be asked:
//!
//!   * `snapshot()` walks the process' file descriptors; for every connected TCP socket it reads
//!     `TCP_INFO` (state, bytes_acked / bytes_received, notsent_bytes, bytes_sent) and `FIONREAD`;
//!     sockets are paired by (local, peer) address. The kernel is *quiet* when every socket's receive
//!     queue is empty (its owner has read everything that arrived), nothing is unsent, for every
//!     in-process pair `bytes_sent(S) = bytes_received(P)` (nothing in flight on the loopback), and
//!     no socket is in a transient state (SYN_SENT / SYN_RECV / FIN_WAIT1 / CLOSING / LAST_ACK: a
//!     handshake or a FIN in flight).
//!   * `settle()` alternates "runtime idle" rounds (on the paused-clock current-thread runtime
//!     `sleep(1ms)` returns only when no task is runnable, and parking polls the I/O driver) with
//!     kernel snapshots until two consecutive snapshots are quiet and carry the same byte counters.
//!     Waiting for the kernel is REAL time (`std::thread::sleep`, escalating), bounded by a generous
//!     deadline; a deadline miss is counted (`TIMEOUTS`) and reported in stats.json, never silent.
//!
//! Also here: blocking `dial` (the handshake is complete when it returns), `accept_one`, RST close,
//! and the set of listening ports of the process (how a node's OS-chosen port is learnt).

#![allow(dead_code)]

use std::os::fd::RawFd;
use std::sync::atomic::{AtomicU64, Ordering};
use std::time::{Duration, Instant};

/// Strict mode (two-node engines: every connection has both ends in this process): an ESTABLISHED
/// socket whose peer socket is no longer among our descriptors is waiting for a FIN or RST that is
/// still on its way - not quiet.
pub static STRICT: std::sync::atomic::AtomicBool = std::sync::atomic::AtomicBool::new(false);
pub static TIMEOUTS: AtomicU64 = AtomicU64::new(0);
pub static SETTLES: AtomicU64 = AtomicU64::new(0);
pub static ROUNDS: AtomicU64 = AtomicU64::new(0);

#[derive(Clone, Copy, PartialEq, Eq, Debug, Default)]
pub struct Snap {
    pub quiet: bool,
    /// sum over all sockets of bytes received, plus 2^40 per socket (changes whenever anything moved)
    pub counter: u64,
    pub socks: usize,
}

#[derive(Clone, Debug)]
struct Sock {
    local: (Vec<u8>, u16),
    peer: (Vec<u8>, u16),
    state: u8,
    inq: u64,
    notsent: u64,
    /// segments sent and not yet acknowledged (tcpi_unacked)
    unacked: u64,
    sent: Option<u64>,
    acked: u64,
    received: u64,
}

fn norm(ss: &libc::sockaddr_storage) -> Option<(Vec<u8>, u16)> {
    unsafe {
        match ss.ss_family as i32 {
            libc::AF_INET => {
                let a = &*(ss as *const _ as *const libc::sockaddr_in);
                Some((a.sin_addr.s_addr.to_ne_bytes().to_vec(), u16::from_be(a.sin_port)))
            }
            libc::AF_INET6 => {
                let a = &*(ss as *const _ as *const libc::sockaddr_in6);
                let b = a.sin6_addr.s6_addr;
                let ip = if b[..10] == [0; 10] && b[10] == 0xff && b[11] == 0xff { b[12..].to_vec() } else { b.to_vec() };
                Some((ip, u16::from_be(a.sin6_port)))
            }
            _ => None,
        }
    }
}

fn max_fd() -> RawFd {
    static LAST: std::sync::atomic::AtomicI32 = std::sync::atomic::AtomicI32::new(64);
    let mut m = 64;
    match std::fs::read_dir("/proc/self/fd") {
        Ok(rd) => {
            for e in rd.flatten() {
                if let Some(n) = e.file_name().to_str().and_then(|s| s.parse::<RawFd>().ok()) {
                    m = m.max(n);
                }
            }
            LAST.store(m, Ordering::Relaxed);
        }
        // out of descriptors (see `exhaust_fds`): what was seen last
        Err(_) => m = LAST.load(Ordering::Relaxed),
    }
    m
}

/// While this guard lives the process cannot get a new file descriptor: RLIMIT_NOFILE is lowered to the
/// highest open descriptor + 1 and every hole below is filled with duplicates of fd 0 - so `accept()`
/// on a listener with a pending connection fails with EMFILE (a real accept error on a healthy
/// loopback). Dropping it closes the duplicates and restores the limit.
pub struct FdExhaust {
    old: libc::rlimit,
    dups: Vec<RawFd>,
}

pub fn exhaust_fds() -> Option<FdExhaust> {
    unsafe {
        let mut old: libc::rlimit = std::mem::zeroed();
        if libc::getrlimit(libc::RLIMIT_NOFILE, &mut old) != 0 {
            return None;
        }
        let m = max_fd();
        let new = libc::rlimit { rlim_cur: (m + 1) as libc::rlim_t, rlim_max: old.rlim_max };
        if libc::setrlimit(libc::RLIMIT_NOFILE, &new) != 0 {
            return None;
        }
        let mut dups = Vec::new();
        loop {
            let d = libc::dup(0);
            if d < 0 {
                break;
            }
            dups.push(d);
        }
        Some(FdExhaust { old, dups })
    }
}

impl Drop for FdExhaust {
    fn drop(&mut self) {
        unsafe {
            for d in self.dups.drain(..) {
                libc::close(d);
            }
            libc::setrlimit(libc::RLIMIT_NOFILE, &self.old);
        }
    }
}

fn is_stream_socket(fd: RawFd) -> bool {
    let mut ty: libc::c_int = 0;
    let mut len = std::mem::size_of::<libc::c_int>() as libc::socklen_t;
    let r = unsafe { libc::getsockopt(fd, libc::SOL_SOCKET, libc::SO_TYPE, &mut ty as *mut _ as *mut libc::c_void, &mut len) };
    r == 0 && ty == libc::SOCK_STREAM
}

fn addr_of(fd: RawFd, peer: bool) -> Option<(Vec<u8>, u16)> {
    let mut ss: libc::sockaddr_storage = unsafe { std::mem::zeroed() };
    let mut len = std::mem::size_of::<libc::sockaddr_storage>() as libc::socklen_t;
    let r = unsafe {
        if peer {
            libc::getpeername(fd, &mut ss as *mut _ as *mut libc::sockaddr, &mut len)
        } else {
            libc::getsockname(fd, &mut ss as *mut _ as *mut libc::sockaddr, &mut len)
        }
    };
    if r != 0 {
        return None;
    }
    norm(&ss)
}

fn u32_at(b: &[u8], o: usize) -> u64 {
    u32::from_ne_bytes(b[o..o + 4].try_into().unwrap()) as u64
}
fn u64_at(b: &[u8], o: usize) -> u64 {
    u64::from_ne_bytes(b[o..o + 8].try_into().unwrap())
}

fn sock(fd: RawFd) -> Option<Sock> {
    if !is_stream_socket(fd) {
        return None;
    }
    let local = addr_of(fd, false)?;
    let peer = addr_of(fd, true)?; // listening / unconnected sockets have no peer
    // struct tcp_info (linux/tcp.h): state @0, bytes_acked @120, bytes_received @128,
    // notsent_bytes @144, bytes_sent @200
    let mut info = [0u8; 256];
    let mut len = info.len() as libc::socklen_t;
    let r = unsafe { libc::getsockopt(fd, libc::IPPROTO_TCP, libc::TCP_INFO, info.as_mut_ptr() as *mut libc::c_void, &mut len) };
    if r != 0 || (len as usize) < 148 {
        return None;
    }
    let mut inq: libc::c_int = 0;
    unsafe {
        libc::ioctl(fd, libc::FIONREAD, &mut inq);
    }
    Some(Sock {
        local,
        peer,
        state: info[0],
        inq: inq.max(0) as u64,
        notsent: u32_at(&info, 144),
        unacked: u32_at(&info, 24),
        // bytes_sent counts retransmitted bytes again (a loaded machine does retransmit on loopback:
        // the ACK comes later than the 200 ms minimum RTO): take bytes_retrans @208 off
        sent: if len as usize >= 216 { Some(u64_at(&info, 200).saturating_sub(u64_at(&info, 208))) } else { None },
        acked: u64_at(&info, 120),
        received: u64_at(&info, 128),
    })
}

fn all_socks() -> Vec<Sock> {
    (0..=max_fd()).filter_map(sock).collect()
}

/// Ports on which this process listens (TCP).
pub fn listening_ports() -> Vec<u16> {
    let mut v = Vec::new();
    for fd in 0..=max_fd() {
        if !is_stream_socket(fd) {
            continue;
        }
        let mut acc: libc::c_int = 0;
        let mut len = std::mem::size_of::<libc::c_int>() as libc::socklen_t;
        let r = unsafe { libc::getsockopt(fd, libc::SOL_SOCKET, libc::SO_ACCEPTCONN, &mut acc as *mut _ as *mut libc::c_void, &mut len) };
        if r == 0 && acc != 0 {
            if let Some((_, p)) = addr_of(fd, false) {
                v.push(p);
            }
        }
    }
    v.sort_unstable();
    v.dedup();
    v
}

pub fn snapshot() -> Snap {
    let socks = all_socks();
    let mut quiet = true;
    let mut counter = 0u64;
    for s in &socks {
        counter = counter.wrapping_add(s.received).wrapping_add(1 << 40);
        // 2 SYN_SENT, 3 SYN_RECV, 4 FIN_WAIT1, 9 LAST_ACK, 11 CLOSING
        if s.inq != 0 || s.notsent != 0 || matches!(s.state, 2 | 3 | 4 | 9 | 11) {
            quiet = false;
        }
        let pair = socks.iter().find(|p| p.local == s.peer && p.peer == s.local);
        if pair.is_none() && s.state == 1 && STRICT.load(Ordering::Relaxed) {
            quiet = false;
        }
        if let Some(p) = pair {
            match s.sent {
                Some(sent) => {
                    // a FIN takes one sequence number and is counted by the receiver
                    // (or everything sent has been acknowledged: certainly received - the slower test,
                    // delayed ACKs, but immune to any quirk of the byte counters)
                    if sent != p.received && sent + 1 != p.received && s.unacked != 0 {
                        quiet = false;
                    }
                }
                None => {
                    // old kernel: fall back on acknowledged bytes (delayed ACKs make this slower, not wrong)
                    if s.acked.abs_diff(p.received) > 1 {
                        quiet = false;
                    }
                }
            }
        }
    }
    Snap { quiet, counter, socks: socks.len() }
}

/// TCP state (1 = ESTABLISHED, 8 = CLOSE_WAIT, 7 = CLOSE, ...) of the socket of this process whose
/// local / peer ports are these; None when there is no such socket (any more).
pub fn sock_state(local_port: u16, peer_port: u16) -> Option<u8> {
    all_socks().into_iter().find(|s| s.local.1 == local_port && s.peer.1 == peer_port).map(|s| s.state)
}

/// One "runtime idle" round: on the paused-clock current-thread runtime this returns only after
/// every runnable task has run until none is runnable, and the park in between polls the I/O driver.
/// Two rounds: the first park delivers pending I/O events, the second lets the woken tasks finish.
pub async fn idle_rounds() {
    tokio::time::sleep(Duration::from_millis(1)).await;
    tokio::time::sleep(Duration::from_millis(1)).await;
}

/// Wait (real time, bounded) until `cond` holds; between tests the runtime runs to idle.
pub async fn wait_until(mut cond: impl FnMut() -> bool, secs: u64) -> bool {
    let start = Instant::now();
    let mut back = 20u64;
    loop {
        if cond() {
            return true;
        }
        let limit = match TIMEOUTS.load(Ordering::Relaxed) {
            0 => Duration::from_secs(secs),
            1..=2 => Duration::from_secs(secs.min(2)),
            _ => Duration::from_millis(100),
        };
        if start.elapsed() > limit {
            TIMEOUTS.fetch_add(1, Ordering::Relaxed);
            return false;
        }
        idle_rounds().await;
        if cond() {
            return true;
        }
        std::thread::sleep(Duration::from_micros(back));
        back = (back * 2).min(2000);
    }
}

/// Kernel quiet and runtime idle, twice in a row with unchanged byte counters. `extra` lets the
/// caller veto (e.g. "a gated task is runnable"). Returns false on deadline.
pub async fn settle_with(mut busy: impl FnMut() -> bool) -> bool {
    SETTLES.fetch_add(1, Ordering::Relaxed);
    let start = Instant::now();
    let mut back = 20u64;
    let mut prev: Option<Snap> = None;
    loop {
        ROUNDS.fetch_add(1, Ordering::Relaxed);
        idle_rounds().await;
        if busy() {
            return false;
        }
        let s = snapshot();
        if s.quiet {
            if prev == Some(s) {
                return true;
            }
            prev = Some(s);
            continue;
        }
        prev = None;
        if std::env::var("TCPQ_DEBUG").is_ok() && start.elapsed() > Duration::from_millis(300) {
            for s in all_socks() {
                eprintln!("tcpq: slow settle {:?}; {s:?}", start.elapsed());
            }
        }
        // generous while the run is healthy; once deadlines have been missed the run is anomalous anyway
        // (a dead listener, a reader that stopped reading): go on quickly so that the ops that show it get
        // recorded and judged instead of the harness crawling
        let limit = match TIMEOUTS.load(Ordering::Relaxed) {
            0 => Duration::from_secs(20),
            1..=2 => Duration::from_secs(2),
            _ => Duration::from_millis(100),
        };
        if start.elapsed() > limit {
            TIMEOUTS.fetch_add(1, Ordering::Relaxed);
            if std::env::var("TCPQ_DEBUG").is_ok() {
                for s in all_socks() {
                    eprintln!("tcpq: settle deadline; {s:?}");
                }
            }
            return true;
        }
        std::thread::sleep(Duration::from_micros(back));
        back = (back * 2).min(2000);
    }
}

pub async fn settle() {
    settle_with(|| false).await;
}

/// Blocking connect to 127.0.0.1:port: the three-way handshake is complete when this returns
/// (the connection sits in the listener's accept queue).
pub fn dial(port: u16) -> std::io::Result<tokio::net::TcpStream> {
    let s = std::net::TcpStream::connect(("127.0.0.1", port))?;
    s.set_nodelay(true)?;
    s.set_nonblocking(true)?;
    tokio::net::TcpStream::from_std(s)
}

/// Every relayed link of a run gets its own loopback address 127.(1+).x.y (all of 127/8 is local):
/// the nodes' sessions name a connection by the peer's socket address, and ports are re-used by
/// the kernel once a connection is gone, addresses chosen here are not.
pub fn link_ip(g: u32) -> [u8; 4] {
    [127, 1 + ((g >> 16) as u8 & 0x3f), (g >> 8) as u8, g as u8]
}

/// inverse of `link_ip` on a session's `peer_addr` ("127.1.0.5:4242" / "[::ffff:127.1.0.5]:4242")
pub fn link_of(addr: &str) -> Option<u32> {
    let i = addr.find("127.")?;
    let rest = &addr[i..];
    let end = rest.find(|c: char| !(c.is_ascii_digit() || c == '.')).unwrap_or(rest.len());
    let parts: Vec<u32> = rest[..end].split('.').filter_map(|x| x.parse().ok()).collect();
    if parts.len() != 4 || parts[1] == 0 {
        return None;
    }
    Some(((parts[1] - 1) << 16) | (parts[2] << 8) | parts[3])
}

pub fn listen_on(ip: [u8; 4]) -> std::io::Result<(std::net::TcpListener, u16)> {
    let l = std::net::TcpListener::bind((std::net::Ipv4Addr::from(ip), 0))?;
    l.set_nonblocking(true)?;
    let p = l.local_addr()?.port();
    Ok((l, p))
}

/// Blocking connect from source address `ip` (port chosen by the OS) to 127.0.0.1:port.
pub fn dial_from(ip: [u8; 4], port: u16) -> std::io::Result<tokio::net::TcpStream> {
    use std::os::fd::FromRawFd;
    unsafe {
        let fd = libc::socket(libc::AF_INET, libc::SOCK_STREAM | libc::SOCK_CLOEXEC, 0);
        if fd < 0 {
            return Err(std::io::Error::last_os_error());
        }
        let s = std::net::TcpStream::from_raw_fd(fd); // closes on every error path
        let mut a: libc::sockaddr_in = std::mem::zeroed();
        a.sin_family = libc::AF_INET as libc::sa_family_t;
        a.sin_addr.s_addr = u32::from_ne_bytes(ip);
        a.sin_port = 0;
        if libc::bind(fd, &a as *const _ as *const libc::sockaddr, std::mem::size_of::<libc::sockaddr_in>() as libc::socklen_t) != 0 {
            return Err(std::io::Error::last_os_error());
        }
        a.sin_addr.s_addr = u32::from_ne_bytes([127, 0, 0, 1]);
        a.sin_port = port.to_be();
        if libc::connect(fd, &a as *const _ as *const libc::sockaddr, std::mem::size_of::<libc::sockaddr_in>() as libc::socklen_t) != 0 {
            return Err(std::io::Error::last_os_error());
        }
        s.set_nodelay(true)?;
        s.set_nonblocking(true)?;
        tokio::net::TcpStream::from_std(s)
    }
}

/// A harness-side listener on 127.0.0.1 with an OS-chosen port.
pub fn listen() -> std::io::Result<(std::net::TcpListener, u16)> {
    let l = std::net::TcpListener::bind("127.0.0.1:0")?;
    l.set_nonblocking(true)?;
    let p = l.local_addr()?.port();
    Ok((l, p))
}

/// Accept one connection (event-driven: waits until one is there, bounded).
pub async fn accept_one(l: &std::net::TcpListener, secs: u64) -> Option<tokio::net::TcpStream> {
    let mut got = None;
    wait_until(
        || match l.accept() {
            Ok((s, _)) => {
                got = Some(s);
                true
            }
            Err(_) => false,
        },
        secs,
    )
    .await;
    let s = got?;
    s.set_nodelay(true).ok()?;
    s.set_nonblocking(true).ok()?;
    tokio::net::TcpStream::from_std(s).ok()
}

/// Make the next close of this socket an abortive one (RST instead of FIN).
pub fn set_reset_on_close(fd: RawFd) {
    let l = libc::linger { l_onoff: 1, l_linger: 0 };
    unsafe {
        libc::setsockopt(fd, libc::SOL_SOCKET, libc::SO_LINGER, &l as *const _ as *const libc::c_void, std::mem::size_of::<libc::linger>() as libc::socklen_t);
    }
}

pub fn port_of(addr: &str) -> Option<u16> {
    addr.rsplit(':').next()?.parse().ok()
}

pub fn stats(st: &mut hutil::Stats) {
    st.add("tcp_settles", SETTLES.load(Ordering::Relaxed));
    st.add("tcp_settle_rounds", ROUNDS.load(Ordering::Relaxed));
    st.add("tcp_settle_timeouts", TIMEOUTS.load(Ordering::Relaxed));
}
