import RactorModel.Lemmas.PidRegistryInv

/-! The oracle clauses of `Model/PidRegistry.lean` (`failingStep`, `failingHist`) never fail on the
model: what the driver evaluates on the implementation's observations is what is proved here. -/

namespace PidRegistry

theorem sameElems_of_iff {l₁ l₂ : List Nat} (h : ∀ a, a ∈ l₁ ↔ a ∈ l₂) : sameElems l₁ l₂ = true := by
  simp only [sameElems, Bool.and_eq_true, List.all_eq_true, List.contains_eq_mem, decide_eq_true_eq]
  exact ⟨fun a ha => (h a).mp ha, fun a ha => (h a).mpr ha⟩

theorem nodup_map_ev {l : List Nat} (h : l.Nodup) (b : Bool) (a : Nat) :
    (l.map (fun m => (⟨m, b, a⟩ : Ev))).Nodup := by
  unfold List.Nodup at *
  rw [List.pairwise_map]
  exact h.imp (fun hne heq => hne (by injection heq))

theorem events_nodup {s : State} (h : s.mons.Nodup) (op : Op) : (events s op).Nodup := by
  cases op with
  | spawn a =>
    simp only [events]
    split
    · exact List.nodup_nil
    · exact nodup_map_ev h _ _
  | exitBegin a =>
    simp only [events]
    split
    · exact List.nodup_nil
    · split
      · exact nodup_map_ev (List.Nodup.sublist List.filter_sublist h) _ _
      · exact List.nodup_nil
  | remote a => exact List.nodup_nil
  | exitEnd a => exact List.nodup_nil
  | monitor m => exact List.nodup_nil
  | demonitor m => exact List.nodup_nil
  | getAll => exact List.nodup_nil
  | whereIs a => exact List.nodup_nil

theorem delivered_nodup {s : State} (h : s.mons.Nodup) (op : Op) : (delivered s op).Nodup :=
  List.Nodup.sublist List.filter_sublist (events_nodup h op)

theorem vLiveLocal_iff (s : State) (a : Nat) : vLiveLocal (view s) a = true ↔ a ∈ liveLocals s := by
  rw [mem_liveLocals]
  simp only [vLiveLocal, view, List.any_eq_true, Bool.and_eq_true, beq_iff_eq, Bool.not_eq_true']
  constructor
  · rintro ⟨x, hx, ⟨hid, hr⟩, hp⟩; exact ⟨x, hx, hid, hr, hp⟩
  · rintro ⟨x, hx, hid, hr, hp⟩; exact ⟨x, hx, ⟨hid, hr⟩, hp⟩

theorem liveLocals_known {s : State} {a : Nat} (h : a ∈ liveLocals s) : known s a = true := by
  obtain ⟨x, hx, hid, _⟩ := mem_liveLocals.mp h
  simp only [known, List.any_eq_true, beq_iff_eq]
  exact ⟨x, hx, hid⟩

/-- the events the oracle expects from the view before the op are exactly the model's delivered events -/
theorem expected_eq_delivered {s : State} (h : Inv s) (op : Op) :
    expected (view s) op = delivered s op := by
  have hal : vAlive (view s) = alive s := rfl
  cases op with
  | spawn a =>
    simp only [expected, delivered, events]
    have : vKnown (view s) a = known s a := rfl
    rw [this]
    cases known s a
    · simp only [Bool.false_eq_true, ↓reduceIte, List.filter_map, hal]
      rfl
    · simp
  | exitBegin a =>
    simp only [expected, delivered, events]
    cases hx : getA s a with
    | none =>
      have : vLiveLocal (view s) a = false := by
        rw [Bool.eq_false_iff]; intro hh
        have := liveLocals_known ((vLiveLocal_iff s a).mp hh)
        rw [getA_none_known hx] at this; cases this
      simp [this]
    | some x =>
      simp only
      by_cases hc : x.phase = 0 ∧ x.remote = false ∧ a ∈ s.pids
      · have : vLiveLocal (view s) a = true := by
          rw [vLiveLocal_iff, ← h.pids]; exact hc.2.2
        simp only [this, ↓reduceIte, hc, and_self, List.filter_map, hal]
        rfl
      · have : vLiveLocal (view s) a = false := by
          rw [Bool.eq_false_iff]; intro hh
          rw [vLiveLocal_iff] at hh
          have h2 := (mem_liveLocals_getA h.ids hx).mp hh
          exact hc ⟨h2.2, h2.1, by rw [h.pids]; exact hh⟩
        simp [this, hc]
  | remote a => rfl
  | exitEnd a => rfl
  | monitor m => rfl
  | demonitor m => rfl
  | getAll => rfl
  | whereIs a => rfl

theorem found_iff {s : State} (h : Inv s) (a : Nat) : a ∈ (view s).found ↔ a ∈ s.pids := by
  simp only [view, List.mem_filter, whereIsPid]
  constructor
  · rintro ⟨_, hw⟩
    split at hw
    · simp only [Bool.and_eq_true, List.contains_eq_mem, decide_eq_true_eq] at hw; exact hw.2
    · cases hw
  · intro hp
    have hl : a ∈ liveLocals s := by rw [← h.pids]; exact hp
    have hk := liveLocals_known hl
    refine ⟨(known_iff s a).mp hk, ?_⟩
    cases hx : getA s a with
    | none => rw [getA_none_known hx] at hk; cases hk
    | some x =>
      have := (mem_liveLocals_getA h.ids hx).mp hl
      simp [this.1, hp]

/-- the subject of an event is a local actor of the state after the op -/
theorem events_local {s : State} {op : Op} {e : Ev} (h : e ∈ events s op) :
    ∃ x ∈ (step s op).actors, x.id = e.who ∧ x.remote = false := by
  rcases mem_events h with ⟨_, hop, hk, _⟩ | ⟨_, hop, _, _, _, x, hx, hph, hr⟩
  · rw [hop]
    simp only [step, hk, Bool.false_eq_true, ↓reduceIte]
    exact ⟨⟨e.who, false, 0⟩, by simp, rfl, rfl⟩
  · rw [hop]
    simp only [step, hx, hph, ne_eq, not_true_eq_false, ↓reduceIte]
    refine ⟨{ x with phase := 1 }, ?_, (show x.id = e.who from getA_id hx), hr⟩
    simp only [setPhase, List.mem_map]
    exact ⟨x, getA_mem hx, by simp [getA_id hx]⟩

theorem alive_getA {s : State} (h : Inv s) {a : Nat} (ha : alive s a = true) :
    ∃ x, getA s a = some x ∧ x.phase = 0 := by
  simp only [alive, List.any_eq_true, Bool.and_eq_true, beq_iff_eq] at ha
  obtain ⟨y, hy, hid, hp⟩ := ha
  cases hx : getA s a with
  | none =>
    have := getA_none_known hx
    simp only [known, Bool.eq_false_iff, ne_eq, List.any_eq_true, beq_iff_eq, not_exists, not_and] at this
    exact absurd hid (this y hy)
  | some x =>
    have : y = x := unique_of_nodup h.ids hy (getA_mem hx) (by rw [hid, getA_id hx])
    subst this; exact ⟨y, rfl, hp⟩

/-- The oracle of one step never fails on a reachable model state. -/
theorem failingStep_nil {s : State} (h : Inv s) (op : Op) :
    failingStep (view s) op (view (step s op)) (delivered s op) = [] := by
  have h' := inv_step h op
  have c1 : (sameElems (view (step s op)).pids (vLiveLocals (view (step s op))) &&
      decide (view (step s op)).pids.Nodup) = true := by
    have e : vLiveLocals (view (step s op)) = liveLocals (step s op) := rfl
    have e2 : (view (step s op)).pids = liveLocals (step s op) := h'.pids
    rw [e, e2, Bool.and_eq_true]
    exact ⟨sameElems_of_iff (fun _ => Iff.rfl), by simpa using liveLocals_nodup h'.ids⟩
  have c2 : sameElems (view (step s op)).found (view (step s op)).pids = true :=
    sameElems_of_iff (fun a => found_iff h' a)
  have c3 : (delivered s op).all
      (fun e => !vRemote (view (step s op)) e.who && vLocal (view (step s op)) e.who) = true := by
    rw [List.all_eq_true]
    intro e he
    obtain ⟨x, hx, hid, hr⟩ := events_local (List.mem_filter.mp he).1
    simp only [Bool.and_eq_true, Bool.not_eq_true', vRemote, vLocal, view, List.any_eq_true, beq_iff_eq,
      Bool.eq_false_iff, ne_eq, not_exists, not_and]
    refine ⟨?_, x, hx, hid, by simp [hr]⟩
    intro y hy hyid hyr
    have : y = x := unique_of_nodup h'.ids hy hx (by rw [hyid, hid])
    subst this; rw [hr] at hyr; cases hyr
  have c4 : (delivered s op).all (fun e => (expected (view s) op).contains e) = true := by
    rw [expected_eq_delivered h, List.all_eq_true]
    intro e he; simpa using he
  have c5 : (expected (view s) op).all (fun e => (delivered s op).count e == 1) = true := by
    rw [expected_eq_delivered h, List.all_eq_true]
    intro e he
    rw [List.Nodup.count (delivered_nodup h.mons op)]
    simp [he]
  unfold failingStep
  rw [c1, c2, c3, c4, c5]
  simp only [↓reduceIte, List.append_nil, List.nil_append]
  cases op with
  | exitBegin a =>
    simp only
    cases ha : vAlive (view s) a
    · simp
    · obtain ⟨x, hx, hp⟩ := alive_getA h (a := a) ha
      simp [view, step, hx, hp]
  | remote a =>
    simp only [view, step]
    split <;> simp
  | spawn a => rfl
  | exitEnd a => rfl
  | monitor m => rfl
  | demonitor m => rfl
  | getAll => rfl
  | whereIs a => rfl

/-! ### history clauses -/

theorem spawnFree_append (a : Nat) (l₁ l₂ : List Ev) :
    spawnFree a (l₁ ++ l₂) = (spawnFree a l₁ && spawnFree a l₂) := by
  simp [spawnFree, List.all_append]

theorem okOrder_append (l₁ l₂ : List Ev) :
    okOrder (l₁ ++ l₂) = true ↔
      okOrder l₁ = true ∧ okOrder l₂ = true ∧ ∀ e ∈ l₁, e.spawn = false → spawnFree e.who l₂ = true := by
  induction l₁ with
  | nil => simp [okOrder]
  | cons e l₁ ih =>
    simp only [List.cons_append, okOrder, Bool.and_eq_true, Bool.or_eq_true, ih, spawnFree_append,
      List.mem_cons, forall_eq_or_imp]
    constructor
    · rintro ⟨h1, h2, h3, h4⟩
      refine ⟨⟨?_, h2⟩, h3, ?_, h4⟩
      · rcases h1 with h1 | h1
        · exact .inl h1
        · exact .inr h1.1
      · intro hs
        rcases h1 with h1 | h1
        · rw [hs] at h1; cases h1
        · exact h1.2
    · rintro ⟨⟨h1, h2⟩, h3, h4, h5⟩
      refine ⟨?_, h2, h3, h5⟩
      cases hs : e.spawn
      · right
        rcases h1 with h1 | h1
        · rw [hs] at h1; cases h1
        · exact ⟨h1, h4 hs⟩
      · exact .inl rfl

theorem spawnFree_sublist {a : Nat} {l₁ l₂ : List Ev} (h : l₁.Sublist l₂) (h2 : spawnFree a l₂ = true) :
    spawnFree a l₁ = true := by
  simp only [spawnFree, List.all_eq_true] at *
  exact fun e he => h2 e (h.subset he)

theorem okOrder_sublist {l₁ l₂ : List Ev} (h : l₁.Sublist l₂) (h2 : okOrder l₂ = true) :
    okOrder l₁ = true := by
  induction h with
  | slnil => rfl
  | cons e _ ih =>
    simp only [okOrder, Bool.and_eq_true] at h2
    exact ih h2.2
  | cons_cons e hs ih =>
    simp only [okOrder, Bool.and_eq_true, Bool.or_eq_true] at h2 ⊢
    refine ⟨?_, ih h2.2⟩
    rcases h2.1 with h | h
    · exact .inl h
    · exact .inr (spawnFree_sublist hs h)

/-- the events of ONE op are in order: all `Spawn`, or all `Terminate` -/
theorem okOrder_events (s : State) (op : Op) : okOrder (events s op) = true := by
  have key : ∀ (l : List Nat) (b : Bool) (a : Nat), okOrder (l.map (fun m => (⟨m, b, a⟩ : Ev))) = true := by
    intro l b a
    induction l with
    | nil => rfl
    | cons m l ih =>
      simp only [List.map_cons, okOrder, Bool.and_eq_true, Bool.or_eq_true, ih, and_true]
      cases b
      · right; simp [spawnFree]
      · left; rfl
  cases op with
  | spawn a => simp only [events]; split; rfl; exact key _ _ _
  | exitBegin a =>
    simp only [events]
    split
    · rfl
    · split
      · exact key _ _ _
      · rfl
  | remote a => rfl
  | exitEnd a => rfl
  | monitor m => rfl
  | demonitor m => rfl
  | getAll => rfl
  | whereIs a => rfl

theorem okOrder_trace (s : State) (ops : List Op) : okOrder (trace s ops) = true := by
  induction ops generalizing s with
  | nil => rfl
  | cons op ops ih =>
    simp only [trace]
    rw [okOrder_append]
    refine ⟨okOrder_events s op, ih _, ?_⟩
    intro e he _
    simp only [spawnFree, List.all_eq_true, Bool.not_eq_true', Bool.and_eq_false_iff, beq_eq_false_iff_ne]
    intro e' he'
    by_cases hw : e'.who = e.who
    · exact .inl (no_spawn_after_known (events_after he).1 ops e' he' hw)
    · exact .inr hw

theorem trace_nodup {s : State} (h : Inv s) (ops : List Op) : (trace s ops).Nodup := by
  induction ops generalizing s with
  | nil => exact List.nodup_nil
  | cons op ops ih =>
    simp only [trace]
    rw [List.nodup_append]
    refine ⟨events_nodup h.mons op, ih (inv_step h op), ?_⟩
    intro e he e' he' heq
    subst heq
    have ⟨hk, hg⟩ := events_after he
    cases hs : e.spawn
    · exact silent_after_gone hk (hg hs) ops e he' rfl
    · have := no_spawn_after_known hk ops e he' rfl
      rw [hs] at this; cases this

end PidRegistry
