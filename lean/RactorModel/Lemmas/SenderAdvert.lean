import RactorModel.Model.SenderAdvert

/-! Lemmas for `Model/SenderAdvert.lean`. -/

namespace SenderAdvert
open Remote

/-- the last message mentioning `i` decides, whatever came before -/
theorem verdict_fold_init (i : Nat) (cs : List Ctl) (init : Option Bool) :
    cs.foldl (verdict i) init = match cs.foldl (verdict i) none with
      | some b => some b
      | none => init := by
  induction cs generalizing init with
  | nil => rfl
  | cons c cs ih =>
    simp only [List.foldl_cons]
    rw [ih (verdict i init c), ih (verdict i none c)]
    cases cs.foldl (verdict i) none with
    | some b => rfl
    | none =>
      cases c <;> simp only [verdict] <;> (try split) <;> rfl

def pend (s : S) : List Ctl := s.queue.map Evt.ctl

/-- what the queued events say about `i` agrees with the registry -/
def QOk (s : S) (i : Nat) : Prop :=
  match (pend s).foldl (verdict i) none with
  | some b => (i ∈ s.alive ↔ b = true)
  | none => True

structure Inv (s : S) : Prop where
  pre : s.monitored = false → s.queue = [] ∧ s.scanned = false
  unscanned : s.scanned = false → s.wire = []
  q : ∀ i, QOk s i
  done : s.scanned = true → ∀ i, ((s.wire ++ pend s).foldl (verdict i) none = some true ↔ i ∈ s.alive)

theorem inv_init : Inv {} := ⟨by simp, by simp, by simp [QOk, pend], by simp⟩

theorem mem_filter_ne (l : List Nat) (i j : Nat) : j ∈ l.filter (· != i) ↔ j ∈ l ∧ j ≠ i := by
  simp [List.mem_filter]

theorem inv_step (s : S) (op : Op) (h : Inv s) : Inv (step s op) := by
  obtain ⟨h1, h2, h3, h4⟩ := h
  cases op with
  | monitor =>
    refine ⟨by simp [step], h2, h3, h4⟩
  | start i =>
    cases hm : s.monitored with
    | false =>
      obtain ⟨hq, hs⟩ := h1 hm
      refine ⟨by simp [step, hm, hq, hs], by simpa [step] using h2, ?_, by simp [step, hs]⟩
      intro j; simp [QOk, pend, step, hm, hq]
    | true =>
      refine ⟨by simp [step, hm], by simpa [step] using h2, ?_, ?_⟩
      · intro j
        have := h3 j
        simp only [QOk, pend, step, hm, ↓reduceIte, List.map_append, List.foldl_append, List.map_cons,
          List.map_nil, List.foldl_cons, List.foldl_nil, Evt.ctl, verdict, List.mem_append, List.mem_singleton] at this ⊢
        by_cases e : j = i
        · subst e; simp
        · have e' : ([i].contains j) = false := by simp [e]
          simp only [e', Bool.false_eq_true, ↓reduceIte]
          revert this
          cases (List.foldl (verdict j) none (List.map Evt.ctl s.queue)) <;> simp [e]
      · intro hs j
        have := h4 hs j
        simp only [pend, step, hm, ↓reduceIte, List.map_append, List.map_cons, List.map_nil, Evt.ctl,
          ← List.append_assoc, List.foldl_append, List.foldl_cons, List.foldl_nil, verdict,
          List.mem_append, List.mem_singleton] at this ⊢
        by_cases e : j = i
        · subst e; simp
        · have e' : ([i].contains j) = false := by simp [e]
          simp only [e', Bool.false_eq_true, ↓reduceIte, this, e, or_false]
  | stop i =>
    simp only [step]
    split
    · cases hm : s.monitored with
      | false =>
        obtain ⟨hq, hs⟩ := h1 hm
        refine ⟨by simp [hm, hq, hs], by simpa using h2, ?_, by simp [hs]⟩
        intro j; simp [QOk, pend, hm, hq]
      | true =>
        refine ⟨by simp [hm], by simpa using h2, ?_, ?_⟩
        · intro j
          have := h3 j
          simp only [QOk, pend, ↓reduceIte, List.map_append, List.foldl_append, List.map_cons,
            List.map_nil, List.foldl_cons, List.foldl_nil, Evt.ctl, verdict, mem_filter_ne] at this ⊢
          by_cases e : j = i
          · subst e; simp
          · have e' : ([i].contains j) = false := by simp [e]
            simp only [e', Bool.false_eq_true, ↓reduceIte]
            revert this
            cases (List.foldl (verdict j) none (List.map Evt.ctl s.queue)) <;> simp [e]
        · intro hs j
          have := h4 hs j
          simp only [pend, ↓reduceIte, List.map_append, List.map_cons, List.map_nil, Evt.ctl,
            ← List.append_assoc, List.foldl_append, List.foldl_cons, List.foldl_nil, verdict,
            mem_filter_ne] at this ⊢
          by_cases e : j = i
          · subst e; simp
          · have e' : ([i].contains j) = false := by simp [e]
            simp only [e', Bool.false_eq_true, ↓reduceIte, this, e, ne_eq, not_false_eq_true, and_true]
    · exact ⟨h1, h2, h3, h4⟩
  | scan =>
    simp only [step]
    split
    · rename_i hc
      simp only [Bool.and_eq_true, Bool.not_eq_true'] at hc
      have hw := h2 hc.2
      refine ⟨by simp [hc.1], by simp, h3, ?_⟩
      intro _ j
      have hq := h3 j
      simp only [QOk] at hq
      simp only [pend] at hq ⊢
      by_cases he : s.alive.isEmpty = true
      · have hnil : s.alive = [] := by simpa using he
        simp only [he, ↓reduceIte, hw, List.nil_append]
        revert hq
        cases hv : List.foldl (verdict j) none (List.map Evt.ctl s.queue) with
        | none => simp [hnil]
        | some b => cases b <;> simp
      · simp only [he, Bool.false_eq_true, ↓reduceIte, hw, List.nil_append, List.cons_append,
          List.foldl_cons, verdict]
        rw [verdict_fold_init]
        revert hq
        cases hv : List.foldl (verdict j) none (List.map Evt.ctl s.queue) with
        | none =>
          intro _
          by_cases hj : j ∈ s.alive
          · simp [hj]
          · simp [hj]
        | some b => cases b <;> simp
    · exact ⟨h1, h2, h3, h4⟩
  | evt =>
    simp only [step]
    split
    · rename_i hs
      split
      · exact ⟨h1, h2, h3, h4⟩
      · rename_i e rest hq
        refine ⟨fun hm => by simp [(h1 hm).2] at hs, by simp [hs], ?_, ?_⟩
        · -- dropping the oldest event: the verdict of the rest still agrees (last mention decides)
          intro j
          have := h3 j
          simp only [QOk, pend, hq, List.map_cons, List.foldl_cons] at this ⊢
          rw [verdict_fold_init] at this
          revert this
          cases List.foldl (verdict j) none (List.map Evt.ctl rest) <;> simp
        · intro _ j
          have := h4 hs j
          simp only [pend, hq, List.map_cons] at this ⊢
          rw [List.append_assoc]
          exact this
    · exact ⟨h1, h2, h3, h4⟩

theorem inv_run (ops : List Op) (s : S) (h : Inv s) : Inv (run s ops) := by
  induction ops generalizing s with
  | nil => exact h
  | cons op ops ih => exact ih _ (inv_step s op h)


/-! ## how often an actor is named by a `Spawn` -/

theorem spawnCount_append (i : Nat) (a b : List Ctl) : spawnCount i (a ++ b) = spawnCount i a + spawnCount i b := by
  simp [spawnCount, List.countP_append]

def all (s : S) : List Ctl := s.wire ++ pend s

/-- 1 while the scan is still to come -/
def un (b : Bool) : Nat := if b then 0 else 1

theorem spawnCount_step (i : Nat) (s : S) (op : Op) :
    spawnCount i (all (step s op)) + un (step s op).scanned ≤
      spawnCount i (all s) + un s.scanned + (if op = .start i then 1 else 0) := by
  cases op with
  | start j =>
    by_cases e : j = i
    · subst e
      cases hm : s.monitored <;>
        simp [step, all, pend, hm, spawnCount_append, spawnCount, Evt.ctl, List.countP_cons] <;> omega
    · have e2 : ¬ (i = j) := fun h => e h.symm
      cases hm : s.monitored <;>
        simp [step, all, pend, hm, spawnCount_append, spawnCount, Evt.ctl, List.countP_cons, e, e2]
  | stop j =>
    simp only [step]
    split
    · cases hm : s.monitored <;>
        simp [all, pend, hm, spawnCount_append, spawnCount, Evt.ctl, List.countP_cons]
    · simp
  | monitor => simp [step, all, pend]
  | scan =>
    simp only [step]
    split
    · rename_i hc
      simp only [Bool.and_eq_true, Bool.not_eq_true'] at hc
      by_cases he : s.alive.isEmpty = true
      · simp [all, pend, he, hc.2, un]
      · simp only [all, pend, he, Bool.false_eq_true, ↓reduceIte, hc.2, spawnCount_append, un]
        simp only [spawnCount, List.countP_cons, List.countP_nil]
        split <;> simp <;> omega
    · simp
  | evt =>
    simp only [step]
    split
    · rename_i hs
      split
      · simp
      · rename_i e rest hq
        simp [all, pend, hq, spawnCount_append, List.append_assoc, hs]
    · simp

theorem spawnCount_run (i : Nat) (ops : List Op) (s : S) :
    spawnCount i (all (run s ops)) + un (run s ops).scanned ≤
      spawnCount i (all s) + un s.scanned + ops.count (.start i) := by
  induction ops generalizing s with
  | nil => simp [run]
  | cons op ops ih =>
    have h1 := ih (step s op)
    have h2 := spawnCount_step i s op
    simp only [run, List.foldl_cons] at h1 ⊢
    simp only [List.count_cons]
    by_cases e : op = .start i
    · simp only [e, ↓reduceIte, beq_self_eq_true] at h2 ⊢
      rw [e] at h1
      omega
    · have e' : (op == Op.start i) = false := by simpa using e
      simp only [e, ↓reduceIte, e', Bool.false_eq_true] at h2 ⊢
      omega

end SenderAdvert
