import RactorModel.Lemmas.PgLeave

namespace Pg
open AList

/-- `Inv` only talks about lookups, key uniqueness and `dead`. -/
theorem inv_congr {st st' : State} (h : Inv st)
    (hm : ∀ k, get st'.map k = get st.map k) (hi : ∀ s, get st'.index s = get st.index s)
    (hw : ∀ s, get st'.world s = get st.world s) (hr : ∀ a, get st'.rel a = get st.rel a)
    (hd : st'.dead = st.dead)
    (k1 : NodupKeys st'.map) (k2 : NodupKeys st'.index) (k3 : NodupKeys st'.world) (k4 : NodupKeys st'.rel) :
    Inv st' := by
  have eM : ∀ k, membersOf st' k = membersOf st k := fun k => by unfold membersOf; rw [hm]
  have eL : ∀ k, listenersOf st' k = listenersOf st k := fun k => by unfold listenersOf; rw [hm]
  have eW : ∀ s, worldOf st' s = worldOf st s := fun s => by unfold worldOf; rw [hw]
  have eI : ∀ s, idxOf st' s = idxOf st s := fun s => by unfold idxOf; rw [hi]
  have eR : ∀ a, relOf st' a = relOf st a := fun a => by unfold relOf; rw [hr]
  constructor
  · exact k1
  · exact k2
  · exact k3
  · exact k4
  · intro k a; rw [eM]; unfold relMem; rw [eR]; exact h.mem k a
  · intro k a; rw [eL]; unfold relGmon; rw [eR]; exact h.gmon k a
  · intro s a; rw [eW]; unfold relWmon; rw [eR]; exact h.wmon s a
  · intro s g; rw [eI, eM]; exact h.idx s g
  · intro s; rw [hi]; exact h.idxNE s
  · intro k gs; rw [hm]; exact h.mapNE k gs
  · intro s; rw [hw]; exact h.worldNE s
  · intro a ha; rw [hd] at ha; rw [hr]; exact h.dead a ha
  · intro k; rw [eM]; exact h.ndM k
  · intro k; rw [eL]; exact h.ndL k
  · intro s; rw [eW]; exact h.ndW s
  · intro s; rw [eI]; exact h.ndI s
  · intro a; unfold relMem relGmon relWmon; rw [eR]; exact h.ndR a

theorem relUpdate_id_get (rel : List (Nat × Rel)) (a b : Nat) :
    get (relUpdate rel a id) b = if b = a then some ((get rel a).getD Rel.empty) else get rel b := by
  simp [relUpdate]

theorem removeEmptyRel_get (rel : List (Nat × Rel)) (a b : Nat) :
    get (removeEmptyRel rel a) b =
      if b = a then (get rel a).bind (fun r => if r.isEmpty then none else some r) else get rel b := by
  simp [removeEmptyRel]

theorem Rel.empty_isEmpty : Rel.empty.isEmpty = true := rfl

/-! ### monitor -/

theorem monitor_dead_get {st : State} (h : Inv st) (g a : Nat) (hd : a ∈ st.dead) :
    (∀ k, get (monitor st g a).map k = get st.map k) ∧ (∀ b, get (monitor st g a).rel b = get st.rel b) ∧
    (monitor st g a).index = st.index ∧ (monitor st g a).world = st.world ∧ (monitor st g a).dead = st.dead := by
  have hal : alive st a = false := by simp [alive, hd]
  unfold monitor
  simp only [hal, Bool.false_eq_true, ↓reduceIte, and_self, and_true]
  constructor
  · intro k
    simp only [get_alter, get_set, ↓reduceIte, Option.bind_some]
    by_cases e : k = (defaultScope, g)
    · subst e
      rw [if_pos rfl]
      cases hg : get st.map (defaultScope, g) with
      | none => simp [gsNorm]
      | some gs =>
        simp only [Option.getD_some]
        have := h.mapNE _ _ hg
        unfold gsNorm
        rw [if_neg]
        intro c
        rcases this with x | x
        · exact x c.1
        · exact x c.2
    · rw [if_neg e, if_neg e]
  · intro b
    rw [removeEmptyRel_get, relUpdate_id_get]
    by_cases e : b = a
    · subst e
      rw [if_pos rfl, if_pos rfl, h.dead b hd]
      simp [Rel.empty_isEmpty]
    · rw [if_neg e, relUpdate_id_get, if_neg e]

theorem monitor_alive_state (st : State) (g a : Nat) (hal : a ∉ st.dead) :
    monitor st g a =
      { st with map := set st.map (defaultScope, g) ⟨membersOf st (defaultScope, g), ins a (listenersOf st (defaultScope, g))⟩,
                rel := relUpdate (relUpdate st.rel a id) a (fun x => { x with gmon := ins (defaultScope, g) x.gmon }) } := by
  have : alive st a = true := alive_iff.mpr hal
  unfold monitor
  simp only [this, ↓reduceIte, membersOf, listenersOf]
  cases get st.map (defaultScope, g) <;> rfl

theorem monitor_alive_rel_get (st : State) (g a : Nat) (hal : a ∉ st.dead) (b : Nat) :
    get (monitor st g a).rel b =
      if b = a then some ⟨relMem st a, ins (defaultScope, g) (relGmon st a), relWmon st a⟩ else get st.rel b := by
  rw [monitor_alive_state st g a hal]
  simp only [relUpdate, get_alter]
  by_cases e : b = a
  · subst e; simp [relMem, relGmon, relWmon, relOf]
  · simp [e]

theorem inv_monitor {st : State} (h : Inv st) (g a : Nat) : Inv (monitor st g a) := by
  by_cases hd : a ∈ st.dead
  · obtain ⟨h1, h2, h3, h4, h5⟩ := monitor_dead_get h g a hd
    refine inv_congr h h1 (by rw [h3]; intro; rfl) (by rw [h4]; intro; rfl) h2 h5 ?_ (by rw [h3]; exact h.kIdx)
      (by rw [h4]; exact h.kWorld) ?_
    · have hal : alive st a = false := by simp [alive, hd]
      unfold monitor
      simp only [hal, Bool.false_eq_true, ↓reduceIte]
      exact nodupKeys_alter (nodupKeys_set h.kMap _ _) _ _
    · have hal : alive st a = false := by simp [alive, hd]
      unfold monitor
      simp only [hal, Bool.false_eq_true, ↓reduceIte]
      exact nodupKeys_alter (nodupKeys_alter h.kRel _ _) _ _
  · have hst := monitor_alive_state st g a hd
    have hrel := monitor_alive_rel_get st g a hd
    have hmap : ∀ k, get (monitor st g a).map k =
        if k = (defaultScope, g) then some ⟨membersOf st (defaultScope, g), ins a (listenersOf st (defaultScope, g))⟩
        else get st.map k := by
      intro k; rw [hst]; simp
    have hM : ∀ k, membersOf (monitor st g a) k = membersOf st k := by
      intro k; unfold membersOf; rw [hmap]
      by_cases e : k = (defaultScope, g)
      · rw [if_pos e, e]; rfl
      · rw [if_neg e]
    have hL : ∀ k m, m ∈ listenersOf (monitor st g a) k ↔ m ∈ listenersOf st k ∨ (k = (defaultScope, g) ∧ m = a) := by
      intro k m; unfold listenersOf; rw [hmap]
      by_cases e : k = (defaultScope, g)
      · rw [if_pos e, e]
        simp only [Option.map_some, Option.getD_some, mem_ins, true_and]
        constructor
        · rintro (x | x)
          · exact Or.inr x
          · exact Or.inl x
        · rintro (x | x)
          · exact Or.inr x
          · exact Or.inl x
      · rw [if_neg e]; simp [e]
    have hRM : ∀ b, relMem (monitor st g a) b = relMem st b := by
      intro b; unfold relMem relOf; rw [hrel]
      by_cases e : b = a
      · rw [if_pos e, e]; rfl
      · rw [if_neg e]
    have hRW : ∀ b, relWmon (monitor st g a) b = relWmon st b := by
      intro b; unfold relWmon relOf; rw [hrel]
      by_cases e : b = a
      · rw [if_pos e, e]; rfl
      · rw [if_neg e]
    have hRG : ∀ b k, k ∈ relGmon (monitor st g a) b ↔ k ∈ relGmon st b ∨ (k = (defaultScope, g) ∧ b = a) := by
      intro b k; unfold relGmon relOf; rw [hrel]
      by_cases e : b = a
      · rw [if_pos e, e]
        simp only [Option.getD_some, mem_ins, and_true, relGmon, relOf]
        constructor
        · rintro (x | x)
          · exact Or.inr x
          · exact Or.inl x
        · rintro (x | x)
          · exact Or.inr x
          · exact Or.inl x
      · rw [if_neg e]; simp [e]
    have hW : (monitor st g a).world = st.world := by rw [hst]
    have hI : (monitor st g a).index = st.index := by rw [hst]
    have hD : (monitor st g a).dead = st.dead := by rw [hst]
    constructor
    · rw [hst]; exact nodupKeys_set h.kMap _ _
    · rw [hI]; exact h.kIdx
    · rw [hW]; exact h.kWorld
    · rw [hst]; dsimp only [relUpdate]; exact nodupKeys_alter (nodupKeys_alter h.kRel _ _) _ _
    · intro k b; rw [hM, hRM]; exact h.mem k b
    · intro k m; rw [hL, hRG, h.gmon]
    · intro s m
      have := h.wmon s m
      unfold worldOf at this ⊢
      rw [hW, hRW, this]
    · intro s g'
      have := h.idx s g'
      unfold idxOf at this ⊢
      rw [hI, hM, this]
    · intro s; rw [hI]; exact h.idxNE s
    · intro k gs
      rw [hmap]
      by_cases e : k = (defaultScope, g)
      · rw [if_pos e]
        intro x
        simp only [Option.some.injEq] at x
        subst x
        right
        intro c
        have : a ∈ ins a (listenersOf st (defaultScope, g)) := mem_ins.mpr (Or.inl rfl)
        have c' : ins a (listenersOf st (defaultScope, g)) = [] := c
        rw [c'] at this; cases this
      · rw [if_neg e]; exact h.mapNE k gs
    · rw [hW]; exact h.worldNE
    · intro b hb
      rw [hD] at hb
      rw [hrel]
      by_cases e : b = a
      · subst e; exact absurd hb hd
      · rw [if_neg e]; exact h.dead b hb
    · intro k; rw [hM]; exact h.ndM k
    · intro k
      unfold listenersOf; rw [hmap]
      by_cases e : k = (defaultScope, g)
      · rw [if_pos e]; exact nodup_ins (h.ndL _)
      · rw [if_neg e]; exact h.ndL k
    · intro s; unfold worldOf; rw [hW]; exact h.ndW s
    · intro s; unfold idxOf; rw [hI]; exact h.ndI s
    · intro b
      rw [hRM, hRW]
      refine ⟨(h.ndR b).1, ?_, (h.ndR b).2.2⟩
      unfold relGmon relOf; rw [hrel]
      by_cases e : b = a
      · rw [if_pos e]; exact nodup_ins (h.ndR a).2.1
      · rw [if_neg e]; exact (h.ndR b).2.1

end Pg
