import RactorModel.Lemmas.TimersStops

/-! Round 4 (audit 2): what exactly one poll of an interval task does, in any reachable state. -/

namespace Timers

theorem exact_attempt (τ : Timer) (a now : Nat) : (τ.attempt now).exact a = τ.exact a + τ.period := by
  simp only [Timer.exact, attempt_sentAt, attempt_period, List.length_append, List.length_singleton,
    Nat.add_mul, Nat.one_mul]
  omega

/-- the burst loop against a target that accepts: `n` ticks complete in this poll, `n` messages are
pushed, and `n` is exactly the number of elapsed ticks -/
theorem ivAwait_burst (now id a : Nat) : ∀ (fuel : Nat) (τ : Timer) (T : Target),
    T.closedAt = none → τ.typed = true → 0 < τ.period → now < τ.exact a + fuel →
    ∃ n, (ivAwait now id a fuel τ T).1.sentAt = τ.sentAt ++ List.replicate n now ∧
      (ivAwait now id a fuel τ T).1.res = τ.res ∧
      (ivAwait now id a fuel τ T).2.mbox =
        T.mbox ++ (List.range n).map (fun j => (id, τ.sentAt.length + 1 + j)) ∧
      (ivAwait now id a fuel τ T).2.closedAt = none ∧
      now < wheelDeadline a ((τ.sentAt.length + n + 1) * τ.period) ∧
      (n = 0 ∨ wheelDeadline a ((τ.sentAt.length + n) * τ.period) ≤ now) := by
  intro fuel
  induction fuel with
  | zero =>
    intro τ T hcl hty hpos hf
    have hex : τ.exact a ≤ τ.deadline a := le_ceilMs _
    have hd : ¬ τ.deadline a ≤ now := by omega
    unfold ivAwait
    simp only [hd, ↓reduceIte]
    refine ⟨0, by simp, trivial, by simp, hcl, ?_, .inl rfl⟩
    have : now < τ.deadline a := by omega
    simpa [Timer.deadline] using this
  | succ f ih =>
    intro τ T hcl hty hpos hf
    unfold ivAwait
    by_cases hd : τ.deadline a ≤ now
    · have hcs : τ.canSend T = true := by simp [Timer.canSend, Target.accepts, hcl, hty]
      have hact : (T.push (id, τ.sentAt.length + 1)).active = true := by simp [Target.active, hcl]
      simp only [hd, ↓reduceIte, hcs, hact, Bool.not_true, Bool.false_eq_true]
      have hf' : now < (τ.attempt now).exact a + f := by rw [exact_attempt]; omega
      obtain ⟨n, h1, h2, h3, h4, h5, h6⟩ :=
        ih (τ.attempt now) (T.push (id, τ.sentAt.length + 1)) (by simpa using hcl) (by simpa using hty)
          (by simpa using hpos) hf'
      refine ⟨n + 1, ?_, ?_, ?_, h4, ?_, .inr ?_⟩
      · rw [h1]; simp [List.replicate_succ]
      · rw [h2]; rfl
      · rw [h3]
        simp only [push_mbox, attempt_sentAt, List.length_append, List.length_singleton, List.append_assoc]
        congr 1
        rw [List.range_succ_eq_map, List.map_cons, List.map_map]
        simp only [List.singleton_append, Nat.add_zero]
        congr 1
        apply List.map_congr_left
        intro j _
        simp only [Function.comp, Nat.succ_eq_add_one]
        congr 1
        omega
      · have e : (τ.attempt now).sentAt.length + n + 1 = τ.sentAt.length + (n + 1) + 1 := by simp; omega
        rw [e] at h5; exact h5
      · rcases h6 with h6 | h6
        · subst h6
          simpa [Timer.deadline] using hd
        · have e : (τ.attempt now).sentAt.length + n = τ.sentAt.length + (n + 1) := by simp; omega
          rw [e] at h6; exact h6
    · simp only [hd, ↓reduceIte]
      refine ⟨0, by simp, trivial, by simp, hcl, ?_, .inl rfl⟩
      have : now < τ.deadline a := by omega
      simpa [Timer.deadline] using this

theorem interval_fires' {s : State} (h : Inv s) (i : Nat) (τ : Timer) (a : Nat)
    (hi : s.timers[i]? = some τ) (hk : τ.kind = .interval) (hp : τ.res = .pending)
    (ha : τ.armed = some a) (hpr : τ.primed = true) :
    ∃ τ', (step s (.fire i)).timers[i]? = some τ' ∧
    -- before the next tick: nothing happens
    (s.now < wheelDeadline a ((τ.sentAt.length + 1) * τ.period) →
      τ' = τ ∧ (step s (.fire i)).target = s.target) ∧
    -- a tick has elapsed, the send fails: one attempt, the loop is left, the target is untouched
    (wheelDeadline a ((τ.sentAt.length + 1) * τ.period) ≤ s.now → τ.canSend s.target = false →
      τ' = (τ.attempt s.now).finish .ok s.now ∧ (step s (.fire i)).target = s.target) ∧
    -- the target accepts: all n elapsed ticks complete in this poll, n messages, still pending
    (τ.canSend s.target = true →
      ∃ n, τ'.sentAt = τ.sentAt ++ List.replicate n s.now ∧ τ'.res = .pending ∧
        (step s (.fire i)).target.mbox =
          s.target.mbox ++ (List.range n).map (fun j => (i, τ.sentAt.length + 1 + j)) ∧
        s.now < wheelDeadline a ((τ.sentAt.length + n + 1) * τ.period) ∧
        (n = 0 ∨ wheelDeadline a ((τ.sentAt.length + n) * τ.period) ≤ s.now)) := by
  have hτ : τ ∈ s.timers := List.mem_iff_getElem?.mpr ⟨i, hi⟩
  have hpos : 0 < τ.period := (h.tinv τ hτ).pos hk (by simp [ha])
  have harm : τ.arm s.now = τ := by cases τ; simp_all [Timer.arm]
  have hf : fireOne s.now i τ s.target = ivAwait s.now i a (s.now + 1) τ s.target := by
    unfold fireOne
    have hz : ¬ (τ.kind = .interval ∧ τ.period = 0) := fun hh => by omega
    simp only [hp, ne_eq, not_true_eq_false, ↓reduceIte, hz, harm, ha, Option.getD_some]
    unfold fireArmed
    simp [hk, hpr]
  rw [step_fire_some hi, hf]
  refine ⟨(ivAwait s.now i a (s.now + 1) τ s.target).1, by simp [getElem?_lt hi], ?_, ?_, ?_⟩
  · intro hlt
    have hd : ¬ τ.deadline a ≤ s.now := by simp only [Timer.deadline]; omega
    unfold ivAwait
    simp [hd]
  · intro hle hcs
    have hd : τ.deadline a ≤ s.now := by simpa [Timer.deadline] using hle
    unfold ivAwait
    simp [hd, hcs]
  · intro hcs
    have hcl : s.target.closedAt = none := by simpa [Target.accepts] using canSend_accepts hcs
    obtain ⟨n, h1, h2, h3, _, h5, h6⟩ :=
      ivAwait_burst s.now i a (s.now + 1) τ s.target hcl (canSend_typed hcs) hpos
        (by have := Nat.le_add_left 0 (τ.exact a); omega)
    exact ⟨n, h1, by rw [h2, hp], h3, h5, h6⟩

end Timers
