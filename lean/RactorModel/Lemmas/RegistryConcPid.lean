import RactorModel.Lemmas.RegistryConcEv

/-! The caller-order invariant of `Model/RegistryConc.lean` for the PID table (clause 8 of C10: "the same holds
for pid lookup"): under `Ordered`, an actor whose `wait()` has returned is no longer in the pid table. -/

namespace Reg2

def OInvP (s : State) : Prop := ∀ a, (s.act a).status = stopped → pidHeld (s.act a) = false

theorem OInvP.init : OInvP init := by intro a h; simp [Reg2.init, stopped] at h

theorem OInvP.step {s : State} (h : RInv s) (ho : OInvP s) (op : Op) (hord : ordered s op = true) :
    OInvP (step s op) := by
  have hp := h.pcs
  unfold OInvP at ho ⊢
  cases op with
  | new a name => simp only [Reg2.step]; split <;> intros <;> reg_auto
  | newRemote a name => simp only [Reg2.step]; split <;> intros <;> reg_auto
  | regName a => simp only [Reg2.step]; split <;> (try split) <;> intros <;> reg_auto
  | regPid a => simp only [Reg2.step]; split <;> intros <;> reg_auto
  | regPidFail a => simp only [Reg2.step]; split <;> intros <;> reg_auto
  | rollback a => simp only [Reg2.step]; split <;> intros <;> reg_auto
  | monitor m => simp only [Reg2.step]; intros; reg_auto
  | demonitor m => simp only [Reg2.step]; intros; reg_auto
  | publish a st =>
    simp only [ordered, decide_eq_true_eq] at hord
    simp only [Reg2.step]; split <;> intros <;> reg_auto
  | bstep a =>
    have hpa := hp a
    simp only [Reg2.step]
    split
    · next stmt rest st hpc =>
      have hsuf : stopping ≤ (s.act a).status ∧ suffixOk (stmt :: rest) := by
        simpa only [pcOk, hpc] using hpa
      have hst := hsuf.1
      rcases hsuf.2 with e | e | e | e
      · injection e with e1 e2; subst e1 e2; simp only [exec]; intros; reg_auto
      · injection e with e1 e2; subst e1 e2; simp only [exec]; split <;> intros <;> reg_auto
      · injection e with e1 e2; subst e1 e2; simp only [exec]
        split
        · split <;> intros <;> reg_auto
        · intros; reg_auto
      · cases e
    · intros; reg_auto
    · exact ho

theorem OInvP.run {s : State} (h : RInv s) (ho : OInvP s) (ops : List Op) (hord : Ordered s ops = true) :
    OInvP (run s ops) := by
  induction ops generalizing s with
  | nil => exact ho
  | cons op ops ih =>
    simp only [Ordered, Bool.and_eq_true] at hord
    exact ih (h.step op) (ho.step h op hord.1) hord.2

end Reg2
