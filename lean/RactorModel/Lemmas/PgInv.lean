import RactorModel.Lemmas.PgBasic

/-! The cross-index invariant of the `Pg` model and its preservation by every API-level op. -/

namespace Pg
open AList

structure Inv (st : State) : Prop where
  kMap : NodupKeys st.map
  kIdx : NodupKeys st.index
  kWorld : NodupKeys st.world
  kRel : NodupKeys st.rel
  /-- forward map ↔ reverse index -/
  mem : ∀ k a, a ∈ membersOf st k ↔ k ∈ relMem st a
  gmon : ∀ k m, m ∈ listenersOf st k ↔ k ∈ relGmon st m
  wmon : ∀ s m, m ∈ worldOf st s ↔ s ∈ relWmon st m
  /-- the scope index lists exactly the groups that have members -/
  idx : ∀ s g, g ∈ idxOf st s ↔ membersOf st (s, g) ≠ []
  idxNE : ∀ s, get st.index s ≠ some []
  mapNE : ∀ k gs, get st.map k = some gs → gs.members ≠ [] ∨ gs.listeners ≠ []
  worldNE : ∀ s, get st.world s ≠ some []
  /-- a stopping/stopped actor owns no reverse-index entry (hence, by `mem`/`gmon`/`wmon`,
  is a member of nothing and monitors nothing) -/
  dead : ∀ a, a ∈ st.dead → get st.rel a = none
  ndM : ∀ k, (membersOf st k).Nodup
  ndL : ∀ k, (listenersOf st k).Nodup
  ndW : ∀ s, (worldOf st s).Nodup
  ndI : ∀ s, (idxOf st s).Nodup
  ndR : ∀ a, (relMem st a).Nodup ∧ (relGmon st a).Nodup ∧ (relWmon st a).Nodup

theorem inv_init : Inv init := by
  constructor <;> simp [init, NodupKeys, membersOf, listenersOf, worldOf, idxOf, relMem, relGmon, relWmon,
    relOf, Rel.empty]

theorem ne_nil_iff {α : Type} {l : List α} : l ≠ [] ↔ ∃ a, a ∈ l := by
  constructor
  · intro h; exact List.exists_mem_of_ne_nil l h
  · rintro ⟨a, ha⟩ e; rw [e] at ha; cases ha

theorem alive_iff {st : State} {a : Nat} : alive st a = true ↔ a ∉ st.dead := by
  simp [alive]

/-! ### join -/

section join
variable (st : State) (s g : Nat) (actors : List Nat)

theorem join_noop (h : actors.filter (alive st) = []) : join st s g actors = (st, []) := by
  simp [join, h]

/-- the state after an effective join, component by component -/
theorem join_state (h : actors.filter (alive st) ≠ []) :
    (join st s g actors).1 =
      { st with
        map := set st.map (s, g) ⟨(actors.filter (alive st)).foldl (fun m a => ins a m) (membersOf st (s, g)),
                                  listenersOf st (s, g)⟩,
        index := addToIndex st.index (s, g),
        rel := (actors.filter (alive st)).foldl
          (fun r a => relUpdate r a (fun x => { x with mem := ins (s, g) x.mem })) st.rel } := by
  simp only [join, h, ↓reduceIte, membersOf, listenersOf]
  cases get st.map (s, g) <;> rfl

end join

section joinfacts
variable (st : State) (s g : Nat) (actors : List Nat)

theorem ins_mem_idem (k : Key) (r : Rel) :
    (fun x : Rel => { x with mem := ins k x.mem }) ((fun x : Rel => { x with mem := ins k x.mem }) r) =
      (fun x : Rel => { x with mem := ins k x.mem }) r := by
  simp only [Rel.mk.injEq, and_true]
  unfold ins; split
  · next hm => simp [hm]
  · next hm => simp [hm]

theorem join_map_get (k : Key) :
    get (join st s g actors).1.map k =
      if k = (s, g) ∧ actors.filter (alive st) ≠ [] then
        some ⟨(actors.filter (alive st)).foldl (fun m a => ins a m) (membersOf st (s, g)), listenersOf st (s, g)⟩
      else get st.map k := by
  by_cases hne : actors.filter (alive st) = []
  · simp [join_noop st s g actors hne, hne]
  · rw [join_state st s g actors hne]; simp [hne]

theorem join_members (k : Key) (a : Nat) :
    a ∈ membersOf (join st s g actors).1 k ↔
      a ∈ membersOf st k ∨ (k = (s, g) ∧ a ∈ actors ∧ a ∉ st.dead) := by
  rw [membersOf_eq, join_map_get]
  by_cases hne : actors.filter (alive st) = []
  · have : ∀ a, a ∈ actors → a ∉ st.dead → False := by
      intro a ha hd
      have : a ∈ actors.filter (alive st) := List.mem_filter.mpr ⟨ha, alive_iff.mpr hd⟩
      rw [hne] at this; cases this
    simp only [hne, ne_eq, not_true_eq_false, and_false, ↓reduceIte, ← membersOf_eq]
    constructor
    · exact Or.inl
    · rintro (h | ⟨_, h1, h2⟩)
      · exact h
      · exact absurd h2 (fun hd => this a h1 hd)
  · by_cases e : k = (s, g)
    · subst e
      simp only [hne, ne_eq, not_false_eq_true, and_self, ↓reduceIte, mem_foldl_ins, List.mem_filter, alive_iff,
        true_and]
    · simp [e, ← membersOf_eq]

theorem join_listeners (k : Key) : listenersOf (join st s g actors).1 k = listenersOf st k := by
  rw [listenersOf_eq, join_map_get]
  by_cases c : k = (s, g) ∧ actors.filter (alive st) ≠ []
  · rw [if_pos c, c.1]
  · rw [if_neg c, ← listenersOf_eq]

theorem join_world : (join st s g actors).1.world = st.world := by
  by_cases hne : actors.filter (alive st) = []
  · rw [join_noop st s g actors hne]
  · rw [join_state st s g actors hne]

theorem join_dead : (join st s g actors).1.dead = st.dead := by
  by_cases hne : actors.filter (alive st) = []
  · rw [join_noop st s g actors hne]
  · rw [join_state st s g actors hne]

theorem join_remote : (join st s g actors).1.remote = st.remote := by
  by_cases hne : actors.filter (alive st) = []
  · rw [join_noop st s g actors hne]
  · rw [join_state st s g actors hne]

theorem join_index_get (s' : Nat) :
    get (join st s g actors).1.index s' =
      if s' = s ∧ actors.filter (alive st) ≠ [] then some (ins g (idxOf st s)) else get st.index s' := by
  by_cases hne : actors.filter (alive st) = []
  · simp [join_noop st s g actors hne, hne]
  · rw [join_state st s g actors hne]; simp [hne, addToIndex, idxOf]

theorem mem_filter_alive (a : Nat) : a ∈ actors.filter (alive st) ↔ a ∈ actors ∧ a ∉ st.dead := by
  simp [List.mem_filter, alive_iff]

theorem join_rel_get (a : Nat) :
    get (join st s g actors).1.rel a =
      if a ∈ actors ∧ a ∉ st.dead then
        some ⟨ins (s, g) (relMem st a), relGmon st a, relWmon st a⟩ else get st.rel a := by
  by_cases hne : actors.filter (alive st) = []
  · have : ¬ (a ∈ actors ∧ a ∉ st.dead) := by
      intro c
      have := (mem_filter_alive st actors a).mpr c
      rw [hne] at this; cases this
    simp [join_noop st s g actors hne, this]
  · rw [join_state st s g actors hne]
    simp only
    rw [get_foldl_relUpdate _ _ _ (ins_mem_idem (s, g))]
    simp only [mem_filter_alive]
    rfl

theorem join_relMem (a : Nat) (k : Key) :
    k ∈ relMem (join st s g actors).1 a ↔ k ∈ relMem st a ∨ (k = (s, g) ∧ a ∈ actors ∧ a ∉ st.dead) := by
  unfold relMem relOf
  rw [join_rel_get]
  by_cases c : a ∈ actors ∧ a ∉ st.dead
  · rw [if_pos c]
    simp only [Option.getD_some, mem_ins, relMem, relOf]
    constructor
    · rintro (rfl | h1)
      · exact Or.inr ⟨rfl, c⟩
      · exact Or.inl h1
    · rintro (h1 | ⟨rfl, _⟩)
      · exact Or.inr h1
      · exact Or.inl rfl
  · rw [if_neg c]
    constructor
    · exact Or.inl
    · rintro (h1 | ⟨_, h2⟩)
      · exact h1
      · exact absurd h2 c

theorem join_relGmon (a : Nat) : relGmon (join st s g actors).1 a = relGmon st a := by
  unfold relGmon relOf
  rw [join_rel_get]
  by_cases c : a ∈ actors ∧ a ∉ st.dead
  · rw [if_pos c]; rfl
  · rw [if_neg c]

theorem join_relWmon (a : Nat) : relWmon (join st s g actors).1 a = relWmon st a := by
  unfold relWmon relOf
  rw [join_rel_get]
  by_cases c : a ∈ actors ∧ a ∉ st.dead
  · rw [if_pos c]; rfl
  · rw [if_neg c]

theorem join_relMem_nodup (a : Nat) (h : (relMem st a).Nodup) : (relMem (join st s g actors).1 a).Nodup := by
  unfold relMem relOf
  rw [join_rel_get]
  by_cases c : a ∈ actors ∧ a ∉ st.dead
  · rw [if_pos c]; exact nodup_ins h
  · rw [if_neg c]; exact h

end joinfacts

theorem inv_join {st : State} (h : Inv st) (s g : Nat) (actors : List Nat) :
    Inv (join st s g actors).1 := by
  constructor
  · -- kMap
    by_cases hne : actors.filter (alive st) = []
    · rw [join_noop st s g actors hne]; exact h.kMap
    · rw [join_state st s g actors hne]; exact nodupKeys_set h.kMap _ _
  · by_cases hne : actors.filter (alive st) = []
    · rw [join_noop st s g actors hne]; exact h.kIdx
    · rw [join_state st s g actors hne]
      show NodupKeys (addToIndex st.index (s, g))
      exact nodupKeys_alter h.kIdx _ _
  · rw [join_world]; exact h.kWorld
  · by_cases hne : actors.filter (alive st) = []
    · rw [join_noop st s g actors hne]; exact h.kRel
    · rw [join_state st s g actors hne]; exact nodupKeys_foldl_relUpdate _ _ _ h.kRel
  · -- mem
    intro k a
    rw [join_members, join_relMem, h.mem]
  · -- gmon
    intro k m
    rw [join_listeners, join_relGmon, h.gmon]
  · intro s' m
    have := h.wmon s' m
    unfold worldOf at this ⊢
    rw [join_world, join_relWmon, this]
  · -- idx
    intro s' g'
    have hm : membersOf (join st s g actors).1 (s', g') ≠ [] ↔
        membersOf st (s', g') ≠ [] ∨ ((s', g') = (s, g) ∧ actors.filter (alive st) ≠ []) := by
      simp only [ne_nil_iff, join_members, mem_filter_alive]
      constructor
      · rintro ⟨a, h1 | ⟨h1, h2, h3⟩⟩
        · exact Or.inl ⟨a, h1⟩
        · exact Or.inr ⟨h1, a, h2, h3⟩
      · rintro (⟨a, h1⟩ | ⟨h1, a, h2, h3⟩)
        · exact ⟨a, Or.inl h1⟩
        · exact ⟨a, Or.inr ⟨h1, h2, h3⟩⟩
    rw [hm]
    have hi := h.idx s' g'
    unfold idxOf at hi ⊢
    rw [join_index_get]
    by_cases c : s' = s ∧ actors.filter (alive st) ≠ []
    · obtain ⟨rfl, c2⟩ := c
      rw [if_pos ⟨rfl, c2⟩]
      simp only [Option.getD_some, mem_ins, Prod.mk.injEq, true_and]
      have hi2 := h.idx s' g'
      rw [hi2]
      constructor
      · rintro (rfl | h1)
        · exact Or.inr ⟨rfl, c2⟩
        · exact Or.inl h1
      · rintro (h1 | ⟨rfl, _⟩)
        · exact Or.inr h1
        · exact Or.inl rfl
    · rw [if_neg c, hi]
      constructor
      · exact Or.inl
      · rintro (h1 | ⟨h1, h2⟩)
        · exact h1
        · simp only [Prod.mk.injEq] at h1
          exact absurd ⟨h1.1, h2⟩ c
  · -- idxNE
    intro s'
    rw [join_index_get]
    by_cases c : s' = s ∧ actors.filter (alive st) ≠ []
    · rw [if_pos c]
      simp only [ne_eq, Option.some.injEq]
      intro e
      have : g ∈ ins g (idxOf st s) := mem_ins.mpr (Or.inl rfl)
      rw [e] at this; cases this
    · rw [if_neg c]; exact h.idxNE s'
  · -- mapNE
    intro k gs
    rw [join_map_get]
    by_cases c : k = (s, g) ∧ actors.filter (alive st) ≠ []
    · rw [if_pos c]
      intro e
      simp only [Option.some.injEq] at e
      subst e
      left
      obtain ⟨a, ha⟩ := List.exists_mem_of_ne_nil _ c.2
      intro e
      have e' : (actors.filter (alive st)).foldl (fun m a => ins a m) (membersOf st (s, g)) = [] := e
      have : a ∈ (actors.filter (alive st)).foldl (fun m a => ins a m) (membersOf st (s, g)) :=
        (mem_foldl_ins _ _ _).mpr (Or.inr ha)
      rw [e'] at this; cases this
    · rw [if_neg c]; exact h.mapNE k gs
  · rw [join_world]; exact h.worldNE
  · -- dead
    intro a ha
    rw [join_dead] at ha
    rw [join_rel_get]
    by_cases c : a ∈ actors ∧ a ∉ st.dead
    · exact absurd ha c.2
    · rw [if_neg c]; exact h.dead a ha
  · -- ndM
    intro k
    rw [membersOf_eq, join_map_get]
    by_cases c : k = (s, g) ∧ actors.filter (alive st) ≠ []
    · rw [if_pos c]; exact nodup_foldl_ins _ _ (h.ndM _)
    · rw [if_neg c, ← membersOf_eq]; exact h.ndM k
  · intro k; rw [join_listeners]; exact h.ndL k
  · intro s'; unfold worldOf; rw [join_world]; exact h.ndW s'
  · intro s'
    unfold idxOf
    rw [join_index_get]
    by_cases c : s' = s ∧ actors.filter (alive st) ≠ []
    · rw [if_pos c]; exact nodup_ins (h.ndI s)
    · rw [if_neg c]; exact h.ndI s'
  · intro a
    rw [join_relGmon, join_relWmon]
    exact ⟨join_relMem_nodup st s g actors a (h.ndR a).1, (h.ndR a).2⟩

end Pg
