import RactorModel.Model.PgFine

/-!
# `Pg.Conc` — every pg operation of every thread stepped lock region by lock region

`Pg.Fine` steps ONE exit region by region against atomic environment calls. Here nothing is
atomic beyond a single lock region of `ractor/src/pg.rs`:

* any number of actors are exiting at the same time; the exit of actor `a` is the region
  sequence of `set_status(≥ Stopping)` — `mark` (the atomic swap of the status word: exactly one
  caller per actor sees `previous < Stopping`, so the clean-up block runs once per actor, which is
  why exits are keyed by actor), `demonitor_all` (`demTake`, then one forward entry per step),
  `leave_all` (`take`, one forward entry per step, `finish` = `remove_empty_actor_relations` + the
  notifications);
* any number of caller threads run `join_scoped` (unlocked status filter / the entry-lock region, itself
  stepped one relations lock at a time: take the group entry — `joinLock` —, then for each distinct
  actor of the call its relations lock with the status re-check and the reverse-index insert —
  `joinOne` —, then the forward insert of the accepted actors, the scope index, the recipients and the
  release of the entry — `joinCommit`; while the entry is held every other region that needs the same
  group entry is blocked, but the relations-lock-only regions of an exit (`mark`, `demTake`, `take`)
  and everything on other keys run in between / clean-up region / notification region), `leave_scoped` (entry region / notification region),
  `monitor` and `monitor_scope` (`get_or_create_actor_relations` / entry + relations lock region /
  status re-check region), `demonitor` and `demonitor_scope` (`get_actor_relations` — the fetch of the
  reverse-index `Arc`, done BEFORE the entry is taken — then the entry region, which updates the reverse
  index only if the fetch found an entry);
* a schedule is a list of `Tid`s: which exit takes which of its next regions (the iteration order
  over a drained `HashSet` is the schedule's choice) or which caller thread takes its next region.

The region functions are those of `Model/Pg.lean` (the ones the E-THR engine replays on the real
code). Ghost components (never read by a step): `sent` = every notification sent so far,
`changes` = one record per membership change with the recipients of the instant of the change.

Abstractions (as in `Pg`): a nested-lock region is one step (schedule points are outside locks);
the `Arc` identity test of `remove_empty_actor_relations` is not modelled (an empty reverse-index
entry of a stopping actor is removed by whoever gets there first; the holders of a stale `Arc` can
only remove, never add, so only the moment at which an EMPTY entry disappears can differ), and the
empty reverse-index entry that `join_scoped` creates for an actor it then finds stopping is not
modelled (invisible to every accessor; removed by the same call's clean-up region).
-/

namespace Pg.Conc
open AList Pg Pg.Fine

/-- program counter of a caller thread: the public call it is in, and where -/
inductive Pc
  | join (s g : Nat) (as : List Nat)                               -- before the unlocked status filter
  | joinFiltered (s g : Nat) (as : List Nat)                       -- `pg.join.filtered`: before the entry-lock region
  | joinIn (s g : Nat) (as : List Nat) (todo : List Nat)           -- inside the entry-lock region: actors still to check
  | joinEntered (s g : Nat) (as : List Nat) (p : Option Pending)   -- `pg.join.entered`: before the clean-up region
  | notify (p : Pending)                                           -- `pg.join.notify` / `pg.leave.notify`
  | leave (s g : Nat) (as : List Nat)
  | monitor (g b : Nat)                                            -- before `get_or_create_actor_relations`
  | monitorRel (g b : Nat)                                         -- `pg.monitor.relations`
  | monitorRecheck (g b : Nat)                                     -- `pg.monitor.recheck`
  | monitorScope (s b : Nat)
  | monitorScopeRel (s b : Nat)
  | monitorScopeRecheck (s b : Nat)
  | demonitorCall (g b : Nat)                                     -- before `get_actor_relations`
  | demonitor (g b : Nat)                                         -- fetched an `Arc`: before the entry region
  | demonitorFwd (g b : Nat)                                      -- fetched `None`: the entry region will not touch the reverse index
  | demonitorScopeCall (s b : Nat)
  | demonitorScope (s b : Nat)
  | demonitorScopeFwd (s b : Nat)
  | done
  deriving DecidableEq, Repr

/-- the regions of an exit -/
inductive ExReg
  | mark | demTake | demKey (k : Key) | demWKey (s : Nat) | demDone | take | lvKey (k : Key) | finish
  deriving DecidableEq, Repr

def ExReg.toFOp : ExReg → FOp
  | .mark => .mark | .demTake => .demTake | .demKey k => .demKey k | .demWKey s => .demWKey s
  | .demDone => .demDone | .take => .take | .lvKey k => .lvKey k | .finish => .finish

/-- who moves: the exit of actor `a` takes region `r`, or caller thread `i` takes its next region -/
inductive Tid
  | ex (a : Nat) (r : ExReg)
  | call (i : Nat)
  deriving DecidableEq, Repr

structure G where
  st : State
  /-- phase of every exit that has started (absent = `live`) -/
  exits : List (Nat × Phase)
  thr : List Pc
  /-- the group entries held by a `join_scoped` in the middle of its entry-lock region, each with the
  holding thread and its local variables: the call's `actors` and its `accepted` set so far (reverse
  index already updated, forward insert still to come) -/
  locks : List (Key × (Nat × List Nat × List Nat))
  /-- ghost: the reverse-index MONITOR entries a `demonitor*` that had fetched `None` could not remove
  (a `monitor*` of the same actor ran between its fetch and its entry region) -/
  staleG : List (Nat × Key)
  staleW : List (Nat × Nat)
  /-- ghost: every notification sent so far -/
  sent : List Ev
  /-- ghost: one record per membership change, recipients read at the instant of the change -/
  changes : List Pending
  deriving Repr

def phaseOf (g : G) (a : Nat) : Phase := (get g.exits a).getD .live

/-- the actors a `join_scoped` holding entry `k` has accepted so far -/
def accOf (g : G) (k : Key) : List Nat := ((get g.locks k).map (·.2.2)).getD []
/-- the actors that call was given (after the unlocked filter) -/
def asOf (g : G) (k : Key) : List Nat := ((get g.locks k).map (·.2.1)).getD []
def locked (g : G) (k : Key) : Bool := (get g.locks k).isSome

/-- `entry(key).or_default()` with nothing added: the group entry exists afterwards -/
def touchGroup (st : State) (k : Key) : State :=
  { st with map := alter st.map k (fun o => some (o.getD ⟨[], []⟩)) }

def touchWorld (st : State) (s : Nat) : State :=
  { st with world := alter st.world s (fun o => some (o.getD [])) }

/-- `monitor`: the region holding the group entry and the relations lock (status check inside) -/
def monitorEntry (st : State) (g b : Nat) : State :=
  if alive st b then Pg.monitor st g b else touchGroup st (defaultScope, g)

/-- `monitor_scope`: the region holding the world entry and the relations lock -/
def monitorScopeEntry (st : State) (s b : Nat) : State :=
  if alive st b then Pg.monitorScope st s b else touchWorld st s

/-- `demonitor`'s entry region when the fetch found no reverse-index entry: the forward side only -/
def demonitorFwdSt (st : State) (g b : Nat) : State :=
  { st with map := alter st.map (defaultScope, g) (dropListener b) }

def demonitorScopeFwdSt (st : State) (s b : Nat) : State :=
  { st with world := alter st.world s (dropWorldListener b) }

/-- the stale reverse-only monitor entries a region may leave behind -/
def staleGOf : Pc → List (Nat × Key)
  | .demonitorFwd g b => [(b, (defaultScope, g))]
  | _ => []

def staleWOf : Pc → List (Nat × Nat)
  | .demonitorScopeFwd s b => [(b, s)]
  | _ => []

/-- the removal record of a `leave_all` iteration as a `Pending` notification -/
def recPending (a : Nat) (r : Key × List Nat) : Pending := ⟨false, r.1.1, r.1.2, [a], r.2⟩

/-- one region of a caller thread: new state, new pc, change records made, notifications sent -/
def callStep (st : State) : Pc → State × Pc × List Pending × List Ev
  | .join s g as =>
    let as' := as.filter (alive st)
    (st, if as' = [] then .done else .joinFiltered s g as', [], [])
  -- the entry-lock region of `join_scoped` needs the lock table: stepped by `step` itself
  | .joinFiltered s g as => (st, .joinFiltered s g as, [], [])
  | .joinIn s g as todo => (st, .joinIn s g as todo, [], [])
  | .joinEntered s g as p =>
    (joinCleanup st s g as, match p with | none => .done | some p => .notify p, [], [])
  | .notify p => (st, .done, [], notifyPending p)
  | .leave s g as =>
    let r := leaveEntry st s g as
    (r.1, match r.2 with | none => .done | some p => .notify p, r.2.toList, [])
  | .monitor g b => ({ st with rel := relUpdate st.rel b id }, .monitorRel g b, [], [])
  | .monitorRel g b => (monitorEntry st g b, .monitorRecheck g b, [], [])
  | .monitorRecheck g b => (Pg.monitorRecheck st g b, .done, [], [])
  | .monitorScope s b => ({ st with rel := relUpdate st.rel b id }, .monitorScopeRel s b, [], [])
  | .monitorScopeRel s b => (monitorScopeEntry st s b, .monitorScopeRecheck s b, [], [])
  | .monitorScopeRecheck s b => (Pg.monitorScopeRecheck st s b, .done, [], [])
  | .demonitorCall g b => (st, if (get st.rel b).isSome then .demonitor g b else .demonitorFwd g b, [], [])
  | .demonitor g b => (Pg.demonitor st g b, .done, [], [])
  | .demonitorFwd g b => (demonitorFwdSt st g b, .done, [], [])
  | .demonitorScopeCall s b => (st, if (get st.rel b).isSome then .demonitorScope s b else .demonitorScopeFwd s b, [], [])
  | .demonitorScope s b => (Pg.demonitorScope st s b, .done, [], [])
  | .demonitorScopeFwd s b => (demonitorScopeFwdSt st s b, .done, [], [])
  | .done => (st, .done, [], [])

/-- the change record made by an exit region (only a `leave_all` iteration that removes the actor) -/
def exRecs (st : State) (a : Nat) (ph : Phase) : ExReg → List Pending
  | .lvKey k =>
    match ph with
    | .leaving mk _ => if k ∈ mk then ((leaveKey st a k).2.map (recPending a)).toList else []
    | _ => []
  | _ => []

/-- the notifications sent by an exit region (only `finish`) -/
def exEvs (st : State) (a : Nat) (ph : Phase) : ExReg → List Ev
  | .finish =>
    match ph with
    | .leaving [] removed => (finishLeave st a removed).2
    | _ => []
  | _ => []

/-- the group entry a caller's next region has to take (`none`: it takes no group entry) -/
def needsKey (st : State) : Pc → Option Key
  | .joinFiltered s g _ => some (s, g)
  | .joinEntered s g _ none => some (s, g)      -- the empty entry created for nobody is removed again
  | .leave s g _ => some (s, g)
  | .monitorRel g _ => some (defaultScope, g)
  | .monitorRecheck g b => if alive st b then none else some (defaultScope, g)
  | .demonitor g _ => some (defaultScope, g)
  | .demonitorFwd g _ => some (defaultScope, g)
  | _ => none

def exNeedsKey : ExReg → Option Key
  | .demKey k => some k
  | .lvKey k => some k
  | _ => none

/-- `joinOne`: one iteration of `join_scoped`'s loop for an actor that passes the status re-check under
its relations lock: the reverse-index insert (`accepted.insert` is the lock-table update in `step`) -/
def joinOne (st : State) (k : Key) (x : Nat) : State :=
  { st with rel := relUpdate st.rel x (fun r => { r with mem := ins k r.mem }) }

/-- `joinCommit`: the forward insert of the accepted actors, the scope index (the group entry is still
held); `joined` keeps the call's duplicates -/
def joinCommit (st : State) (k : Key) (joined : List Nat) : State :=
  if joined = [] then st
  else
    let gs := (get st.map k).getD ⟨[], []⟩
    { st with map := set st.map k ⟨joined.foldl (fun m a => ins a m) gs.members, gs.listeners⟩,
              index := addToIndex st.index k }

def step (g : G) : Tid → G
  | .ex a r =>
    -- the swap of the status word returned `≥ Stopping`: somebody else runs (ran) the clean-up;
    -- or the region needs a group entry that a `join_scoped` holds: blocked
    if (r = .mark ∧ a ∈ g.st.dead) ∨ (exNeedsKey r).any (locked g) then g
    else
      let ph := phaseOf g a
      let fs := fstep a ⟨g.st, ph⟩ r.toFOp
      { g with st := fs.st, exits := set g.exits a fs.ph,
               changes := g.changes ++ exRecs g.st a ph r, sent := g.sent ++ exEvs g.st a ph r }
  | .call i =>
    match g.thr[i]? with
    | none => g
    | some pc =>
      if (needsKey g.st pc).any (locked g) then g      -- blocked on a held group entry
      else
      match pc with
      | .joinFiltered s g' as =>
        -- `joinLock`: `map.entry(key).or_default()`
        { g with st := touchGroup g.st (s, g'), locks := set g.locks (s, g') (i, as, []),
                 thr := g.thr.set i (.joinIn s g' as as.eraseDups) }
      | .joinIn s g' as (x :: todo) =>
        -- (`x` comes from the call's own `actors`: the second conjunct always holds — `C11.conc_join_guard_vacuous`)
        let ok := alive g.st x && (asOf g (s, g')).contains x
        { g with st := if ok then joinOne g.st (s, g') x else g.st,
                 locks := if ok then set g.locks (s, g') (i, asOf g (s, g'), accOf g (s, g') ++ [x]) else g.locks,
                 thr := g.thr.set i (.joinIn s g' as todo) }
      | .joinIn s g' as [] =>
        let joined := (asOf g (s, g')).filter (accOf g (s, g')).contains
        let p : Option Pending := if joined = [] then none else some ⟨true, s, g', joined, recipients g.st (s, g')⟩
        { g with st := joinCommit g.st (s, g') joined, locks := erase g.locks (s, g'),
                 thr := g.thr.set i (.joinEntered s g' as p), changes := g.changes ++ p.toList }
      | _ =>
        let r := callStep g.st pc
        { g with st := r.1, thr := g.thr.set i r.2.1, changes := g.changes ++ r.2.2.1, sent := g.sent ++ r.2.2.2,
                 staleG := g.staleG ++ staleGOf pc, staleW := g.staleW ++ staleWOf pc }

def run (g : G) (sched : List Tid) : G := sched.foldl step g

/-- start: the threads' calls not yet begun, no exit started, nothing sent -/
def start (st : State) (calls : List Pc) : G := ⟨st, [], calls, [], [], [], [], []⟩

/-- nothing is in flight: every caller thread has returned and every started exit has finished -/
def atRest (g : G) : Prop :=
  (∀ pc ∈ g.thr, pc = .done) ∧ (∀ a, phaseOf g a = .live ∨ phaseOf g a = .done) ∧ g.locks = []

/-! ### what is owed: the notifications the in-flight operations have still to send -/

def pcOwed : Pc → List Ev
  | .joinEntered _ _ _ (some p) => notifyPending p
  | .notify p => notifyPending p
  | _ => []

def phOwed (a : Nat) : Phase → List Ev
  | .leaving _ removed => (removed.map (recPending a)).flatMap notifyPending
  | _ => []

def owed (g : G) : List Ev := g.thr.flatMap pcOwed ++ g.exits.flatMap (fun p => phOwed p.1 p.2)

/-! ### the linearisation of a step: what it does to the abstract membership relation -/

/-- the abstract effect of a region on the set of `(scope, group, actor)` triples -/
inductive Lin
  | none
  | join (s g : Nat) (joined : List Nat) -- the actors the call accepted (each alive at its own status re-check) join
  | leave (s g : Nat) (as : List Nat)
  | leave1 (k : Key) (a : Nat)           -- the automatic leave of an exiting actor, one group
  deriving DecidableEq, Repr

def linOf (g : G) : Tid → Lin
  | .ex a r =>
    match r, phaseOf g a with
    | .lvKey k, .leaving mk _ => if k ∈ mk ∧ ¬ locked g k then .leave1 k a else .none
    | _, _ => .none
  | .call i =>
    match g.thr[i]? with
    | some (.joinIn s g' _ []) => .join s g' ((asOf g (s, g')).filter (accOf g (s, g')).contains)
    | some (.leave s g' as) => if locked g (s, g') then .none else .leave s g' as
    | _ => .none

/-- the specification's transition of the membership relation at a linearisation point -/
def specLin (before : Key → Nat → Prop) : Lin → Key → Nat → Prop
  | .none, k, x => before k x
  | .join s g joined, k, x => before k x ∨ (k = (s, g) ∧ x ∈ joined)
  | .leave s g as, k, x => before k x ∧ ¬ (k = (s, g) ∧ x ∈ as)
  | .leave1 k' a, k, x => before k x ∧ ¬ (k = k' ∧ x = a)

/-- the abstract membership relation evolved along a schedule: at every step the specification's
transition for the step's linearised operation -/
def absRun (m : Key → Nat → Prop) (g : G) : List Tid → (Key → Nat → Prop)
  | [] => m
  | t :: ts => absRun (specLin m (linOf g t)) (step g t) ts

/-! ### the window predicate, decidable, for the run-time oracle

`windowFailing st phases` lists the clauses of the cross-index invariant — weakened exactly by the
in-flight exits — that a snapshot violates (evaluated by the driver on the implementation's own
mid-race snapshots). -/

def relMemOf (st : State) (a : Nat) : List Key := ((get st.rel a).map (·.mem)).getD []
def relGmonOf (st : State) (a : Nat) : List Key := ((get st.rel a).map (·.gmon)).getD []
def relWmonOf (st : State) (a : Nat) : List Nat := ((get st.rel a).map (·.wmon)).getD []

/-- forward ⊆ reverse for actor `a`, weakened by the phase of its exit -/
def fwdOk (st : State) (a : Nat) (ph : Phase) : Bool :=
  let memKeys := (st.map.filter (fun p => p.2.members.contains a)).map (·.1)
  let lisKeys := (st.map.filter (fun p => p.2.listeners.contains a)).map (·.1)
  let wKeys := (st.world.filter (fun p => p.2.contains a)).map (·.1)
  match ph with
  | .live | .marked =>
    memKeys.all (relMemOf st a).contains && lisKeys.all (relGmonOf st a).contains && wKeys.all (relWmonOf st a).contains
  | .demon gk wk => memKeys.all (relMemOf st a).contains && lisKeys.all gk.contains && wKeys.all wk.contains
  | .demonDone => memKeys.all (relMemOf st a).contains && lisKeys.isEmpty && wKeys.isEmpty
  | .leaving mk _ => memKeys.all mk.contains && lisKeys.isEmpty && wKeys.isEmpty
  | .done => memKeys.isEmpty && lisKeys.isEmpty && wKeys.isEmpty

/-- reverse ⊆ forward: never weakened -/
def revOk (st : State) : Bool :=
  st.rel.all fun q =>
    q.2.mem.all (fun k => (membersOf st k).contains q.1) &&
    q.2.gmon.all (fun k => (listenersOf st k).contains q.1) &&
    q.2.wmon.all (fun s => (worldOf st s).contains q.1)

/-- scope index = groups with members: never weakened -/
def idxOk (st : State) : Bool :=
  (st.index.all fun p => p.2.all fun g => !(membersOf st (p.1, g)).isEmpty) &&
  (st.map.all fun p => p.2.members.isEmpty || ((get st.index p.1.1).getD []).contains p.1.2)

def actorsOf (st : State) : List Nat :=
  (st.map.flatMap fun p => p.2.members ++ p.2.listeners) ++ (st.world.flatMap (·.2)) ++ st.rel.map (·.1) ++ st.dead

def windowFailing (st : State) (phases : List (Nat × Phase)) : List String :=
  (if (actorsOf st).all (fun a => fwdOk st a ((get phases a).getD .live)) then []
   else ["forward-entry-not-accounted-by-inflight-exit"]) ++
  (if revOk st then [] else ["reverse-index-entry-without-forward-entry"]) ++
  (if idxOk st then [] else ["scope-index-vs-members-midrace"]) ++
  (if (keys st.map).Nodup && (keys st.index).Nodup && (keys st.world).Nodup && (keys st.rel).Nodup then []
   else ["duplicate-key"])

end Pg.Conc
