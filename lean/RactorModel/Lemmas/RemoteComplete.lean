import RactorModel.Lemmas.Remote

/-!
Reply completeness of `Remote.Net`: while the link is up every answer the real actor gave is
delivered to its caller, or its caller has given up, or it is still travelling. Invariant `CInv`.
-/

namespace Remote

/-- tags of the `Reply` messages waiting in the proxy's mailbox -/
def replyTags (l : List (SerMsg × Nat)) : List Nat :=
  l.filterMap fun m => match m.1 with
    | .reply t _ _ => some t
    | _ => none

/-- tags of the `Call` frames among forward frames -/
def callTagsF (l : List Frame) : List Nat := (l.filter (·.item.isCall)).map (·.tag)

/-- the tag of every call that is "in the air": as a frame A→B, as an open reply forwarder on B,
as a reply B→A, as a reply in the proxy's mailbox -/
def Net.tokTags (n : Net) : List Nat :=
  callTagsF n.fwd.contents ++ n.handles.map (·.tag) ++ n.back.contents.map (·.tag) ++ replyTags n.mbox

structure CInv (n : Net) : Prop where
  uniq : ∀ t, n.tokTags.count t ≤ 1
  fr : ∀ f ∈ n.fwd.contents, f.item.isCall = true → (f.tag, f.gport) ∈ n.px.pending ∨ f.gport ∈ n.closed
  hd : ∀ h ∈ n.handles, (h.tag, h.gport) ∈ n.px.pending ∨ h.gport ∈ n.closed
  bk : ∀ r ∈ n.back.contents, (r.tag, r.gport) ∈ n.px.pending ∨ r.gport ∈ n.closed
  mb : ∀ m ∈ n.mbox, ∀ t d g, m.1 = .reply t d g → (t, g) ∈ n.px.pending ∨ g ∈ n.closed
  ans : ∀ e ∈ n.answered, e ∈ n.delivered ∨ e.1 ∈ n.closed ∨
    (∃ r ∈ n.back.contents, (r.gport, r.data) = e) ∨ (∃ m ∈ n.mbox, ∃ t, m.1 = .reply t e.2 e.1)

theorem cinv_init (k k' : Nat) : CInv (Net.init k k') := by
  refine ⟨?_, ?_, ?_, ?_, ?_, ?_⟩ <;>
    simp [Net.init, Net.tokTags, callTagsF, replyTags, contents_replicate]

theorem replyTags_append (a b : List (SerMsg × Nat)) : replyTags (a ++ b) = replyTags a ++ replyTags b := by
  simp [replyTags, List.filterMap_append]

theorem callTagsF_append (a b : List Frame) : callTagsF (a ++ b) = callTagsF a ++ callTagsF b := by
  simp [callTagsF, List.filter_append]

theorem mem_count_pos {α : Type} [DecidableEq α] (f : α → Nat) (l : List α) (x : α) (h : x ∈ l) :
    1 ≤ (l.map f).count (f x) := by
  exact List.one_le_count_iff.mpr (List.mem_map.mpr ⟨x, h, rfl⟩)

theorem count_filter_le {α : Type} (f : α → Nat) (p : α → Bool) (l : List α) (t : Nat) :
    ((l.filter p).map f).count t ≤ (l.map f).count t :=
  (List.filter_sublist.map f).count_le t

/-- removing (at least) the element `x` from a list lowers the count of its tag -/
theorem count_filter_remove_tag {α : Type} (f : α → Nat) (p : α → Bool) (l : List α) (x : α) (hx : x ∈ l) (hp : p x = false)
    (t : Nat) : ((l.filter p).map f).count t + (if f x = t then 1 else 0) ≤ (l.map f).count t := by
  induction l with
  | nil => simp at hx
  | cons y l ih =>
    rcases List.mem_cons.mp hx with rfl | hx
    · simp only [List.filter_cons, hp, Bool.false_eq_true, ↓reduceIte, List.map_cons, List.count_cons, beq_iff_eq]
      have := count_filter_le f p l t
      split <;> omega
    · have := ih hx
      by_cases hy : p y = true
      · simp only [List.filter_cons, hy, ↓reduceIte, List.map_cons, List.count_cons]
        omega
      · simp only [List.filter_cons, hy, Bool.false_eq_true, ↓reduceIte, List.map_cons, List.count_cons]
        omega

theorem linkUp_mono (n : Net) (op : Op) (h : n.linkUp = false) : (n.step op).linkUp = false := by
  cases op <;> simp only [Net.step] <;> (repeat' split) <;> simp_all

theorem linkUp_of_step (n : Net) (op : Op) (h : (n.step op).linkUp = true) : n.linkUp = true := by
  cases hl : n.linkUp with
  | true => rfl
  | false => rw [linkUp_mono n op hl] at h; exact absurd h (by simp)

/-- every token's tag has been assigned, hence is at most the proxy's counter -/
theorem tok_le {n : Net} (hn : NInv n) : ∀ t ∈ n.tokTags, t ≤ n.px.tag := by
  intro t ht
  simp only [Net.tokTags, callTagsF, replyTags, List.mem_append, List.mem_map, List.mem_filter,
    List.mem_filterMap] at ht
  rcases ht with ((⟨f, ⟨hf, hc⟩, rfl⟩ | ⟨h, hh, rfl⟩) | ⟨r, hr, rfl⟩) | ⟨m, hm, hmt⟩
  · exact hn.asgLe _ (hn.frames f hf hc)
  · exact hn.asgLe _ (hn.handles h hh)
  · exact hn.asgLe _ (hn.back r hr).1
  · obtain ⟨msg, sender⟩ := m
    cases msg with
    | reply t' d g =>
      simp only [Option.some.injEq] at hmt
      subst hmt
      exact hn.asgLe _ (hn.mbox _ hm t' d g rfl).1
    | call _ _ => simp at hmt
    | cast _ => simp at hmt

theorem CInv.step_easy {n : Net} (op : Op) (hnp : op ≠ .proxy) (hl : (n.step op).linkUp = true) (h : CInv n) :
    CInv (n.step op) := by
  have hup := linkUp_of_step n op hl
  obtain ⟨h1, h2, h3, h4, h5, h6⟩ := h
  cases op with
  | proxy => exact absurd rfl hnp
  | cut => simp [Net.step] at hl
  | loseA => simp [Net.step] at hl
  | cast sender payload =>
    simp only [Net.step, hup, ↓reduceIte]
    refine ⟨?_, h2, h3, h4, ?_, ?_⟩
    · intro t; have := h1 t; simpa [Net.tokTags, replyTags_append, replyTags] using this
    · intro m hm t d g he
      rcases List.mem_append.mp hm with hm | hm
      · exact h5 m hm t d g he
      · simp only [List.mem_singleton] at hm; subst hm; cases he
    · intro e he
      rcases h6 e he with a | a | a | ⟨m, hm, t, hmt⟩
      · exact Or.inl a
      · exact Or.inr (Or.inl a)
      · exact Or.inr (Or.inr (Or.inl a))
      · exact Or.inr (Or.inr (Or.inr ⟨m, List.mem_append_left _ hm, t, hmt⟩))
  | call sender payload =>
    simp only [Net.step, hup, ↓reduceIte]
    refine ⟨?_, h2, h3, h4, ?_, ?_⟩
    · intro t; have := h1 t; simpa [Net.tokTags, replyTags_append, replyTags] using this
    · intro m hm t d g he
      rcases List.mem_append.mp hm with hm | hm
      · exact h5 m hm t d g he
      · simp only [List.mem_singleton] at hm; subst hm; cases he
    · intro e he
      rcases h6 e he with a | a | a | ⟨m, hm, t, hmt⟩
      · exact Or.inl a
      · exact Or.inr (Or.inl a)
      · exact Or.inr (Or.inr (Or.inl a))
      · exact Or.inr (Or.inr (Or.inr ⟨m, List.mem_append_left _ hm, t, hmt⟩))
  | abandon port =>
    simp only [Net.step]
    refine ⟨h1, ?_, ?_, ?_, ?_, ?_⟩
    · intro f hf hc; exact (h2 f hf hc).imp id (List.mem_cons_of_mem _)
    · intro x hx; exact (h3 x hx).imp id (List.mem_cons_of_mem _)
    · intro r hr; exact (h4 r hr).imp id (List.mem_cons_of_mem _)
    · intro m hm t d g he; exact (h5 m hm t d g he).imp id (List.mem_cons_of_mem _)
    · intro e he
      rcases h6 e he with a | a | a | a
      · exact Or.inl a
      · exact Or.inr (Or.inl (List.mem_cons_of_mem _ a))
      · exact Or.inr (Or.inr (Or.inl a))
      · exact Or.inr (Or.inr (Or.inr a))
  | targetExit =>
    simp only [Net.step]
    refine ⟨?_, h2, by intro x hx; simp at hx, h4, h5, h6⟩
    intro t
    have := h1 t
    simp only [Net.tokTags, List.count_append, List.map_nil, List.count_nil] at this ⊢
    omega
  | drop hid =>
    simp only [Net.step]
    refine ⟨?_, h2, ?_, h4, h5, h6⟩
    · intro t
      have := h1 t
      have hc := count_filter_le (·.tag) (fun x : Handle => x.id != hid) n.handles t
      simp only [Net.tokTags, List.count_append] at this ⊢
      omega
    · intro x hx; exact h3 x (List.mem_filter.mp hx).1
  | answer hid data =>
    simp only [Net.step]
    cases hf : n.handles.find? (·.id == hid) with
    | none => exact ⟨h1, h2, h3, h4, h5, h6⟩
    | some hd0 =>
      have hmem := List.mem_of_find?_eq_some hf
      have hid' : (hd0.id != hid) = false := by
        have := List.find?_some hf
        simp only [beq_iff_eq] at this
        simp [this]
      simp only
      refine ⟨?_, h2, ?_, ?_, h5, ?_⟩
      · intro t
        have := h1 t
        have hc := count_filter_remove_tag (·.tag) (fun x : Handle => x.id != hid) n.handles hd0 hmem hid' t
        simp only [Net.tokTags, List.count_append, Pipe.contents_push, List.map_append, List.map_cons,
          List.map_nil, List.count_cons, List.count_nil, beq_iff_eq] at this ⊢
        split at hc <;> simp_all <;> omega
      · intro x hx; exact h3 x (List.mem_filter.mp hx).1
      · intro r hr
        simp only [Pipe.contents_push, List.mem_append, List.mem_singleton] at hr
        rcases hr with hr | rfl
        · exact h4 r hr
        · exact h3 hd0 hmem
      · intro e he
        simp only [List.mem_append, List.mem_singleton] at he
        rcases he with he | rfl
        · rcases h6 e he with a | a | ⟨r, hr, hre⟩ | a
          · exact Or.inl a
          · exact Or.inr (Or.inl a)
          · exact Or.inr (Or.inr (Or.inl ⟨r, by simp [Pipe.contents_push, hr], hre⟩))
          · exact Or.inr (Or.inr (Or.inr a))
        · exact Or.inr (Or.inr (Or.inl ⟨⟨hd0.tag, data, hd0.gport⟩, by simp [Pipe.contents_push], rfl⟩))
  | moveF i =>
    have hm := Pipe.move_spec i n.fwd
    simp only [Net.step]
    cases ho : (n.fwd.move i).2 with
    | none =>
      rw [ho] at hm
      have e : n.fwd.move i = ((n.fwd.move i).1, none) := by rw [← ho]
      rw [e]
      simp only
      refine ⟨?_, ?_, h3, h4, h5, h6⟩
      · intro t; have := h1 t; simpa [Net.tokTags, hm] using this
      · intro f hf hc; rw [hm] at hf; exact h2 f hf hc
    | some f =>
      rw [ho] at hm
      have e : n.fwd.move i = ((n.fwd.move i).1, some f) := by rw [← ho]
      rw [e]
      simp only
      have hsub : ∀ x ∈ (n.fwd.move i).1.contents, x ∈ n.fwd.contents := fun x hx => by rw [hm]; exact List.mem_cons_of_mem _ hx
      have hfm : f ∈ n.fwd.contents := by rw [hm]; exact List.mem_cons_self
      by_cases htu : n.targetUp = true
      · by_cases hc : f.item.isCall = true
        · simp only [htu, hc, ↓reduceIte]
          refine ⟨?_, fun x hx hcx => h2 x (hsub x hx) hcx, ?_, h4, h5, h6⟩
          · intro t
            have := h1 t
            simp only [Net.tokTags, hm, callTagsF, List.filter_cons, hc, ↓reduceIte, List.map_cons,
              List.count_append, List.count_cons, List.map_append, List.map_nil, List.count_nil, beq_iff_eq] at this ⊢
            omega
          · intro x hx
            simp only [List.mem_append, List.mem_singleton] at hx
            rcases hx with hx | rfl
            · exact h3 x hx
            · exact h2 f hfm hc
        · simp only [htu, hc, ↓reduceIte, Bool.false_eq_true]
          refine ⟨?_, fun x hx hcx => h2 x (hsub x hx) hcx, h3, h4, h5, h6⟩
          intro t
          have := h1 t
          simp only [Net.tokTags, hm, callTagsF, List.filter_cons, hc, Bool.false_eq_true, ↓reduceIte] at this ⊢
          exact this
      · simp only [htu, ↓reduceIte, Bool.false_eq_true]
        refine ⟨?_, fun x hx hcx => h2 x (hsub x hx) hcx, h3, h4, h5, h6⟩
        intro t
        have := h1 t
        simp only [Net.tokTags, hm, callTagsF, List.filter_cons, List.count_append] at this ⊢
        split at this
        · simp only [List.map_cons, List.count_cons] at this; omega
        · exact this
  | moveB i =>
    have hm := Pipe.move_spec i n.back
    simp only [Net.step]
    cases ho : (n.back.move i).2 with
    | none =>
      rw [ho] at hm
      have e : n.back.move i = ((n.back.move i).1, none) := by rw [← ho]
      rw [e]
      simp only
      refine ⟨?_, h2, h3, ?_, h5, ?_⟩
      · intro t; have := h1 t; simpa [Net.tokTags, hm] using this
      · intro r hr; rw [hm] at hr; exact h4 r hr
      · intro x hx; rw [hm]; exact h6 x hx
    | some r =>
      rw [ho] at hm
      have e : n.back.move i = ((n.back.move i).1, some r) := by rw [← ho]
      rw [e]
      simp only
      have hrm : r ∈ n.back.contents := by rw [hm]; exact List.mem_cons_self
      refine ⟨?_, h2, h3, ?_, ?_, ?_⟩
      · intro t
        have := h1 t
        have hone : replyTags [(SerMsg.reply r.tag r.data r.gport, 0)] = [r.tag] := rfl
        simp only [Net.tokTags, hm, List.map_cons, List.count_append, List.count_cons, replyTags_append, hone,
          List.count_nil, beq_iff_eq] at this ⊢
        omega
      · intro x hx; exact h4 x (by rw [hm]; exact List.mem_cons_of_mem _ hx)
      · intro m hmm t d g he
        rcases List.mem_append.mp hmm with hmm | hmm
        · exact h5 m hmm t d g he
        · simp only [List.mem_singleton] at hmm
          subst hmm
          simp only [SerMsg.reply.injEq] at he
          obtain ⟨rfl, _, rfl⟩ := he
          exact h4 r hrm
      · intro x hx
        rcases h6 x hx with a | a | ⟨r', hr', hre⟩ | ⟨m, hmm, t, hmt⟩
        · exact Or.inl a
        · exact Or.inr (Or.inl a)
        · rw [hm] at hr'
          rcases List.mem_cons.mp hr' with rfl | hr'
          · refine Or.inr (Or.inr (Or.inr ⟨(.reply r'.tag r'.data r'.gport, 0), by simp, r'.tag, ?_⟩))
            rw [← hre]
          · exact Or.inr (Or.inr (Or.inl ⟨r', hr', hre⟩))
        · exact Or.inr (Or.inr (Or.inr ⟨m, List.mem_append_left _ hmm, t, hmt⟩))

theorem keep_cleanup (n : Net) (e : Nat × Nat) (h : e ∈ n.px.pending ∨ e.2 ∈ n.closed) :
    e ∈ (n.px.cleanup (n.closed.contains ·)).pending ∨ e.2 ∈ n.closed := by
  rcases h with h | h
  · by_cases hc : e ∈ (n.px.cleanup (n.closed.contains ·)).pending
    · exact Or.inl hc
    · have := cleanup_removes_closed (n.closed.contains ·) n.px e h hc
      exact Or.inr (by simpa using this)
  · exact Or.inr h

theorem CInv.step_proxy {n : Net} (hup : n.linkUp = true) (hn : NInv n) (h : CInv n) : CInv (n.step .proxy) := by
  obtain ⟨h1, h2, h3, h4, h5, h6⟩ := h
  simp only [Net.step]
  split
  · exact ⟨h1, h2, h3, h4, h5, h6⟩
  · rename_i m sender rest hm
    have hrest : ∀ x ∈ rest, x ∈ n.mbox := fun x hx => by rw [hm]; exact List.mem_cons_of_mem _ hx
    cases m with
    | cast payload =>
      have hrt : replyTags n.mbox = replyTags rest := by rw [hm]; rfl
      simp only [Proxy.handle, hup, ↓reduceIte, List.filterMap_cons, List.filterMap_nil, Frame.ofOut,
        List.foldl_cons, List.foldl_nil, List.append_nil]
      refine ⟨?_, ?_, ?_, ?_, ?_, ?_⟩
      · intro t
        have := h1 t
        simpa [Net.tokTags, Pipe.contents_push, callTagsF_append, callTagsF, hrt] using this
      · intro f hf hc
        simp only [Pipe.contents_push, List.mem_append, List.mem_singleton] at hf
        rcases hf with hf | rfl
        · exact keep_cleanup n _ (h2 f hf hc)
        · simp at hc
      · intro x hx; exact keep_cleanup n _ (h3 x hx)
      · intro r hr; exact keep_cleanup n _ (h4 r hr)
      · intro x hx t d g he; exact keep_cleanup n _ (h5 x (hrest x hx) t d g he)
      · intro e he
        rcases h6 e he with a | a | a | ⟨x, hx, t, hxt⟩
        · exact Or.inl a
        · exact Or.inr (Or.inl a)
        · exact Or.inr (Or.inr (Or.inl a))
        · rw [hm] at hx
          rcases List.mem_cons.mp hx with rfl | hx
          · cases hxt
          · exact Or.inr (Or.inr (Or.inr ⟨x, hx, t, hxt⟩))
    | call port payload =>
      have hrt : replyTags n.mbox = replyTags rest := by rw [hm]; rfl
      have hfresh : n.tokTags.count (n.px.tag + 1) = 0 :=
        List.count_eq_zero.mpr (fun hmem => by have := tok_le hn _ hmem; omega)
      simp only [Proxy.handle, hup, ↓reduceIte, cleanup_tag, List.filterMap_cons, List.filterMap_nil, Frame.ofOut,
        SerMsg.port, List.foldl_cons, List.foldl_nil, List.append_nil]
      refine ⟨?_, ?_, ?_, ?_, ?_, ?_⟩
      · intro t
        have := h1 t
        simp only [Net.tokTags, Pipe.contents_push, callTagsF_append, hrt, List.count_append] at this hfresh ⊢
        have hone : callTagsF [({ item := ⟨true, sender, payload⟩, tag := n.px.tag + 1, gport := port } : Frame)] =
            [n.px.tag + 1] := rfl
        rw [hone]
        simp only [List.count_cons, List.count_nil, beq_iff_eq]
        split
        · next heq => subst heq; omega
        · omega
      · intro f hf hc
        simp only [Pipe.contents_push, List.mem_append, List.mem_singleton] at hf
        rcases hf with hf | rfl
        · exact (keep_cleanup n _ (h2 f hf hc)).imp (List.mem_append_left _) id
        · exact Or.inl (by simp)
      · intro x hx; exact (keep_cleanup n _ (h3 x hx)).imp (List.mem_append_left _) id
      · intro r hr; exact (keep_cleanup n _ (h4 r hr)).imp (List.mem_append_left _) id
      · intro x hx t d g he; exact (keep_cleanup n _ (h5 x (hrest x hx) t d g he)).imp (List.mem_append_left _) id
      · intro e he
        rcases h6 e he with a | a | ⟨r, hr, hre⟩ | ⟨x, hx, t, hxt⟩
        · exact Or.inl a
        · exact Or.inr (Or.inl a)
        · exact Or.inr (Or.inr (Or.inl ⟨r, hr, hre⟩))
        · rw [hm] at hx
          rcases List.mem_cons.mp hx with rfl | hx
          · cases hxt
          · exact Or.inr (Or.inr (Or.inr ⟨x, hx, t, hxt⟩))
    | reply tag data g =>
      have hclean := hn.px.cleanup (n.closed.contains ·)
      have hrt : replyTags n.mbox = tag :: replyTags rest := by rw [hm]; rfl
      have hhead : (tag, g) ∈ n.px.pending ∨ g ∈ n.closed :=
        h5 (.reply tag data g, sender) (by rw [hm]; exact List.mem_cons_self) tag data g rfl
      have hu := h1 tag
      simp only [Net.tokTags, List.count_append, hrt, List.count_cons_self] at hu
      -- no other token carries this tag
      have hne_f : ∀ f ∈ n.fwd.contents, f.item.isCall = true → f.tag ≠ tag := by
        intro f hf hc heq
        have : 1 ≤ (callTagsF n.fwd.contents).count tag := by
          rw [← heq]
          have hfm : f ∈ n.fwd.contents.filter (·.item.isCall) := List.mem_filter.mpr ⟨hf, hc⟩
          exact mem_count_pos (·.tag) _ f hfm
        omega
      have hne_h : ∀ x ∈ n.handles, x.tag ≠ tag := by
        intro x hx heq
        have : 1 ≤ (n.handles.map (·.tag)).count tag := by rw [← heq]; exact mem_count_pos (·.tag) _ x hx
        omega
      have hne_b : ∀ r ∈ n.back.contents, r.tag ≠ tag := by
        intro r hr heq
        have : 1 ≤ (n.back.contents.map (·.tag)).count tag := by rw [← heq]; exact mem_count_pos (·.tag) _ r hr
        omega
      have hne_m : ∀ x ∈ rest, ∀ t d g', x.1 = .reply t d g' → t ≠ tag := by
        intro x hx t d g' he heq
        have : 1 ≤ (replyTags rest).count tag := by
          apply List.one_le_count_iff.mpr
          simp only [replyTags, List.mem_filterMap]
          exact ⟨x, hx, by rw [he, heq]⟩
        omega
      -- an entry with another tag survives cleanup (unless its caller gave up) and the removal
      have keep : ∀ e : Nat × Nat, e.1 ≠ tag → (e ∈ n.px.pending ∨ e.2 ∈ n.closed) →
          e ∈ ((n.px.cleanup (n.closed.contains ·)).removePending tag).1.pending ∨ e.2 ∈ n.closed := by
        intro e hne he
        rcases keep_cleanup n e he with a | a
        · exact Or.inl (by simp only [Proxy.removePending, List.mem_filter]; exact ⟨a, by simpa using hne⟩)
        · exact Or.inr a
      have huniq : ∀ t, (callTagsF n.fwd.contents ++ n.handles.map (·.tag) ++ n.back.contents.map (·.tag) ++
          replyTags rest).count t ≤ 1 := by
        intro t
        have := h1 t
        simp only [Net.tokTags, List.count_append, hrt, List.count_cons] at this ⊢
        omega
      have hans : ∀ dels : List (Nat × Nat),
          (g ∉ n.closed → (tag, g) ∈ n.px.pending → (g, data) ∈ dels) →
          ∀ e ∈ n.answered, e ∈ n.delivered ++ dels ∨ e.1 ∈ n.closed ∨
            (∃ r ∈ n.back.contents, (r.gport, r.data) = e) ∨ (∃ m ∈ rest, ∃ t, m.1 = .reply t e.2 e.1) := by
        intro dels hd e he
        rcases h6 e he with a | a | a | ⟨x, hx, t, hxt⟩
        · exact Or.inl (List.mem_append_left _ a)
        · exact Or.inr (Or.inl a)
        · exact Or.inr (Or.inr (Or.inl a))
        · rw [hm] at hx
          rcases List.mem_cons.mp hx with rfl | hx
          · simp only [SerMsg.reply.injEq] at hxt
            obtain ⟨_, hd2, hg2⟩ := hxt
            have he' : e = (g, data) := Prod.ext hg2.symm hd2.symm
            by_cases hgc : g ∈ n.closed
            · exact Or.inr (Or.inl (by rw [he']; exact hgc))
            · rcases hhead with hp | hp
              · exact Or.inl (List.mem_append_right _ (by rw [he']; exact hd hgc hp))
              · exact absurd hp hgc
          · exact Or.inr (Or.inr (Or.inr ⟨x, hx, t, hxt⟩))
      simp only [Proxy.handle]
      cases hq : ((n.px.cleanup (n.closed.contains ·)).removePending tag).2 with
      | none =>
        simp only [hq, List.filterMap_nil, List.append_nil, List.foldl_nil]
        refine ⟨huniq, ?_, ?_, ?_, ?_, ?_⟩
        · intro f hf hc; exact keep _ (hne_f f hf hc) (h2 f hf hc)
        · intro x hx; exact keep _ (hne_h x hx) (h3 x hx)
        · intro r hr; exact keep _ (hne_b r hr) (h4 r hr)
        · intro x hx t d g' he; exact keep _ (hne_m x hx t d g' he) (h5 x (hrest x hx) t d g' he)
        · have := hans [] (by
            intro hgc hp
            have hin : (tag, g) ∈ (n.px.cleanup (n.closed.contains ·)).pending :=
              cleanup_keeps_open _ _ _ hp (by simpa using hgc)
            have := (removePending_port hclean tag g).mpr hin
            rw [hq] at this
            exact absurd this (by simp))
          simpa using this
      | some q =>
        by_cases hcq : n.closed.contains q = true
        · simp only [hq, hcq, ↓reduceIte, List.filterMap_nil, List.append_nil, List.foldl_nil]
          refine ⟨huniq, ?_, ?_, ?_, ?_, ?_⟩
          · intro f hf hc; exact keep _ (hne_f f hf hc) (h2 f hf hc)
          · intro x hx; exact keep _ (hne_h x hx) (h3 x hx)
          · intro r hr; exact keep _ (hne_b r hr) (h4 r hr)
          · intro x hx t d g' he; exact keep _ (hne_m x hx t d g' he) (h5 x (hrest x hx) t d g' he)
          · have := hans [] (by
              intro hgc hp
              have hin : (tag, g) ∈ (n.px.cleanup (n.closed.contains ·)).pending :=
                cleanup_keeps_open _ _ _ hp (by simpa using hgc)
              have := (removePending_port hclean tag g).mpr hin
              rw [hq] at this
              have hqg : q = g := Option.some.inj this
              rw [hqg] at hcq
              exact absurd (by simpa using hcq) hgc)
            simpa using this
        · simp only [hq, hcq, Bool.false_eq_true, ↓reduceIte, List.filterMap_cons, List.filterMap_nil, Frame.ofOut,
            List.foldl_nil]
          refine ⟨huniq, ?_, ?_, ?_, ?_, ?_⟩
          · intro f hf hc; exact keep _ (hne_f f hf hc) (h2 f hf hc)
          · intro x hx; exact keep _ (hne_h x hx) (h3 x hx)
          · intro r hr; exact keep _ (hne_b r hr) (h4 r hr)
          · intro x hx t d g' he; exact keep _ (hne_m x hx t d g' he) (h5 x (hrest x hx) t d g' he)
          · exact hans [(q, data)] (by
              intro hgc hp
              have hin : (tag, g) ∈ (n.px.cleanup (n.closed.contains ·)).pending :=
                cleanup_keeps_open _ _ _ hp (by simpa using hgc)
              have := (removePending_port hclean tag g).mpr hin
              rw [hq] at this
              have hqg : q = g := Option.some.inj this
              rw [hqg]
              exact List.mem_singleton.mpr rfl)

theorem linkUp_mono_run (ops : List Op) (n : Net) (h : n.linkUp = false) : (n.run ops).linkUp = false := by
  induction ops generalizing n with
  | nil => exact h
  | cons op ops ih => exact ih _ (linkUp_mono n op h)

theorem CInv.step {n : Net} (op : Op) (hl : (n.step op).linkUp = true) (hn : NInv n) (h : CInv n) :
    CInv (n.step op) := by
  by_cases hp : op = .proxy
  · subst hp; exact CInv.step_proxy (linkUp_of_step n _ hl) hn h
  · exact CInv.step_easy op hp hl h

theorem CInv.run (ops : List Op) (n : Net) (hl : (n.run ops).linkUp = true) (hn : NInv n) (h : CInv n) :
    CInv (n.run ops) := by
  induction ops generalizing n with
  | nil => exact h
  | cons op ops ih =>
    have hl1 : (n.step op).linkUp = true := by
      cases hc : (n.step op).linkUp with
      | true => rfl
      | false =>
        have := linkUp_mono_run ops _ hc
        simp only [Net.run, List.foldl_cons] at hl
        simp only [Net.run] at this
        rw [this] at hl
        exact absurd hl (by simp)
    exact ih _ (by simpa [Net.run] using hl) (hn.step op) (CInv.step op hl1 hn h)

end Remote
