import RactorModel.Lemmas.PgConcOwn

/-! The per-actor invariant holds along every schedule of `Pg.Conc`. -/

namespace Pg.Conc
open AList Pg Pg.Fine

/-! ### the equations of `step` -/

def exSkip (g : G) (a : Nat) (r : ExReg) : Prop := (r = .mark ∧ a ∈ g.st.dead) ∨ (exNeedsKey r).any (locked g) = true

theorem step_ex_skip (g : G) (b : Nat) (r : ExReg) (h : exSkip g b r) : step g (.ex b r) = g := by
  unfold exSkip at h
  simp only [step, h, ↓reduceIte]

theorem step_ex (g : G) (b : Nat) (r : ExReg) (h : ¬ exSkip g b r) :
    step g (.ex b r) =
      { g with st := (fstep b ⟨g.st, phaseOf g b⟩ r.toFOp).st,
               exits := set g.exits b (fstep b ⟨g.st, phaseOf g b⟩ r.toFOp).ph,
               changes := g.changes ++ exRecs g.st b (phaseOf g b) r,
               sent := g.sent ++ exEvs g.st b (phaseOf g b) r } := by
  unfold exSkip at h
  simp only [step, h, ↓reduceIte]

def blocked (g : G) (pc : Pc) : Prop := (needsKey g.st pc).any (locked g) = true

theorem step_call_none (g : G) (i : Nat) (h : g.thr[i]? = none) : step g (.call i) = g := by
  simp only [step, h]

theorem step_call_blocked (g : G) (i : Nat) (pc : Pc) (h : g.thr[i]? = some pc) (hb : blocked g pc) :
    step g (.call i) = g := by
  unfold blocked at hb
  simp only [step, h, hb, ↓reduceIte]

theorem step_call_lock (g : G) (i : Nat) (s g' : Nat) (as : List Nat) (h : g.thr[i]? = some (.joinFiltered s g' as))
    (hb : ¬ blocked g (.joinFiltered s g' as)) :
    step g (.call i) =
      { g with st := touchGroup g.st (s, g'), locks := set g.locks (s, g') (i, as, []),
               thr := g.thr.set i (.joinIn s g' as as.eraseDups) } := by
  unfold blocked at hb
  simp only [step, h, hb, Bool.false_eq_true, ↓reduceIte]

def joinOk (g : G) (k : Key) (x : Nat) : Bool := alive g.st x && (asOf g k).contains x

theorem step_call_one (g : G) (i : Nat) (s g' : Nat) (as : List Nat) (x : Nat) (todo : List Nat)
    (h : g.thr[i]? = some (.joinIn s g' as (x :: todo))) :
    step g (.call i) =
      { g with st := if joinOk g (s, g') x then joinOne g.st (s, g') x else g.st,
               locks := if joinOk g (s, g') x then set g.locks (s, g') (i, asOf g (s, g'), accOf g (s, g') ++ [x]) else g.locks,
               thr := g.thr.set i (.joinIn s g' as todo) } := by
  simp only [step, h, needsKey, Option.any_none, Bool.false_eq_true, ↓reduceIte, joinOk]
  rfl

def joinedOf (g : G) (k : Key) : List Nat := (asOf g k).filter (accOf g k).contains

def commitRec (g : G) (s g' : Nat) : Option Pending :=
  if joinedOf g (s, g') = [] then none else some ⟨true, s, g', joinedOf g (s, g'), recipients g.st (s, g')⟩

theorem step_call_commit (g : G) (i : Nat) (s g' : Nat) (as : List Nat)
    (h : g.thr[i]? = some (.joinIn s g' as [])) :
    step g (.call i) =
      { g with st := joinCommit g.st (s, g') (joinedOf g (s, g')), locks := erase g.locks (s, g'),
               thr := g.thr.set i (.joinEntered s g' as (commitRec g s g')),
               changes := g.changes ++ (commitRec g s g').toList } := by
  simp only [step, h, needsKey, Option.any_none, Bool.false_eq_true, ↓reduceIte, joinedOf, commitRec]
  rfl

theorem step_call_other (g : G) (i : Nat) (pc : Pc) (h : g.thr[i]? = some pc) (hb : ¬ blocked g pc)
    (h1 : ∀ s g' as, pc ≠ .joinFiltered s g' as) (h2 : ∀ s g' as todo, pc ≠ .joinIn s g' as todo) :
    step g (.call i) =
      { g with st := (callStep g.st pc).1, thr := g.thr.set i (callStep g.st pc).2.1,
               changes := g.changes ++ (callStep g.st pc).2.2.1, sent := g.sent ++ (callStep g.st pc).2.2.2,
               staleG := g.staleG ++ staleGOf pc, staleW := g.staleW ++ staleWOf pc } := by
  unfold blocked at hb
  cases pc with
  | joinFiltered s g' as => exact absurd rfl (h1 s g' as)
  | joinIn s g' as todo => exact absurd rfl (h2 s g' as todo)
  | _ => simp only [step, h, hb, Bool.false_eq_true, ↓reduceIte]

/-! ### the lock table -/

theorem accOf_of_locks (g g' : G) (h : g'.locks = g.locks) : accOf g' = accOf g := by
  funext k; unfold accOf; rw [h]

theorem not_locked_acc {g : G} {k : Key} (h : locked g k = false) : accOf g k = [] := by
  unfold locked at h; unfold accOf
  cases hg : get g.locks k with
  | none => rfl
  | some v => rw [hg] at h; cases h

/-- what a lock holder has accepted is among the actors it was given -/
def LockInv (g : G) : Prop := ∀ k y, y ∈ accOf g k → y ∈ asOf g k

/-! ### what the caller regions stepped through `callStep` do -/

theorem joinEntry_empty (st : State) (s g : Nat) (as : List Nat) (h : as.filter (alive st) = []) :
    (joinEntry st s g as).1 = touchGroup st (s, g) := by
  simp [joinEntry, h, touchGroup]

theorem leaveEntry_none (st : State) (s g : Nat) (as : List Nat) (h : get st.map (s, g) = none) :
    (leaveEntry st s g as).1 = st := by
  simp [leaveEntry, h]

theorem leaveEntry_some (st : State) (s g : Nat) (as : List Nat) {gs : GS} (h : get st.map (s, g) = some gs) :
    (leaveEntry st s g as).1 = (leave st s g as).1 := by
  simp [leaveEntry, h]


/-- the entry region of a `demonitor*` whose fetch found no reverse-index `Arc`: forward side only -/
def isFwd : Pc → Prop
  | .demonitorFwd _ _ => True
  | .demonitorScopeFwd _ _ => True
  | _ => False

def demFwdEff (g b : Nat) : Eff := { delL := fun k x => k = (defaultScope, g) ∧ x = b }
def demScopeFwdEff (s b : Nat) : Eff := { delW := fun s' x => s' = s ∧ x = b }

theorem trans_demonitorFwd (st : State) (g b : Nat) : Trans st (demonitorFwdSt st g b) (demFwdEff g b) := by
  have t := trans_demonKey st b (defaultScope, g)
  exact ⟨t.m, t.rm, t.l, t.rg, t.w, t.rw, t.d⟩

theorem trans_demonitorScopeFwd (st : State) (s b : Nat) : Trans st (demonitorScopeFwdSt st s b) (demScopeFwdEff s b) := by
  have t := trans_demonWKey st b s
  exact ⟨t.m, t.rm, t.l, t.rg, t.w, t.rw, t.d⟩

theorem call_trans (st : State) (pc : Pc) :
    ∃ e, Trans st (callStep st pc).1 e ∧ (∀ a, ¬ isFwd pc → WB a st e) ∧
      (∀ x, x ∈ (callStep st pc).1.dead → x ∈ st.dead) ∧
      (∀ k x, e.delM k x → needsKey st pc = some k) := by
  have wb_all_empty : ∀ a, ¬ isFwd pc → WB a st {} := fun a _ => wb_empty a st
  cases pc with
  | join s g as => exact ⟨{}, trans_of_same (same_refl st), wb_all_empty, fun _ h => h, by simp⟩
  | joinFiltered s g as => exact ⟨{}, trans_of_same (same_refl st), wb_all_empty, fun _ h => h, by simp⟩
  | joinIn s g as todo => exact ⟨{}, trans_of_same (same_refl st), wb_all_empty, fun _ h => h, by simp⟩
  | joinEntered s g as p =>
    exact ⟨{}, trans_of_same (same_joinCleanup st s g as), wb_all_empty, fun _ h => h, by simp⟩
  | notify p => exact ⟨{}, trans_of_same (same_refl st), wb_all_empty, fun _ h => h, by simp⟩
  | leave s g as =>
    show ∃ e, Trans st (leaveEntry st s g as).1 e ∧ _ ∧ (∀ x, x ∈ (leaveEntry st s g as).1.dead → _) ∧ _
    cases h : get st.map (s, g) with
    | none =>
      rw [leaveEntry_none st s g as h]
      exact ⟨{}, trans_of_same (same_refl st), wb_all_empty, fun _ h => h, by simp⟩
    | some gs =>
      rw [leaveEntry_some st s g as h]
      refine ⟨leaveEff s g as, trans_leave st s g as h, fun a _ => wb_leave a st s g as, ?_, ?_⟩
      · intro x hx; rw [leave_dead st s g as h] at hx; exact hx
      · intro k x hk; simp only [leaveEff] at hk; simp [needsKey, hk.1]
  | monitor g b => exact ⟨{}, trans_of_same (same_relCreate st b), wb_all_empty, fun _ h => h, by simp⟩
  | monitorRel g b =>
    show ∃ e, Trans st (monitorEntry st g b) e ∧ _ ∧ (∀ x, x ∈ (monitorEntry st g b).dead → _) ∧ _
    unfold monitorEntry
    by_cases hd : b ∈ st.dead
    · have : alive st b = false := by simp [alive, hd]
      rw [this]
      exact ⟨{}, trans_of_same (same_touchGroup st _), wb_all_empty, fun _ h => h, by simp⟩
    · have : alive st b = true := alive_iff.mpr hd
      rw [this, if_pos rfl]
      refine ⟨monitorEff g b, trans_monitor_alive st g b hd, fun a _ => wb_monitor a st g b hd, ?_, by simp [monitorEff]⟩
      intro x hx; rw [monitor_alive_state st g b hd] at hx; exact hx
  | monitorRecheck g b =>
    refine ⟨{}, trans_of_same (same_monitorRecheck st g b), wb_all_empty, ?_, by simp⟩
    intro x hx
    have hx' : x ∈ (monitorRecheck st g b).dead := hx
    unfold monitorRecheck at hx'; split at hx' <;> exact hx'
  | monitorScope s b => exact ⟨{}, trans_of_same (same_relCreate st b), wb_all_empty, fun _ h => h, by simp⟩
  | monitorScopeRel s b =>
    show ∃ e, Trans st (monitorScopeEntry st s b) e ∧ _ ∧ (∀ x, x ∈ (monitorScopeEntry st s b).dead → _) ∧ _
    unfold monitorScopeEntry
    by_cases hd : b ∈ st.dead
    · have : alive st b = false := by simp [alive, hd]
      rw [this]
      exact ⟨{}, trans_of_same (same_touchWorld st _), wb_all_empty, fun _ h => h, by simp⟩
    · have : alive st b = true := alive_iff.mpr hd
      rw [this, if_pos rfl]
      refine ⟨monitorScopeEff s b, trans_monitorScope_alive st s b hd, fun a _ => wb_monitorScope a st s b hd, ?_,
        by simp [monitorScopeEff]⟩
      intro x hx; rw [monitorScope_alive_state st s b hd] at hx; exact hx
  | monitorScopeRecheck s b =>
    refine ⟨{}, trans_of_same (same_monitorScopeRecheck st s b), wb_all_empty, ?_, by simp⟩
    intro x hx
    have hx' : x ∈ (monitorScopeRecheck st s b).dead := hx
    unfold monitorScopeRecheck at hx'; split at hx' <;> exact hx'
  | demonitorCall g b => exact ⟨{}, trans_of_same (same_refl st), wb_all_empty, fun _ h => h, by simp⟩
  | demonitor g b =>
    exact ⟨demonitorEff g b, trans_demonitor st g b, fun a _ => wb_demonitor a st g b, fun _ h => h, by simp [demonitorEff]⟩
  | demonitorFwd g b =>
    exact ⟨demFwdEff g b, trans_demonitorFwd st g b, fun a h => absurd trivial h, fun _ h => h, by simp [demFwdEff]⟩
  | demonitorScopeCall s b => exact ⟨{}, trans_of_same (same_refl st), wb_all_empty, fun _ h => h, by simp⟩
  | demonitorScope s b =>
    exact ⟨demonitorScopeEff s b, trans_demonitorScope st s b, fun a _ => wb_demonitorScope a st s b, fun _ h => h,
      by simp [demonitorScopeEff]⟩
  | demonitorScopeFwd s b =>
    exact ⟨demScopeFwdEff s b, trans_demonitorScopeFwd st s b, fun a h => absurd trivial h, fun _ h => h,
      by simp [demScopeFwdEff]⟩
  | done => exact ⟨{}, trans_of_same (same_refl st), wb_all_empty, fun _ h => h, by simp⟩

/-- a region of the exit of `b`: its effect, well-behaved towards every OTHER actor -/
theorem exreg_trans (st : State) (b : Nat) (ph : Phase) (r : ExReg) :
    ∃ e, Trans st (fstep b ⟨st, ph⟩ r.toFOp).st e ∧ (∀ a, b ≠ a → WB a st e) ∧
      (∀ a, b ≠ a → a ∈ (fstep b ⟨st, ph⟩ r.toFOp).st.dead → a ∈ st.dead) ∧
      (∀ k x, e.delM k x → exNeedsKey r = some k) := by
  have triv : ∃ e, Trans st st e ∧ (∀ a, b ≠ a → WB a st e) ∧ (∀ a, b ≠ a → a ∈ st.dead → a ∈ st.dead) ∧
      (∀ k x, e.delM k x → exNeedsKey r = some k) :=
    ⟨{}, trans_of_same (same_refl st), fun a _ => wb_empty a st, fun _ _ h => h, by simp⟩
  cases r with
  | mark =>
    cases ph with
    | live =>
      refine ⟨{}, trans_of_same (same_markDead st b), fun a _ => wb_empty a st, ?_, by simp⟩
      intro a hab h
      have h' : a ∈ (markDead st b).dead := h
      have : a = b ∨ a ∈ st.dead := by simpa [markDead] using h'
      rcases this with e | e
      · exact absurd e.symm hab
      · exact e
    | _ => exact triv
  | demTake =>
    cases ph with
    | marked =>
      exact ⟨demonTakeEff b, trans_demonTake st b, fun a h => wb_demonTake h st, fun _ _ h => h, by simp [demonTakeEff]⟩
    | _ => exact triv
  | demKey k =>
    cases ph with
    | demon gk wk =>
      simp only [ExReg.toFOp, fstep]
      split
      · exact ⟨demonKeyEff b k, trans_demonKey st b k, fun a h => wb_demonKey h st k, fun _ _ h => h,
          by simp [demonKeyEff]⟩
      · exact triv
    | _ => exact triv
  | demWKey s =>
    cases ph with
    | demon gk wk =>
      simp only [ExReg.toFOp, fstep]
      split
      · exact ⟨demonWKeyEff b s, trans_demonWKey st b s, fun a h => wb_demonWKey h st s, fun _ _ h => h,
          by simp [demonWKeyEff]⟩
      · exact triv
    | _ => exact triv
  | demDone =>
    cases ph with
    | demon gk wk =>
      cases gk with
      | nil => cases wk <;> exact triv
      | cons _ _ => exact triv
    | _ => exact triv
  | take =>
    cases ph with
    | demonDone =>
      exact ⟨takeMemEff b, trans_takeMem st b, fun a h => wb_takeMem h st, fun _ _ h => h, by simp [takeMemEff]⟩
    | _ => exact triv
  | lvKey k =>
    cases ph with
    | leaving mk rm =>
      simp only [ExReg.toFOp, fstep]
      split
      · refine ⟨leaveKeyEff b k, trans_leaveKey st b k, fun a h => wb_leaveKey h st k, ?_, ?_⟩
        · intro a _ h; rw [(leaveKey_acc st b k).2.2.2] at h; exact h
        · intro k' x hk; simp only [leaveKeyEff] at hk; simp [exNeedsKey, hk.1]
      · exact triv
    | _ => exact triv
  | finish =>
    cases ph with
    | leaving mk rm =>
      cases mk with
      | nil =>
        exact ⟨{}, trans_of_same (same_finishLeave st b rm), fun a _ => wb_empty a st, fun _ _ h => h, by simp⟩
      | cons _ _ => exact triv
    | _ => exact triv

/-! ### the invariant along `step` -/

/-- for every actor: the invariant of its phase -/
def AllInv (g : G) : Prop := ∀ a, VInv a (gView g) (phaseOf g a)

theorem unlocked_of_needs {g : G} {pc : Pc} {k : Key} (hb : ¬ blocked g pc) (hk : needsKey g.st pc = some k) :
    locked g k = false := by
  unfold blocked at hb; rw [hk] at hb
  simpa using hb

theorem ex_unlocked {g : G} {b : Nat} {r : ExReg} {k : Key} (h : ¬ exSkip g b r) (hk : exNeedsKey r = some k) :
    locked g k = false := by
  unfold exSkip at h
  have : ¬ ((exNeedsKey r).any (locked g) = true) := fun x => h (Or.inr x)
  rw [hk] at this
  simpa using this

theorem phaseOf_ex (g : G) (b : Nat) (st' : State) (ph' : Phase) (ch : List Pending) (sn : List Ev) (a : Nat) :
    phaseOf { g with st := st', exits := set g.exits b ph', changes := ch, sent := sn } a =
      if a = b then ph' else phaseOf g a := by
  unfold phaseOf
  simp only [get_set]
  by_cases e : a = b
  · rw [if_pos e, if_pos e]; rfl
  · rw [if_neg e, if_neg e]

/-- the regions of `a`'s own exit -/
theorem vinv_own_step (g : G) (a : Nat) (r : ExReg) (h : VInv a (gView g) (phaseOf g a)) (hs : ¬ exSkip g a r) :
    VInv a (stView (fstep a ⟨g.st, phaseOf g a⟩ r.toFOp).st (auxOf g)) (fstep a ⟨g.st, phaseOf g a⟩ r.toFOp).ph := by
  have hmark : ¬ (r = .mark ∧ a ∈ g.st.dead) := fun x => hs (Or.inl x)
  generalize hph : phaseOf g a = ph at h
  cases r with
  | mark =>
    cases ph with
    | live =>
      have t : VTrans (gView g) (stView (markDead g.st a) (auxOf g)) {} :=
        vtrans_lift (auxOf g) (trans_of_same (same_markDead g.st a)) (by simp)
      exact vinv_mark (sameA_of_vtrans_empty t) (by show a ∈ (markDead g.st a).dead; simp [markDead]) h
    | _ => exact h
  | demTake =>
    cases ph with
    | marked =>
      have t : VTrans (gView g) (stView (demonTake g.st a) (auxOf g)) (demonTakeEff a) :=
        vtrans_lift (auxOf g) (trans_demonTake g.st a) (by simp [demonTakeEff])
      refine vinv_demTake t _ _ ?_ ?_ h
      · intro k hk
        show k ∈ ((get g.st.rel a).map (·.gmon)).getD []
        rw [relGmon_eq]; exact hk
      · intro s hs'
        show s ∈ ((get g.st.rel a).map (·.wmon)).getD []
        rw [relWmon_eq]; exact hs'
    | _ => exact h
  | demKey k =>
    cases ph with
    | demon gk wk =>
      simp only [ExReg.toFOp, fstep]
      split
      · exact vinv_demKey k (vtrans_lift (auxOf g) (trans_demonKey g.st a k) (by simp [demonKeyEff])) gk wk h
      · exact h
    | _ => exact h
  | demWKey s =>
    cases ph with
    | demon gk wk =>
      simp only [ExReg.toFOp, fstep]
      split
      · exact vinv_demWKey s (vtrans_lift (auxOf g) (trans_demonWKey g.st a s) (by simp [demonWKeyEff])) gk wk h
      · exact h
    | _ => exact h
  | demDone =>
    cases ph with
    | demon gk wk =>
      cases gk with
      | nil =>
        cases wk with
        | nil => exact vinv_demDone h
        | cons _ _ => exact h
      | cons _ _ => exact h
    | _ => exact h
  | take =>
    cases ph with
    | demonDone =>
      have t : VTrans (gView g) (stView (takeMem g.st a) (auxOf g)) (takeMemEff a) :=
        vtrans_lift (auxOf g) (trans_takeMem g.st a) (by simp [takeMemEff])
      refine vinv_take t _ ?_ h
      intro k hk
      show k ∈ ((get g.st.rel a).map (·.mem)).getD []
      rw [relMem_eq]; exact hk
    | _ => exact h
  | lvKey k =>
    cases ph with
    | leaving mk rm =>
      simp only [ExReg.toFOp, fstep]
      split
      · have hu : accOf g k = [] := not_locked_acc (ex_unlocked hs rfl)
        have t : VTrans (gView g) (stView (leaveKey g.st a k).1 (auxOf g)) (leaveKeyEff a k) :=
          vtrans_lift (auxOf g) (trans_leaveKey g.st a k) (by
            intro k' x hk'; simp only [leaveKeyEff] at hk'; show x ∉ accOf g k'; rw [hk'.1, hu]; exact List.not_mem_nil)
        exact vinv_lvKey k t mk rm _ h
      · exact h
    | _ => exact h
  | finish =>
    cases ph with
    | leaving mk rm =>
      cases mk with
      | nil =>
        have t : VTrans (gView g) (stView (finishLeave g.st a rm).1 (auxOf g)) {} :=
          vtrans_lift (auxOf g) (trans_of_same (same_finishLeave g.st a rm)) (by simp)
        exact vinv_finish (sameA_of_vtrans_empty t) rm h
      | cons _ _ => exact h
    | _ => exact h

/-- a region of the exit of another actor -/
theorem envV_exreg (g : G) {a b : Nat} (hab : b ≠ a) (r : ExReg) (hs : ¬ exSkip g b r) :
    EnvV a (gView g) (stView (fstep b ⟨g.st, phaseOf g b⟩ r.toFOp).st (auxOf g)) := by
  obtain ⟨e, t, wb, db, hdel⟩ := exreg_trans g.st b (phaseOf g b) r
  refine envV_of_vtrans (vtrans_lift (auxOf g) t ?_) (wbv_of_wb _ (wb a hab)) (db a hab)
  intro k x hk
  show x ∉ accOf g k
  rw [not_locked_acc (ex_unlocked hs (hdel k x hk))]; exact List.not_mem_nil

/-- the stale ghosts after a caller region -/
def auxAfter (g : G) (pc : Pc) : Aux :=
  ⟨accOf g, fun x k => (x, k) ∈ g.staleG ++ staleGOf pc, fun x s => (x, s) ∈ g.staleW ++ staleWOf pc⟩

/-- the entry region of a `demonitor` that fetched no `Arc`: the listener goes, the reverse entry (if a
`monitor` created one meanwhile) stays and is recorded as stale -/
theorem envV_fwd (g : G) (g1 b : Nat) (a : Nat) :
    EnvV a (gView g) (stView (demonitorFwdSt g.st g1 b) (auxAfter g (.demonitorFwd g1 b))) := by
  have t := trans_demonitorFwd g.st g1 b
  have hL : ∀ k x, x ∈ listenersOf (demonitorFwdSt g.st g1 b) k ↔ x ∈ listenersOf g.st k ∧ ¬ (k = (defaultScope, g1) ∧ x = b) := by
    intro k x; rw [t.l]; simp [demFwdEff]
  have hRG : ∀ x k, k ∈ relGmon (demonitorFwdSt g.st g1 b) x ↔ k ∈ relGmon g.st x := by
    intro x k; rw [t.rg]; simp [demFwdEff]
  have hM : ∀ k x, x ∈ membersOf (demonitorFwdSt g.st g1 b) k ↔ x ∈ membersOf g.st k := by
    intro k x; rw [t.m]; simp [demFwdEff]
  have hRM : ∀ x k, k ∈ relMem (demonitorFwdSt g.st g1 b) x ↔ k ∈ relMem g.st x := by
    intro x k; rw [t.rm]; simp [demFwdEff]
  have hW : ∀ s x, x ∈ worldOf (demonitorFwdSt g.st g1 b) s ↔ x ∈ worldOf g.st s := by
    intro s x; rw [t.w]; simp [demFwdEff]
  have hRW : ∀ x s, s ∈ relWmon (demonitorFwdSt g.st g1 b) x ↔ s ∈ relWmon g.st x := by
    intro x s; rw [t.rw]; simp [demFwdEff]
  refine ⟨fun h => h, fun h => h, ?_, ?_, ?_, ?_, ?_, ?_, ?_, ?_, ?_, ?_, ?_, ?_⟩
  · intro h k hk
    have hk' : a ∈ membersOf (demonitorFwdSt g.st g1 b) k ∨ a ∈ accOf g k := hk
    show k ∈ relMem (demonitorFwdSt g.st g1 b) a
    rw [hRM]; exact h k (hk'.elim (fun z => Or.inl ((hM k a).mp z)) Or.inr)
  · intro h k hk
    show k ∈ relGmon (demonitorFwdSt g.st g1 b) a
    rw [hRG]; exact h k ((hL k a).mp hk).1
  · intro h s hs
    show s ∈ relWmon (demonitorFwdSt g.st g1 b) a
    rw [hRW]; exact h s ((hW s a).mp hs)
  · intro h k hk
    have := h k ((hRM a k).mp hk)
    exact this.elim (fun z => Or.inl ((hM k a).mpr z)) Or.inr
  · intro h k hk
    rcases h k ((hRG a k).mp hk) with z | z
    · by_cases e : k = (defaultScope, g1) ∧ a = b
      · right
        show (a, k) ∈ g.staleG ++ staleGOf (.demonitorFwd g1 b)
        rw [e.1, e.2]; simp [staleGOf]
      · exact Or.inl ((hL k a).mpr ⟨z, e⟩)
    · right
      show (a, k) ∈ g.staleG ++ staleGOf (.demonitorFwd g1 b)
      exact List.mem_append_left _ z
  · intro h s hs
    rcases h s ((hRW a s).mp hs) with z | z
    · exact Or.inl ((hW s a).mpr z)
    · right
      show (a, s) ∈ g.staleW ++ staleWOf (.demonitorFwd g1 b)
      exact List.mem_append_left _ z
  · intro _ k hk
    have hk' : a ∈ membersOf (demonitorFwdSt g.st g1 b) k ∨ a ∈ accOf g k := hk
    exact hk'.elim (fun z => Or.inl ((hM k a).mp z)) Or.inr
  · intro _ k hk; exact ((hL k a).mp hk).1
  · intro _ s hs; exact (hW s a).mp hs
  · intro _ k hk; exact (hRM a k).mp hk
  · intro _ k hk; exact (hRG a k).mp hk
  · intro _ s hs; exact (hRW a s).mp hs

theorem envV_scopeFwd (g : G) (s1 b : Nat) (a : Nat) :
    EnvV a (gView g) (stView (demonitorScopeFwdSt g.st s1 b) (auxAfter g (.demonitorScopeFwd s1 b))) := by
  have t := trans_demonitorScopeFwd g.st s1 b
  have hL : ∀ k x, x ∈ listenersOf (demonitorScopeFwdSt g.st s1 b) k ↔ x ∈ listenersOf g.st k := by
    intro k x; rw [t.l]; simp [demScopeFwdEff]
  have hRG : ∀ x k, k ∈ relGmon (demonitorScopeFwdSt g.st s1 b) x ↔ k ∈ relGmon g.st x := by
    intro x k; rw [t.rg]; simp [demScopeFwdEff]
  have hM : ∀ k x, x ∈ membersOf (demonitorScopeFwdSt g.st s1 b) k ↔ x ∈ membersOf g.st k := by
    intro k x; rw [t.m]; simp [demScopeFwdEff]
  have hRM : ∀ x k, k ∈ relMem (demonitorScopeFwdSt g.st s1 b) x ↔ k ∈ relMem g.st x := by
    intro x k; rw [t.rm]; simp [demScopeFwdEff]
  have hW : ∀ s x, x ∈ worldOf (demonitorScopeFwdSt g.st s1 b) s ↔ x ∈ worldOf g.st s ∧ ¬ (s = s1 ∧ x = b) := by
    intro s x; rw [t.w]; simp [demScopeFwdEff]
  have hRW : ∀ x s, s ∈ relWmon (demonitorScopeFwdSt g.st s1 b) x ↔ s ∈ relWmon g.st x := by
    intro x s; rw [t.rw]; simp [demScopeFwdEff]
  refine ⟨fun h => h, fun h => h, ?_, ?_, ?_, ?_, ?_, ?_, ?_, ?_, ?_, ?_, ?_, ?_⟩
  · intro h k hk
    have hk' : a ∈ membersOf (demonitorScopeFwdSt g.st s1 b) k ∨ a ∈ accOf g k := hk
    show k ∈ relMem (demonitorScopeFwdSt g.st s1 b) a
    rw [hRM]; exact h k (hk'.elim (fun z => Or.inl ((hM k a).mp z)) Or.inr)
  · intro h k hk
    show k ∈ relGmon (demonitorScopeFwdSt g.st s1 b) a
    rw [hRG]; exact h k ((hL k a).mp hk)
  · intro h s hs
    show s ∈ relWmon (demonitorScopeFwdSt g.st s1 b) a
    rw [hRW]; exact h s ((hW s a).mp hs).1
  · intro h k hk
    have := h k ((hRM a k).mp hk)
    exact this.elim (fun z => Or.inl ((hM k a).mpr z)) Or.inr
  · intro h k hk
    rcases h k ((hRG a k).mp hk) with z | z
    · exact Or.inl ((hL k a).mpr z)
    · right
      show (a, k) ∈ g.staleG ++ staleGOf (.demonitorScopeFwd s1 b)
      exact List.mem_append_left _ z
  · intro h s hs
    rcases h s ((hRW a s).mp hs) with z | z
    · by_cases e : s = s1 ∧ a = b
      · right
        show (a, s) ∈ g.staleW ++ staleWOf (.demonitorScopeFwd s1 b)
        rw [e.1, e.2]; simp [staleWOf]
      · exact Or.inl ((hW s a).mpr ⟨z, e⟩)
    · right
      show (a, s) ∈ g.staleW ++ staleWOf (.demonitorScopeFwd s1 b)
      exact List.mem_append_left _ z
  · intro _ k hk
    have hk' : a ∈ membersOf (demonitorScopeFwdSt g.st s1 b) k ∨ a ∈ accOf g k := hk
    exact hk'.elim (fun z => Or.inl ((hM k a).mp z)) Or.inr
  · intro _ k hk; exact (hL k a).mp hk
  · intro _ s hs; exact ((hW s a).mp hs).1
  · intro _ k hk; exact (hRM a k).mp hk
  · intro _ k hk; exact (hRG a k).mp hk
  · intro _ s hs; exact (hRW a s).mp hs

theorem auxAfter_eq (g : G) (pc : Pc) (h : ¬ isFwd pc) : auxAfter g pc = auxOf g := by
  unfold auxAfter auxOf
  have h1 : staleGOf pc = [] := by cases pc <;> first | rfl | exact absurd trivial h
  have h2 : staleWOf pc = [] := by cases pc <;> first | rfl | exact absurd trivial h
  rw [h1, h2]; simp

/-- a caller region stepped through `callStep` -/
theorem envV_call (g : G) (pc : Pc) (hb : ¬ blocked g pc) (a : Nat) :
    EnvV a (gView g) (stView (callStep g.st pc).1 (auxAfter g pc)) := by
  by_cases hf : isFwd pc
  · cases pc with
    | demonitorFwd g1 b => exact envV_fwd g g1 b a
    | demonitorScopeFwd s1 b => exact envV_scopeFwd g s1 b a
    | _ => exact absurd hf (by simp [isFwd])
  · rw [auxAfter_eq g pc hf]
    obtain ⟨e, t, wb, db, hdel⟩ := call_trans g.st pc
    refine envV_of_vtrans (vtrans_lift (auxOf g) t ?_) (wbv_of_wb _ (wb a hf)) (db a)
    intro k x hk
    show x ∉ accOf g k
    rw [not_locked_acc (unlocked_of_needs hb (hdel k x hk))]; exact List.not_mem_nil

/-! ### the three regions inside `join_scoped`'s entry lock -/

theorem accOf_set (locks : List (Key × (Nat × List Nat × List Nat))) (k : Key) (v : Nat × List Nat × List Nat) (k' : Key) :
    ((get (set locks k v) k').map (·.2.2)).getD [] = if k' = k then v.2.2 else ((get locks k').map (·.2.2)).getD [] := by
  rw [get_set]; by_cases e : k' = k <;> simp [e]

theorem asOf_set (locks : List (Key × (Nat × List Nat × List Nat))) (k : Key) (v : Nat × List Nat × List Nat) (k' : Key) :
    ((get (set locks k v) k').map (·.2.1)).getD [] = if k' = k then v.2.1 else ((get locks k').map (·.2.1)).getD [] := by
  rw [get_set]; by_cases e : k' = k <;> simp [e]

theorem accOf_erase (locks : List (Key × (Nat × List Nat × List Nat))) (k k' : Key) :
    ((get (erase locks k) k').map (·.2.2)).getD [] = if k' = k then [] else ((get locks k').map (·.2.2)).getD [] := by
  rw [get_erase]; by_cases e : k' = k <;> simp [e]

theorem asOf_erase (locks : List (Key × (Nat × List Nat × List Nat))) (k k' : Key) :
    ((get (erase locks k) k').map (·.2.1)).getD [] = if k' = k then [] else ((get locks k').map (·.2.1)).getD [] := by
  rw [get_erase]; by_cases e : k' = k <;> simp [e]

/-- `joinLock` -/
theorem envV_lock (g : G) (k : Key) (i : Nat) (as : List Nat) (thr' : List Pc) (hu : locked g k = false) (a : Nat) :
    EnvV a (gView g) (gView { g with st := touchGroup g.st k, locks := set g.locks k (i, as, []), thr := thr' }) := by
  have hacc : accOf { g with st := touchGroup g.st k, locks := set g.locks k (i, as, []), thr := thr' } = accOf g := by
    funext k'
    show ((get (set g.locks k (i, as, [])) k').map (·.2.2)).getD [] = accOf g k'
    rw [accOf_set]
    by_cases e : k' = k
    · rw [if_pos e, e, not_locked_acc hu]
    · rw [if_neg e]; rfl
  show EnvV a (gView g) (stView (touchGroup g.st k) ⟨accOf { g with st := touchGroup g.st k, locks := set g.locks k (i, as, []), thr := thr' }, _, _⟩)
  rw [hacc]
  exact envV_of_vtrans (vtrans_lift (auxOf g) (trans_of_same (same_touchGroup g.st k)) (by simp))
    (wbv_of_wb _ (wb_empty a g.st)) id

theorem joinOne_relMem (st : State) (k : Key) (x y : Nat) (k' : Key) :
    k' ∈ relMem (joinOne st k x) y ↔ k' ∈ relMem st y ∨ (k' = k ∧ y = x) := by
  unfold relMem relOf joinOne relUpdate
  simp only [get_alter]
  by_cases e : y = x
  · rw [if_pos e, e]
    simp only [Option.getD_some, mem_ins, and_true]
    exact Or.comm
  · rw [if_neg e]; simp [e]

theorem joinOne_relGmon (st : State) (k : Key) (x y : Nat) : relGmon (joinOne st k x) y = relGmon st y := by
  unfold relGmon relOf joinOne relUpdate
  simp only [get_alter]
  by_cases e : y = x
  · rw [if_pos e, e]; rfl
  · rw [if_neg e]

theorem joinOne_relWmon (st : State) (k : Key) (x y : Nat) : relWmon (joinOne st k x) y = relWmon st y := by
  unfold relWmon relOf joinOne relUpdate
  simp only [get_alter]
  by_cases e : y = x
  · rw [if_pos e, e]; rfl
  · rw [if_neg e]

def joinOneEff (k : Key) (x : Nat) : Eff := { addM := fun k' y => k' = k ∧ y = x }

/-- `joinOne` for an actor that passes the status re-check -/
theorem envV_one (g : G) (k : Key) (i x : Nat) (thr' : List Pc) (hx : x ∉ g.st.dead) (a : Nat) :
    EnvV a (gView g)
      (gView { g with st := joinOne g.st k x, locks := set g.locks k (i, asOf g k, accOf g k ++ [x]), thr := thr' }) := by
  have t : VTrans (gView g)
      (gView { g with st := joinOne g.st k x, locks := set g.locks k (i, asOf g k, accOf g k ++ [x]), thr := thr' })
      (joinOneEff k x) := by
    refine ⟨?_, ?_, ?_, ?_, ?_, ?_, fun _ h => h, fun _ _ h => h, fun _ _ h => h⟩
    · intro k' y
      show (y ∈ membersOf g.st k' ∨ y ∈ ((get (set g.locks k (i, asOf g k, accOf g k ++ [x])) k').map (·.2.2)).getD []) ↔
        ((y ∈ membersOf g.st k' ∨ y ∈ accOf g k') ∧ ¬ False) ∨ (k' = k ∧ y = x)
      rw [accOf_set]
      by_cases e : k' = k
      · rw [if_pos e, e]
        simp only [List.mem_append, List.mem_singleton, not_false_eq_true, and_true, true_and]
        constructor
        · rintro (h | h | h)
          · exact Or.inl (Or.inl h)
          · exact Or.inl (Or.inr h)
          · exact Or.inr h
        · rintro ((h | h) | h)
          · exact Or.inl h
          · exact Or.inr (Or.inl h)
          · exact Or.inr (Or.inr h)
      · rw [if_neg e]; simp only [not_false_eq_true, and_true, e, false_and, or_false]; rfl
    · intro y k'
      show k' ∈ relMem (joinOne g.st k x) y ↔ (k' ∈ relMem g.st y ∧ ¬ False) ∨ (k' = k ∧ y = x)
      rw [joinOne_relMem]; simp
    · intro k' y; show y ∈ listenersOf g.st k' ↔ _; simp [joinOneEff, gView, stView]
    · intro y k'
      show k' ∈ relGmon (joinOne g.st k x) y ↔ _
      rw [joinOne_relGmon]; simp [joinOneEff, gView, stView]
    · intro s y; show y ∈ worldOf g.st s ↔ _; simp [joinOneEff, gView, stView]
    · intro y s
      show s ∈ relWmon (joinOne g.st k x) y ↔ _
      rw [joinOne_relWmon]; simp [joinOneEff, gView, stView]
  refine envV_of_vtrans t ⟨?_, by simp [joinOneEff], by simp [joinOneEff], by simp [joinOneEff], by simp [joinOneEff],
    by simp [joinOneEff]⟩ id
  intro k' hk'
  have : a = x := hk'.2
  rw [this]; exact hx

theorem joinCommit_members (st : State) (k : Key) (joined : List Nat) (k' : Key) (y : Nat) :
    y ∈ membersOf (joinCommit st k joined) k' ↔ y ∈ membersOf st k' ∨ (k' = k ∧ y ∈ joined) := by
  unfold joinCommit
  by_cases hj : joined = []
  · rw [if_pos hj, hj]; simp
  · rw [if_neg hj]
    unfold membersOf
    simp only [get_set]
    by_cases e : k' = k
    · rw [if_pos e, e]
      simp only [Option.map_some, Option.getD_some, mem_foldl_ins, true_and]
      cases get st.map k <;> simp
    · rw [if_neg e]; simp [e]

theorem joinCommit_listeners (st : State) (k : Key) (joined : List Nat) (k' : Key) :
    listenersOf (joinCommit st k joined) k' = listenersOf st k' := by
  unfold joinCommit
  by_cases hj : joined = []
  · rw [if_pos hj]
  · rw [if_neg hj]
    unfold listenersOf
    simp only [get_set]
    by_cases e : k' = k
    · rw [if_pos e, e]; cases get st.map k <;> rfl
    · rw [if_neg e]

theorem joinCommit_rest (st : State) (k : Key) (joined : List Nat) :
    (joinCommit st k joined).world = st.world ∧ (joinCommit st k joined).rel = st.rel ∧
    (joinCommit st k joined).dead = st.dead := by
  unfold joinCommit; split <;> exact ⟨rfl, rfl, rfl⟩

/-- `joinCommit`: what was accepted becomes a member; the view does not move -/
theorem envV_commit (g : G) (k : Key) (thr' : List Pc) (ch : List Pending) (hl : LockInv g) (a : Nat) :
    EnvV a (gView g)
      (gView { g with st := joinCommit g.st k (joinedOf g k), locks := erase g.locks k, thr := thr', changes := ch }) := by
  obtain ⟨hw, hr, hd⟩ := joinCommit_rest g.st k (joinedOf g k)
  have t : VTrans (gView g)
      (gView { g with st := joinCommit g.st k (joinedOf g k), locks := erase g.locks k, thr := thr', changes := ch }) {} := by
    refine ⟨?_, ?_, ?_, ?_, ?_, ?_, ?_, fun _ _ h => h, fun _ _ h => h⟩
    · intro k' y
      show (y ∈ membersOf (joinCommit g.st k (joinedOf g k)) k' ∨ y ∈ ((get (erase g.locks k) k').map (·.2.2)).getD []) ↔
        ((y ∈ membersOf g.st k' ∨ y ∈ accOf g k') ∧ ¬ False) ∨ False
      rw [joinCommit_members, accOf_erase]
      by_cases e : k' = k
      · rw [if_pos e, e]
        simp only [joinedOf, List.mem_filter, List.contains_iff_mem, true_and, List.not_mem_nil, or_false,
          not_false_eq_true, and_true]
        constructor
        · rintro (h | ⟨_, h⟩)
          · exact Or.inl h
          · exact Or.inr h
        · rintro (h | h)
          · exact Or.inl h
          · exact Or.inr ⟨hl k y h, h⟩
      · rw [if_neg e]; simp only [e, false_and, or_false, not_false_eq_true, and_true]; rfl
    · intro y k'
      show k' ∈ relMem (joinCommit g.st k (joinedOf g k)) y ↔ _
      unfold relMem relOf; rw [hr]; simp [gView, stView, relMem, relOf]
    · intro k' y
      show y ∈ listenersOf (joinCommit g.st k (joinedOf g k)) k' ↔ _
      rw [joinCommit_listeners]; simp [gView, stView]
    · intro y k'
      show k' ∈ relGmon (joinCommit g.st k (joinedOf g k)) y ↔ _
      unfold relGmon relOf; rw [hr]; simp [gView, stView, relGmon, relOf]
    · intro s y
      show y ∈ worldOf (joinCommit g.st k (joinedOf g k)) s ↔ _
      unfold worldOf; rw [hw]; simp [gView, stView, worldOf]
    · intro y s
      show s ∈ relWmon (joinCommit g.st k (joinedOf g k)) y ↔ _
      unfold relWmon relOf; rw [hr]; simp [gView, stView, relWmon, relOf]
    · intro y h
      show y ∈ (joinCommit g.st k (joinedOf g k)).dead
      rw [hd]; exact h
  refine envV_of_vtrans t ⟨by simp, by simp, by simp, by simp, by simp, by simp⟩ ?_
  intro h
  have h' : a ∈ (joinCommit g.st k (joinedOf g k)).dead := h
  rw [hd] at h'; exact h'

/-! ### every step -/

theorem lockInv_step {g : G} (h : LockInv g) (t : Tid) : LockInv (step g t) := by
  cases t with
  | ex b r =>
    by_cases hs : exSkip g b r
    · rw [step_ex_skip g b r hs]; exact h
    · rw [step_ex g b r hs]; exact h
  | call i =>
    cases hp : g.thr[i]? with
    | none => rw [step_call_none g i hp]; exact h
    | some pc =>
      by_cases hb : blocked g pc
      · rw [step_call_blocked g i pc hp hb]; exact h
      · by_cases c1 : ∃ s g' as, pc = .joinFiltered s g' as
        · obtain ⟨s, g', as, rfl⟩ := c1
          rw [step_call_lock g i s g' as hp hb]
          intro k y hy
          have hy' : y ∈ ((get (set g.locks (s, g') (i, as, [])) k).map (·.2.2)).getD [] := hy
          show y ∈ ((get (set g.locks (s, g') (i, as, [])) k).map (·.2.1)).getD []
          rw [accOf_set] at hy'; rw [asOf_set]
          by_cases e : k = (s, g')
          · rw [if_pos e] at hy'; cases hy'
          · rw [if_neg e] at hy' ⊢; exact h k y hy'
        · by_cases c2 : ∃ s g' as todo, pc = .joinIn s g' as todo
          · obtain ⟨s, g', as, todo, rfl⟩ := c2
            cases todo with
            | nil =>
              rw [step_call_commit g i s g' as hp]
              intro k y hy
              have hy' : y ∈ ((get (erase g.locks (s, g')) k).map (·.2.2)).getD [] := hy
              show y ∈ ((get (erase g.locks (s, g')) k).map (·.2.1)).getD []
              rw [accOf_erase] at hy'; rw [asOf_erase]
              by_cases e : k = (s, g')
              · rw [if_pos e] at hy'; cases hy'
              · rw [if_neg e] at hy' ⊢; exact h k y hy'
            | cons x todo =>
              rw [step_call_one g i s g' as x todo hp]
              by_cases ok : joinOk g (s, g') x = true
              · simp only [ok, ↓reduceIte]
                intro k y hy
                have hy' : y ∈ ((get (set g.locks (s, g') (i, asOf g (s, g'), accOf g (s, g') ++ [x])) k).map (·.2.2)).getD [] := hy
                show y ∈ ((get (set g.locks (s, g') (i, asOf g (s, g'), accOf g (s, g') ++ [x])) k).map (·.2.1)).getD []
                rw [accOf_set] at hy'; rw [asOf_set]
                by_cases e : k = (s, g')
                · rw [if_pos e] at hy' ⊢
                  simp only [List.mem_append, List.mem_singleton] at hy'
                  rcases hy' with hy' | rfl
                  · exact h _ y hy'
                  · unfold joinOk at ok
                    simp only [Bool.and_eq_true, List.contains_iff_mem] at ok
                    exact ok.2
                · rw [if_neg e] at hy' ⊢; exact h k y hy'
              · simp only [ok, Bool.false_eq_true, ↓reduceIte]
                exact h
          · have h1 : ∀ s g' as, pc ≠ .joinFiltered s g' as := fun s g' as e => c1 ⟨s, g', as, e⟩
            have h2 : ∀ s g' as todo, pc ≠ .joinIn s g' as todo := fun s g' as todo e => c2 ⟨s, g', as, todo, e⟩
            rw [step_call_other g i pc hp hb h1 h2]; exact h

theorem allInv_step {g : G} (h : AllInv g) (hl : LockInv g) (t : Tid) : AllInv (step g t) := by
  cases t with
  | ex b r =>
    by_cases hs : exSkip g b r
    · rw [step_ex_skip g b r hs]; exact h
    · rw [step_ex g b r hs]
      intro a
      simp only [phaseOf_ex]
      by_cases e : a = b
      · subst e
        rw [if_pos rfl]
        exact vinv_own_step g a r (h a) hs
      · rw [if_neg e]
        exact vinv_env (envV_exreg g (fun x => e x.symm) r hs) (h a)
  | call i =>
    cases hp : g.thr[i]? with
    | none => rw [step_call_none g i hp]; exact h
    | some pc =>
      by_cases hb : blocked g pc
      · rw [step_call_blocked g i pc hp hb]; exact h
      · by_cases c1 : ∃ s g' as, pc = .joinFiltered s g' as
        · obtain ⟨s, g', as, rfl⟩ := c1
          rw [step_call_lock g i s g' as hp hb]
          intro a
          exact vinv_env (envV_lock g (s, g') i as _ (unlocked_of_needs hb rfl) a) (h a)
        · by_cases c2 : ∃ s g' as todo, pc = .joinIn s g' as todo
          · obtain ⟨s, g', as, todo, rfl⟩ := c2
            cases todo with
            | nil =>
              rw [step_call_commit g i s g' as hp]
              intro a
              exact vinv_env (envV_commit g (s, g') _ _ hl a) (h a)
            | cons x todo =>
              rw [step_call_one g i s g' as x todo hp]
              by_cases ok : joinOk g (s, g') x = true
              · simp only [ok, ↓reduceIte]
                intro a
                have hx : x ∉ g.st.dead := by
                  unfold joinOk at ok
                  simp only [Bool.and_eq_true] at ok
                  exact alive_iff.mp ok.1
                exact vinv_env (envV_one g (s, g') i x _ hx a) (h a)
              · simp only [ok, Bool.false_eq_true, ↓reduceIte]
                exact h
          · have h1 : ∀ s g' as, pc ≠ .joinFiltered s g' as := fun s g' as e => c1 ⟨s, g', as, e⟩
            have h2 : ∀ s g' as todo, pc ≠ .joinIn s g' as todo := fun s g' as todo e => c2 ⟨s, g', as, todo, e⟩
            rw [step_call_other g i pc hp hb h1 h2]
            intro a
            exact vinv_env (envV_call g pc hb a) (h a)

theorem allInv_run {g : G} (h : AllInv g) (hl : LockInv g) (sched : List Tid) :
    AllInv (run g sched) ∧ LockInv (run g sched) := by
  unfold run
  induction sched generalizing g with
  | nil => exact ⟨h, hl⟩
  | cons t ts ih => exact ih (allInv_step h hl t) (lockInv_step hl t)

/-- a state reached by API-level ops (cross-index invariant `Inv`) is a valid start, whatever the
threads are about to call -/
theorem allInv_start {st : State} (h : Inv st) (calls : List Pc) :
    AllInv (start st calls) ∧ LockInv (start st calls) := by
  refine ⟨?_, fun k y hy => by cases hy⟩
  intro a
  have hph : phaseOf (start st calls) a = .live := rfl
  rw [hph]
  have hM : ∀ k, (gView (start st calls)).M k a ↔ a ∈ membersOf st k := by
    intro k; show (a ∈ membersOf st k ∨ a ∈ []) ↔ _; simp
  obtain ⟨c1, c2, c3⟩ : (∀ k, a ∈ st.dead → a ∉ membersOf st k) ∧ (∀ k, a ∈ st.dead → a ∉ listenersOf st k) ∧
      (∀ s, a ∈ st.dead → a ∉ worldOf st s) :=
    ⟨fun k hd => (dead_owns_nothing h hd).1 k, fun k hd => (dead_owns_nothing h hd).2.1 k,
      fun s hd => (dead_owns_nothing h hd).2.2 s⟩
  refine ⟨fun k hk => (hM k).mpr ((h.mem k a).mpr hk), fun k hk => Or.inl ((h.gmon k a).mpr hk),
    fun s hs => Or.inl ((h.wmon s a).mpr hs),
    fun hp => absurd rfl hp, fun k hk => (h.mem k a).mp ((hM k).mp hk), fun k hk => (h.gmon k a).mp hk,
    fun s hs => (h.wmon s a).mp hs, (fun hp => by cases hp), (fun hp => by cases hp), ?_⟩
  intro _ hd
  have hr := h.dead a hd
  refine ⟨⟨fun k hk => c1 k hd ((hM k).mp hk), fun k => c2 k hd, fun s => c3 s hd⟩, ?_, ?_, ?_⟩
  · intro k hk
    have hk' : k ∈ relMem st a := hk
    simp [relMem, relOf, hr, Rel.empty] at hk'
  · intro k hk
    have hk' : k ∈ relGmon st a := hk
    simp [relGmon, relOf, hr, Rel.empty] at hk'
  · intro s hs
    have hs' : s ∈ relWmon st a := hs
    simp [relWmon, relOf, hr, Rel.empty] at hs'

end Pg.Conc
