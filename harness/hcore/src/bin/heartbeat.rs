//! C13/C15 (dead-man's switch) correspondence harness, E-PURE: drives the real `WorkerHeartbeat`
//! (through `ractor::factory::worker::verif_heartbeat::HeartbeatProbe`) on tokio's paused clock. The harness
//! plays the factory's and the worker's part of the ping protocol around it (a FIFO mailbox: a queued ping is
//! answered when the worker is not inside a job) and records after every event what the real struct says.
//!
//! usage: heartbeat --seed S --cases N --out DIR [--replay-ops f1,f2,..] [--only-replay 1]
//!
//! ops (times are nanosecond offsets from the harness' first `Instant::now()`):
//!   `hbnew`                     -> `pending=0 sent=none`
//!   `hbping <t>`                -> `pending=<0|1> sent=<ns|none>`      (send_factory_ping at t)
//!   `hbstart <t>`               -> `pending=.. sent=..`                (the worker takes a job at t)
//!   `hbfinish <t>`              -> `pending=.. sent=..`                (its handler returns at t)
//!   `hbcheck <t> <timeout_ns>`  -> `stuck=<0|1> clock=<0|1> pending=.. sent=..`   (IdentifyStuckWorkers at t;
//!                                   `clock`: `is_stuck` reading the paused clock agrees with `is_stuck_at`)

use hutil::{Args, Log, Rng, Stats};
use ractor::factory::worker::verif_heartbeat::HeartbeatProbe;
use std::time::Duration;
use tokio::time::Instant;

fn dur_ns(ns: u128) -> Duration {
    Duration::new((ns / 1_000_000_000) as u64, (ns % 1_000_000_000) as u32)
}

struct Ctx {
    t0: Instant,
    log: Log,
    st: Stats,
}

/// the worker as the harness plays it
struct Worker {
    hb: HeartbeatProbe,
    running: bool,
    ping_queued: bool,
}

impl Ctx {
    fn now_ns(&self) -> u128 {
        Instant::now().saturating_duration_since(self.t0).as_nanos()
    }
    fn obs(&self, w: &Worker) -> String {
        let s = match w.hb.sent_at() {
            Some(d) => d.saturating_duration_since(self.t0).as_nanos().to_string(),
            None => "none".into(),
        };
        format!("pending={} sent={}", w.hb.is_pending() as u8, s)
    }
    /// the clock moves to `t` over a quiescent system: the worker's task has run
    async fn goto(&self, w: &mut Worker, t: u128) {
        let cur = self.now_ns();
        if t > cur {
            settle(w);
            tokio::time::advance(dur_ns(t - cur)).await;
        }
    }
}

/// the worker's task runs: an idle worker answers a queued ping (`WorkerPong` -> `ping_received` -> `clear`)
fn settle(w: &mut Worker) {
    if !w.running && w.ping_queued {
        w.hb.clear();
        w.ping_queued = false;
    }
}

async fn apply(cx: &mut Ctx, w: &mut Worker, op: &[&str]) {
    match op {
        ["hbnew"] => {
            *w = Worker { hb: HeartbeatProbe::new(), running: false, ping_queued: false };
            cx.log.rec("hbnew", cx.obs(w));
        }
        ["hbping", t] => {
            cx.goto(w, t.parse().unwrap_or(0)).await;
            let was = w.hb.is_pending();
            w.hb.ping(Instant::now());
            if !was {
                w.ping_queued = true;
            }
            cx.st.bump(if was { "ping_while_pending" } else { "ping_sent" });
            cx.log.rec(format!("hbping {}", cx.now_ns()), cx.obs(w));
        }
        ["hbstart", t] => {
            cx.goto(w, t.parse().unwrap_or(0)).await;
            if !w.running {
                settle(w);
                w.running = true;
            }
            cx.log.rec(format!("hbstart {}", cx.now_ns()), cx.obs(w));
        }
        ["hbfinish", t] => {
            cx.goto(w, t.parse().unwrap_or(0)).await;
            w.running = false;
            settle(w);
            cx.log.rec(format!("hbfinish {}", cx.now_ns()), cx.obs(w));
        }
        ["hbcheck", t, to] => {
            cx.goto(w, t.parse().unwrap_or(0)).await;
            let to = dur_ns(to.parse().unwrap_or(0));
            let r = w.hb.is_stuck_at(Instant::now(), to);
            let r2 = w.hb.is_stuck(to);
            cx.st.bump(if r { "check_stuck" } else { "check_not_stuck" });
            cx.log.rec(
                format!("hbcheck {} {}", cx.now_ns(), to.as_nanos()),
                format!("stuck={} clock={} {}", r as u8, (r == r2) as u8, cx.obs(w)),
            );
        }
        _ => {}
    }
}

async fn one_case(cx: &mut Ctx, rng: &mut Rng) {
    let mut w = Worker { hb: HeartbeatProbe::new(), running: false, ping_queued: false };
    apply(cx, &mut w, &["hbnew"]).await;
    let timeouts: [u128; 7] = [0, 1, 1_000, 1_000_000, 50_000_000, 1_000_000_000, 60_000_000_000];
    let steps: [u128; 8] = [0, 0, 1, 999, 1_000_000, 50_000_000, 1_000_000_001, 90_000_000_000];
    let n = 3 + rng.below(25);
    for _ in 0..n {
        let t = cx.now_ns() + *rng.pick(&steps);
        let ts = t.to_string();
        match rng.below(10) {
            0..=2 => apply(cx, &mut w, &["hbping", &ts]).await,
            3..=4 => apply(cx, &mut w, &["hbstart", &ts]).await,
            5..=6 => apply(cx, &mut w, &["hbfinish", &ts]).await,
            _ => {
                let to = rng.pick(&timeouts).to_string();
                apply(cx, &mut w, &["hbcheck", &ts, &to]).await
            }
        }
    }
}

async fn replay_file(cx: &mut Ctx, path: &str) {
    let txt = std::fs::read_to_string(path).unwrap_or_default();
    let mut w = Worker { hb: HeartbeatProbe::new(), running: false, ping_queued: false };
    for line in txt.lines() {
        let ws: Vec<&str> = line.split_whitespace().collect();
        apply(cx, &mut w, &ws).await;
    }
}

fn main() {
    let args = Args::parse();
    let seed = args.u64("seed", 1);
    let cases = if args.u64("only-replay", 0) == 1 { 0 } else { args.u64("cases", 300) };
    let replay = args.str("replay-ops", "");
    let out = args.str("out", "/tmp/heartbeat-out");
    let rt = tokio::runtime::Builder::new_current_thread().enable_time().start_paused(true).build().unwrap();
    rt.block_on(async move {
        let t0 = Instant::now();
        let mut cx = Ctx { t0, log: Log::create(std::path::Path::new(&out)).unwrap(), st: Stats::default() };
        let mut rng = Rng::new(seed);
        for f in replay.split(',').filter(|s| !s.is_empty()) {
            replay_file(&mut cx, f).await;
        }
        for _ in 0..cases {
            let mut r = rng.fork();
            one_case(&mut cx, &mut r).await;
        }
        cx.st.write_json(&cx.log.dir.join("stats.json"));
        cx.log.finish();
    });
}
