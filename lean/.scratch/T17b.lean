import RactorModel.Lemmas.GenAuth
open Generated.Auth GenAuth
variable {D : Type} [DecidableEq D]
example (H : String → Nat → D) (cookie : String) (fresh : Nat)
    (s : ServerAuthenticationProcess D) (m : AuthenticationMessage D) :
    absServer (ServerAuthenticationProcess.next H fresh s m cookie)
      = Auth.Server.next H cookie fresh (absServer s) (absMsg m) := by
  rcases m with ⟨_ | m⟩
  · cases s <;> rfl
  · cases m <;> cases s <;>
      simp [ServerAuthenticationProcess.next, ServerAuthenticationProcess.start_challenge, absMsg, absServer, Auth.Server.next, Auth.Server.startChallenge]
    all_goals trace_state
    all_goals sorry
