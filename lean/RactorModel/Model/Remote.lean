/-!
# `Remote` — executable model of remote-actor proxies (C20)

Three parts, each tied to the code by its own engine:

1. `Proxy` — `RemoteActorState` of `ractor_cluster/src/remote_actor.rs`: the tag counter,
   `pending_requests` (a `BTreeMap`, modelled as a list ascending by tag), the cleanup cursor;
   `cleanup_closed_pending_requests` (budget 16), `remove_pending_request`,
   `handle_serialized` for `Call` / `Cast` / `CallReply`.  (E-PURE)
2. `Net` — one proxy on node A standing for one real actor on node B, end to end: the
   proxy's mailbox, a pipeline of FIFO stages A→B (session mailbox, tcp session, writer,
   byte stream, reader, peer session mailbox — any number of stages), the receiving
   session's `handle_node` (`Cast`/`Call` delivered to the advertised live actor, one reply
   forwarder per call), the real actor answering or dropping reply ports, a FIFO pipeline
   B→A for `Reply` frames, the sending session routing the reply into the proxy's mailbox,
   callers abandoning calls, the target exiting, the link being cut.  (E-LTS, two real nodes)
3. `Mirror` — the receiving session's processing of the control stream
   (`Spawn`/`Terminate`/`PgJoin`/`PgLeave`, session close); groups are keyed by scope AND group.  (E-LTS)
4. `syncStream` — what the sending session emits about process groups: the initial scan over
   `which_scopes_and_groups()` and then the forwarded change notifications.  (E-LTS)

Core Lean only.
-/

namespace Remote

/-! ## 1. the proxy state -/

/-- `PENDING_REQUEST_CLEANUP_BUDGET` -/
def cleanupBudget : Nat := 16

structure Proxy where
  /-- `message_tag` -/
  tag : Nat := 0
  /-- `pending_requests`: (tag, reply port), ascending by tag -/
  pending : List (Nat × Nat) := []
  /-- `pending_request_cleanup_cursor` -/
  cursor : Option Nat := none
  deriving Repr, DecidableEq

/-- The tags one cleanup pass inspects: up to `count` tags after the cursor, then the
smallest tags, `count = min(len, budget)` in total. -/
def Proxy.inspect (p : Proxy) : List Nat :=
  let count := min p.pending.length cleanupBudget
  let tags := p.pending.map (·.1)
  let first := match p.cursor with
    | some c => (tags.filter (c < ·)).take count
    | none => []
  first ++ tags.take (count - first.length)

/-- `cleanup_closed_pending_requests` -/
def Proxy.cleanup (closed : Nat → Bool) (p : Proxy) : Proxy :=
  if p.pending.isEmpty then { p with cursor := none }
  else
    let tags := p.inspect
    let pending := p.pending.filter fun e => !(tags.contains e.1 && closed e.2)
    { p with pending := pending, cursor := if pending.isEmpty then none else tags.getLast? }

/-- `remove_pending_request` -/
def Proxy.removePending (p : Proxy) (t : Nat) : Proxy × Option Nat :=
  let port := (p.pending.find? (·.1 == t)).map (·.2)
  let pending := p.pending.filter (·.1 != t)
  ({ p with pending := pending, cursor := if pending.isEmpty then none else p.cursor }, port)

/-- `SerializedMessage` as the proxy sees it. `gport` is ghost (the caller the reply is
really meant for; never read by the proxy). -/
inductive SerMsg where
  | call (port payload : Nat)
  | cast (payload : Nat)
  | reply (tag data : Nat) (gport : Nat := 0)
  deriving Repr, DecidableEq

/-- What `handle_serialized` emits. -/
inductive Out where
  /-- `NodeSessionMessage::SendMessage(Call { tag, what })` -/
  | call (tag payload : Nat)
  | cast (payload : Nat)
  /-- `port.send(reply_data)` reached a caller that is still waiting -/
  | deliver (port data : Nat)
  deriving Repr, DecidableEq

/-- `handle_serialized`. `closed q`: the caller holding port `q` has gone away;
`sessionUp`: the `cast!` to the session succeeds. -/
def Proxy.handle (closed : Nat → Bool) (sessionUp : Bool) (p : Proxy) : SerMsg → Proxy × List Out
  | .call port payload =>
    let p := p.cleanup closed
    let tag := p.tag + 1
    let p := { p with tag := tag, pending := p.pending ++ [(tag, port)] }
    if sessionUp then (p, [.call tag payload]) else ((p.removePending tag).1, [])
  | .cast payload =>
    (p.cleanup closed, if sessionUp then [.cast payload] else [])
  | .reply tag data _ =>
    let (p, port) := (p.cleanup closed).removePending tag
    match port with
    | some q => (p, if closed q then [] else [.deliver q data])
    | none => (p, [])

/-! ## pipelines of FIFO stages -/

/-- `stage 0` is where things enter; the last stage is where they leave. Within a stage the
head is the oldest element. -/
abbrev Pipe (α : Type) := List (List α)

namespace Pipe
variable {α : Type}

/-- everything in flight, oldest (closest to the exit) first -/
def contents : Pipe α → List α
  | [] => []
  | s :: rest => contents rest ++ s

def push (x : α) : Pipe α → Pipe α
  | [] => [[x]]
  | s :: rest => (s ++ [x]) :: rest

/-- Move the oldest element of stage `i` to the next stage; out of the last stage it
leaves the pipe. -/
def move : Nat → Pipe α → Pipe α × Option α
  | _, [] => ([], none)
  | 0, [s] => match s with
    | [] => ([s], none)
    | x :: s' => ([s'], some x)
  | 0, s :: t :: rest => match s with
    | [] => (s :: t :: rest, none)
    | x :: s' => (s' :: (t ++ [x]) :: rest, none)
  | i + 1, s :: rest =>
    let (rest', o) := move i rest
    (s :: rest', o)

def clear : Pipe α → Pipe α := List.map fun _ => []

end Pipe

/-! ## 2. one proxy, one real actor, end to end -/

/-- a cast or call as an observer sees it -/
structure Item where
  isCall : Bool
  sender : Nat
  payload : Nat
  deriving Repr, DecidableEq

/-- node message A→B -/
structure Frame where
  item : Item
  tag : Nat := 0
  /-- ghost: the caller's port (calls) -/
  gport : Nat := 0
  deriving Repr, DecidableEq

/-- `Reply` frame B→A -/
structure Reply where
  tag : Nat
  data : Nat
  /-- ghost: the port of the call this answers -/
  gport : Nat
  deriving Repr, DecidableEq

/-- an open reply forwarder on B -/
structure Handle where
  id : Nat
  tag : Nat
  gport : Nat
  deriving Repr, DecidableEq

structure Net where
  px : Proxy := {}
  /-- ports whose caller has given up -/
  closed : List Nat := []
  /-- the proxy's mailbox: message + ghost sender -/
  mbox : List (SerMsg × Nat) := []
  /-- FIFO stages A → B -/
  fwd : Pipe Frame := [[]]
  /-- the real actor is alive (and advertised) -/
  targetUp : Bool := true
  /-- the session pair is up -/
  linkUp : Bool := true
  /-- what the real actor has received, in order -/
  recvd : List Item := []
  handles : List Handle := []
  nextH : Nat := 0
  /-- FIFO stages B → A -/
  back : Pipe Reply := [[]]
  /-- (port, data): replies that reached a waiting caller -/
  delivered : List (Nat × Nat) := []
  nport : Nat := 0
  /-- ghost: every cast/call accepted into the proxy's mailbox, in order -/
  sent : List Item := []
  /-- ghost: every (tag, port) the proxy ever assigned, in order -/
  assigned : List (Nat × Nat) := []
  /-- ghost: (port, data) — the real actor's answer to the call made through `port` -/
  answered : List (Nat × Nat) := []
  /-- ghost: (port, request payload) of every call made -/
  callReqs : List (Nat × Nat) := []
  deriving Repr

inductive Op where
  /-- a local sender casts through the proxy reference -/
  | cast (sender payload : Nat)
  /-- a local sender calls through the proxy reference (fresh reply port `nport`) -/
  | call (sender payload : Nat)
  /-- the caller holding `port` gives up (timeout / dropped future) -/
  | abandon (port : Nat)
  /-- the proxy handles the next message of its mailbox -/
  | proxy
  /-- forward stage `i` hands on its oldest frame; out of the last stage B's session handles it -/
  | moveF (i : Nat)
  /-- the real actor answers the call behind handle `h` -/
  | answer (h data : Nat)
  /-- the real actor drops the reply port of handle `h` -/
  | drop (h : Nat)
  /-- backward stage `i` hands on its oldest reply; out of the last stage A's session routes it
  into the proxy's mailbox -/
  | moveB (i : Nat)
  | targetExit
  /-- the connection is lost / the session closes: everything in flight is gone, the proxy stops -/
  | cut
  /-- ONLY A's side goes down (its transport reports an error, its session stops): the proxy
  stops, its pending callers are dropped, nothing more is sent and no reply can arrive any more —
  but the frames already on their way (writer channel, byte stream, B's reader and mailboxes)
  still reach B, which has not noticed anything yet (half-open / asymmetric loss) -/
  | loseA
  deriving Repr

def Frame.ofOut (sender : Nat) (port : Nat) : Out → Option Frame
  | .call tag payload => some { item := ⟨true, sender, payload⟩, tag := tag, gport := port }
  | .cast payload => some { item := ⟨false, sender, payload⟩ }
  | .deliver _ _ => none

def SerMsg.port : SerMsg → Nat
  | .call port _ => port
  | _ => 0

def Net.step (n : Net) : Op → Net
  | .cast sender payload =>
    if n.linkUp then
      { n with mbox := n.mbox ++ [(.cast payload, sender)], sent := n.sent ++ [⟨false, sender, payload⟩] }
    else n                      -- the proxy has stopped: the send fails
  | .call sender payload =>
    if n.linkUp then
      { n with mbox := n.mbox ++ [(.call n.nport payload, sender)], nport := n.nport + 1,
               sent := n.sent ++ [⟨true, sender, payload⟩], callReqs := n.callReqs ++ [(n.nport, payload)] }
    else { n with nport := n.nport + 1, callReqs := n.callReqs ++ [(n.nport, payload)] }
  | .abandon port => { n with closed := port :: n.closed }
  | .proxy =>
    match n.mbox with
    | [] => n
    | (m, sender) :: rest =>
      let (px, outs) := n.px.handle (n.closed.contains ·) n.linkUp m
      let frames := outs.filterMap (Frame.ofOut sender m.port)
      let dels := outs.filterMap fun | .deliver q d => some (q, d) | _ => none
      let asg := outs.filterMap fun | .call t _ => some (t, m.port) | _ => none
      { n with px := px, mbox := rest, fwd := frames.foldl (fun p f => p.push f) n.fwd,
               delivered := n.delivered ++ dels, assigned := n.assigned ++ asg }
  | .moveF i =>
    let (fwd, o) := n.fwd.move i
    match o with
    | none => { n with fwd := fwd }
    | some f =>
      -- `handle_node` on B
      if n.targetUp then
        if f.item.isCall then
          { n with fwd := fwd, recvd := n.recvd ++ [f.item],
                   handles := n.handles ++ [⟨n.nextH, f.tag, f.gport⟩], nextH := n.nextH + 1 }
        else { n with fwd := fwd, recvd := n.recvd ++ [f.item] }
      else { n with fwd := fwd }
  | .answer h data =>
    match n.handles.find? (·.id == h) with
    | none => n
    | some hd =>
      { n with handles := n.handles.filter (·.id != h),
               back := n.back.push ⟨hd.tag, data, hd.gport⟩,
               answered := n.answered ++ [(hd.gport, data)] }
  | .drop h => { n with handles := n.handles.filter (·.id != h) }
  | .moveB i =>
    let (back, o) := n.back.move i
    match o with
    | none => { n with back := back }
    | some r => { n with back := back, mbox := n.mbox ++ [(.reply r.tag r.data r.gport, 0)] }
  | .targetExit => { n with targetUp := false, handles := [] }
  | .cut =>
    { n with linkUp := false, fwd := n.fwd.clear, back := n.back.clear, mbox := [], handles := [],
             px := { n.px with pending := [], cursor := none } }
  | .loseA =>
    { n with linkUp := false, back := n.back.clear, mbox := [],
             px := { n.px with pending := [], cursor := none } }

def Net.run (n : Net) (ops : List Op) : Net := ops.foldl Net.step n

/-- a fresh system with `k+1` forward and `k'+1` backward stages -/
def Net.init (k k' : Nat) : Net := { fwd := List.replicate (k + 1) [], back := List.replicate (k' + 1) [] }

/-- the casts and calls among a list of mailbox entries -/
def itemsOf (l : List (SerMsg × Nat)) : List Item :=
  l.filterMap fun
    | (.call _ payload, s) => some ⟨true, s, payload⟩
    | (.cast payload, s) => some ⟨false, s, payload⟩
    | _ => none

/-- casts and calls waiting in the proxy's mailbox -/
def Net.mboxItems (n : Net) : List Item := itemsOf n.mbox

/-- everything sent and not yet received, oldest first -/
def Net.inflight (n : Net) : List Item := n.fwd.contents.map (·.item) ++ n.mboxItems

def Net.quiet (n : Net) : Bool := n.mbox.isEmpty && n.fwd.contents.isEmpty && n.back.contents.isEmpty

/-- what an observer knows about each call: (request payload, what its caller got back) -/
def Net.callResults (n : Net) : List (Nat × Option Nat) :=
  n.callReqs.map fun (q, req) => (req, (n.delivered.find? (·.1 == q)).map (·.2))

/-- the real actor answers every call `req` with `reply req` -/
def Net.honest (reply : Nat → Nat) (n : Net) : Prop :=
  ∀ q d, (q, d) ∈ n.answered → ∀ req, (q, req) ∈ n.callReqs → d = reply req

/-! ## 3. mirroring of the control stream -/

/-- a process group is identified by (scope, group); the default scope is `""` -/
abbrev GKey := String × String

inductive Ctl where
  | spawn (pids : List Nat)
  | terminate (pids : List Nat)
  | pgJoin (scope group : String) (pids : List Nat)
  | pgLeave (scope group : String) (pids : List Nat)
  /-- the session stops: every proxy is a child of it -/
  | close
  deriving Repr, DecidableEq

structure Mirror where
  /-- `remote_actors` keys -/
  proxies : List Nat := []
  /-- ((scope, group), pid): group memberships of the proxies -/
  members : List (GKey × Nat) := []
  deriving Repr, DecidableEq

def Mirror.ensure (m : Mirror) (pids : List Nat) : Mirror :=
  { m with proxies := pids.foldl (fun ps p => if ps.contains p then ps else ps ++ [p]) m.proxies }

/-- `pg::join_scoped`: every pid not yet in the group is added -/
def joinAll (k : GKey) (pids : List Nat) (ms : List (GKey × Nat)) : List (GKey × Nat) :=
  pids.foldl (fun ms p => if ms.contains (k, p) then ms else ms ++ [(k, p)]) ms

/-- `pg::leave_scoped` -/
def leaveAll (k : GKey) (pids : List Nat) (ms : List (GKey × Nat)) : List (GKey × Nat) :=
  ms.filter fun e => !(e.1 == k && pids.contains e.2)

def Mirror.step (m : Mirror) : Ctl → Mirror
  | .spawn pids => m.ensure pids
  | .terminate pids =>
    -- the proxy is removed and stopped; a stopping actor leaves every group of every scope
    { proxies := m.proxies.filter (!pids.contains ·), members := m.members.filter (!pids.contains ·.2) }
  | .pgJoin s g pids =>
    let m := m.ensure pids
    { m with members := joinAll (s, g) pids m.members }
  | .pgLeave s g pids =>
    { m with members := leaveAll (s, g) pids m.members }
  | .close => {}

def Mirror.run (m : Mirror) (cs : List Ctl) : Mirror := cs.foldl Mirror.step m

/-- what the control stream says about `pid` after one more message: the last message
mentioning it decides (`some true` = advertised, `some false` = terminated / closed) -/
def verdict (pid : Nat) (prev : Option Bool) : Ctl → Option Bool
  | .spawn pids => if pids.contains pid then some true else prev
  | .pgJoin _ _ pids => if pids.contains pid then some true else prev
  | .terminate pids => if pids.contains pid then some false else prev
  | .close => some false
  | .pgLeave _ _ _ => prev

/-- `pid` is advertised and not (yet) terminated according to the control stream -/
def advertised (pid : Nat) (cs : List Ctl) : Bool := cs.foldl (verdict pid) none == some true

/-- the same for membership of `pid` in the group `k = (scope, group)` -/
def verdictG (k : GKey) (pid : Nat) (prev : Option Bool) : Ctl → Option Bool
  | .pgJoin s g pids => if (s, g) == k && pids.contains pid then some true else prev
  | .pgLeave s g pids => if (s, g) == k && pids.contains pid then some false else prev
  | .terminate pids => if pids.contains pid then some false else prev
  | .close => some false
  | .spawn _ => prev

def announced (k : GKey) (pid : Nat) (cs : List Ctl) : Bool := cs.foldl (verdictG k pid) none == some true

/-! ## 4. the sending session: initial sync + forwarded notifications

`NodeSession::after_authenticated` subscribes to all scopes / all groups and then walks
`pg::which_scopes_and_groups()`: for every key (scope, group) it sends one `PgJoin{scope, group,
get_scoped_local_members(scope, group)}` (nothing for a group without remotable local members).
Afterwards every `GroupChangeMessage::{Join,Leave}(scope, group, actors)` is forwarded as the
`PgJoin` / `PgLeave` of the same scope and group, in order; an exiting actor is announced by the
pid monitor as `Terminate` (its `Leave` notifications, which travel as well, change nothing
once the proxy is gone, and the `Terminate` removes every membership if it comes first). -/

/-- the process-group memberships of the remotable local actors: ((scope, group), pid) -/
abbrev Memb := List (GKey × Nat)

inductive PgEv where
  | join (scope group : String) (pids : List Nat)
  | leave (scope group : String) (pids : List Nat)
  /-- the actor exits: it leaves every group of every scope -/
  | exit (pid : Nat)
  deriving Repr, DecidableEq

/-- the local `pg` -/
def Memb.apply (L : Memb) : PgEv → Memb
  | .join s g pids => joinAll (s, g) pids L
  | .leave s g pids => leaveAll (s, g) pids L
  | .exit pid => L.filter (![pid].contains ·.2)

/-- what the session forwards for a local change -/
def PgEv.note : PgEv → Ctl
  | .join s g pids => .pgJoin s g pids
  | .leave s g pids => .pgLeave s g pids
  | .exit pid => .terminate [pid]

/-- `get_scoped_local_members(scope, group)` -/
def localMembers (L : Memb) (k : GKey) : List Nat := (L.filter (·.1 == k)).map (·.2)

/-- `which_scopes_and_groups()`: every key with a member (in any order, duplicates harmless) -/
def Memb.keys (L : Memb) : List GKey := (L.map (·.1)).eraseDups

/-- the `PgJoin`s of the initial scan over `keys` -/
def initialSync (keys : List GKey) (L : Memb) : List Ctl :=
  keys.filterMap fun k =>
    let ms := localMembers L k
    if ms.isEmpty then none else some (.pgJoin k.1 k.2 ms)

/-- everything the peer receives about groups: the initial scan of `L0`, then the notifications -/
def syncStream (keys : List GKey) (L0 : Memb) (evs : List PgEv) : List Ctl :=
  initialSync keys L0 ++ evs.map PgEv.note

/-! ### the initial scan is NOT atomic

`after_authenticated` registers the pg monitors first and then reads `which_scopes_and_groups()`
and, key by key, `get_scoped_local_members` — while `pg` is a process-global structure that other
threads keep changing. Every change after the registration is also forwarded as a notification,
but only after the handler has finished, i.e. after all the `PgJoin`s of the scan. `reads` lists
the keys the scan looked at, each with the number of local changes (of `evs`, counted from the
registration) that had happened when it was read. -/

def scanAt (L0 : Memb) (evs : List PgEv) (reads : List (GKey × Nat)) : List Ctl :=
  reads.filterMap fun r =>
    let ms := localMembers ((evs.take r.2).foldl Memb.apply L0) r.1
    if ms.isEmpty then none else some (.pgJoin r.1.1 r.1.2 ms)

/-- what the peer receives when the scan races with local changes -/
def racingStream (L0 : Memb) (evs : List PgEv) (reads : List (GKey × Nat)) : List Ctl :=
  scanAt L0 evs reads ++ evs.map PgEv.note

end Remote

namespace C20
open Remote

/-- The C20 oracle on what an observer of the real system sees for one (proxy, real actor)
pair: `sent` — the casts/calls issued through the proxy in order, `recvd` — what the real
actor logged, `calls` — for each call (its payload, what its caller got back),
`reply` — the real actor's reply function. Per-sender order is preserved, nothing is
invented or duplicated, and every reply that arrives is the reply to that very request. -/
def ok (sent recvd : List Item) (calls : List (Nat × Option Nat)) (reply : Nat → Nat) : Bool :=
  recvd.isSublist sent &&
  (calls.all fun (req, got) => match got with | none => true | some d => d == reply req)

/-- nothing lost: with both sides up and everything drained the real actor has received
exactly what was sent -/
def okComplete (sent recvd : List Item) : Bool := recvd == sent

end C20
