import RactorModel.Lemmas.FactoryNoPanic

/-! The ghost fate `dropped` (a job that vanishes without any report) arises only when the factory ACTOR exits with
dispatches still in its mailbox: `Ev.dropped` occurs in no history while the factory has not exited.
Same frame scheme as `FactoryHooks.lean` / `FactoryNoPanic.lean`. -/

namespace Factory

def dropsOf (log : List Ev) : List Nat := log.filterMap fun | .dropped id => some id | _ => none

def isDrop : Ev → Bool
  | .dropped _ => true
  | _ => false

theorem dropsOf_append (a b : List Ev) : dropsOf (a ++ b) = dropsOf a ++ dropsOf b := by
  simp [dropsOf, List.filterMap_append]

theorem dropsOf_single (ev : Ev) (h : isDrop ev = false) : dropsOf [ev] = [] := by
  cases ev <;> simp_all [dropsOf, isDrop]

/-- the environment's log gained no hook event -/
def StillE (e e' : Env) : Prop := dropsOf e'.log = dropsOf e.log

theorem StillE.refl (e : Env) : StillE e e := rfl
theorem StillE.trans {a b c : Env} (h1 : StillE a b) (h2 : StillE b c) : StillE a c := Eq.trans h2 h1

theorem stillE_emit (e : Env) (ev : Ev) (h : isDrop ev = false) : StillE e (e.emit ev) := by
  simp [StillE, Env.emit, dropsOf_append, dropsOf_single ev h]

theorem stillE_discard (e : Env) {h : Option Nat} (r : Reason) (j : Job) : StillE e (e.discard h r j) := stillE_emit e _ rfl
theorem stillE_reject (e : Env) (j : Job) : StillE e (e.reject j) := by
  unfold Env.reject; split
  · exact stillE_emit e _ rfl
  · exact StillE.refl e
theorem stillE_accept (e : Env) (j : Job) : StillE e (e.accept j) := by
  unfold Env.accept; split
  · exact stillE_emit e _ rfl
  · exact StillE.refl e

theorem stillE_setActor (e : Env) (a : Actor) : StillE e (e.setActor a) := rfl

theorem stillE_cast (e e' : Env) (aid : Nat) (j : Job) (h : e.cast aid j = some e') : StillE e e' := by
  unfold Env.cast at h
  cases ha : e.getActor aid with
  | none => simp [ha] at h
  | some a =>
    simp only [ha] at h
    split at h
    · simp at h
    · simp only [Option.some.injEq] at h; subst h; rfl

theorem dropsOf_lost (aid : Nat) (l : List Job) : dropsOf (l.map fun j => Ev.lost aid j.id) = [] := by
  induction l with
  | nil => rfl
  | cons j l ih => simpa [dropsOf] using ih

theorem stillE_die (e : Env) (aid : Nat) : StillE e (e.die aid) := by
  unfold Env.die
  cases ha : e.getActor aid with
  | none => rfl
  | some a =>
    simp only
    split
    · rfl
    · simp [StillE, dropsOf_append, dropsOf_lost, Env.setActor]

theorem stillE_killAll (e : Env) : StillE e e.killAll := by
  unfold Env.killAll
  generalize e.actors.map (·.aid) = ids
  induction ids generalizing e with
  | nil => rfl
  | cons a as ih => rw [List.foldl_cons]; exact (stillE_die e a).trans (ih _)

theorem stillE_stop (e : Env) (aid : Nat) : StillE e (e.stop aid) := by
  unfold Env.stop
  cases ha : e.getActor aid with
  | none => rfl
  | some a => simp only; split <;> rfl

theorem stillE_settleOne (e : Env) (aid : Nat) : StillE e (e.settleOne aid) := by
  unfold Env.settleOne
  cases ha : e.getActor aid with
  | none => rfl
  | some a =>
    simp only
    split
    · rfl
    · split
      · exact stillE_die e aid
      · cases hm : a.mailbox with
        | nil => rfl
        | cons j rest => simp only; exact (stillE_setActor e _).trans (stillE_emit _ _ rfl)

theorem stillE_settle (e : Env) : StillE e e.settle := by
  unfold Env.settle
  generalize e.actors.map (·.aid) = ids
  induction ids generalizing e with
  | nil => rfl
  | cons a as ih => rw [List.foldl_cons]; exact (stillE_settleOne e a).trans (ih _)

theorem stillE_spawn (e : Env) (wid aid : Nat) : StillE e (e.spawn wid aid) := by
  simp [StillE, Env.spawn, dropsOf_append, dropsOf]

theorem stillE_getNextNonExpired {h : Option Nat} (mq : List Job) (pend : List Nat) (e : Env) :
    StillE e (getNextNonExpired h mq pend e).2.2.2 := by
  induction mq generalizing pend e with
  | nil => rfl
  | cons j rest ih =>
    unfold getNextNonExpired
    split
    · rfl
    · exact (stillE_discard e _ j).trans (ih _ _)

theorem stillE_getNext (p : WP) (e : Env) : StillE e (p.getNext e).2.2 :=
  stillE_getNextNonExpired p.mq p.pending e

theorem stillE_dispatchJob (p : WP) (e : Env) (j : Job) : StillE e (p.dispatchJob e j).2 := by
  unfold WP.dispatchJob
  cases hc : e.cast p.actor j with
  | none => rfl
  | some e' => exact stillE_cast e e' _ j hc

theorem stillE_shedOldest (limit fuel : Nat) (p : WP) (e : Env) : StillE e (shedOldest limit fuel p e).2 := by
  induction fuel generalizing p e with
  | zero => rfl
  | succ fuel ih =>
    unfold shedOldest
    split
    · have hg := stillE_getNext p e
      cases hn : p.getNext e with
      | mk r pe =>
        obtain ⟨p', e'⟩ := pe
        rw [hn] at hg
        cases r with
        | none => simp only; exact hg.trans (ih _ _)
        | some d => simp only; exact (hg.trans (stillE_discard _ _ _)).trans (ih _ _)
    · rfl

theorem stillE_enqueueAccepted (p : WP) (e : Env) (j : Job) : StillE e (p.enqueueAccepted e j).2 := by
  unfold WP.enqueueAccepted
  split
  · have hg := stillE_getNext p e
    cases hn : p.getNext e with
    | mk r pe =>
      obtain ⟨p', e'⟩ := pe
      rw [hn] at hg
      cases r with
      | none => simp only; exact hg.trans (stillE_dispatchJob _ _ _)
      | some d => simp only; exact hg.trans (stillE_dispatchJob _ _ _)
  · simp only
    split
    · exact stillE_shedOldest _ _ _ _
    · rfl

theorem stillE_enqueueJob (p : WP) (e : Env) (j : Job) : StillE e (p.enqueueJob e j).2 := by
  unfold WP.enqueueJob
  split
  · exact (stillE_discard e _ j).trans (stillE_reject _ j)
  · exact (stillE_accept e j).trans (stillE_enqueueAccepted _ _ _)

theorem stillE_workerComplete (p : WP) (e : Env) (key : Nat) : StillE e (p.workerComplete e key).2 := by
  unfold WP.workerComplete
  split
  · generalize ({ p with curr := p.curr.filter (fun x => x.1 != key), pending := p.pending.erase key } : WP) = p0
    have hg := stillE_getNext p0 e
    cases hn : p0.getNext e with
    | mk r pe =>
      obtain ⟨p', e'⟩ := pe
      rw [hn] at hg
      cases r with
      | none => simp only [hn]; exact hg
      | some d => simp only [hn]; exact hg.trans (stillE_dispatchJob _ _ _)
  · rfl

theorem stillE_replaceWorker (p : WP) (e : Env) (naid : Nat) : StillE e (p.replaceWorker e naid).2 := by
  unfold WP.replaceWorker
  simp only
  generalize ({ p with curr := [], pending := p.curr.foldl (fun acc x => acc.erase x.1) p.pending, actor := naid } : WP) = p0
  have hg := stillE_getNext p0 e
  cases hn : p0.getNext e with
  | mk r pe =>
    obtain ⟨p', e'⟩ := pe
    rw [hn] at hg
    cases r with
    | none => simp only [hn]; exact hg
    | some d => simp only [hn]; exact hg.trans (stillE_dispatchJob _ _ _)

/-! ### the factory -/

/-- no hook ran, and the stop state did not go back -/
structure Still (w w' : W) : Prop where
  drops : dropsOf w'.env.log = dropsOf w.env.log
  exited : w'.exited = w.exited
  stopped : w.stopped = true → w'.stopped = true

theorem Still.refl (w : W) : Still w w := ⟨rfl, rfl, fun h => h⟩
theorem Still.trans {a b c : W} (h1 : Still a b) (h2 : Still b c) : Still a c :=
  ⟨h2.drops.trans h1.drops, h2.exited.trans h1.exited, fun h => h2.stopped (h1.stopped h)⟩

theorem Still.of_env {w w' : W} (he : StillE w.env w'.env) (hx : w'.exited = w.exited) (hs : w'.stopped = w.stopped) :
    Still w w' := ⟨he, hx, fun h => by rw [hs]; exact h⟩

theorem Still.of_routerFrame {w w' : W} (f : RouterFrame w w') (hx : w'.exited = w.exited) : Still w w' :=
  ⟨by rw [f.env], hx, fun h => by rw [f.stopped]; exact h⟩

theorem still_availChange (w : W) (wid : Nat) (b : Bool) : Still w (w.availChange wid b) :=
  Still.of_routerFrame (availChange_frame w wid b) (availChange_exited w wid b)

theorem still_choose (w : W) (j : Job) (hint : Option Nat) : Still w (w.chooseTargetWorker j hint).2 :=
  Still.of_routerFrame (chooseTargetWorker_frame w j hint) (chooseTargetWorker_exited w j hint)

theorem still_routeInner (w : W) (j : Job) (hint : Option Nat) : Still w (w.routeInner j hint).2 := by
  unfold W.routeInner
  have hs := still_choose w j hint
  cases hc : w.chooseTargetWorker j hint with
  | mk t w1 =>
    rw [hc] at hs
    simp only at hs ⊢
    cases t with
    | none => exact hs
    | some wid =>
      simp only
      cases hg : getW w1.pool wid with
      | none => exact hs
      | some p => exact hs.trans (Still.of_env (stillE_enqueueJob p w1.env j) rfl rfl)

theorem still_routeLimited (w : W) (j : Job) (hint : Option Nat) : Still w (w.routeLimited j hint).2 := by
  unfold W.routeLimited
  split
  · exact still_routeInner w j hint
  · rename_i c lb _
    simp only
    have h0 : Still w { w with rl := some (c, (LeakyBucket.check c lb w.env.now).1) } := ⟨rfl, rfl, fun h => h⟩
    split
    · split
      · split
        · rename_i hh _
          exact h0.trans (still_availChange _ hh true)
        · exact h0
      · exact h0
    · have hi := still_routeInner { w with rl := some (c, (LeakyBucket.check c lb w.env.now).1) } j hint
      cases hr : W.routeInner { w with rl := some (c, (LeakyBucket.check c lb w.env.now).1) } j hint with
      | mk r w2 =>
        rw [hr] at hi
        simp only at hi ⊢
        split
        · exact h0.trans (hi.trans ⟨rfl, rfl, fun h => h⟩)
        · exact h0.trans hi

theorem still_routeMessage (w : W) (j : Job) (hint : Option Nat) : Still w (w.routeMessage j hint).2 := by
  unfold W.routeMessage
  have hi := still_routeLimited w j hint
  cases hr : w.routeLimited j hint with
  | mk r w2 => rw [hr] at hi; exact hi.trans ⟨rfl, rfl, fun h => h⟩

theorem still_dropExpiredHead (fuel : Nat) (w : W) : Still w (W.dropExpiredHead fuel w) := by
  induction fuel generalizing w with
  | zero => exact Still.refl w
  | succ fuel ih =>
    unfold W.dropExpiredHead
    split
    · split
      · split
        · rename_i j' q _
          refine Still.trans ?_ (ih _)
          exact Still.of_env ((stillE_discard w.env _ j').trans (stillE_reject _ j')) rfl rfl
        · exact Still.refl w
      · exact Still.refl w
    · exact Still.refl w

theorem still_routeLoop (hint : Option Nat) (fuel : Nat) (w : W) : Still w (W.routeLoop hint fuel w) := by
  induction fuel generalizing w with
  | zero => exact Still.refl w
  | succ fuel ih =>
    unfold W.routeLoop
    split
    · exact Still.refl w
    · rename_i j hpk
      have hs := still_choose w j hint
      cases hc : w.chooseTargetWorker j hint with
      | mk t w1 =>
        rw [hc] at hs
        simp only at hs ⊢
        cases t with
        | none => exact hs
        | some worker =>
          simp only
          cases hp : qPopFront w1.cfg w1.queue with
          | none => exact hs
          | some jq =>
            obtain ⟨j', q⟩ := jq
            simp only
            have h1 : Still w { w1 with queue := q } := hs.trans ⟨rfl, rfl, fun h => h⟩
            have hr := still_routeMessage { w1 with queue := q } j' (some worker)
            cases hrm : W.routeMessage { w1 with queue := q } j' (some worker) with
            | mk r w2 =>
              rw [hrm] at hr
              cases r with
              | handled => exact h1.trans hr
              | rateLimited =>
                simp only
                refine (h1.trans hr).trans (Still.trans ?_ (ih _))
                exact Still.of_env ((stillE_discard w2.env _ j').trans (stillE_reject _ j')) rfl rfl
              | backlog =>
                -- unreachable: the router was asked a moment ago and named `worker`
                exfalso
                have hfr := chooseTargetWorker_frame w j hint
                rw [hc] at hfr
                simp only at hfr
                have hpk' : qPeek w.cfg w.queue = some j' := by
                  rw [← hfr.cfg, ← hfr.queue]; exact popByPrio_peek hp
                rw [hpk] at hpk'
                simp only [Option.some.injEq] at hpk'
                subst hpk'
                have := routeMessage_after_choice w j hint worker w1 hc q
                rw [hrm] at this
                exact this rfl

theorem still_tryRoute (w : W) (hint : Option Nat) : Still w (w.tryRouteNextActiveJob hint) := by
  unfold W.tryRouteNextActiveJob
  exact (still_dropExpiredHead _ w).trans (still_routeLoop _ _ _)

theorem still_shedQueueOldest (limit fuel : Nat) (w : W) : Still w (W.shedQueueOldest limit fuel w) := by
  induction fuel generalizing w with
  | zero => exact Still.refl w
  | succ fuel ih =>
    unfold W.shedQueueOldest
    split
    · split
      · rename_i j q _
        refine Still.trans ?_ (ih _)
        exact Still.of_env (stillE_discard w.env _ j) rfl rfl
      · exact ih w
    · exact Still.refl w

theorem still_maybeEnqueue (w : W) (j : Job) : Still w (w.maybeEnqueue j) := by
  unfold W.maybeEnqueue
  split
  · split
    · exact Still.of_env ((stillE_discard w.env _ j).trans (stillE_reject _ j)) rfl rfl
    · exact Still.of_env (stillE_accept w.env j) rfl rfl
  · dsimp only
    refine Still.trans ?_ (still_shedQueueOldest _ _ _)
    exact Still.of_env (stillE_accept w.env j) rfl rfl
  · exact Still.of_env (stillE_accept w.env j) rfl rfl

theorem still_growOne (w : W) (wid : Nat) : Still w (w.growOne wid) := by
  unfold W.growOne
  split
  · dsimp only
    split
    · apply Still.trans _ (still_availChange _ _ _)
      exact ⟨rfl, rfl, fun h => h⟩
    · exact ⟨rfl, rfl, fun h => h⟩
  · dsimp only
    apply Still.trans _ (still_availChange _ _ _)
    exact Still.of_env (stillE_spawn w.env _ _) rfl rfl

theorem still_foldl {f : W → Nat → W} (hf : ∀ w k, Still w (f w k)) (l : List Nat) (w : W) : Still w (l.foldl f w) := by
  induction l generalizing w with
  | nil => exact Still.refl w
  | cons a l ih => exact (hf w a).trans (ih _)

theorem still_growPool (w : W) (n : Nat) : Still w (w.growPool n) := by
  unfold W.growPool; exact still_foldl (fun w k => still_growOne w _) _ w

theorem still_shrinkOne (w : W) (wid : Nat) : Still w (w.shrinkOne wid) := by
  unfold W.shrinkOne
  split
  · rename_i p _
    split
    · exact ⟨rfl, rfl, fun h => h⟩
    · refine (still_availChange w wid false).trans ?_
      exact Still.of_env (stillE_stop _ p.actor) rfl rfl
  · exact Still.refl w

theorem still_shrinkPool (w : W) (n : Nat) : Still w (w.shrinkPool n) := by
  unfold W.shrinkPool; exact still_foldl (fun w k => still_shrinkOne w _) _ w

theorem still_flushAfterGrow (fuel : Nat) (w : W) : Still w (W.flushAfterGrow fuel w) := by
  induction fuel generalizing w with
  | zero => exact Still.refl w
  | succ fuel ih =>
    unfold W.flushAfterGrow
    simp only
    split
    · exact Still.refl w
    · split
      · exact still_tryRoute w none
      · exact (still_tryRoute w none).trans (ih _)

theorem still_resizePool (w : W) (n : Nat) : Still w (w.resizePool n) := by
  unfold W.resizePool
  split
  · exact Still.refl w
  · simp only
    split
    · apply Still.trans _ (still_flushAfterGrow _ _)
      exact (still_growPool w _).trans ⟨rfl, rfl, fun h => h⟩
    · split
      · exact (still_shrinkPool w _).trans ⟨rfl, rfl, fun h => h⟩
      · exact ⟨rfl, rfl, fun h => h⟩

theorem still_dispatch (w : W) (j : Job) : Still w (w.dispatch j) := by
  unfold W.dispatch
  split
  · exact Still.of_env ((stillE_discard w.env _ j).trans (stillE_reject _ j)) rfl rfl
  · split
    · have hr := still_routeMessage w j none
      cases hrm : w.routeMessage j none with
      | mk r w2 =>
        rw [hrm] at hr
        cases r with
        | handled => exact hr
        | rateLimited =>
          exact hr.trans (Still.of_env ((stillE_discard w2.env _ j).trans (stillE_reject _ j)) rfl rfl)
        | backlog => exact hr.trans (still_maybeEnqueue w2 j)
    · exact Still.of_env ((stillE_discard w.env _ j).trans (stillE_reject _ j)) rfl rfl

theorem still_ite (c : Prop) [Decidable c] (w a b : W) (ha : Still w a) (hb : Still w b) : Still w (if c then a else b) := by
  split <;> assumption

theorem still_workerFinishedJob (w : W) (who key : Nat) : Still w (w.workerFinishedJob who key) := by
  unfold W.workerFinishedJob
  split
  · rename_i p _
    have hq := stillE_workerComplete p w.env key
    cases hwc : p.workerComplete w.env key with
    | mk p' e' =>
      rw [hwc] at hq
      simp only at hq ⊢
      have h1 : Still w { w with pool := setW w.pool who p', env := e' } := Still.of_env hq rfl rfl
      split
      · split
        · exact h1.trans (Still.of_env (stillE_stop e' p'.actor) rfl rfl)
        · exact h1
      · apply still_ite
        · exact (h1.trans (still_tryRoute _ _)).trans (still_availChange _ _ _)
        · exact h1.trans (still_tryRoute _ _)
  · exact still_tryRoute w _

theorem stillE_foldl_discard (h : Option Nat) (r : Reason) (l : List Job) (e : Env) : StillE e (l.foldl (fun e j => e.discard h r j) e) := by
  induction l generalizing e with
  | nil => rfl
  | cons j l ih => rw [List.foldl_cons]; exact (stillE_discard e r j).trans (ih _)

theorem still_removeExpired (w : W) : Still w w.removeExpired := by
  unfold W.removeExpired
  split
  · exact Still.of_env (stillE_foldl_discard _ _ _ _) rfl rfl
  · exact Still.refl w

theorem still_calcRest (w : W) : Still w w.calcRest := by
  unfold W.calcRest
  exact (still_removeExpired w).trans ⟨rfl, rfl, fun h => h⟩

theorem still_updateSettings (w : W) (d : Option (Option (Nat × Mode))) (n : Option Nat) : Still w (w.updateSettings d n) := by
  unfold W.updateSettings
  have h1 : Still w (match d with
      | some d => { w with pool := w.pool.map (fun p => { p with disc := w.workerDiscard d }), disc := d }
      | none => w) := by
    cases d with
    | none => exact Still.refl w
    | some d => exact ⟨rfl, rfl, fun h => h⟩
  cases n with
  | none => exact h1
  | some n => exact h1.trans (still_resizePool _ n)

theorem still_afterReplace (w : W) (wid : Nat) : Still w (w.afterReplace wid) := by
  unfold W.afterReplace
  cases hret : w.retireIdleDrainingWorker wid with
  | some w2 =>
    simp only
    unfold W.retireIdleDrainingWorker at hret
    split at hret
    · rename_i p _
      split at hret
      · simp only [Option.some.injEq] at hret; subst hret
        exact Still.of_env (stillE_stop w.env p.actor) rfl rfl
      · simp at hret
    · simp at hret
  | none =>
    simp only
    apply still_ite
    · exact (still_tryRoute _ _).trans (still_availChange _ _ _)
    · exact still_tryRoute _ _

theorem still_handleSupervisorEvt (w : W) (who : Nat) : Still w (w.handleSupervisorEvt who) := by
  unfold W.handleSupervisorEvt
  split
  · exact Still.refl w
  · rename_i wid _
    split
    · exact Still.refl w
    · rename_i p _
      simp only
      have hq := stillE_replaceWorker p (w.env.spawn wid w.nextAid) w.nextAid
      cases hrw : p.replaceWorker (w.env.spawn wid w.nextAid) w.nextAid with
      | mk p' e' =>
        rw [hrw] at hq
        simp only at hq ⊢
        refine Still.trans ?_ (still_afterReplace _ wid)
        exact Still.of_env ((stillE_spawn w.env wid w.nextAid).trans hq) rfl rfl

theorem stillE_foldl (f : Env → Job → Env) (hf : ∀ e j, StillE e (f e j)) (l : List Job) (e : Env) : StillE e (l.foldl f e) := by
  induction l generalizing e with
  | nil => rfl
  | cons j l ih => rw [List.foldl_cons]; exact (hf e j).trans (ih _)

theorem stillE_dropQueued (h : Option Nat) (e : Env) (j : Job) : StillE e (Env.dropQueued h e j) := by
  unfold Env.dropQueued; split
  · exact stillE_discard e _ j
  · exact stillE_emit e _ rfl

theorem stillE_dropWorkerQueue (e : Env) (p : WP) : StillE e (e.dropWorkerQueue p) := by
  unfold Env.dropWorkerQueue
  exact stillE_foldl _ (fun e j => stillE_emit e _ rfl) _ e

theorem stillE_foldlW (f : Env → WP → Env) (hf : ∀ e p, StillE e (f e p)) (l : List WP) (e : Env) : StillE e (l.foldl f e) := by
  induction l generalizing e with
  | nil => rfl
  | cons p l ih => rw [List.foldl_cons]; exact (hf e p).trans (ih _)

/-- `post_stop` up to the wait: no hook yet, and the factory is now stopping -/
theorem postStop_drops (w : W) :
    dropsOf w.postStop.env.log = dropsOf w.env.log ∧ w.postStop.exited = w.exited ∧ w.postStop.stopped = true := by
  unfold W.postStop
  simp only
  refine ⟨?_, trivial, trivial⟩
  have h1 := stillE_foldl (Env.dropQueued w.handler) (stillE_dropQueued w.handler) w.queue w.env
  have h2 := stillE_foldlW Env.dropWorkerQueue stillE_dropWorkerQueue w.pool (w.queue.foldl (Env.dropQueued w.handler) w.env)
  have h3 := stillE_foldlW (fun e p => e.stop p.actor) (fun e p => stillE_stop e p.actor) w.pool
    (w.pool.foldl Env.dropWorkerQueue (w.queue.foldl (Env.dropQueued w.handler) w.env))
  exact (h1.trans (h2.trans h3))

theorem isDrained_still (w : W) : Still w w.isDrained.2 := by
  unfold W.isDrained
  split
  · exact Still.refl w
  · exact Still.refl w
  · split
    · exact ⟨rfl, rfl, fun h => h⟩
    · exact Still.refl w


theorem still_afterHandle (w : W) : Still w w.afterHandle := by
  unfold W.afterHandle
  split
  · exact Still.refl w
  · have hs := isDrained_still w
    cases hd : w.isDrained with
    | mk d w2 =>
      rw [hd] at hs
      simp only at hs ⊢
      split
      · exact hs.trans ⟨rfl, rfl, fun h => h⟩
      · exact hs


theorem still_send (w : W) (m : FMsg) : Still w (w.send m) := by
  unfold W.send; split
  · exact Still.refl w
  · exact ⟨rfl, rfl, fun h => h⟩


theorem still_finish (w : W) (aid : Nat) (ok : Bool) : Still w (w.finish aid ok) := by
  unfold W.finish
  cases ha : w.env.getActor aid with
  | none => exact Still.refl w
  | some a =>
    simp only
    cases hr : a.running with
    | none => exact Still.refl w
    | some j =>
      simp only
      split
      · exact Still.refl w
      · split
        · exact Still.of_env ((stillE_emit w.env _ rfl).trans (stillE_die _ aid)) rfl rfl
        · have h1 : Still w { w with env := (w.env.emit (.finishOk aid)).emit (.handled aid j.id) } :=
            Still.of_env ((stillE_emit w.env _ rfl).trans (stillE_emit _ _ rfl)) rfl rfl
          have h2 := still_send { w with env := (w.env.emit (.finishOk aid)).emit (.handled aid j.id) } (.finished a.wid j.key)
          refine (h1.trans h2).trans ?_
          exact Still.of_env ((stillE_setActor _ _).trans (stillE_settleOne _ aid)) rfl rfl


theorem still_emit (w : W) (ev : Ev) (h : isDrop ev = false) : Still w (w.emit ev) :=
  Still.of_env (stillE_emit w.env ev h) rfl rfl


theorem still_applyOp (w : W) (op : Op) : Still w (w.applyOp op) := by
  cases op with
  | dispatch id key hash ttl acc =>
    simp only [W.applyOp]
    split
    · exact Still.refl w
    · exact (still_emit w _ rfl).trans (still_send _ _)
  | finish aid ok => exact still_finish w aid ok
  | kill aid => exact Still.of_env ((stillE_emit w.env _ rfl).trans (stillE_die _ aid)) rfl rfl
  | resize n => exact (still_emit w _ rfl).trans (still_send _ _)
  | settings d n =>
    simp only [W.applyOp]
    refine Still.trans ?_ (still_send _ _)
    cases d with
    | none => cases n with
      | none => exact Still.refl w
      | some n => exact still_emit w _ rfl
    | some d => cases n with
      | none => exact still_emit w _ rfl
      | some n => exact (still_emit w _ rfl).trans (still_emit _ _ rfl)
  | drain => exact (still_emit w _ rfl).trans (still_send _ _)
  | setHandler hd => exact (still_emit w _ rfl).trans (still_send _ _)
  | advance => exact Still.refl w
  | block => exact ⟨rfl, rfl, fun h => h⟩
  | release n =>
    simp only [W.applyOp]
    split
    · refine Still.trans ?_ (still_afterHandle _)
      refine Still.trans ?_ (still_calcRest _)
      have h0 : Still w { w.emit (.released n) with blocked := false } :=
        (still_emit w _ rfl).trans ⟨rfl, rfl, fun h => h⟩
      split
      · exact h0.trans (still_resizePool _ _)
      · exact h0
    · exact Still.refl w
  | nop => exact Still.refl w






/-! ### over a run -/

/-- while the factory actor has not exited, no job has been dropped without a report -/
def DropOk (w : W) : Prop := w.exited = false → dropsOf w.env.log = []

theorem DropOk.still {w w' : W} (h : DropOk w) (c : Still w w') : DropOk w' := by
  intro hx
  rw [c.drops]
  exact h (by rw [← c.exited]; exact hx)

theorem still_handleMsg (w : W) (m : FMsg) : Still w (w.handleMsg m) := by
  cases m with
  | dispatch j => exact still_dispatch w j
  | finished who key => exact still_workerFinishedJob w who key
  | adjust n => exact still_resizePool w n
  | updateSettings d n => exact still_updateSettings w d n
  | setHandler hd => exact Still.of_env (stillE_emit w.env _ rfl) rfl rfl
  | drainRequests => exact Still.of_env (stillE_emit w.env _ rfl) rfl rfl
  | calculate =>
    show Still w (if w.cfg.hasCC && w.armed then { w with armed := false, blocked := true } else w.calcRest)
    split
    · exact ⟨rfl, rfl, fun h => h⟩
    · exact still_calcRest w
  | getQueueDepth => exact ⟨rfl, rfl, fun h => h⟩
  | getNumActiveWorkers => exact ⟨rfl, rfl, fun h => h⟩
  | getAvailableCapacity => exact ⟨rfl, rfl, fun h => h⟩

theorem dropOk_tryFinishStop (w : W) (h : DropOk w) : DropOk w.tryFinishStop := by
  unfold W.tryFinishStop
  split
  · intro hx; cases hx
  · exact h

theorem dropOk_loopStep (w w' : W) (h : DropOk w) (hl : w.loopStep = some w') : DropOk w' := by
  unfold W.loopStep at hl
  split at hl
  · simp at hl
  · split at hl
    · simp only [Option.some.injEq] at hl; subst hl
      obtain ⟨h1, h2, _⟩ := postStop_drops w
      intro hx; rw [h1]; exact h (by rw [← h2]; exact hx)
    · split at hl
      · rename_i who rest _
        simp only [Option.some.injEq] at hl; subst hl
        have h1 : DropOk ({ w with env := { w.env with sup := rest } } : W) := h
        exact h1.still (still_handleSupervisorEvt _ who)
      · split at hl
        · rename_i m rest _
          simp only [Option.some.injEq] at hl; subst hl
          have h1 : DropOk ({ w with inbox := rest } : W) := h
          exact (h1.still (still_handleMsg _ m)).still (still_afterHandle _)
        · simp at hl

theorem dropOk_runQ (fuel : Nat) (w : W) (h : DropOk w) : DropOk (W.runQ fuel w) := by
  induction fuel generalizing w with
  | zero => exact h
  | succ fuel ih =>
    unfold W.runQ
    cases hl : w.loopStep with
    | some w' => simp only; exact ih _ (dropOk_loopStep w w' h hl)
    | none =>
      simp only
      have h1 : DropOk ({ w with env := w.env.settle } : W) :=
        h.still (Still.of_env (stillE_settle w.env) rfl rfl)
      have hs := dropOk_tryFinishStop _ h1
      split
      · exact hs
      · exact ih _ hs

theorem dropOk_advanceTo (t fuel : Nat) (w : W) (h : DropOk w) : DropOk (W.advanceTo t fuel w) := by
  induction fuel generalizing w with
  | zero => exact h
  | succ fuel ih =>
    unfold W.advanceTo
    split
    · simp only
      apply ih
      apply dropOk_runQ
      have h1 : DropOk ({ w.setNow w.nextCalc with nextCalc := t + CALCULATE_FREQUENCY * 1000000 } : W) := h
      exact h1.still (still_send _ _)
    · exact h

theorem dropOk_ask (w : W) (m : FMsg) (h : DropOk w) : DropOk (w.ask m) := by
  unfold W.ask
  split
  · exact h
  · simp only
    have h1 := dropOk_runQ RUN_FUEL _ (h.still (still_send w m))
    split
    · exact h1
    · exact h1

theorem dropOk_queries (w : W) (h : DropOk w) : DropOk w.queries := by
  unfold W.queries
  split
  · exact h
  · have h0 : DropOk ({ w with answers := [] } : W) := h
    exact dropOk_ask _ _ (dropOk_ask _ _ (dropOk_ask _ _ h0))

theorem dropOk_stepOp (w : W) (op : Op) (t0 tq te : Nat) (h : DropOk w) : DropOk (w.stepOp op t0 tq te) := by
  unfold W.stepOp
  simp only
  generalize hw1 : W.advanceTo t0 (advanceFuel w t0) w = w1
  have h1 : DropOk w1 := by rw [← hw1]; exact dropOk_advanceTo _ _ _ h
  generalize hw2 : W.runQ RUN_FUEL (w1.applyOp op) = w2
  have h2 : DropOk w2 := by rw [← hw2]; exact dropOk_runQ _ _ (h1.still (still_applyOp _ _))
  generalize hw3 : W.advanceTo tq (advanceFuel w2 tq) w2 = w3
  have h3 : DropOk w3 := by rw [← hw3]; exact dropOk_advanceTo _ _ _ h2
  generalize hw4 : w3.queries = w4
  have h4 : DropOk w4 := by rw [← hw4]; exact dropOk_queries _ h3
  generalize hw5 : W.advanceTo te (advanceFuel w4 te) w4 = w5
  have h5 : DropOk w5 := by rw [← hw5]; exact dropOk_advanceTo _ _ _ h4
  have h6 : DropOk ({ w5 with lastWq := none } : W) := h5
  exact h6.still (still_emit _ _ rfl)

theorem dropOk_runSteps (w : W) (steps : List Step) (h : DropOk w) : DropOk (w.runSteps steps) := by
  induction steps generalizing w with
  | nil => exact h
  | cons s rest ih => exact ih _ (dropOk_stepOp w s.op s.t0 s.tq s.te h)

theorem dropOk_init (c : CaseCfg) : DropOk (init c) := by
  intro _
  unfold init
  simp only
  have hq := still_growPool
    ({ cfg := c.cfg, poolSize := 0, pool := [], byActor := [], avail := [], inQ := [], last := 0,
       rl := c.rl.map fun (r : Nat × Nat × Nat × Nat) =>
          let lc : LeakyBucket.Cfg := ⟨r.1, r.2.1, r.2.2.1, 10 ^ 40⟩
          (lc, LeakyBucket.new lc (some r.2.2.2) 0),
       queue := [], disc := c.disc, drain := .notDraining,
       handler := if c.cfg.hasHandler then some 0 else none,
       env := { actors := [], log := [], now := 0, sup := [] },
       nextAid := 0, stopSignal := false, stopped := false, inbox := [], blocked := false, armed := false,
       nextCalc := CALCULATE_FREQUENCY, answers := [], lastWq := none } : W) c.n
  simp only [W.emit, Env.emit, dropsOf_append]
  rw [hq.drops]
  simp [dropsOf]

theorem dropsOf_mem (log : List Ev) (id : Nat) (h : Ev.dropped id ∈ log) : id ∈ dropsOf log := by
  unfold dropsOf
  exact List.mem_filterMap.mpr ⟨Ev.dropped id, h, rfl⟩

/-- no job is dropped without a report while the factory actor has not exited -/
theorem never_drops_run (c : CaseCfg) (steps : List Step) (hx : ((init c).runSteps steps).exited = false) (id : Nat) :
    Ev.dropped id ∉ ((init c).runSteps steps).env.log := by
  intro hm
  have := dropsOf_mem _ id hm
  rw [dropOk_runSteps _ steps (dropOk_init c) hx] at this
  cases this

end Factory
