import RactorModel.Model.EarlyStep
import RactorModel.Model.Early
import Driver.Common

/-! Driver for the small-step start × drain model `EarlyStep` (C07), fed by the same harness as
`Driver/Early.lean` (hcore/src/bin/early.rs, flag `--fine 1`).

Every harness op is replayed as the model steps it stands for:
* `cast` / `stop` / `kill` — one step of thread 0; `drain` — the three steps of a drain, un-interleaved;
* `dbegin` / `dstep` — a drain on its own thread (a fresh model thread) advanced ONE model step per
  `dstep` granted at `drain.close` / `drain.status` / `marker.cas` (the grant at `marker.load` only
  decides whether the marker step is a no-op, the CAS and the enqueue are granted together);
* `enter` — start-thread steps up to `pre_start` (a pending kill wins there);
* `poll ok|err` / `leave ok|err` — `pre_start` returns, the start thread runs on;
* after every op once the start task has been let run: the start thread / the actor's task runs
  until it is idle, dead, or parked in `pre_start`.

ops: `case <linked 0|1> [tl] [ni]` → `ok` · op → `<result> h=[handled] st=<status> r=<reason|->` -/

namespace Driver.EarlyStepD
open _root_.EarlyStep Driver

structure DS where
  g : G := { threads := [{ todo := [] }] }
  c : Cfg := {}
  begun : Bool := false      -- the start task has been let run
  gated : Bool := false      -- … and is held at pre_start's await point
  joined : Bool := false
  fine : Option Nat := none  -- index of the thread of the stepping drain
  manual : Bool := false     -- flavour `thr`: the start thread moves only on `tbegin` / `sstep`
  prefixKey : String := ""
  opsSoFar : List String := []  -- the ops so far (for `undisturbed`)
  -- from the implementation's own answers
  acceptedImpl : List Nat := []
  nextImpl : Nat := 0
  drainedImpl : Bool := false
  lateAcceptImpl : Bool := false

def statusName (n : Nat) : String :=
  match n with
  | 0 => "Unstarted" | 1 => "Starting" | 2 => "Running" | 3 => "Upgrading" | 4 => "Draining"
  | 5 => "Stopping" | _ => "Stopped"

def reason (s : Sh) : String :=
  match s.pc with
  | .exited .drained => "T:Drained"
  | .exited .stopped => "T:none"
  | .exited .killed => "T:killed"
  | _ => "-"

def snap (ds : DS) : String :=
  let s := ds.g.sh
  let r := if ds.c.linked then reason s else "-"
  s!"h=[{",".intercalate (s.handled.map toString)}] st={statusName s.status} r={r}"

def startSteps (c : Cfg) (g : G) (n : Nat) : G := (List.replicate n Tid.start).foldl (step c) g

/-- the start thread / the actor's task runs until idle, dead or parked at the pre_start gate -/
def settle (ds : DS) : DS :=
  if !ds.begun || ds.manual then ds
  else if ds.gated then
    -- up to pre_start; the (biased) select lets a pending kill win there
    let upTo : Nat := match ds.g.sh.pc with
      | .check => 3 | .publish => 2 | .linkTL => 1 | _ => 0
    let rec go (fuel : Nat) (g : G) : G :=
      match fuel with
      | 0 => g
      | f + 1 => if g.sh.pc == .preStart || !g.sh.pc.alive then g else go f (step ds.c g .start)
    let g := go upTo ds.g
    let g := if g.sh.pc == .preStart && g.sh.killReq then step ds.c g .start else g
    { ds with g := g }
  else { ds with g := startSteps ds.c ds.g (measure ds.g.sh) }

/-- append request `r` to thread `i`'s program and run `n` steps of it -/
def doReq (ds : DS) (i : Nat) (r : Req) (n : Nat) : DS :=
  let th := (ds.g.threads[i]?).getD { todo := [] }
  let g : G := { ds.g with threads := ds.g.threads.set i { th with todo := th.todo ++ [r] } }
  { ds with g := (List.replicate n (Tid.t i)).foldl (step ds.c) g }

def startResult (ds : DS) : String :=
  match ds.g.sh.pc with
  | .failed .already => "start=err:already-started"
  | .failed _ => "start=err:startup-failed"
  | _ => "start=ok"

def markerEligible (s : Sh) : Bool := s.closed && !s.markerSent

/-- the op's own result and the new driver state (before the settle) -/
def exec (ds : DS) (w : List String) : Option (DS × String) :=
  match w with
  | ["cast"] | ["scast"] =>
    let ds' := doReq ds 0 .cast 1
    some (ds', if ds'.g.sh.accepted.length > ds.g.sh.accepted.length then "ok" else "err")
  | ["drain"] =>
    let ds2 := doReq ds 0 .drain 2
    let err := markerEligible ds2.g.sh && !ds2.g.sh.portsOpen
    some ({ ds2 with g := step ds.c ds2.g (.t 0) }, if err then "err" else "ok")
  | ["stop"] => some (doReq ds 0 .stop 1, "ok")
  | ["kill"] => some (doReq ds 0 .kill 1, "ok")
  | ["dbegin"] =>
    match ds.fine with
    | some _ => some (ds, "dbegin=busy")
    | none =>
      let i := ds.g.threads.length
      some ({ ds with g := { ds.g with threads := ds.g.threads ++ [{ todo := [.drain] }] }, fine := some i },
            "at=drain.close")
  | ["dstep"] =>
    match ds.fine with
    | none => some (ds, "dstep=none")
    | some i =>
      match ds.g.threads[i]? with
      | none => some (ds, "dstep=none")
      | some th =>
        match th.todo, th.dpc with
        | [], _ => some ({ ds with fine := none }, "dstep=none")
        | _, 0 => some ({ ds with g := step ds.c ds.g (.t i) }, "at=drain.status")
        | _, 1 => some ({ ds with g := step ds.c ds.g (.t i) }, "at=marker.load")
        | _, 2 =>
          -- `marker.load`: not eligible ⇒ the drain returns (the marker step is a no-op)
          if markerEligible ds.g.sh then
            some ({ ds with g := { ds.g with threads := ds.g.threads.set i { th with dpc := 3 } } }, "at=marker.cas")
          else some ({ ds with g := step ds.c ds.g (.t i), fine := none }, "done=ok")
        | _, _ =>
          let err := markerEligible ds.g.sh && !ds.g.sh.portsOpen
          some ({ ds with g := step ds.c ds.g (.t i), fine := none }, if err then "done=err" else "done=ok")
  -- flavour `thr`: the start thread is parked at `status.publish` (status checked, `Starting` not yet
  -- published) …
  | ["tbegin"] =>
    if ds.begun then some (ds, "bad-op")
    else some ({ ds with begun := true, g := step ds.c ds.g .start }, "at=status.publish")
  -- … and advanced to `tree.link` (pc `linkTL` / `link`) or to the end of the start; the `sstep` that
  -- completes the start ends the case: an actor nobody drained is drained, then everything runs out
  | ["sstep"] =>
    if !ds.begun || ds.joined then some (ds, "bad-op")
    else
      let rec go (fuel : Nat) (g : G) : G :=
        match fuel with
        | 0 => g
        | f + 1 =>
          if g.sh.pc == .linkTL || g.sh.pc == .link || g.sh.pc == .loop || !g.sh.pc.alive then g
          else go f (step ds.c g .start)
      let g1 := go 12 (step ds.c ds.g .start)
      if g1.sh.pc == .linkTL || g1.sh.pc == .link then some ({ ds with g := g1 }, "at=tree.link")
      else
        let res := startResult { ds with g := g1 }
        let ds1 := { ds with g := g1, joined := true }
        let ds2 := if g1.sh.pc.alive && !g1.sh.closed then doReq ds1 0 .drain 3 else ds1
        let g3 := startSteps ds.c ds2.g (measure ds2.g.sh)
        some ({ ds2 with g := g3 }, "done=" ++ res)
  | ["enter"] =>
    if ds.begun then some (ds, "enter=already")
    else
      let ds' := settle { ds with begun := true, gated := true }
      some (ds', if ds'.g.sh.pc == .preStart then "entered" else "start-over")
  | [p, o] =>
    if (p == "poll" || p == "leave") && (o == "ok" || o == "err") then
      let ds1 := { ds with begun := true, gated := false, c := { ds.c with preOk := o == "ok" } }
      let ds2 := settle ds1
      if ds.joined then some (ds2, "start=already")
      else some ({ ds2 with joined := true }, startResult ds2)
    else none
  | _ => none

def field (s tag : String) : Option String :=
  match s.splitOn tag with
  | [_, rest] => (rest.splitOn " ").head?
  | _ => none

def parseH (s : String) : Option (List Nat) :=
  match s.splitOn "h=[" with
  | [_, rest] => match rest.splitOn "]" with
    | x :: _ => natList? x
    | [] => none
  | _ => none

def undisturbedWords (ws : List (List String)) : Bool :=
  ws.all (fun w => match w with
    | ["stop"] => false | ["kill"] => false | [_, "err"] => false | _ => true)

def step (ds : DS) (op impl : String) : DS × StepOut :=
  match words op with
  | "case" :: l :: fl =>
    ({ c := { fixed := true, linked := l == "1", tl := fl.contains "tl" }, prefixKey := " ".intercalate fl,
       manual := fl.contains "thr" },
     { model := "ok" })
  | w =>
    match exec ds w with
    | none => (ds, { model := "bad-op" })
    | some (ds', res) =>
      let ds' := settle ds'
      let implRes := (words impl).headD ""
      let isCast := w == ["cast"] || w == ["scast"]
      let ds1 : DS :=
        if isCast then
          let id := ds'.nextImpl
          if implRes == "ok" then
            { ds' with nextImpl := id + 1, acceptedImpl := ds'.acceptedImpl ++ [id],
                       lateAcceptImpl := ds'.lateAcceptImpl || ds'.drainedImpl }
          else { ds' with nextImpl := id + 1 }
        else if w == ["drain"] || implRes.startsWith "done=" then { ds' with drainedImpl := true }
        else ds'
      let ws := ds.opsSoFar ++ [op]
      let undist := undisturbedWords (ws.map words)
      let started := ws.any (fun o => o == "poll ok" || o == "leave ok") || (w == ["sstep"] && implRes.startsWith "done=")
      let orc :=
        (match parseH impl, field impl "st=", field impl "r=" with
         | some h, some st, some r =>
           if _root_.Early.c07ok ds1.drainedImpl undist started ds.c.linked ds1.acceptedImpl h st r then []
           else ["c07.accepted-before-drain-not-handled-or-not-drained"]
         | _, _, _ => ["unparsable"]) ++
        (if ds1.lateAcceptImpl then ["c07.send-accepted-after-drain-returned"] else [])
      let key := ds.prefixKey ++ "|" ++ op
      ({ ds1 with opsSoFar := ws, prefixKey := key },
       { model := s!"{res} {snap ds1}", oracle := orc,
         nontrivial := w == ["dstep"] || w == ["drain"] || w == ["dbegin"] || w == ["sstep"] || ds.g.sh.status < 2,
         key := some (key ++ " => " ++ impl) })

def run (ops impl : Array String) : IO Tally := replay ({} : DS) step ops impl

end Driver.EarlyStepD
