import RactorModel.Lemmas.FactoryQueuer
import RactorModel.Lemmas.FactoryHooks

/-! The factory never reaches its `panic!` (`RouteResult::Backlog` with a targeted worker, factoryimpl.rs
`try_route_next_active_job`): no `Ev.panicked` in any history.  Same frame scheme as `FactoryHooks.lean`. -/

namespace Factory

def panicsOf (log : List Ev) : List Unit := log.filterMap fun | .panicked => some () | _ => none

def isPanic : Ev → Bool
  | .panicked => true
  | _ => false

theorem panicsOf_append (a b : List Ev) : panicsOf (a ++ b) = panicsOf a ++ panicsOf b := by
  simp [panicsOf, List.filterMap_append]

theorem panicsOf_single (ev : Ev) (h : isPanic ev = false) : panicsOf [ev] = [] := by
  cases ev <;> simp_all [panicsOf, isPanic]

/-- the environment's log gained no hook event -/
def CalmE (e e' : Env) : Prop := panicsOf e'.log = panicsOf e.log

theorem CalmE.refl (e : Env) : CalmE e e := rfl
theorem CalmE.trans {a b c : Env} (h1 : CalmE a b) (h2 : CalmE b c) : CalmE a c := Eq.trans h2 h1

theorem calmE_emit (e : Env) (ev : Ev) (h : isPanic ev = false) : CalmE e (e.emit ev) := by
  simp [CalmE, Env.emit, panicsOf_append, panicsOf_single ev h]

theorem calmE_discard (e : Env) {h : Option Nat} (r : Reason) (j : Job) : CalmE e (e.discard h r j) := calmE_emit e _ rfl
theorem calmE_reject (e : Env) (j : Job) : CalmE e (e.reject j) := by
  unfold Env.reject; split
  · exact calmE_emit e _ rfl
  · exact CalmE.refl e
theorem calmE_accept (e : Env) (j : Job) : CalmE e (e.accept j) := by
  unfold Env.accept; split
  · exact calmE_emit e _ rfl
  · exact CalmE.refl e

theorem calmE_setActor (e : Env) (a : Actor) : CalmE e (e.setActor a) := rfl

theorem calmE_cast (e e' : Env) (aid : Nat) (j : Job) (h : e.cast aid j = some e') : CalmE e e' := by
  unfold Env.cast at h
  cases ha : e.getActor aid with
  | none => simp [ha] at h
  | some a =>
    simp only [ha] at h
    split at h
    · simp at h
    · simp only [Option.some.injEq] at h; subst h; rfl

theorem panicsOf_lost (aid : Nat) (l : List Job) : panicsOf (l.map fun j => Ev.lost aid j.id) = [] := by
  induction l with
  | nil => rfl
  | cons j l ih => simpa [panicsOf] using ih

theorem calmE_die (e : Env) (aid : Nat) : CalmE e (e.die aid) := by
  unfold Env.die
  cases ha : e.getActor aid with
  | none => rfl
  | some a =>
    simp only
    split
    · rfl
    · simp [CalmE, panicsOf_append, panicsOf_lost, Env.setActor]

theorem calmE_killAll (e : Env) : CalmE e e.killAll := by
  unfold Env.killAll
  generalize e.actors.map (·.aid) = ids
  induction ids generalizing e with
  | nil => rfl
  | cons a as ih => rw [List.foldl_cons]; exact (calmE_die e a).trans (ih _)

theorem calmE_stop (e : Env) (aid : Nat) : CalmE e (e.stop aid) := by
  unfold Env.stop
  cases ha : e.getActor aid with
  | none => rfl
  | some a => simp only; split <;> rfl

theorem calmE_settleOne (e : Env) (aid : Nat) : CalmE e (e.settleOne aid) := by
  unfold Env.settleOne
  cases ha : e.getActor aid with
  | none => rfl
  | some a =>
    simp only
    split
    · rfl
    · split
      · exact calmE_die e aid
      · cases hm : a.mailbox with
        | nil => rfl
        | cons j rest => simp only; exact (calmE_setActor e _).trans (calmE_emit _ _ rfl)

theorem calmE_settle (e : Env) : CalmE e e.settle := by
  unfold Env.settle
  generalize e.actors.map (·.aid) = ids
  induction ids generalizing e with
  | nil => rfl
  | cons a as ih => rw [List.foldl_cons]; exact (calmE_settleOne e a).trans (ih _)

theorem calmE_spawn (e : Env) (wid aid : Nat) : CalmE e (e.spawn wid aid) := by
  simp [CalmE, Env.spawn, panicsOf_append, panicsOf]

theorem calmE_getNextNonExpired {h : Option Nat} (mq : List Job) (pend : List Nat) (e : Env) :
    CalmE e (getNextNonExpired h mq pend e).2.2.2 := by
  induction mq generalizing pend e with
  | nil => rfl
  | cons j rest ih =>
    unfold getNextNonExpired
    split
    · rfl
    · exact (calmE_discard e _ j).trans (ih _ _)

theorem calmE_getNext (p : WP) (e : Env) : CalmE e (p.getNext e).2.2 :=
  calmE_getNextNonExpired p.mq p.pending e

theorem calmE_dispatchJob (p : WP) (e : Env) (j : Job) : CalmE e (p.dispatchJob e j).2 := by
  unfold WP.dispatchJob
  cases hc : e.cast p.actor j with
  | none => rfl
  | some e' => exact calmE_cast e e' _ j hc

theorem calmE_shedOldest (limit fuel : Nat) (p : WP) (e : Env) : CalmE e (shedOldest limit fuel p e).2 := by
  induction fuel generalizing p e with
  | zero => rfl
  | succ fuel ih =>
    unfold shedOldest
    split
    · have hg := calmE_getNext p e
      cases hn : p.getNext e with
      | mk r pe =>
        obtain ⟨p', e'⟩ := pe
        rw [hn] at hg
        cases r with
        | none => simp only; exact hg.trans (ih _ _)
        | some d => simp only; exact (hg.trans (calmE_discard _ _ _)).trans (ih _ _)
    · rfl

theorem calmE_enqueueAccepted (p : WP) (e : Env) (j : Job) : CalmE e (p.enqueueAccepted e j).2 := by
  unfold WP.enqueueAccepted
  split
  · have hg := calmE_getNext p e
    cases hn : p.getNext e with
    | mk r pe =>
      obtain ⟨p', e'⟩ := pe
      rw [hn] at hg
      cases r with
      | none => simp only; exact hg.trans (calmE_dispatchJob _ _ _)
      | some d => simp only; exact hg.trans (calmE_dispatchJob _ _ _)
  · simp only
    split
    · exact calmE_shedOldest _ _ _ _
    · rfl

theorem calmE_enqueueJob (p : WP) (e : Env) (j : Job) : CalmE e (p.enqueueJob e j).2 := by
  unfold WP.enqueueJob
  split
  · exact (calmE_discard e _ j).trans (calmE_reject _ j)
  · exact (calmE_accept e j).trans (calmE_enqueueAccepted _ _ _)

theorem calmE_workerComplete (p : WP) (e : Env) (key : Nat) : CalmE e (p.workerComplete e key).2 := by
  unfold WP.workerComplete
  split
  · generalize ({ p with curr := p.curr.filter (fun x => x.1 != key), pending := p.pending.erase key } : WP) = p0
    have hg := calmE_getNext p0 e
    cases hn : p0.getNext e with
    | mk r pe =>
      obtain ⟨p', e'⟩ := pe
      rw [hn] at hg
      cases r with
      | none => simp only [hn]; exact hg
      | some d => simp only [hn]; exact hg.trans (calmE_dispatchJob _ _ _)
  · rfl

theorem calmE_replaceWorker (p : WP) (e : Env) (naid : Nat) : CalmE e (p.replaceWorker e naid).2 := by
  unfold WP.replaceWorker
  simp only
  generalize ({ p with curr := [], pending := p.curr.foldl (fun acc x => acc.erase x.1) p.pending, actor := naid } : WP) = p0
  have hg := calmE_getNext p0 e
  cases hn : p0.getNext e with
  | mk r pe =>
    obtain ⟨p', e'⟩ := pe
    rw [hn] at hg
    cases r with
    | none => simp only [hn]; exact hg
    | some d => simp only [hn]; exact hg.trans (calmE_dispatchJob _ _ _)

/-! ### the factory -/

/-- no hook ran, and the stop state did not go back -/
structure Calm (w w' : W) : Prop where
  panics : panicsOf w'.env.log = panicsOf w.env.log
  exited : w'.exited = w.exited
  stopped : w.stopped = true → w'.stopped = true

theorem Calm.refl (w : W) : Calm w w := ⟨rfl, rfl, fun h => h⟩
theorem Calm.trans {a b c : W} (h1 : Calm a b) (h2 : Calm b c) : Calm a c :=
  ⟨h2.panics.trans h1.panics, h2.exited.trans h1.exited, fun h => h2.stopped (h1.stopped h)⟩

theorem Calm.of_env {w w' : W} (he : CalmE w.env w'.env) (hx : w'.exited = w.exited) (hs : w'.stopped = w.stopped) :
    Calm w w' := ⟨he, hx, fun h => by rw [hs]; exact h⟩

theorem Calm.of_routerFrame {w w' : W} (f : RouterFrame w w') (hx : w'.exited = w.exited) : Calm w w' :=
  ⟨by rw [f.env], hx, fun h => by rw [f.stopped]; exact h⟩

theorem calm_availChange (w : W) (wid : Nat) (b : Bool) : Calm w (w.availChange wid b) :=
  Calm.of_routerFrame (availChange_frame w wid b) (availChange_exited w wid b)

theorem calm_choose (w : W) (j : Job) (hint : Option Nat) : Calm w (w.chooseTargetWorker j hint).2 :=
  Calm.of_routerFrame (chooseTargetWorker_frame w j hint) (chooseTargetWorker_exited w j hint)

theorem calm_routeInner (w : W) (j : Job) (hint : Option Nat) : Calm w (w.routeInner j hint).2 := by
  unfold W.routeInner
  have hs := calm_choose w j hint
  cases hc : w.chooseTargetWorker j hint with
  | mk t w1 =>
    rw [hc] at hs
    simp only at hs ⊢
    cases t with
    | none => exact hs
    | some wid =>
      simp only
      cases hg : getW w1.pool wid with
      | none => exact hs
      | some p => exact hs.trans (Calm.of_env (calmE_enqueueJob p w1.env j) rfl rfl)

theorem calm_routeLimited (w : W) (j : Job) (hint : Option Nat) : Calm w (w.routeLimited j hint).2 := by
  unfold W.routeLimited
  split
  · exact calm_routeInner w j hint
  · rename_i c lb _
    simp only
    have h0 : Calm w { w with rl := some (c, (LeakyBucket.check c lb w.env.now).1) } := ⟨rfl, rfl, fun h => h⟩
    split
    · split
      · split
        · rename_i hh _
          exact h0.trans (calm_availChange _ hh true)
        · exact h0
      · exact h0
    · have hi := calm_routeInner { w with rl := some (c, (LeakyBucket.check c lb w.env.now).1) } j hint
      cases hr : W.routeInner { w with rl := some (c, (LeakyBucket.check c lb w.env.now).1) } j hint with
      | mk r w2 =>
        rw [hr] at hi
        simp only at hi ⊢
        split
        · exact h0.trans (hi.trans ⟨rfl, rfl, fun h => h⟩)
        · exact h0.trans hi

theorem calm_routeMessage (w : W) (j : Job) (hint : Option Nat) : Calm w (w.routeMessage j hint).2 := by
  unfold W.routeMessage
  have hi := calm_routeLimited w j hint
  cases hr : w.routeLimited j hint with
  | mk r w2 => rw [hr] at hi; exact hi.trans ⟨rfl, rfl, fun h => h⟩

theorem calm_dropExpiredHead (fuel : Nat) (w : W) : Calm w (W.dropExpiredHead fuel w) := by
  induction fuel generalizing w with
  | zero => exact Calm.refl w
  | succ fuel ih =>
    unfold W.dropExpiredHead
    split
    · split
      · split
        · rename_i j' q _
          refine Calm.trans ?_ (ih _)
          exact Calm.of_env ((calmE_discard w.env _ j').trans (calmE_reject _ j')) rfl rfl
        · exact Calm.refl w
      · exact Calm.refl w
    · exact Calm.refl w

/-! ### the panic branch of `try_route_next_active_job` is unreachable

`try_route_next_active_job` asks the router for a target (`choose_target_worker`) and then routes the job
with that target as the hint; `route_message` consults `choose_target_worker` again. For each of the five
routers the second consultation finds a worker of the pool, so the result is never `Backlog`. -/

theorem takeFirst_find {f : Job → Bool} {l : List Job} {x : Job} {r : List Job} (h : takeFirst f l = some (x, r)) :
    l.find? f = some x := by
  induction l generalizing x r with
  | nil => simp [takeFirst] at h
  | cons j rest ih =>
    unfold takeFirst at h
    by_cases hf : f j = true
    · simp only [hf, if_true, Option.some.injEq, Prod.mk.injEq] at h
      rw [List.find?_cons, hf, h.1]
    · have hf' : f j = false := by simpa using hf
      simp only [hf', Bool.false_eq_true, if_false] at h
      cases ht : takeFirst f rest with
      | none => rw [ht] at h; simp at h
      | some xr =>
        obtain ⟨x', r'⟩ := xr
        rw [ht] at h
        simp only [Option.some.injEq, Prod.mk.injEq] at h
        rw [List.find?_cons, hf', ← h.1]
        exact ih ht

theorem takeFirst_none_find {f : Job → Bool} {l : List Job} (h : takeFirst f l = none) : l.find? f = none := by
  induction l with
  | nil => rfl
  | cons j rest ih =>
    unfold takeFirst at h
    by_cases hf : f j = true
    · simp [hf] at h
    · have hf' : f j = false := by simpa using hf
      simp only [hf', Bool.false_eq_true, if_false] at h
      cases ht : takeFirst f rest with
      | none => rw [List.find?_cons, hf']; exact ih ht
      | some xr => rw [ht] at h; simp at h

/-- what `pop_front` removes is what `peek` showed -/
theorem popByPrio_peek {cfg : Cfg} {ps : List Nat} {q : List Job} {x : Job} {r : List Job}
    (h : popByPrio cfg ps q = some (x, r)) : peekByPrio cfg ps q = some x := by
  induction ps with
  | nil => simp [popByPrio] at h
  | cons p ps ih =>
    unfold popByPrio at h
    unfold peekByPrio
    cases ht : takeFirst (fun j => prioOf cfg j == p) q with
    | some xr =>
      obtain ⟨x', r'⟩ := xr
      rw [ht] at h
      simp only [Option.some.injEq, Prod.mk.injEq] at h
      rw [takeFirst_find ht, h.1]
    | none =>
      rw [ht] at h
      simp only at h
      rw [takeFirst_none_find ht]
      exact ih h

theorem popAvail_some (pool : List WP) (avail inQ : List Nat) (wid : Nat) (h : (popAvail pool avail inQ).1 = some wid) :
    availP pool wid = true := by
  induction avail generalizing inQ with
  | nil => simp [popAvail] at h
  | cons x rest ih =>
    unfold popAvail at h
    simp only at h
    cases hg : getW pool x with
    | none => rw [hg] at h; exact ih _ h
    | some p =>
      rw [hg] at h
      simp only at h
      by_cases ha : p.isAvailable = true
      · simp only [ha, if_true, Option.some.injEq] at h
        subst h
        simp [availP, hg, ha]
      · have : p.isAvailable = false := by simpa using ha
        simp only [this, Bool.false_eq_true, if_false] at h
        exact ih _ h

theorem hasW_getW {pool : List WP} {wid : Nat} (h : hasW pool wid = true) : ∃ p, getW pool wid = some p := by
  unfold hasW at h
  obtain ⟨p, hp, hw⟩ := List.any_eq_true.mp h
  cases hg : getW pool wid with
  | some p' => exact ⟨p', rfl⟩
  | none =>
    unfold getW at hg
    have := List.find?_eq_none.mp hg p hp
    simp [hw] at this

theorem availP_hasW {pool : List WP} {wid : Nat} (h : availP pool wid = true) : hasW pool wid = true := by
  obtain ⟨p, hg, _⟩ := availP_true_getW h
  have hm := getW_mem hg
  have hw := getW_wid hg
  exact List.any_eq_true.mpr ⟨p, hm, by simp [hw]⟩

theorem find_hasW {pool : List WP} {f : WP → Bool} {p : WP} (h : pool.find? f = some p) : hasW pool p.wid = true :=
  List.any_eq_true.mpr ⟨p, List.mem_of_find?_eq_some h, by simp⟩

/-- the second consultation of the router, with the first pick as the hint, finds a worker of the pool -/
theorem second_choice (w : W) (j : Job) (hint : Option Nat) (worker : Nat) (w1 : W)
    (hc : w.chooseTargetWorker j hint = (some worker, w1)) (q : List Job) (r : Option (LeakyBucket.Cfg × LeakyBucket.LB)) :
    ∃ x, (({ w1 with queue := q, rl := r } : W).chooseTargetWorker j (some worker)).1 = some x ∧ hasW w1.pool x = true := by
  have hf := chooseTargetWorker_frame w j hint
  rw [hc] at hf
  simp only at hf
  have hcfg := hf.cfg
  have hpool := hf.pool
  have hps := hf.poolSize
  unfold W.chooseTargetWorker at hc ⊢
  simp only [hcfg]
  cases hr : w.cfg.router with
  | kp =>
    simp only [hr] at hc ⊢
    have hw : hasW w1.pool worker = true := by
      rw [hpool]
      split at hc
      · rename_i p hfind
        simp only [Prod.mk.injEq, Option.some.injEq] at hc
        rw [← hc.1]; exact find_hasW hfind
      · split at hc
        · rename_i h hfil
          simp only [Prod.mk.injEq, Option.some.injEq] at hc
          rw [← hc.1]
          cases hint with
          | none => simp at hfil
          | some h0 =>
            simp only [Option.filter] at hfil
            split at hfil
            · simp only [Option.some.injEq] at hfil; subst hfil; assumption
            · cases hfil
        · split at hc
          · simp at hc
          · simp only [Prod.mk.injEq] at hc
            split at hc
            · rename_i hh; simp only [Option.some.injEq] at hc; rw [← hc.1]; exact hh
            · simp at hc
    cases hfind : w1.pool.find? (·.hasPendingKey j.key) with
    | some p => exact ⟨p.wid, rfl, find_hasW hfind⟩
    | none =>
      simp only [Option.filter, hw, if_true]
      exact ⟨worker, rfl, hw⟩
  | q =>
    simp only [hr] at hc ⊢
    have ha : hintAvailable w1.pool (some worker) = true := by
      rw [hpool]
      split at hc
      · rename_i hh
        simp only [Prod.mk.injEq] at hc
        rw [← hc.1]; exact hh
      · simp only [Prod.mk.injEq] at hc
        exact popAvail_some _ _ _ _ hc.1
    simp only [ha, if_true]
    exact ⟨worker, rfl, availP_hasW ha⟩
  | sq =>
    simp only [hr] at hc ⊢
    have ha : hintPending w1.pool (some worker) j.key = true ∨
        ((w1.pool.find? (·.hasPendingKey j.key)).isSome) ∨ hintAvailable w1.pool (some worker) = true := by
      rw [hpool]
      split at hc
      · rename_i hh
        simp only [Prod.mk.injEq] at hc
        rw [← hc.1]; exact Or.inl hh
      · split at hc
        · rename_i p hfind
          exact Or.inr (Or.inl (by rw [hfind]; rfl))
        · split at hc
          · rename_i hh
            simp only [Prod.mk.injEq] at hc
            rw [← hc.1]; exact Or.inr (Or.inr hh)
          · simp only [Prod.mk.injEq] at hc
            exact Or.inr (Or.inr (popAvail_some _ _ _ _ hc.1))
    by_cases h1 : hintPending w1.pool (some worker) j.key = true
    · simp only [h1, if_true]
      refine ⟨worker, rfl, ?_⟩
      unfold hintPending at h1
      simp only at h1
      cases hg : getW w1.pool worker with
      | none => rw [hg] at h1; cases h1
      | some p => exact List.any_eq_true.mpr ⟨p, getW_mem hg, by simp [getW_wid hg]⟩
    · simp only [h1, Bool.false_eq_true, if_false]
      cases hfind : w1.pool.find? (·.hasPendingKey j.key) with
      | some p => exact ⟨p.wid, rfl, find_hasW hfind⟩
      | none =>
        simp only
        rcases ha with ha | ha | ha
        · exact absurd ha h1
        · rw [hfind] at ha; cases ha
        · simp only [ha, if_true]
          exact ⟨worker, rfl, availP_hasW ha⟩
  | rr =>
    simp only [hr] at hc ⊢
    rw [hps]
    split at hc
    · simp at hc
    · rename_i hz
      simp only [hz, Bool.false_eq_true, if_false]
      have ha : (hintAvailable w1.pool (some worker) || hintLast w1.pool w1.last (some worker)) = true ∧ hasW w1.pool worker = true := by
        split at hc
        · rename_i hh
          simp only [Prod.mk.injEq] at hc
          obtain ⟨h1, h2⟩ := hc
          subst h2
          subst h1
          refine ⟨hh, ?_⟩
          rcases (Bool.or_eq_true _ _).mp hh with h3 | h3
          · exact availP_hasW h3
          · simp only [hintLast, Bool.and_eq_true] at h3; exact h3.1
        · simp only [Prod.mk.injEq] at hc
          obtain ⟨h1, h2⟩ := hc
          split at h1
          · rename_i hw
            simp only [Option.some.injEq] at h1
            subst h2
            simp only
            rw [← h1]
            refine ⟨?_, hw⟩
            simp only [hintLast, hw, beq_self_eq_true, Bool.and_self, Bool.or_true]
          · cases h1
      simp only [ha.1, if_true]
      exact ⟨worker, rfl, ha.2⟩
  | cu =>
    simp only [hr] at hc ⊢
    rw [hps, hpool]
    split at hc
    · simp at hc
    · rename_i hz
      simp only [hz, Bool.false_eq_true, if_false]
      simp only [Prod.mk.injEq] at hc
      obtain ⟨h1, _⟩ := hc
      split at h1
      · rename_i hw
        simp only [Option.some.injEq] at h1
        simp only [hw, if_true]
        exact ⟨_, rfl, hw⟩
      · cases h1

/-- … so the inner router hands the job over -/
theorem routeInner_after_choice (w : W) (j : Job) (hint : Option Nat) (worker : Nat) (w1 : W)
    (hc : w.chooseTargetWorker j hint = (some worker, w1)) (q : List Job) (r : Option (LeakyBucket.Cfg × LeakyBucket.LB)) :
    (W.routeInner { w1 with queue := q, rl := r } j (some worker)).1 = .handled := by
  obtain ⟨x, hx, hw⟩ := second_choice w j hint worker w1 hc q r
  have hf := chooseTargetWorker_frame ({ w1 with queue := q, rl := r } : W) j (some worker)
  unfold W.routeInner
  cases hc2 : W.chooseTargetWorker { w1 with queue := q, rl := r } j (some worker) with
  | mk t w2 =>
    rw [hc2] at hx hf
    simp only at hx hf ⊢
    subst hx
    simp only
    obtain ⟨p, hg⟩ := hasW_getW (pool := w2.pool) (wid := x) (by rw [hf.pool]; exact hw)
    rw [hg]

theorem routeLimited_after_choice (w : W) (j : Job) (hint : Option Nat) (worker : Nat) (w1 : W)
    (hc : w.chooseTargetWorker j hint = (some worker, w1)) (q : List Job) :
    (W.routeLimited { w1 with queue := q } j (some worker)).1 ≠ .backlog := by
  unfold W.routeLimited
  split
  · have h := routeInner_after_choice w j hint worker w1 hc q w1.rl
    have h' : (W.routeInner { w1 with queue := q } j (some worker)).1 = .handled := h
    rw [h']; exact fun h => by cases h
  · rename_i c lb hrl
    simp only
    split
    · exact fun h => by cases h
    · have h := routeInner_after_choice w j hint worker w1 hc q (some (c, (LeakyBucket.check c lb w1.env.now).1))
      have h' : (W.routeInner { ({ w1 with queue := q } : W) with rl := some (c, (LeakyBucket.check c lb ({ w1 with queue := q } : W).env.now).1) } j (some worker)).1 = .handled := h
      cases hri : W.routeInner { ({ w1 with queue := q } : W) with rl := some (c, (LeakyBucket.check c lb ({ w1 with queue := q } : W).env.now).1) } j (some worker) with
      | mk r w2 =>
        rw [hri] at h'
        simp only at h' ⊢
        subst h'
        simp only [beq_self_eq_true, if_true]
        exact fun h => by cases h

theorem routeMessage_after_choice (w : W) (j : Job) (hint : Option Nat) (worker : Nat) (w1 : W)
    (hc : w.chooseTargetWorker j hint = (some worker, w1)) (q : List Job) :
    (W.routeMessage { w1 with queue := q } j (some worker)).1 ≠ .backlog := by
  unfold W.routeMessage
  have h := routeLimited_after_choice w j hint worker w1 hc q
  cases hrl : W.routeLimited { w1 with queue := q } j (some worker) with
  | mk r w2 => rw [hrl] at h; exact h

theorem calm_routeLoop (hint : Option Nat) (fuel : Nat) (w : W) : Calm w (W.routeLoop hint fuel w) := by
  induction fuel generalizing w with
  | zero => exact Calm.refl w
  | succ fuel ih =>
    unfold W.routeLoop
    split
    · exact Calm.refl w
    · rename_i j hpk
      have hs := calm_choose w j hint
      cases hc : w.chooseTargetWorker j hint with
      | mk t w1 =>
        rw [hc] at hs
        simp only at hs ⊢
        cases t with
        | none => exact hs
        | some worker =>
          simp only
          cases hp : qPopFront w1.cfg w1.queue with
          | none => exact hs
          | some jq =>
            obtain ⟨j', q⟩ := jq
            simp only
            have h1 : Calm w { w1 with queue := q } := hs.trans ⟨rfl, rfl, fun h => h⟩
            have hr := calm_routeMessage { w1 with queue := q } j' (some worker)
            cases hrm : W.routeMessage { w1 with queue := q } j' (some worker) with
            | mk r w2 =>
              rw [hrm] at hr
              cases r with
              | handled => exact h1.trans hr
              | rateLimited =>
                simp only
                refine (h1.trans hr).trans (Calm.trans ?_ (ih _))
                exact Calm.of_env ((calmE_discard w2.env _ j').trans (calmE_reject _ j')) rfl rfl
              | backlog =>
                -- unreachable: the router was asked a moment ago and named `worker`
                exfalso
                have hfr := chooseTargetWorker_frame w j hint
                rw [hc] at hfr
                simp only at hfr
                have hpk' : qPeek w.cfg w.queue = some j' := by
                  rw [← hfr.cfg, ← hfr.queue]; exact popByPrio_peek hp
                rw [hpk] at hpk'
                simp only [Option.some.injEq] at hpk'
                subst hpk'
                have := routeMessage_after_choice w j hint worker w1 hc q
                rw [hrm] at this
                exact this rfl

theorem calm_tryRoute (w : W) (hint : Option Nat) : Calm w (w.tryRouteNextActiveJob hint) := by
  unfold W.tryRouteNextActiveJob
  exact (calm_dropExpiredHead _ w).trans (calm_routeLoop _ _ _)

theorem calm_shedQueueOldest (limit fuel : Nat) (w : W) : Calm w (W.shedQueueOldest limit fuel w) := by
  induction fuel generalizing w with
  | zero => exact Calm.refl w
  | succ fuel ih =>
    unfold W.shedQueueOldest
    split
    · split
      · rename_i j q _
        refine Calm.trans ?_ (ih _)
        exact Calm.of_env (calmE_discard w.env _ j) rfl rfl
      · exact ih w
    · exact Calm.refl w

theorem calm_maybeEnqueue (w : W) (j : Job) : Calm w (w.maybeEnqueue j) := by
  unfold W.maybeEnqueue
  split
  · split
    · exact Calm.of_env ((calmE_discard w.env _ j).trans (calmE_reject _ j)) rfl rfl
    · exact Calm.of_env (calmE_accept w.env j) rfl rfl
  · dsimp only
    refine Calm.trans ?_ (calm_shedQueueOldest _ _ _)
    exact Calm.of_env (calmE_accept w.env j) rfl rfl
  · exact Calm.of_env (calmE_accept w.env j) rfl rfl

theorem calm_growOne (w : W) (wid : Nat) : Calm w (w.growOne wid) := by
  unfold W.growOne
  split
  · dsimp only
    split
    · apply Calm.trans _ (calm_availChange _ _ _)
      exact ⟨rfl, rfl, fun h => h⟩
    · exact ⟨rfl, rfl, fun h => h⟩
  · dsimp only
    apply Calm.trans _ (calm_availChange _ _ _)
    exact Calm.of_env (calmE_spawn w.env _ _) rfl rfl

theorem calm_foldl {f : W → Nat → W} (hf : ∀ w k, Calm w (f w k)) (l : List Nat) (w : W) : Calm w (l.foldl f w) := by
  induction l generalizing w with
  | nil => exact Calm.refl w
  | cons a l ih => exact (hf w a).trans (ih _)

theorem calm_growPool (w : W) (n : Nat) : Calm w (w.growPool n) := by
  unfold W.growPool; exact calm_foldl (fun w k => calm_growOne w _) _ w

theorem calm_shrinkOne (w : W) (wid : Nat) : Calm w (w.shrinkOne wid) := by
  unfold W.shrinkOne
  split
  · rename_i p _
    split
    · exact ⟨rfl, rfl, fun h => h⟩
    · refine (calm_availChange w wid false).trans ?_
      exact Calm.of_env (calmE_stop _ p.actor) rfl rfl
  · exact Calm.refl w

theorem calm_shrinkPool (w : W) (n : Nat) : Calm w (w.shrinkPool n) := by
  unfold W.shrinkPool; exact calm_foldl (fun w k => calm_shrinkOne w _) _ w

theorem calm_flushAfterGrow (fuel : Nat) (w : W) : Calm w (W.flushAfterGrow fuel w) := by
  induction fuel generalizing w with
  | zero => exact Calm.refl w
  | succ fuel ih =>
    unfold W.flushAfterGrow
    simp only
    split
    · exact Calm.refl w
    · split
      · exact calm_tryRoute w none
      · exact (calm_tryRoute w none).trans (ih _)

theorem calm_resizePool (w : W) (n : Nat) : Calm w (w.resizePool n) := by
  unfold W.resizePool
  split
  · exact Calm.refl w
  · simp only
    split
    · apply Calm.trans _ (calm_flushAfterGrow _ _)
      exact (calm_growPool w _).trans ⟨rfl, rfl, fun h => h⟩
    · split
      · exact (calm_shrinkPool w _).trans ⟨rfl, rfl, fun h => h⟩
      · exact ⟨rfl, rfl, fun h => h⟩

theorem calm_dispatch (w : W) (j : Job) : Calm w (w.dispatch j) := by
  unfold W.dispatch
  split
  · exact Calm.of_env ((calmE_discard w.env _ j).trans (calmE_reject _ j)) rfl rfl
  · split
    · have hr := calm_routeMessage w j none
      cases hrm : w.routeMessage j none with
      | mk r w2 =>
        rw [hrm] at hr
        cases r with
        | handled => exact hr
        | rateLimited =>
          exact hr.trans (Calm.of_env ((calmE_discard w2.env _ j).trans (calmE_reject _ j)) rfl rfl)
        | backlog => exact hr.trans (calm_maybeEnqueue w2 j)
    · exact Calm.of_env ((calmE_discard w.env _ j).trans (calmE_reject _ j)) rfl rfl

theorem calm_ite (c : Prop) [Decidable c] (w a b : W) (ha : Calm w a) (hb : Calm w b) : Calm w (if c then a else b) := by
  split <;> assumption

theorem calm_workerFinishedJob (w : W) (who key : Nat) : Calm w (w.workerFinishedJob who key) := by
  unfold W.workerFinishedJob
  split
  · rename_i p _
    have hq := calmE_workerComplete p w.env key
    cases hwc : p.workerComplete w.env key with
    | mk p' e' =>
      rw [hwc] at hq
      simp only at hq ⊢
      have h1 : Calm w { w with pool := setW w.pool who p', env := e' } := Calm.of_env hq rfl rfl
      split
      · split
        · exact h1.trans (Calm.of_env (calmE_stop e' p'.actor) rfl rfl)
        · exact h1
      · apply calm_ite
        · exact (h1.trans (calm_tryRoute _ _)).trans (calm_availChange _ _ _)
        · exact h1.trans (calm_tryRoute _ _)
  · exact calm_tryRoute w _

theorem calmE_foldl_discard (h : Option Nat) (r : Reason) (l : List Job) (e : Env) : CalmE e (l.foldl (fun e j => e.discard h r j) e) := by
  induction l generalizing e with
  | nil => rfl
  | cons j l ih => rw [List.foldl_cons]; exact (calmE_discard e r j).trans (ih _)

theorem calm_removeExpired (w : W) : Calm w w.removeExpired := by
  unfold W.removeExpired
  split
  · exact Calm.of_env (calmE_foldl_discard _ _ _ _) rfl rfl
  · exact Calm.refl w

theorem calm_calcRest (w : W) : Calm w w.calcRest := by
  unfold W.calcRest
  exact (calm_removeExpired w).trans ⟨rfl, rfl, fun h => h⟩

theorem calm_updateSettings (w : W) (d : Option (Option (Nat × Mode))) (n : Option Nat) : Calm w (w.updateSettings d n) := by
  unfold W.updateSettings
  have h1 : Calm w (match d with
      | some d => { w with pool := w.pool.map (fun p => { p with disc := w.workerDiscard d }), disc := d }
      | none => w) := by
    cases d with
    | none => exact Calm.refl w
    | some d => exact ⟨rfl, rfl, fun h => h⟩
  cases n with
  | none => exact h1
  | some n => exact h1.trans (calm_resizePool _ n)

theorem calm_afterReplace (w : W) (wid : Nat) : Calm w (w.afterReplace wid) := by
  unfold W.afterReplace
  cases hret : w.retireIdleDrainingWorker wid with
  | some w2 =>
    simp only
    unfold W.retireIdleDrainingWorker at hret
    split at hret
    · rename_i p _
      split at hret
      · simp only [Option.some.injEq] at hret; subst hret
        exact Calm.of_env (calmE_stop w.env p.actor) rfl rfl
      · simp at hret
    · simp at hret
  | none =>
    simp only
    apply calm_ite
    · exact (calm_tryRoute _ _).trans (calm_availChange _ _ _)
    · exact calm_tryRoute _ _

theorem calm_handleSupervisorEvt (w : W) (who : Nat) : Calm w (w.handleSupervisorEvt who) := by
  unfold W.handleSupervisorEvt
  split
  · exact Calm.refl w
  · rename_i wid _
    split
    · exact Calm.refl w
    · rename_i p _
      simp only
      have hq := calmE_replaceWorker p (w.env.spawn wid w.nextAid) w.nextAid
      cases hrw : p.replaceWorker (w.env.spawn wid w.nextAid) w.nextAid with
      | mk p' e' =>
        rw [hrw] at hq
        simp only at hq ⊢
        refine Calm.trans ?_ (calm_afterReplace _ wid)
        exact Calm.of_env ((calmE_spawn w.env wid w.nextAid).trans hq) rfl rfl

theorem calmE_foldl (f : Env → Job → Env) (hf : ∀ e j, CalmE e (f e j)) (l : List Job) (e : Env) : CalmE e (l.foldl f e) := by
  induction l generalizing e with
  | nil => rfl
  | cons j l ih => rw [List.foldl_cons]; exact (hf e j).trans (ih _)

theorem calmE_dropQueued (h : Option Nat) (e : Env) (j : Job) : CalmE e (Env.dropQueued h e j) := by
  unfold Env.dropQueued; split
  · exact calmE_discard e _ j
  · exact calmE_emit e _ rfl

theorem calmE_dropWorkerQueue (e : Env) (p : WP) : CalmE e (e.dropWorkerQueue p) := by
  unfold Env.dropWorkerQueue
  exact calmE_foldl _ (fun e j => calmE_emit e _ rfl) _ e

theorem calmE_foldlW (f : Env → WP → Env) (hf : ∀ e p, CalmE e (f e p)) (l : List WP) (e : Env) : CalmE e (l.foldl f e) := by
  induction l generalizing e with
  | nil => rfl
  | cons p l ih => rw [List.foldl_cons]; exact (hf e p).trans (ih _)

/-- `post_stop` up to the wait: no hook yet, and the factory is now stopping -/
theorem postStop_panics (w : W) :
    panicsOf w.postStop.env.log = panicsOf w.env.log ∧ w.postStop.exited = w.exited ∧ w.postStop.stopped = true := by
  unfold W.postStop
  simp only
  refine ⟨?_, trivial, trivial⟩
  have h1 := calmE_foldl (Env.dropQueued w.handler) (calmE_dropQueued w.handler) w.queue w.env
  have h2 := calmE_foldlW Env.dropWorkerQueue calmE_dropWorkerQueue w.pool (w.queue.foldl (Env.dropQueued w.handler) w.env)
  have h3 := calmE_foldlW (fun e p => e.stop p.actor) (fun e p => calmE_stop e p.actor) w.pool
    (w.pool.foldl Env.dropWorkerQueue (w.queue.foldl (Env.dropQueued w.handler) w.env))
  exact (h1.trans (h2.trans h3))

theorem calmE_dropMsg (e : Env) (m : FMsg) : CalmE e (e.dropMsg m) := by
  cases m with
  | dispatch j =>
    show CalmE e (if j.port then (e.emit (.dropped j.id)).emit (.portClosed j.id) else e.emit (.dropped j.id))
    split
    · exact (calmE_emit e _ rfl).trans (calmE_emit _ _ rfl)
    · exact calmE_emit e _ rfl
  | _ => exact CalmE.refl e

theorem calmE_foldlM (l : List FMsg) (e : Env) : CalmE e (l.foldl Env.dropMsg e) := by
  induction l generalizing e with
  | nil => rfl
  | cons m l ih => rw [List.foldl_cons]; exact (calmE_dropMsg e m).trans (ih _)

theorem isDrained_calm (w : W) : Calm w w.isDrained.2 := by
  unfold W.isDrained
  split
  · exact Calm.refl w
  · exact Calm.refl w
  · split
    · exact ⟨rfl, rfl, fun h => h⟩
    · exact Calm.refl w


theorem calm_afterHandle (w : W) : Calm w w.afterHandle := by
  unfold W.afterHandle
  split
  · exact Calm.refl w
  · have hs := isDrained_calm w
    cases hd : w.isDrained with
    | mk d w2 =>
      rw [hd] at hs
      simp only at hs ⊢
      split
      · exact hs.trans ⟨rfl, rfl, fun h => h⟩
      · exact hs


theorem calm_send (w : W) (m : FMsg) : Calm w (w.send m) := by
  unfold W.send; split
  · exact Calm.refl w
  · exact ⟨rfl, rfl, fun h => h⟩


theorem calm_finish (w : W) (aid : Nat) (ok : Bool) : Calm w (w.finish aid ok) := by
  unfold W.finish
  cases ha : w.env.getActor aid with
  | none => exact Calm.refl w
  | some a =>
    simp only
    cases hr : a.running with
    | none => exact Calm.refl w
    | some j =>
      simp only
      split
      · exact Calm.refl w
      · split
        · exact Calm.of_env ((calmE_emit w.env _ rfl).trans (calmE_die _ aid)) rfl rfl
        · have h1 : Calm w { w with env := (w.env.emit (.finishOk aid)).emit (.handled aid j.id) } :=
            Calm.of_env ((calmE_emit w.env _ rfl).trans (calmE_emit _ _ rfl)) rfl rfl
          have h2 := calm_send { w with env := (w.env.emit (.finishOk aid)).emit (.handled aid j.id) } (.finished a.wid j.key)
          refine (h1.trans h2).trans ?_
          exact Calm.of_env ((calmE_setActor _ _).trans (calmE_settleOne _ aid)) rfl rfl


theorem calm_emit (w : W) (ev : Ev) (h : isPanic ev = false) : Calm w (w.emit ev) :=
  Calm.of_env (calmE_emit w.env ev h) rfl rfl


theorem calm_applyOp (w : W) (op : Op) : Calm w (w.applyOp op) := by
  cases op with
  | dispatch id key hash ttl acc =>
    simp only [W.applyOp]
    split
    · exact Calm.refl w
    · exact (calm_emit w _ rfl).trans (calm_send _ _)
  | finish aid ok => exact calm_finish w aid ok
  | kill aid => exact Calm.of_env ((calmE_emit w.env _ rfl).trans (calmE_die _ aid)) rfl rfl
  | resize n => exact (calm_emit w _ rfl).trans (calm_send _ _)
  | settings d n =>
    simp only [W.applyOp]
    refine Calm.trans ?_ (calm_send _ _)
    cases d with
    | none => cases n with
      | none => exact Calm.refl w
      | some n => exact calm_emit w _ rfl
    | some d => cases n with
      | none => exact calm_emit w _ rfl
      | some n => exact (calm_emit w _ rfl).trans (calm_emit _ _ rfl)
  | drain => exact (calm_emit w _ rfl).trans (calm_send _ _)
  | setHandler hd => exact (calm_emit w _ rfl).trans (calm_send _ _)
  | advance => exact Calm.refl w
  | block => exact ⟨rfl, rfl, fun h => h⟩
  | release n =>
    simp only [W.applyOp]
    split
    · refine Calm.trans ?_ (calm_afterHandle _)
      refine Calm.trans ?_ (calm_calcRest _)
      have h0 : Calm w { w.emit (.released n) with blocked := false } :=
        (calm_emit w _ rfl).trans ⟨rfl, rfl, fun h => h⟩
      split
      · exact h0.trans (calm_resizePool _ _)
      · exact h0
    · exact Calm.refl w
  | nop => exact Calm.refl w




/-! ### every step of a run is calm -/

/-- the relation that is carried along a run: no new `panicked` event -/
def NoNew (w w' : W) : Prop := panicsOf w'.env.log = panicsOf w.env.log

theorem NoNew.refl (w : W) : NoNew w w := rfl
theorem NoNew.trans {a b c : W} (h1 : NoNew a b) (h2 : NoNew b c) : NoNew a c := Eq.trans h2 h1
theorem Calm.noNew {w w' : W} (h : Calm w w') : NoNew w w' := h.panics
theorem NoNew.of_env {w w' : W} (h : CalmE w.env w'.env) : NoNew w w' := h

theorem noNew_handleMsg (w : W) (m : FMsg) : NoNew w (w.handleMsg m) := by
  cases m with
  | dispatch j => exact (calm_dispatch w j).noNew
  | finished who key => exact (calm_workerFinishedJob w who key).noNew
  | adjust n => exact (calm_resizePool w n).noNew
  | updateSettings d n => exact (calm_updateSettings w d n).noNew
  | setHandler hd => exact NoNew.of_env (calmE_emit w.env _ rfl)
  | drainRequests => exact NoNew.of_env (calmE_emit w.env _ rfl)
  | calculate =>
    show NoNew w (if w.cfg.hasCC && w.armed then { w with armed := false, blocked := true } else w.calcRest)
    split
    · exact NoNew.refl w
    · exact (calm_calcRest w).noNew
  | getQueueDepth => exact NoNew.refl w
  | getNumActiveWorkers => exact NoNew.refl w
  | getAvailableCapacity => exact NoNew.refl w

theorem noNew_tryFinishStop (w : W) : NoNew w w.tryFinishStop := by
  unfold W.tryFinishStop
  split
  · have hq := calmE_foldlM w.inbox (w.env.emit (.hook .stopped))
    have hk := calmE_killAll (w.inbox.foldl Env.dropMsg (w.env.emit (.hook .stopped)))
    exact ((calmE_emit w.env (.hook .stopped) rfl).trans hq).trans hk
  · exact NoNew.refl w

theorem noNew_loopStep (w w' : W) (hl : w.loopStep = some w') : NoNew w w' := by
  unfold W.loopStep at hl
  split at hl
  · simp at hl
  · split at hl
    · simp only [Option.some.injEq] at hl; subst hl; exact (postStop_panics w).1
    · split at hl
      · rename_i who rest _
        simp only [Option.some.injEq] at hl; subst hl
        exact (calm_handleSupervisorEvt ({ w with env := { w.env with sup := rest } } : W) who).noNew
      · split at hl
        · rename_i m rest _
          simp only [Option.some.injEq] at hl; subst hl
          exact NoNew.trans (noNew_handleMsg ({ w with inbox := rest } : W) m) (calm_afterHandle _).noNew
        · simp at hl

theorem noNew_runQ (fuel : Nat) (w : W) : NoNew w (W.runQ fuel w) := by
  induction fuel generalizing w with
  | zero => exact NoNew.refl w
  | succ fuel ih =>
    unfold W.runQ
    cases hl : w.loopStep with
    | some w' => simp only; exact (noNew_loopStep w w' hl).trans (ih _)
    | none =>
      simp only
      have hs : NoNew w (W.tryFinishStop { w with env := w.env.settle }) :=
        NoNew.trans (NoNew.of_env (w' := { w with env := w.env.settle }) (calmE_settle w.env)) (noNew_tryFinishStop _)
      split
      · exact hs
      · exact hs.trans (ih _)

theorem noNew_advanceTo (t fuel : Nat) (w : W) : NoNew w (W.advanceTo t fuel w) := by
  induction fuel generalizing w with
  | zero => exact NoNew.refl w
  | succ fuel ih =>
    unfold W.advanceTo
    split
    · simp only
      refine NoNew.trans ?_ (ih _)
      refine NoNew.trans ?_ (noNew_runQ _ _)
      exact (calm_send { w.setNow w.nextCalc with nextCalc := t + CALCULATE_FREQUENCY * 1000000 } .calculate).noNew
    · exact NoNew.refl w

theorem noNew_ask (w : W) (m : FMsg) : NoNew w (w.ask m) := by
  unfold W.ask
  split
  · exact NoNew.refl w
  · simp only
    have h1 : NoNew w (W.runQ RUN_FUEL (w.send m)) := (calm_send w m).noNew.trans (noNew_runQ _ _)
    split
    · exact h1
    · exact h1

theorem noNew_queries (w : W) : NoNew w w.queries := by
  unfold W.queries
  split
  · exact NoNew.refl w
  · exact ((noNew_ask { w with answers := [] } _).trans (noNew_ask _ _)).trans (noNew_ask _ _)

theorem noNew_stepOp (w : W) (op : Op) (t0 tq te : Nat) : NoNew w (w.stepOp op t0 tq te) := by
  unfold W.stepOp
  simp only
  generalize hw1 : W.advanceTo t0 (advanceFuel w t0) w = w1
  have h1 : NoNew w w1 := by rw [← hw1]; exact noNew_advanceTo _ _ _
  generalize hw2 : W.runQ RUN_FUEL (w1.applyOp op) = w2
  have h2 : NoNew w w2 := by rw [← hw2]; exact h1.trans ((calm_applyOp w1 op).noNew.trans (noNew_runQ _ _))
  generalize hw3 : W.advanceTo tq (advanceFuel w2 tq) w2 = w3
  have h3 : NoNew w w3 := by rw [← hw3]; exact h2.trans (noNew_advanceTo _ _ _)
  generalize hw4 : w3.queries = w4
  have h4 : NoNew w w4 := by rw [← hw4]; exact h3.trans (noNew_queries _)
  generalize hw5 : W.advanceTo te (advanceFuel w4 te) w4 = w5
  have h5 : NoNew w w5 := by rw [← hw5]; exact h4.trans (noNew_advanceTo _ _ _)
  exact h5.trans (NoNew.of_env (w := w5) (calmE_emit w5.env _ rfl))

theorem noNew_runSteps (w : W) (steps : List Step) : NoNew w (w.runSteps steps) := by
  induction steps generalizing w with
  | nil => exact NoNew.refl w
  | cons s rest ih => exact (noNew_stepOp w s.op s.t0 s.tq s.te).trans (ih _)

theorem panicsOf_init (c : CaseCfg) : panicsOf (init c).env.log = [] := by
  unfold init
  simp only
  have hq := calm_growPool
    ({ cfg := c.cfg, poolSize := 0, pool := [], byActor := [], avail := [], inQ := [], last := 0,
       rl := c.rl.map fun (r : Nat × Nat × Nat × Nat) =>
          let lc : LeakyBucket.Cfg := ⟨r.1, r.2.1, r.2.2.1, 10 ^ 40⟩
          (lc, LeakyBucket.new lc (some r.2.2.2) 0),
       queue := [], disc := c.disc, drain := .notDraining,
       handler := if c.cfg.hasHandler then some 0 else none,
       env := { actors := [], log := [], now := 0, sup := [] },
       nextAid := 0, stopSignal := false, stopped := false, inbox := [], blocked := false, armed := false,
       nextCalc := CALCULATE_FREQUENCY, answers := [], lastWq := none } : W) c.n
  simp only [W.emit, Env.emit, panicsOf_append]
  rw [hq.panics]
  simp [panicsOf]

theorem panicsOf_nil_iff (log : List Ev) : panicsOf log = [] ↔ Ev.panicked ∉ log := by
  induction log with
  | nil => simp [panicsOf]
  | cons ev rest ih =>
    have : panicsOf (ev :: rest) = panicsOf [ev] ++ panicsOf rest := panicsOf_append [ev] rest
    rw [this]
    cases ev <;> simp_all [panicsOf]

/-- no history of the factory reaches the `panic!` of `try_route_next_active_job` -/
theorem never_panics_run (c : CaseCfg) (steps : List Step) : Ev.panicked ∉ ((init c).runSteps steps).env.log := by
  rw [← panicsOf_nil_iff]
  have := noNew_runSteps (init c) steps
  unfold NoNew at this
  rw [this]; exact panicsOf_init c

end Factory
