import RactorModel.Lemmas.LifeLive

/-! The graceful path goes through `post_stop` (wave 2): an actor that is alive, has no kill pending and is not
yet inside `post_stop` can only end (`phase = done`) after `enter post_stop` — unless the trace shows a kill, a
failure or an abort (`isInterv`). -/

namespace Life.Liveness
open Life

/-- Evidence that something other than the graceful path ended the actor: an accepted kill (API, self,
`terminate()`), a callback that failed or was cancelled, an aborted task / dropped spawn future, a failed start. -/
def isInterv : Ev → Bool
  | .exit _ (.err _) | .exit _ (.panic _) => true
  | .cancelled _ => true
  | .killRet _ true => true
  | .treeKill => true
  | .aborted | .dropped => true
  | .spawnRet r => decide (r ≠ .ok)
  | _ => false

def isEnterPS : Ev → Bool
  | .enter .postStop _ => true
  | _ => false

def Ix (o : List Out) : Prop := ∃ e ∈ evs o, isInterv e = true
def Px (o : List Out) : Prop := ∃ e ∈ evs o, isEnterPS e = true

theorem Ix.left {o1 : List Out} (o2 : List Out) (h : Ix o1) : Ix (o1 ++ o2) := by
  obtain ⟨e, he, hi⟩ := h; exact ⟨e, by simp [he], hi⟩
theorem Ix.right (o1 : List Out) {o2 : List Out} (h : Ix o2) : Ix (o1 ++ o2) := by
  obtain ⟨e, he, hi⟩ := h; exact ⟨e, by simp [he], hi⟩
theorem Px.right (o1 : List Out) {o2 : List Out} (h : Px o2) : Px (o1 ++ o2) := by
  obtain ⟨e, he, hi⟩ := h; exact ⟨e, by simp [he], hi⟩

/-- What one computation `m` (started with kill-pending flag `sv`, failure flag `fl`) guarantees. -/
structure Gr (sv : Bool) (fl : Prop) (m : M) : Prop where
  sig : m.1.sigVal = true → sv = true ∨ Ix m.2
  done : m.1.phase = .done → sv = true ∨ fl ∨ Ix m.2
  ps : (∃ r, m.1.phase = .postStop r) → Px m.2

theorem runFx_ev (a : Actor) (f : Fx) (h : (runFx a f).1.sigVal = true) : a.sigVal = true ∨ Ix (runFx a f).2 := by
  cases f with
  | killSelf =>
    simp only [runFx, apiKill] at h ⊢
    (repeat' split) <;> simp_all [Ix, isInterv]
  | _ =>
    left
    simp only [runFx, apiSend, apiStop] at h
    (repeat' split at h) <;> simpa using h

theorem runFxs_ev (fs : List Fx) (a : Actor) (h : (runFxs a fs).1.sigVal = true) :
    a.sigVal = true ∨ Ix (runFxs a fs).2 := by
  induction fs generalizing a with
  | nil => exact Or.inl h
  | cons f fs ih =>
    simp only [runFxs, andThen_fst, andThen_snd] at h ⊢
    rcases ih _ h with h1 | h1
    · rcases runFx_ev a f h1 with h2 | h2
      · exact Or.inl h2
      · exact Or.inr (h2.left _)
    · exact Or.inr (Ix.right _ h1)

theorem runSeg_evs (a : Actor) (cb : Cb) (s : Seg) (k : Actor → Res → M) :
    evs (runSeg a cb s k).2 = .tick cb :: evs (runFxs a s.fx).2 ++
      (if s.term = .tick then [] else .exit cb s.term.res :: evs (k (runFxs a s.fx).1 s.term.res).2) := by
  simp only [runSeg, say, andThen_fst, andThen_snd]
  cases s.term <;> simp

theorem exit_interv (cb : Cb) (t : Term) (ht : t ≠ .tick) (hr : t.res ≠ .ok) : isInterv (.exit cb t.res) = true := by
  cases t <;> simp_all [Term.res, isInterv]

/-- a segment runs inside an open callback of a phase that is neither done nor `post_stop` -/
theorem runSeg_gr (a : Actor) (cb : Cb) (s : Seg) (k : Actor → Res → M)
    (hnd : a.phase ≠ .done) (hnp : ∀ r, a.phase ≠ .postStop r)
    (hk : ∀ b r, b.phase = a.phase → Gr b.sigVal (r ≠ .ok) (k b r)) :
    Gr a.sigVal False (runSeg a cb s k) := by
  have hph := (runFxs_keep s.fx a).phase
  have ev := runSeg_evs a cb s k
  have fst := runSeg_fst a cb s k
  have ixfx : Ix (runFxs a s.fx).2 → Ix (runSeg a cb s k).2 := by
    rintro ⟨e, he, hi⟩
    exact ⟨e, by rw [ev]; simp [he], hi⟩
  by_cases ht : s.term = .tick
  · simp only [ht, ite_true] at fst ev
    refine ⟨fun h => ?_, fun h => ?_, fun h => ?_⟩
    · rw [fst] at h
      rcases runFxs_ev s.fx a h with h1 | h1
      · exact Or.inl h1
      · exact Or.inr (ixfx h1)
    · rw [fst] at h; exact absurd (hph ▸ h) hnd
    · obtain ⟨r, hr⟩ := h; rw [fst] at hr; exact absurd (hph ▸ hr) (hnp r)
  · simp only [ht, ite_false] at fst ev
    have g := hk (runFxs a s.fx).1 s.term.res hph
    have ixk : Ix (k (runFxs a s.fx).1 s.term.res).2 → Ix (runSeg a cb s k).2 := by
      rintro ⟨e, he, hi⟩
      exact ⟨e, by rw [ev]; simp [he], hi⟩
    have lift : (runFxs a s.fx).1.sigVal = true → a.sigVal = true ∨ Ix (runSeg a cb s k).2 := by
      intro h
      rcases runFxs_ev s.fx a h with h1 | h1
      · exact Or.inl h1
      · exact Or.inr (ixfx h1)
    refine ⟨fun h => ?_, fun h => ?_, fun h => ?_⟩
    · rw [fst] at h
      rcases g.sig h with h1 | h1
      · exact lift h1
      · exact Or.inr (ixk h1)
    · rw [fst] at h
      rcases g.done h with h1 | h1 | h1
      · rcases lift h1 with h2 | h2
        · exact Or.inl h2
        · exact Or.inr (Or.inr h2)
      · exact Or.inr (Or.inr ⟨.exit cb s.term.res, by rw [ev]; simp, exit_interv cb s.term ht h1⟩)
      · exact Or.inr (Or.inr (ixk h1))
    · obtain ⟨r, hr⟩ := h
      rw [fst] at hr
      obtain ⟨e, he, hi⟩ := g.ps ⟨r, hr⟩
      exact ⟨e, by rw [ev]; simp [he], hi⟩

theorem listen_gr (a : Actor) : Gr a.sigVal False (listen a) := by
  unfold listen
  split
  · rename_i hs
    exact ⟨fun _ => Or.inl hs, fun _ => Or.inl hs, fun ⟨r, hr⟩ => by rw [killedInLoop_phase] at hr; cases hr⟩
  · rename_i hs
    simp only [enterPostStop]
    split
    · exact ⟨fun h => by simp_all [Actor.setStatus], fun h => by simp at h, fun _ => ⟨.enter .postStop .none, by simp, rfl⟩⟩
    · split
      · exact ⟨fun h => by simp_all, fun h => by simp at h, fun ⟨r, hr⟩ => by simp at hr⟩
      · split
        · exact ⟨fun h => by simp_all, fun h => by simp at h, fun ⟨r, hr⟩ => by simp at hr⟩
        · exact ⟨fun h => by simp_all, fun h => by simp at h, fun ⟨r, hr⟩ => by simp at hr⟩
        · exact ⟨fun h => by simp_all [Actor.setStatus], fun h => by simp at h, fun _ => ⟨.enter .postStop .none, by simp, rfl⟩⟩
        · exact ⟨fun h => by simp_all, fun h => by simp at h, fun ⟨r, hr⟩ => by simp at hr⟩

theorem afterExit_gr (a : Actor) (r : Res)
    (hp : a.phase = .postStart ∨ a.phase = .inMsg ∨ a.phase = .inSup) :
    Gr a.sigVal (r ≠ .ok) (afterExit a r) := by
  have fin : ∀ (b : Actor) (e : SupEv), r ≠ .ok → Gr a.sigVal (r ≠ .ok) (finish b e) := fun b e hr =>
    ⟨fun h => by simp [finish, Actor.dropPorts] at h, fun _ => Or.inr (Or.inl hr),
     fun ⟨r', hr'⟩ => by rw [finish_phase] at hr'; cases hr'⟩
  rcases hp with hp | hp | hp <;> cases r <;> simp only [afterExit, hp]
  all_goals first
    | exact fin _ _ (by simp)
    | (have g := listen_gr a
       exact ⟨g.sig, fun h => (g.done h).imp id (fun h' => h'.elim (fun f => f.elim) Or.inr), g.ps⟩)
    | (have g := listen_gr (a.setStatus .running)
       have e : (a.setStatus .running).sigVal = a.sigVal := rfl
       rw [e] at g
       refine ⟨fun h => ?_, fun h => ?_, fun h => ?_⟩
       · rcases g.sig (by simpa using h) with h1 | h1
         · exact Or.inl h1
         · exact Or.inr (by simpa using Ix.right _ h1)
       · rcases g.done (by simpa using h) with h1 | h1 | h1
         · exact Or.inl h1
         · exact absurd h1 id
         · exact Or.inr (Or.inr (by simpa using Ix.right _ h1))
       · exact (by simpa using Px.right _ (g.ps (by simpa using h))))


theorem failSpawn_ix (a : Actor) (r : SpawnRet) (hr : r ≠ .ok) : Ix (failSpawn a r).2 :=
  ⟨.spawnRet r, by simp [failSpawn], by simp [isInterv, hr]⟩

theorem failSpawn_gr (sv : Bool) (fl : Prop) (a : Actor) (r : SpawnRet) (hr : r ≠ .ok) : Gr sv fl (failSpawn a r) :=
  ⟨fun h => by simp [failSpawn, Actor.dropPorts] at h, fun _ => Or.inr (Or.inr (failSpawn_ix a r hr)),
   fun ⟨r', hr'⟩ => by simp [failSpawn, Actor.dropPorts] at hr'⟩

/-- a state with the same kill flag, neither done nor in `post_stop` -/
theorem gr_same (sv : Bool) (fl : Prop) (x : Actor) (o : List Out) (hs : x.sigVal = sv) (hnd : x.phase ≠ .done)
    (hnp : ∀ r, x.phase ≠ .postStop r) : Gr sv fl (x, o) :=
  ⟨fun h => Or.inl (by rw [← hs]; exact h), fun h => absurd h hnd, fun ⟨r, hr⟩ => absurd hr (hnp r)⟩

theorem afterPre_gr (a : Actor) (supOk : Bool) (r : Res) (hp : a.phase = .pre) :
    Gr a.sigVal (r ≠ .ok) (afterPre a supOk r) := by
  unfold afterPre
  split
  · exact failSpawn_gr _ _ _ _ (by simp)
  · exact failSpawn_gr _ _ _ _ (by simp)
  · split
    · split
      · exact failSpawn_gr _ _ _ _ (by simp)
      · exact ⟨fun h => Or.inl (by simpa using h), fun h => by simp at h, fun ⟨r', hr'⟩ => by simp at hr'⟩
    · exact gr_same _ _ _ _ rfl (by simp) (by simp)

theorem gr_killed (fl : Prop) (m : M) (hd : m.1.phase = .done) : Gr true fl m :=
  ⟨fun _ => Or.inl rfl, fun _ => Or.inl rfl, fun ⟨r, hr⟩ => by rw [hd] at hr; cases hr⟩

theorem pollOpen_gr (a : Actor) (cb : Cb) (hp : a.phase = .postStart ∨ a.phase = .inMsg ∨ a.phase = .inSup) :
    Gr a.sigVal False (pollOpen a cb) := by
  have hnd : a.phase ≠ .done := by rcases hp with hp | hp | hp <;> simp [hp]
  have hnp : ∀ r, a.phase ≠ .postStop r := by intro r; rcases hp with hp | hp | hp <;> simp [hp]
  cases hs : a.sigVal with
  | true =>
    apply gr_killed
    unfold pollOpen
    simp only [hs, ite_true, say, andThen_fst]
    split <;> first | exact killedInLoop_phase _ | exact killedOutsideLoop_phase _
  | false =>
    unfold pollOpen
    simp only [hs, Bool.false_eq_true, ite_false]
    have key : ∀ b : Actor, b.phase = a.phase → b.sigVal = false → ∀ s, Gr false False (runSeg b cb s afterExit) := by
      intro b hb hsv s
      have := runSeg_gr b cb s afterExit (by rw [hb]; exact hnd) (fun r => by rw [hb]; exact hnp r)
        (fun b' r hb' => afterExit_gr b' r (by rw [hb', hb]; exact hp))
      rwa [hsv] at this
    split
    · exact gr_same _ _ _ _ rfl hnd hnp
    · exact key _ (by rfl) (by rfl) _

theorem opPoll_gr (a : Actor) (hnd : a.phase ≠ .done) (hnp : ∀ r, a.phase ≠ .postStop r) :
    Gr a.sigVal False (opPoll a) := by
  unfold opPoll
  split
  · simp only []
    split
    · rename_i hs
      have hs' : a.sigVal = true := by simpa using hs
      rw [hs']
      exact gr_killed _ _ (killedOutsideLoop_phase _)
    · exact gr_same _ _ _ _ rfl (by simp) (by simp)
  · exact listen_gr { a with woken := false }
  · rename_i hp; exact pollOpen_gr a _ (Or.inl hp)
  · rename_i hp; exact pollOpen_gr a _ (Or.inr (Or.inl hp))
  · rename_i hp; exact pollOpen_gr a _ (Or.inr (Or.inr hp))
  · rename_i r hp; exact absurd hp (hnp r)
  · exact gr_same _ _ _ _ rfl hnd hnp

theorem beginPre_gr (b : Actor) : Gr b.sigVal False (beginPre b) := by
  unfold beginPre
  split
  · rename_i hs
    rw [hs]
    exact gr_killed _ _ (by simp [handleSignal, failSpawn, Actor.dropPorts])
  · exact gr_same _ _ _ _ rfl (by simp) (by simp)

theorem andThen_doLink_gr (b : Actor) (p : Nat) : Gr b.sigVal False (andThen (doLink b p) beginPre) := by
  have g := beginPre_gr { b with sup := some p }
  have e1 : (andThen (doLink b p) beginPre).1 = (beginPre { b with sup := some p }).1 := by simp
  have e2 : evs (andThen (doLink b p) beginPre).2 = evs (beginPre { b with sup := some p }).2 := by simp
  have ix : Ix (beginPre { b with sup := some p }).2 → Ix (andThen (doLink b p) beginPre).2 :=
    fun ⟨e, he, hi⟩ => ⟨e, by rw [e2]; exact he, hi⟩
  refine ⟨fun h => ?_, fun h => ?_, fun h => ?_⟩
  · rw [e1] at h; exact (g.sig h).imp id ix
  · rw [e1] at h; exact (g.done h).imp id (Or.imp id ix)
  · rw [e1] at h
    obtain ⟨e, he, hi⟩ := g.ps h
    exact ⟨e, by rw [e2]; exact he, hi⟩

theorem startInstant_gr (a : Actor) (supOk : Bool) : Gr a.sigVal False (startInstant a supOk) := by
  unfold startInstant
  split
  · exact failSpawn_gr _ _ _ _ (by simp)
  · simp only []
    split
    · split
      · split
        · exact failSpawn_gr _ _ _ _ (by simp)
        · exact andThen_doLink_gr { a with status := .starting } _
      · exact beginPre_gr { a with status := .starting }
    · exact beginPre_gr { a with status := .starting }

theorem opPollSpawn_gr (a : Actor) (supOk : Bool) (hnd : a.phase ≠ .done) (hnp : ∀ r, a.phase ≠ .postStop r) :
    Gr a.sigVal False (opPollSpawn a supOk) := by
  unfold opPollSpawn
  split
  · exact startInstant_gr a supOk
  · rename_i hp
    split
    · rename_i hs
      rw [hs]
      exact gr_killed _ _ (by simp [say, handleSignal, failSpawn, Actor.dropPorts])
    · rename_i hs
      split
      · exact gr_same _ _ _ _ rfl hnd hnp
      · have key : ∀ b : Actor, b.phase = a.phase → b.sigVal = a.sigVal → ∀ s,
            Gr a.sigVal False (runSeg b .preStart s (fun a r => afterPre a supOk r)) := by
          intro b hb hsv s
          have := runSeg_gr b .preStart s (fun a r => afterPre a supOk r) (by rw [hb]; exact hnd)
            (fun r => by rw [hb]; exact hnp r) (fun b' r hb' => afterPre_gr b' supOk r (by rw [hb', hb]; exact hp))
          rwa [hsv] at this
        exact key _ (by rfl) (by rfl) _
  · exact gr_same _ _ _ _ rfl hnd hnp

theorem envOp_sig (a : Actor) (op : AOp) (h : (a.envOp op).1.sigVal = true) :
    a.sigVal = true ∨ Ix (a.envOp op).2 := by
  cases op with
  | kill =>
    simp only [Actor.envOp, apiKill] at h ⊢
    (repeat' split) <;> simp_all [Ix, isInterv]
  | treeTaken =>
    simp only [Actor.envOp, opTreeTaken, apiKill] at h ⊢
    (repeat' split) <;> simp_all [Ix, isInterv]
  | _ =>
    left
    simp only [Actor.envOp, apiSend, apiStop, apiDrain, apiCall, opSupArrive, opLink, opUnlink, doLink] at h
    (repeat' split at h) <;> simpa using h

theorem envOp_gr (a : Actor) (op : AOp) (hnd : a.phase ≠ .done) (hnp : ∀ r, a.phase ≠ .postStop r) :
    Gr a.sigVal False (a.envOp op) :=
  ⟨envOp_sig a op, fun h => absurd ((envOp_keep a op).1 ▸ h) hnd,
   fun ⟨r, hr⟩ => absurd ((envOp_keep a op).1 ▸ hr) (hnp r)⟩

/-- **One op**, from a state that is neither done nor inside `post_stop`. -/
theorem step_gr (a : Actor) (op : AOp) (hnd : a.phase ≠ .done) (hnp : ∀ r, a.phase ≠ .postStop r) :
    Gr a.sigVal False (a.stepCore op) := by
  cases op with
  | spawn sup name nameFree isLocal supOk =>
    simp only [Actor.stepCore, opSpawn]
    (repeat' split) <;> first
      | exact gr_same _ _ _ _ rfl hnd hnp
      | exact gr_same _ _ _ _ rfl (by simp) (by simp)
  | spawnInstant sup name nameFree isLocal =>
    simp only [Actor.stepCore, opSpawnInstant]
    (repeat' split) <;> first
      | exact gr_same _ _ _ _ rfl hnd hnp
      | exact gr_same _ _ _ _ rfl (by simp) (by simp)
  | pollSpawn supOk => exact opPollSpawn_gr a supOk hnd hnp
  | dropSpawn =>
    simp only [Actor.stepCore, opDropSpawn]
    split
    · exact ⟨fun h => by simp [Actor.dropPorts] at h, fun _ => Or.inr (Or.inr ⟨.dropped, by simp, rfl⟩),
        fun ⟨r, hr⟩ => by simp [Actor.dropPorts] at hr⟩
    · exact ⟨fun h => by simp [Actor.dropPorts] at h, fun _ => Or.inr (Or.inr ⟨.dropped, by simp, rfl⟩),
        fun ⟨r, hr⟩ => by simp [Actor.dropPorts] at hr⟩
    · exact gr_same _ _ _ _ rfl hnd hnp
  | poll =>
    simp only [Actor.stepCore]
    have g := opPoll_gr a hnd hnp
    unfold pollMark
    split
    · exact ⟨fun h => (g.sig h).imp id (Ix.left _), fun h => (g.done h).imp id (Or.imp id (Ix.left _)),
        fun h => by obtain ⟨e, he, hi⟩ := g.ps h; exact ⟨e, by simp [he], hi⟩⟩
    · exact g
  | abort =>
    simp only [Actor.stepCore, opAbort]
    split
    · refine ⟨fun h => by simp [Actor.dropPorts] at h, fun _ => Or.inr (Or.inr ⟨.aborted, ?_, rfl⟩),
        fun ⟨r, hr⟩ => by simp [Actor.dropPorts] at hr⟩
      simp only [andThen_snd, evs_append, List.mem_append]
      left; split <;> simp
    · exact gr_same _ _ _ _ rfl hnd hnp
  | resume s =>
    simp only [Actor.stepCore, opResume]
    (repeat' split) <;> exact gr_same _ _ _ _ rfl hnd hnp
  | _ =>
    simp only [Actor.stepCore]
    split
    · exact gr_same _ _ _ _ rfl hnd hnp
    · exact envOp_gr a _ hnd hnp

/-- **The graceful path goes through `post_stop`.** From any state that is neither done nor inside `post_stop`,
along every run: if the actor is done at the end, then a kill was already pending at the start, or the run's trace
contains `enter post_stop`, or it contains evidence of a kill / failure / abort. -/
theorem grace_run (ops : List AOp) (a : Actor) (hnd : a.phase ≠ .done) (hnp : ∀ r, a.phase ≠ .postStop r)
    (hfin : (a.run ops).1.phase = .done) :
    a.sigVal = true ∨ (∃ e ∈ (a.run ops).2, isEnterPS e = true) ∨ (∃ e ∈ (a.run ops).2, isInterv e = true) := by
  induction ops generalizing a with
  | nil => exact absurd hfin hnd
  | cons op ops ih =>
    have g := step_gr a op hnd hnp
    have sub : ∀ e, e ∈ evs (a.stepCore op).2 → e ∈ (a.run (op :: ops)).2 := by
      intro e he
      simp only [Actor.run, List.mem_append]
      left; rw [step_eq]; simp [he]
    have ix : Ix (a.stepCore op).2 → ∃ e ∈ (a.run (op :: ops)).2, isInterv e = true :=
      fun ⟨e, he, hi⟩ => ⟨e, sub e he, hi⟩
    have e0 : (a.step op).1 = (a.stepCore op).1 := rfl
    by_cases hd : (a.stepCore op).1.phase = .done
    · rcases g.done hd with h1 | h1 | h1
      · exact Or.inl h1
      · exact h1.elim
      · exact Or.inr (Or.inr (ix h1))
    · by_cases hp : ∃ r, (a.stepCore op).1.phase = .postStop r
      · obtain ⟨e, he, hi⟩ := g.ps hp
        exact Or.inr (Or.inl ⟨e, sub e he, hi⟩)
      · have hfin' : ((a.step op).1.run ops).1.phase = .done := hfin
        rcases ih (a.step op).1 (by rw [e0]; exact hd) (by rw [e0]; exact fun r hr => hp ⟨r, hr⟩) hfin' with h1 | h1 | h1
        · rcases g.sig (by rw [← e0]; exact h1) with h2 | h2
          · exact Or.inl h2
          · exact Or.inr (Or.inr (ix h2))
        · obtain ⟨e, he, hi⟩ := h1
          exact Or.inr (Or.inl ⟨e, by simp only [Actor.run, List.mem_append]; exact Or.inr he, hi⟩)
        · obtain ⟨e, he, hi⟩ := h1
          exact Or.inr (Or.inr ⟨e, by simp only [Actor.run, List.mem_append]; exact Or.inr he, hi⟩)


/-! ### `post_stop` is entered at most once (from the C01 automaton) -/

/-- `post_stop` is open or the lifecycle has ended -/
def Late (s : C01.St) : Prop := s.stage = .stopOpen ∨ s.stage = .dead

theorem next_late {s s1 : C01.St} {e : Ev} (h : C01.next s e = .ok s1) :
    (isEnterPS e = true → s1.stage = .stopOpen) ∧ (Late s → Late s1 ∧ isEnterPS e = false) := by
  unfold Late
  cases e <;> simp only [C01.next] at h <;> (repeat' split at h) <;>
    first
      | (cases h; done)
      | (cases h; simp_all [isEnterPS, C01.Stage.isOpen]; done)

theorem accepts_late {tr : List Ev} {s s' : C01.St} (h : accepts C01.next s tr = .ok s') (hl : Late s) :
    ∀ x ∈ tr, isEnterPS x = false := by
  induction tr generalizing s with
  | nil => intro x hx; cases hx
  | cons e es ih =>
    rw [accepts_cons] at h
    cases hn : C01.next s e with
    | error c => simp [hn] at h
    | ok s1 =>
      simp only [hn] at h
      obtain ⟨h1, h2⟩ := (next_late hn).2 hl
      intro x hx
      rcases List.mem_cons.mp hx with rfl | hx
      · exact h2
      · exact ih h h1 x hx

end Life.Liveness
