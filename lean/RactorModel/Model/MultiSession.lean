import RactorModel.Model.Session

/-!
# MultiSession — one node, any number of sessions with the same adversary (C17, round 4)

`Model/Session.lean` is ONE session against a peer. A real node holds many sessions at once —
inbound (`is_server = true`, created by the listener) and outbound (`is_server = false`, created
by `client::connect*` or by the transitive dial) — all of them created by the same two arms of
`NodeServer::handle` (`ConnectionOpened` / `ConnectionOpenedExternal`) with the SAME cookie
(`self.cookie.clone()`, node.rs).  An adversary that talks to several of them can carry what
the node said on one session over to another one.

This file puts the per-session transition `Session.handle` under a scheduler:

* `Op.open`   — a new connection, at any time, in either direction (`Session.init`);
* `Op.input`  — one input for session `k` (a frame from the peer or a local event), with the
  environment answers `Env` of that step, exactly as in `Session.handle`.

The node records `seen`: every digest it has put on the wire so far, on whatever session (the
`digest` field of a `ChallengeReply` it sent as a client, the `digest` of a `ChallengeAck` it
sent as a server).  The adversary is the usual symbolic one for an uninterpreted hash:
a digest it sends is either one it has SEEN (copied from a frame of the node) or one it computed
itself with a cookie of its own (`legal`).  Challenges, names, the order and interleaving of
inputs over all sessions, the number of sessions and every `Env` answer are arbitrary.

Core Lean only.
-/

namespace Multi
open Auth Session

/-- The digest a node puts on the wire with this effect, if any. -/
def sentDigest {D : Type} : Effect D → Option D
  | .send (.auth (.clientChallenge _ d)) => some d
  | .send (.auth (.serverAck d)) => some d
  | _ => none

structure Node (C D : Type) where
  cookie : C
  /-- session `k` = the `k`-th connection opened -/
  sessions : List (Cfg C × SState D)
  /-- every digest this node has sent so far, on any session -/
  seen : List D
  /-- `NodeServerState.authenticated_sessions`: what the `GetSessions` arm lists (node.rs:
  `if state.authenticated_sessions.contains(actor_id) { map.insert(..) }`) -/
  listed : List Nat := []

inductive Op (D : Type) where
  /-- `ConnectionOpened{,External} { is_server }`; a client-side session carries the nonce `connId` -/
  | «open» (isServer : Bool) (thisName thisConn : String) (transitive : Bool) (connId : Nat)
  /-- one input handled by session `k` -/
  | input (k : Nat) (env : Env) (i : In D)
  /-- the `NodeServer` takes sessions out of `authenticated_sessions`: the losers of the election in
  `commit_authenticated`, or the cleanup on `ActorTerminated` / `ActorFailed` of a session — ANY set,
  at ANY time (an over-approximation of node.rs, so the safety statements transfer) -/
  | deauth (ks : List Nat)

def empty {C D : Type} (cookie : C) : Node C D := { cookie := cookie, sessions := [], seen := [], listed := [] }

/-- the `GetSessions` arm of `NodeServer::handle` -/
def getSessions {C D : Type} (n : Node C D) : List Nat := n.listed

section
variable {C D : Type} [DecidableEq D] (H : C → Nat → D)

def step (n : Node C D) : Op D → Node C D × List (Effect D)
  | .open isServer thisName thisConn transitive connId =>
    let cfg : Cfg C := { isServer := isServer, cookie := n.cookie, thisName := thisName,
                         thisConn := thisConn, transitive := transitive, connId := connId }
    ({ n with sessions := n.sessions ++ [(cfg, Session.init cfg)] }, [])
  | .input k env i =>
    match n.sessions[k]? with
    | none => (n, [])
    | some (cfg, st) =>
      let r := Session.handle H cfg st env i
      -- `ConnectionAuthenticated(myself)` cast by the session => `commit_authenticated` inserts it
      ({ n with sessions := n.sessions.set k (cfg, r.1), seen := n.seen ++ r.2.filterMap sentDigest,
                listed := if r.2.contains Effect.authenticated then n.listed ++ [k] else n.listed }, r.2)
  | .deauth ks => ({ n with listed := n.listed.filter (fun j => !ks.contains j) }, [])

/-- The trace: node state and effects after each op. -/
def run (n : Node C D) : List (Op D) → List (Node C D × List (Effect D))
  | [] => []
  | op :: rest => let r := step H n op; r :: run r.1 rest

def nodeAfter (n : Node C D) : List (Op D) → Node C D
  | [] => n
  | op :: rest => nodeAfter (step H n op).1 rest

/-- What a peer WITHOUT the node's cookie can send: a digest is either copied from a frame the node
sent earlier (on any session) or computed with the peer's own cookie `cookie'`. -/
def legal (cookie' : C) : Node C D → List (Op D) → Prop
  | _, [] => True
  | n, op :: rest =>
    (match op with
      | .input _ _ i => ∀ d, digestOf i = some d → d ∈ n.seen ∨ ∃ c, d = H cookie' c
      | _ => True) ∧
    legal cookie' (step H n op).1 rest

end

/-- The explicit no-relay hypothesis of the `_partial` theorem, a decidable predicate on the trace:
no input is a `ServerChallenge` frame — the node is never asked to answer a peer-chosen challenge
(e.g. the adversary only has inbound connections, or the node dials trusted addresses only). -/
def isServerChallenge {D : Type} : In D → Bool
  | .frame (.auth (.serverChallenge _ _ _)) => true
  | _ => false

def noServerChallenge {D : Type} : List (Op D) → Bool
  | [] => true
  | .input _ _ i :: rest => !isServerChallenge i && noServerChallenge rest
  | .open _ _ _ _ _ :: rest => noServerChallenge rest
  | .deauth _ :: rest => noServerChallenge rest

end Multi
