import RactorModel.Extracted
import RactorModel.Lemmas.LifeC01
import RactorModel.Lemmas.LifeWorld

/-!
# C01 — One handler at a time, in lifecycle order

`Life.C01.ok tr` (defined in `Model/Life.lean`) is acceptance of one actor's observable trace by
the lifecycle automaton `Life.C01.next`:

* `enter pre_start` first and once; `enter post_start` only after `exit pre_start ok`;
  `enter handle|sup` only after `exit post_start ok`;
* no `enter` while another callback is open (non-overlap); `tick`/`exit`/`cancelled` only of the
  callback that is open;
* `enter post_stop` at most once, with no callback open, only after a stop message was accepted or
  a drain marker enqueued (graceful), never after an accepted kill, never after a callback
  returned `Err`, panicked or was cancelled (the automaton is `dead` then and accepts no `enter`).

The run-time oracle of `bin/check C01` evaluates this very predicate on the traces observed from
the real code.
-/

namespace C01
open Life

/-- **C01, all schedules.** For every actor id and every sequence of operations — API calls by
any number of senders / stoppers / killers / drainers, polls of the spawn future and of the actor
task, segments supplied to the open callback (ticking, sending to self, stopping or killing self,
returning `Ok`/`Err`, panicking), aborts and dropped spawn futures at any await point, supervision
events arriving, the supervisor terminating — the trace of the model is accepted by the lifecycle
automaton. -/
theorem lifecycle (id : Nat) (ops : List AOp) : Life.C01.ok (trace id ops) = true := by
  obtain ⟨s', h, _⟩ := Life.C01.run_sim ops (Actor.init id) {} (Life.C01.inv_init id)
  simp [Life.C01.ok, trace, h, Except.isOk, Except.toBool]

/-- **The same for the composed world** (what the driver replays): in every run of `World.step`
from the empty world (one harness case: any number of actors, supervision links, effects routed
between them), the trace projection of every actor `i` satisfies the property — because the world
changes actors only through `Actor.step` (`Life.world_actor_run`). -/
theorem lifecycle_world (ops : List Op) (h : ∀ op ∈ ops, op ≠ .case) (i : Nat) :
    Life.C01.ok (projEvs i (({} : World).run ops).2) = true := by
  obtain ⟨aops, e⟩ := world_actor_run ops h i
  have := lifecycle i aops
  simp only [trace, e] at this
  exact this

/-- The invariant behind it, for every reachable state: unless the actor is done, the automaton's
stage is the one of the actor's phase (so the callback whose future exists is exactly the one the
automaton considers open), an accepted kill is still pending in the signal port, and a pending
stop message / drain marker has been announced. -/
theorem invariant (id : Nat) (ops : List AOp) :
    ∃ s, accepts Life.C01.next {} (trace id ops) = .ok s ∧ Life.C01.Inv ((Actor.init id).run ops).1 s :=
  Life.C01.run_sim ops (Actor.init id) {} (Life.C01.inv_init id)

/-- Non-overlap, read off the automaton: an accepted trace never has an `enter` directly or
later while a callback is open — stated for the immediate case (any two consecutive `enter`s are
rejected, whatever happened before). -/
theorem no_overlap (s : Life.C01.St) (cb1 cb2 : Cb) (a1 a2 : Arg) (rest : List Ev) :
    (accepts Life.C01.next s (.enter cb1 a1 :: .enter cb2 a2 :: rest)).isOk = false := by
  rw [accepts_cons]
  cases h1 : Life.C01.next s (.enter cb1 a1) with
  | error c => rfl
  | ok s1 =>
    simp only []
    rw [accepts_cons, Life.C01.next_enter_of_isOpen s1 cb2 a2 (Life.C01.next_enter_isOpen h1)]
    rfl

/-! ### E-SRC obligations -/

/-- The thread-local runtime (`thread_local/inner.rs`) runs the same loop: its `processing_loop`,
`process_message`, `handle_signal`, `do_post_start`, `do_post_stop` are token-identical to the
`actor.rs` functions the model follows (modulo the boxed loop future). -/
theorem src_thread_local_twins :
    Extracted.threadLocalTwins =
      [("processing_loop", true), ("process_message", true), ("handle_signal", true),
       ("do_post_start", true), ("do_post_stop", true)] := by decide

theorem src_status : Extracted.statusDiscriminants = Life.statusTable := by decide

/-! ### Non-vacuity and rejection examples -/

/-- A full graceful life: spawn, pre_start ok, post_start ok, one message, stop, post_stop. -/
def demoOps : List AOp :=
  [.spawn none none true false true, .resume ⟨[], .ok⟩, .pollSpawn true, .poll, .resume ⟨[.sendSelf 7], .ok⟩, .poll,
   .resume ⟨[], .tick⟩, .poll, .stop none, .resume ⟨[], .ok⟩, .poll, .resume ⟨[], .ok⟩, .poll]

example : traceNoSnap 0 demoOps =
    [.enter .preStart .none, .tick .preStart, .exit .preStart .ok, .spawnRet .ok,
     .enter .postStart .none, .tick .postStart, .sendRet true 7 true, .exit .postStart .ok,
     .enter .handle (.msg 7), .tick .handle, .stopRet false .none true, .tick .handle, .exit .handle .ok,
     .enter .postStop .none, .tick .postStop, .exit .postStop .ok, .join .ok] := by decide

/-- A kill while a handler is suspended cancels it; no `post_stop`. -/
example : traceNoSnap 0 [.spawn none none true false true, .resume ⟨[], .ok⟩, .pollSpawn true, .poll, .resume ⟨[], .ok⟩,
      .send 1, .poll, .kill, .poll] =
    [.enter .preStart .none, .tick .preStart, .exit .preStart .ok, .spawnRet .ok,
     .enter .postStart .none, .sendRet false 1 true, .tick .postStart, .exit .postStart .ok,
     .enter .handle (.msg 1), .killRet false true, .cancelled .handle, .join .ok] := by decide

/-- The automaton is not trivially accepting: each of these is rejected. -/
example : Life.C01.ok [.enter .postStart .none] = false := by decide
example : Life.C01.ok [.enter .preStart .none, .enter .handle (.msg 1)] = false := by decide
example : Life.C01.ok [.enter .preStart .none, .exit .preStart (.err 1), .enter .postStart .none] = false := by decide
example : Life.C01.ok [.enter .preStart .none, .exit .preStart .ok, .enter .postStart .none,
    .exit .postStart .ok, .enter .postStop .none] = false := by decide  -- not graceful
example : Life.C01.ok [.enter .preStart .none, .exit .preStart .ok, .enter .postStart .none,
    .exit .postStart .ok, .stopRet false .none true, .killRet false true, .enter .postStop .none] = false := by decide
example : Life.C01.ok [.enter .preStart .none, .exit .preStart .ok, .enter .postStart .none,
    .exit .postStart .ok, .stopRet false .none true, .enter .handle (.msg 1), .exit .handle (.panic 3),
    .enter .postStop .none] = false := by decide

end C01

#print axioms C01.lifecycle
#print axioms C01.lifecycle_world
#print axioms C01.invariant
#print axioms C01.no_overlap
#print axioms C01.src_thread_local_twins
#print axioms C01.src_status
