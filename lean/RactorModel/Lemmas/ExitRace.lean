import RactorModel.Model.ExitRace

/-!
Invariant of the `ExitRace` model (exit sequence vs. waiters): the exiter's position in the exit
sequence (`EPc.stage`) determines the status, the cleanup flags and what `Notify` can contain;
every waiter's `Notified` snapshot is at most the current generation, nobody is woken before
`notify_waiters`, nobody is left parked after it, and a returned waiter saw a complete exit.
Holds when the other `set_status` callers publish only values below `Stopping`.
-/

set_option linter.unusedSimpArgs false

namespace ExitRace

/-- position of the exiter in the exit sequence -/
def EPc.stage : EPc → Nat
  | .set1 (.publish _) => 0
  | .set1 (.unregPid _ _) => 1
  | .set1 (.unregName _ _) => 2
  | .set1 (.pgDemon _ _) => 3
  | .set1 (.pgLeave _ _) => 4
  | .set1 _ => 0
  | .postStop => 5
  | .set2 _ => 6
  | .terminate => 7
  | .notifySup => 8
  | .unlink => 9
  | .stopped => 10
  | .set3 (.publish _) => 11
  | .set3 .statusNotify => 12
  | .set3 .notifyWaiters => 13
  | .set3 .notifyOne => 14
  | .set3 _ => 11
  | .late _ _ => 15
  | .done => 15

/-- the shapes the exiter's program counter can have -/
def EPc.valid : EPc → Bool
  | .set1 (.publish s) => s == stStopping
  | .set1 (.unregPid s p) | .set1 (.unregName s p) | .set1 (.pgDemon s p) | .set1 (.pgLeave s p) =>
    s == stStopping && p < stStopping
  | .set1 _ => false
  | .set2 (.publish s) => s == stStopping
  | .set2 _ => false
  | .set3 (.publish s) => s == stStopped
  | .set3 .statusNotify | .set3 .notifyWaiters | .set3 .notifyOne => true
  | .set3 _ => false
  | .late (.publish s) _ => s ≤ stStopped
  | .late _ _ => false
  | _ => true

/-- what the shared state looks like at stage `n` -/
structure ShOk (sh : Sh) (n : Nat) (post : Bool) : Prop where
  s0 : n = 0 → sh.status < stStopping
  s1 : 1 ≤ n → stStopping ≤ sh.status
  s11 : n ≤ 11 → sh.status < stStopped
  s12 : 12 ≤ n → sh.status = stStopped
  f2 : 2 ≤ n → sh.flags.unregPid = true
  f3 : 3 ≤ n → sh.flags.unregName = true
  f4 : 4 ≤ n → sh.flags.pgDemon = true
  f5 : 5 ≤ n → sh.flags.pgLeft = true
  f6 : 6 ≤ n → post = true → sh.flags.postStop = true
  f8 : 8 ≤ n → sh.flags.terminated = true
  f9 : 9 ≤ n → sh.flags.supNotified = true
  f10 : 10 ≤ n → sh.flags.unlinked = true
  g13 : n ≤ 13 → sh.gen = 0
  p14 : n ≤ 14 → sh.permit = false
  cr : sh.cleanupRuns = if 1 ≤ n then 1 else 0
  nr : sh.notifyRuns = if 12 ≤ n then 1 else 0

/-- the `Notified` of a waiter that has not polled it yet: its snapshot is at most the current
generation; and if the status it read was not `Stopped` (`.checked`) it was created before
`notify_waiters`, so from stage 14 on its snapshot is strictly older — its first poll completes -/
def SnapOk (gen n : Nat) : WPc → Prop
  | .created s => s ≤ gen
  | .checked s => s ≤ gen ∧ (14 ≤ n → s < gen)
  | _ => True

structure WOk (gen n : Nat) (w : Waiter) : Prop where
  snap : SnapOk gen n w.pc
  ret : ∀ ok, w.pc = .returned ok → ok = true ∧ 12 ≤ n
  all : w.woken = .all → 14 ≤ n
  one : w.woken = .one → 15 ≤ n
  park : 14 ≤ n → w.parked = false

structure InvCore (g : G) : Prop where
  valid : g.exiter.pc.valid = true
  sh : ShOk g.sh g.exiter.pc.stage g.exiter.hasPostStop
  ws : ∀ w ∈ g.waiters, WOk g.sh.gen g.exiter.pc.stage w
  setters : settersBelowStopping g = true

theorem WOk.mono {gen n n' : Nat} {w : Waiter} (h : WOk gen n w) (hn : n ≤ n')
    (hc : n' ≤ 13 ∨ 14 ≤ n) : WOk gen n' w := by
  obtain ⟨h1, h2, h3, h4, h5⟩ := h
  refine ⟨?_, fun ok hok => ⟨(h2 ok hok).1, by have := (h2 ok hok).2; omega⟩, fun a => ?_, fun a => ?_, fun a => ?_⟩
  · cases hpc : w.pc <;> simp only [hpc, SnapOk] at h1 ⊢ <;> try exact h1
    refine ⟨h1.1, fun h14 => ?_⟩
    rcases hc with hc | hc
    · omega
    · exact h1.2 hc
  · have := h3 a; omega
  · have := h4 a; omega
  · rcases hc with hc | hc
    · omega
    · exact h5 hc

theorem wakeAll_ok {gen n : Nat} {ws : List Waiter} (hn : n ≤ 13) (h : ∀ w ∈ ws, WOk gen n w) :
    ∀ w ∈ wakeAll ws, WOk (gen + 1) 14 w := by
  intro w hw
  simp only [wakeAll, List.mem_map] at hw
  obtain ⟨w0, hw0, rfl⟩ := hw
  obtain ⟨h1, h2, h3, h4, h5⟩ := h w0 hw0
  by_cases hp : w0.parked = true
  · simp only [hp, if_true]
    simp only [Waiter.parked, Bool.and_eq_true, beq_iff_eq] at hp
    refine ⟨?_, fun ok hok => ?_, fun _ => Nat.le_refl _, fun a => ?_, fun _ => ?_⟩
    · simp [hp.1, SnapOk]
    · simp [hp.1] at hok
    · simp at a
    · simp [Waiter.parked]
  · simp only [hp, Bool.false_eq_true, if_false]
    refine ⟨?_, fun ok hok => ⟨(h2 ok hok).1, by omega⟩, fun a => ?_, fun a => ?_, fun _ => by simpa using hp⟩
    · cases hpc : w0.pc <;> simp only [hpc, SnapOk] at h1 ⊢ <;> omega
    · have := h3 a; omega
    · have := h4 a; omega

theorem wakeOne_ok {gen : Nat} {ws ws' : List Waiter} (h : ∀ w ∈ ws, WOk gen 15 w)
    (e : wakeOne ws = some ws') : ∀ w ∈ ws', WOk gen 15 w := by
  induction ws generalizing ws' with
  | nil => simp [wakeOne] at e
  | cons a l ih =>
    simp only [wakeOne] at e
    split at e
    · have hp := (h a List.mem_cons_self).park (by omega)
      simp_all
    · simp only [Option.map_eq_some_iff] at e
      obtain ⟨l', hl', rfl⟩ := e
      intro w hw
      rcases List.mem_cons.mp hw with rfl | hw
      · exact h _ List.mem_cons_self
      · exact ih (fun w hw => h w (List.mem_cons_of_mem _ hw)) hl' w hw

theorem notifyOne_ok {gen : Nat} {sh : Sh} {ws : List Waiter} (hg : sh.gen = gen)
    (h : ∀ w ∈ ws, WOk gen 15 w) :
    (notifyOne sh ws).1.gen = gen ∧ (notifyOne sh ws).1.status = sh.status ∧
    (notifyOne sh ws).1.flags = sh.flags ∧ (notifyOne sh ws).1.cleanupRuns = sh.cleanupRuns ∧
    (notifyOne sh ws).1.notifyRuns = sh.notifyRuns ∧
    ∀ w ∈ (notifyOne sh ws).2, WOk gen 15 w := by
  unfold notifyOne
  split
  · rename_i ws' e
    exact ⟨hg, rfl, rfl, rfl, rfl, wakeOne_ok h e⟩
  · exact ⟨hg, rfl, rfl, rfl, rfl, h⟩

set_option hygiene false in
macro "exit_sh" : tactic => `(tactic| (
  obtain ⟨a1,a2,a3,a4,a5,a6,a7,a8,a9,a10,a11,a12,a13,a14,a15,a16⟩ := hs
  constructor <;> simp only [EPc.stage, stStopping, stStopped] at * <;> grind))

set_option hygiene false in
macro "exit_plain" : tactic => `(tactic| (
  refine ⟨by simp_all [EPc.valid, stStopping, stStopped], ?_,
    fun w hm => (hw w hm).mono (by simp [EPc.stage]) (by simp [EPc.stage]), hset' _ _ _⟩
  exit_sh))

theorem inv_e (g : G) (h : InvCore g) : InvCore (step g .e) := by
  obtain ⟨hv, hs, hw, hset⟩ := h
  obtain ⟨sh, ex, setters, ws, drs⟩ := g
  obtain ⟨pc, post, lateCalls, armed, unwound⟩ := ex
  simp only at hv hs hw
  have hset' : ∀ sh' ws' ex', settersBelowStopping { sh := sh', exiter := ex', setters := setters, waiters := ws', drainers := drs } = true :=
    fun _ _ _ => hset
  cases pc with
  | set1 c =>
    cases c <;> simp only [EPc.valid, Bool.false_eq_true, Bool.and_eq_true, beq_iff_eq, decide_eq_true_eq] at hv
    case publish s =>
      subst hv
      have h0 := hs.s0 rfl
      have : (decide (stStopping ≥ stStopping) && decide (sh.status < stStopping)) = true := by simp [h0]
      have e0 : (stStopping == stStopped && decide (sh.status < stStopped)) = false := by simp [stStopping, stStopped]
      simp only [step, stepExiter, stepSet, afterCleanup, this, e0, if_true]
      exit_plain
    case unregPid s p => obtain ⟨rfl, hp⟩ := hv; simp only [step, stepExiter, stepSet]; exit_plain
    case unregName s p => obtain ⟨rfl, hp⟩ := hv; simp only [step, stepExiter, stepSet]; exit_plain
    case pgDemon s p => obtain ⟨rfl, hp⟩ := hv; simp only [step, stepExiter, stepSet]; exit_plain
    case pgLeave s p =>
      obtain ⟨rfl, hp⟩ := hv
      have : (stStopping == stStopped && decide (p < stStopped)) = false := by simp [stStopping, stStopped]
      cases post <;> simp only [step, stepExiter, stepSet, afterCleanup, this] <;> exit_plain
  | postStop => simp only [step, stepExiter]; exit_plain
  | set2 c =>
    cases c <;> simp only [EPc.valid, Bool.false_eq_true, Bool.and_eq_true, beq_iff_eq, decide_eq_true_eq] at hv
    case publish s =>
      subst hv
      have h1 := hs.s1 (by simp [EPc.stage])
      have e1 : (decide (stStopping ≥ stStopping) && decide (sh.status < stStopping)) = false := by
        rw [Bool.and_eq_false_iff]; right
        exact decide_eq_false (by simp only [stStopping, stStopped, EPc.stage] at *; omega)
      have e2 : (stStopping == stStopped && decide (sh.status < stStopped)) = false := by simp [stStopping, stStopped]
      simp only [step, stepExiter, stepSet, afterCleanup, e1, e2]
      exit_plain
  | terminate => simp only [step, stepExiter]; exit_plain
  | notifySup => simp only [step, stepExiter]; exit_plain
  | unlink => simp only [step, stepExiter]; exit_plain
  | stopped => simp only [step, stepExiter]; exit_plain
  | set3 c =>
    cases c <;> simp only [EPc.valid, Bool.false_eq_true, Bool.and_eq_true, beq_iff_eq, decide_eq_true_eq] at hv
    case publish s =>
      subst hv
      have h1 := hs.s1 (by simp [EPc.stage])
      have h2 := hs.s11 (by simp [EPc.stage])
      have e1 : (decide (stStopped ≥ stStopping) && decide (sh.status < stStopping)) = false := by
        rw [Bool.and_eq_false_iff]; right
        exact decide_eq_false (by simp only [stStopping, stStopped, EPc.stage] at *; omega)
      have e2 : (stStopped == stStopped && decide (sh.status < stStopped)) = true := by simp [h2]
      simp only [step, stepExiter, stepSet, afterCleanup, e1, e2]
      exit_plain
    case statusNotify => simp only [step, stepExiter, stepSet]; exit_plain
    case notifyWaiters =>
      simp only [step, stepExiter, stepSet]
      refine ⟨by simp [EPc.valid], ?_, ?_, hset' _ _ _⟩
      · exit_sh
      · simp only [EPc.stage] at hw ⊢
        exact wakeAll_ok (by omega) hw
    case notifyOne =>
      simp only [step, stepExiter, stepSet]
      have hw' : ∀ w ∈ ws, WOk sh.gen 15 w := fun w hm => (hw w hm).mono (by simp [EPc.stage]) (by simp [EPc.stage])
      obtain ⟨n1, n2, n3, n4, n5, n6⟩ := notifyOne_ok (sh := sh) rfl hw'
      have hst : (lateEntry lateCalls).stage = 15 := by cases lateCalls <;> rfl
      refine ⟨by cases lateCalls <;> simp [lateEntry, EPc.valid, Nat.min_le_right], ?_, ?_, hset' _ _ _⟩
      · obtain ⟨a1,a2,a3,a4,a5,a6,a7,a8,a9,a10,a11,a12,a13,a14,a15,a16⟩ := hs
        simp only [hst]
        constructor <;> simp only [EPc.stage, stStopping, stStopped, n1, n2, n3, n4, n5] at * <;> grind
      · simp only [hst, n1]; exact n6
  | late c rest =>
    cases c <;> simp only [EPc.valid, Bool.false_eq_true, Bool.and_eq_true, beq_iff_eq, decide_eq_true_eq] at hv
    case publish s =>
      have h12 := hs.s12 (by simp [EPc.stage])
      have e1 : (decide (s ≥ stStopping) && decide (sh.status < stStopping)) = false := by
        rw [Bool.and_eq_false_iff]; right
        exact decide_eq_false (by simp only [stStopping, stStopped] at *; omega)
      have e2 : (s == stStopped && decide (sh.status < stStopped)) = false := by simp [h12]
      have hm : max sh.status s = sh.status := by simp only [stStopped] at hv h12; omega
      simp only [step, stepExiter, stepSet, afterCleanup, e1, e2, hm]
      cases rest with
      | nil =>
        refine ⟨by simp [lateEntry, EPc.valid], ?_, ?_, hset' _ _ _⟩
        · simpa [EPc.stage, lateEntry] using hs
        · simpa [EPc.stage, lateEntry] using hw
      | cons x rest =>
        refine ⟨by simp [lateEntry, EPc.valid, Nat.min_le_right], ?_, ?_, hset' _ _ _⟩
        · simpa [EPc.stage, lateEntry] using hs
        · simpa [EPc.stage, lateEntry] using hw
  | done => simpa [step, stepExiter] using (⟨hv, hs, hw, hset⟩ : InvCore _)

theorem forall_set {α : Type} {P : α → Prop} {l : List α} {i : Nat} {x : α}
    (h : ∀ a ∈ l, P a) (hx : P x) : ∀ a ∈ l.set i x, P a := by
  intro a ha
  rcases List.mem_or_eq_of_mem_set ha with h1 | h1
  · exact h a h1
  · exact h1 ▸ hx

/-- A waiter returning now records `ok = true`: the four ways `wait()` can return all imply that
the status is `Stopped` and the cleanup is complete. -/
theorem okNow_of_stage {g : G} (h : InvCore g) (h12 : 12 ≤ g.exiter.pc.stage) : okNow g = true := by
  obtain ⟨a1,a2,a3,a4,a5,a6,a7,a8,a9,a10,a11,a12,a13,a14,a15,a16⟩ := h.sh
  simp only [okNow, snapshotOk, Flags.complete, Bool.and_eq_true, beq_iff_eq, Bool.or_eq_true, Bool.not_eq_true']
  refine ⟨a4 h12, ⟨⟨⟨⟨⟨⟨⟨a5 (by omega), a6 (by omega)⟩, a7 (by omega)⟩, a8 (by omega)⟩, a10 (by omega)⟩,
    a11 (by omega)⟩, a12 (by omega)⟩, ?_⟩⟩
  cases hp : g.exiter.hasPostStop
  · exact Or.inl rfl
  · exact Or.inr (a9 (by omega) hp)

theorem inv_w (g : G) (i : Nat) (h : InvCore g) : InvCore (step g (.w i)) := by
  simp only [step]
  split
  · exact h
  · rename_i w hi
    have hmem : w ∈ g.waiters := List.mem_of_getElem? hi
    have hwo := h.ws w hmem
    obtain ⟨wpc, wk⟩ := w
    have hs := h.sh
    cases wpc with
    | start =>
      simp only [stepWaiter]
      refine ⟨h.valid, hs, forall_set h.ws ?_, h.setters⟩
      dsimp only
      exact ⟨by simp [SnapOk], fun ok hok => by simp at hok, hwo.all, hwo.one,
        fun hn => by simp [Waiter.parked]⟩
    | created snap =>
      have hsn : snap ≤ g.sh.gen := by simpa [SnapOk] using hwo.snap
      simp only [stepWaiter]
      split
      · -- status = Stopped
        rename_i hst
        have h12 : 12 ≤ g.exiter.pc.stage := by
          have := hs.s11; simp only [beq_iff_eq] at hst
          by_cases hc : g.exiter.pc.stage ≤ 11
          · have := this hc; omega
          · omega
        refine ⟨h.valid, hs, forall_set h.ws ?_, h.setters⟩
        dsimp only
        exact ⟨by simp [SnapOk], fun ok hok => by simp at hok; rw [← hok]; exact ⟨okNow_of_stage h h12, h12⟩,
          hwo.all, hwo.one, fun hn => by simp [Waiter.parked]⟩
      · -- status read, not `Stopped`: the exiter has not published `Stopped` yet
        rename_i hst
        have h11 : g.exiter.pc.stage ≤ 11 := by
          have := hs.s12; simp only [beq_iff_eq] at hst
          by_cases hc : 12 ≤ g.exiter.pc.stage
          · exact absurd (this hc) hst
          · omega
        refine ⟨h.valid, hs, forall_set h.ws ?_, h.setters⟩
        dsimp only
        exact ⟨by simp only [SnapOk]; exact ⟨hsn, fun h14 => by omega⟩, fun ok hok => by simp at hok, hwo.all, hwo.one,
          fun hn => by simp [Waiter.parked]⟩
    | checked snap =>
      have hsn : snap ≤ g.sh.gen ∧ (14 ≤ g.exiter.pc.stage → snap < g.sh.gen) := by simpa [SnapOk] using hwo.snap
      simp only [stepWaiter]
      · split
        · -- the generation moved
          rename_i hg
          have h14 : 14 ≤ g.exiter.pc.stage := by
            have := hs.g13; simp only [bne_iff_ne, ne_eq] at hg
            by_cases hc : g.exiter.pc.stage ≤ 13
            · have := this hc; omega
            · omega
          refine ⟨h.valid, hs, forall_set h.ws ?_, h.setters⟩
          dsimp only
          exact ⟨by simp [SnapOk], fun ok hok => by simp at hok; rw [← hok]; exact ⟨okNow_of_stage h (by omega), by omega⟩,
            hwo.all, hwo.one, fun hn => by simp [Waiter.parked]⟩
        · split
          · -- a permit is stored
            rename_i hg hp
            have h15 : 15 ≤ g.exiter.pc.stage := by
              have := hs.p14
              by_cases hc : g.exiter.pc.stage ≤ 14
              · have := this hc; simp_all
              · omega
            refine ⟨h.valid, ?_, forall_set h.ws ?_, h.setters⟩
            · dsimp only
              obtain ⟨a1,a2,a3,a4,a5,a6,a7,a8,a9,a10,a11,a12,a13,a14,a15,a16⟩ := hs
              exact ⟨a1,a2,a3,a4,a5,a6,a7,a8,a9,a10,a11,a12,a13, fun hn => by omega, a15, a16⟩
            · dsimp only
              exact ⟨by simp [SnapOk], fun ok hok => by simp at hok; rw [← hok]; exact ⟨okNow_of_stage h (by omega), by omega⟩,
                hwo.all, hwo.one, fun hn => by simp [Waiter.parked]⟩
          · -- register: the generation has not moved since `notified()`, so `notify_waiters` is still ahead
            rename_i hg hp
            have h13 : g.exiter.pc.stage ≤ 13 := by
              simp only [bne_iff_ne, ne_eq, Decidable.not_not] at hg
              by_cases hc : 14 ≤ g.exiter.pc.stage
              · have := hsn.2 hc; omega
              · omega
            refine ⟨h.valid, hs, forall_set h.ws ?_, h.setters⟩
            dsimp only
            exact ⟨by simp [SnapOk], fun ok hok => by simp at hok, hwo.all, hwo.one, fun hn => by omega⟩
    | registered =>
      simp only [stepWaiter]
      split
      · rename_i hk
        have h14 : 14 ≤ g.exiter.pc.stage := by
          cases wk with
          | no => simp at hk
          | all => exact hwo.all rfl
          | one => have := hwo.one rfl; omega
        refine ⟨h.valid, hs, forall_set h.ws ?_, h.setters⟩
        dsimp only
        exact ⟨by simp [SnapOk], fun ok hok => by simp at hok; rw [← hok]; exact ⟨okNow_of_stage h (by omega), by omega⟩,
          hwo.all, hwo.one, fun hn => by simp [Waiter.parked]⟩
      · refine ⟨h.valid, hs, forall_set h.ws hwo, h.setters⟩
    | returned ok => simp only [stepWaiter]; exact ⟨h.valid, hs, forall_set h.ws hwo, h.setters⟩
    | abandoned => simp only [stepWaiter]; exact ⟨h.valid, hs, forall_set h.ws hwo, h.setters⟩

theorem stage_le (pc : EPc) : pc.stage ≤ 15 := by
  cases pc <;> (try rename_i c; cases c) <;> simp [EPc.stage]

theorem inv_abandon (g : G) (i : Nat) (h : InvCore g) : InvCore (step g (.abandon i)) := by
  simp only [step]
  split
  · exact h
  · rename_i w hi
    have hmem : w ∈ g.waiters := List.mem_of_getElem? hi
    have hwo := h.ws w hmem
    have hab : WOk g.sh.gen g.exiter.pc.stage { w with pc := .abandoned } :=
      ⟨by simp [SnapOk], fun ok hok => by simp at hok, hwo.all, hwo.one,
        fun _ => by simp [Waiter.parked]⟩
    split
    · exact h
    · exact h
    · split
      · rename_i hc
        simp only [Bool.and_eq_true, beq_iff_eq] at hc
        have h15 : g.exiter.pc.stage = 15 := by
          have := hwo.one hc.2; have := stage_le g.exiter.pc; omega
        have hw' : ∀ a ∈ g.waiters.set i { w with pc := .abandoned }, WOk g.sh.gen 15 a := by
          rw [← h15]; exact forall_set h.ws hab
        obtain ⟨n1, n2, n3, n4, n5, n6⟩ := notifyOne_ok (sh := g.sh) rfl hw'
        refine ⟨h.valid, ?_, ?_, h.setters⟩
        · dsimp only
          obtain ⟨a1,a2,a3,a4,a5,a6,a7,a8,a9,a10,a11,a12,a13,a14,a15,a16⟩ := h.sh
          constructor <;> simp only [n1, n2, n3, n4, n5, h15] at * <;> first | assumption | omega
        · dsimp only; rw [h15, n1]; exact n6
      · exact ⟨h.valid, h.sh, forall_set h.ws hab, h.setters⟩

theorem all_set {α : Type} {p : α → Bool} {l : List α} {i : Nat} {x : α}
    (h : l.all p = true) (hx : p x = true) : (l.set i x).all p = true := by
  rw [List.all_eq_true] at h ⊢
  exact forall_set h hx

theorem inv_s (g : G) (i : Nat) (h : InvCore g) : InvCore (step g (.s i)) := by
  simp only [step]
  split
  · exact h
  · rename_i t hi
    have hmem : t ∈ g.setters := List.mem_of_getElem? hi
    have hall := h.setters
    simp only [settersBelowStopping] at hall
    have ht := List.all_eq_true.mp hall t hmem
    simp only [Bool.and_eq_true] at ht
    obtain ⟨hrest, hcall⟩ := ht
    -- a publish of a value below `Stopping` elects nothing and keeps every stage fact
    have key : ∀ s, s < stStopping → ∀ rest, rest.all (· < stStopping) = true →
        InvCore { g with sh := { g.sh with status := max g.sh.status s },
                         setters := g.setters.set i { call := none, rest := rest } } := by
      intro s hs rest hr
      refine ⟨h.valid, ?_, h.ws, ?_⟩
      · dsimp only
        obtain ⟨a1,a2,a3,a4,a5,a6,a7,a8,a9,a10,a11,a12,a13,a14,a15,a16⟩ := h.sh
        constructor <;> simp only [stStopping, stStopped] at * <;> first | assumption | (intro hn; have := a1 hn; omega) | (intro hn; have := a2 hn; omega) | (intro hn; have := a3 hn; omega) | (intro hn; have := a4 hn; omega)
      · simp only [settersBelowStopping]
        exact all_set hall (by simp [hr])
    have pub : ∀ s, s < stStopping → stepSet g.sh g.waiters (.publish s)
        = ({ g.sh with status := max g.sh.status s }, g.waiters, none) := by
      intro s hs
      have e1 : (decide (s ≥ stStopping) && decide (g.sh.status < stStopping)) = false := by
        rw [Bool.and_eq_false_iff]; left; exact decide_eq_false (by omega)
      have e2 : (s == stStopped && decide (g.sh.status < stStopped)) = false := by
        rw [Bool.and_eq_false_iff]; left
        simp only [stStopping, stStopped] at *; simp; omega
      simp only [stepSet, afterCleanup, e1, e2]
      rfl
    obtain ⟨call, rest⟩ := t
    cases call with
    | none =>
      cases rest with
      | nil => simpa [stepSetter] using (show InvCore { g with setters := g.setters.set i { call := none, rest := [] } } from
          ⟨h.valid, h.sh, h.ws, by simp only [settersBelowStopping]; exact all_set hall (by simp)⟩)
      | cons s rest =>
        simp only [List.all_cons, Bool.and_eq_true, decide_eq_true_eq] at hrest
        simp only [stepSetter, pub s hrest.1]
        exact key s hrest.1 rest hrest.2
    | some c =>
      cases c <;> simp only [Bool.false_eq_true, decide_eq_true_eq] at hcall
      rename_i s
      simp only [stepSetter, pub s hcall]
      exact key s hcall rest hrest

end ExitRace
