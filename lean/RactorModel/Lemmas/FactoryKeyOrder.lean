import RactorModel.Lemmas.FactoryNoBacklog
import RactorModel.Lemmas.FactoryActors

/-!
# Jobs of one key never overtake each other on their way to a worker (worker-queueing routers)

`Ord w`: inside the factory's mailbox, inside the factory queue (arrival order) and inside every worker's own
queue, and ACROSS them in the order worker queue < factory queue < mailbox, jobs of the same key are in
submission order (`KO a b`: same key ⇒ `a.id < b.id`; ids are handed out in increasing order).
Together with the dequeue discipline (`get_next_non_expired_job` takes the head, `pop_front` the oldest of the
most urgent class — same key ⇒ same class), key-persistent affinity (all waiting jobs of a key sit in ONE
worker's queue) and "no backlog while the pool has workers" this is: no job overtakes an older job of its key.
-/

namespace Factory

/-- same key ⇒ submitted earlier -/
def KO (a b : Job) : Prop := a.key = b.key → a.id < b.id

def inboxJobs : List FMsg → List Job
  | [] => []
  | .dispatch j :: r => j :: inboxJobs r
  | _ :: r => inboxJobs r

theorem inboxJobs_append (a b : List FMsg) : inboxJobs (a ++ b) = inboxJobs a ++ inboxJobs b := by
  induction a with
  | nil => rfl
  | cons m r ih => cases m <;> simp [inboxJobs, ih]

/-! ## what the `WorkerProperties` functions do to the worker's queue -/

theorem getNextNonExpired_split {h : Option Nat} (mq : List Job) (pend : List Nat) (e : Env) :
    ∃ skipped, mq = skipped ++ ((getNextNonExpired h mq pend e).1.toList ++ (getNextNonExpired h mq pend e).2.1) := by
  induction mq generalizing pend e with
  | nil => exact ⟨[], rfl⟩
  | cons x rest ih =>
    unfold getNextNonExpired
    split
    · exact ⟨[], rfl⟩
    · obtain ⟨sk, hsk⟩ := ih (pend.erase x.key) (e.discard h .ttlExpired x)
      exact ⟨x :: sk, by rw [List.cons_append, ← hsk]⟩

theorem getNext_split (p : WP) (e : Env) :
    ∃ skipped, p.mq = skipped ++ ((p.getNext e).1.toList ++ (p.getNext e).2.1.mq) :=
  getNextNonExpired_split p.mq p.pending e

theorem dispatchJob_mq (p : WP) (e : Env) (j : Job) :
    (p.dispatchJob e j).1.mq = p.mq ∨ (p.dispatchJob e j).1.mq = j :: p.mq := by
  unfold WP.dispatchJob
  split
  · exact Or.inl rfl
  · exact Or.inr rfl

theorem nextJob_mq_sublist (p : WP) (e : Env) : (p.nextJob e).1.mq.Sublist p.mq := by
  obtain ⟨sk, hsk⟩ := getNext_split p e
  unfold WP.nextJob
  cases hg : p.getNext e with
  | mk r pe =>
    obtain ⟨p2, e2⟩ := pe
    rw [hg] at hsk
    simp only at hsk ⊢
    cases r with
    | none =>
      simp only [Option.toList_none, List.nil_append] at hsk
      rw [hsk]; exact List.sublist_append_right _ _
    | some j =>
      simp only [Option.toList_some, List.cons_append, List.nil_append] at hsk
      rcases dispatchJob_mq p2 e2 j with h | h
      · rw [h, hsk]
        exact (List.sublist_cons_self j p2.mq).trans (List.sublist_append_right _ _)
      · rw [h, hsk]; exact List.sublist_append_right _ _

theorem shedOldest_mq_sublist (limit fuel : Nat) (p : WP) (e : Env) : (shedOldest limit fuel p e).1.mq.Sublist p.mq := by
  induction fuel generalizing p e with
  | zero => exact List.Sublist.refl _
  | succ fuel ih =>
    unfold shedOldest
    split
    · obtain ⟨sk, hsk⟩ := getNext_split p e
      cases hg : p.getNext e with
      | mk r pe =>
        obtain ⟨p2, e2⟩ := pe
        rw [hg] at hsk
        simp only at hsk ⊢
        have h2 : p2.mq.Sublist p.mq := by
          rw [hsk]
          exact (List.sublist_append_right _ _).trans (List.sublist_append_right _ _)
        cases r with
        | none => exact (ih p2 e2).trans h2
        | some d => exact (ih _ _).trans h2
    · exact List.Sublist.refl _

theorem enqueueJob_mq_sublist (p : WP) (e : Env) (j : Job) :
    (p.enqueueJob e j).1.mq.Sublist (p.mq ++ [{ j with port := false }]) := by
  unfold WP.enqueueJob
  split
  · exact List.sublist_append_left _ _
  · generalize ({ j with port := false } : Job) = j1
    have hm1 : (p.track j.key).mq = p.mq := rfl
    generalize p.track j.key = p1 at hm1
    generalize e.accept j = e1
    rw [← hm1]
    unfold WP.enqueueAccepted
    split
    · obtain ⟨sk, hsk⟩ := getNext_split p1 e1
      cases hg : p1.getNext e1 with
      | mk r pe =>
        obtain ⟨p2, e2⟩ := pe
        rw [hg] at hsk
        simp only at hsk ⊢
        cases r with
        | none =>
          simp only [Option.toList_none, List.nil_append] at hsk
          simp only
          rcases dispatchJob_mq p2 e2 j1 with h | h
          · rw [h, hsk]
            exact (List.sublist_append_right _ _).trans (List.sublist_append_left _ _)
          · rw [h, hsk]
            have : (j1 :: p2.mq) = [j1] ++ p2.mq := rfl
            -- the queue that remained is empty: everything in front was expired
            have hnil : p2.mq = [] := by
              have h1 : (p1.getNext e1).1 = none := by rw [hg]
              have := getNextNonExpired_none_nil (hd := p1.handler) p1.mq p1.pending e1 h1
              have h2 : (p1.getNext e1).2.1.mq = [] := this
              rw [hg] at h2; exact h2
            rw [hnil]
            simp only [List.append_nil]
            exact List.sublist_append_right _ _
        | some older =>
          simp only [Option.toList_some, List.cons_append, List.nil_append] at hsk
          simp only
          rcases dispatchJob_mq { p2 with mq := p2.mq ++ [j1] } e2 older with h | h
          · rw [h, hsk]
            simp only
            exact List.Sublist.append ((List.sublist_cons_self older p2.mq).trans (List.sublist_append_right _ _))
              (List.Sublist.refl _)
          · rw [h, hsk]
            simp only
            have : older :: (p2.mq ++ [j1]) = (older :: p2.mq) ++ [j1] := rfl
            rw [this]
            exact List.Sublist.append (List.sublist_append_right _ _) (List.Sublist.refl _)
    · simp only
      split
      · exact shedOldest_mq_sublist _ _ _ _
      · exact List.Sublist.refl _

theorem workerComplete_mq_sublist (p : WP) (e : Env) (key : Nat) : (p.workerComplete e key).1.mq.Sublist p.mq := by
  unfold WP.workerComplete
  split
  · exact nextJob_mq_sublist { p with curr := p.curr.filter (fun x => x.1 != key), pending := p.pending.erase key } e
  · exact List.Sublist.refl _

theorem replaceWorker_mq_sublist (p : WP) (e : Env) (naid : Nat) : (p.replaceWorker e naid).1.mq.Sublist p.mq := by
  rw [replaceWorker_eq]
  exact nextJob_mq_sublist _ e


/-! ## the order invariant (handler level; `I` = the dispatches still in the factory's mailbox) -/

structure OrdH (I : List Job) (w : W) : Prop where
  q : w.queue.Pairwise KO
  m : ∀ p ∈ w.pool, p.mq.Pairwise KO
  qi : ∀ x ∈ w.queue, ∀ y ∈ I, KO x y
  mq : ∀ p ∈ w.pool, ∀ x ∈ p.mq, ∀ y ∈ w.queue, KO x y
  mi : ∀ p ∈ w.pool, ∀ x ∈ p.mq, ∀ y ∈ I, KO x y

/-- every worker queue of `w'` is what is left (in order) of a worker queue of `w` -/
def PoolSub (w w' : W) : Prop := ∀ p' ∈ w'.pool, ∃ p ∈ w.pool, p'.mq.Sublist p.mq

variable {I : List Job}

theorem OrdH.sub {w w' : W} (h : OrdH I w) (hq : w'.queue.Sublist w.queue) (hp : PoolSub w w') : OrdH I w' := by
  refine ⟨h.q.sublist hq, ?_, ?_, ?_, ?_⟩
  · intro p' hp'
    obtain ⟨p, hpm, hs⟩ := hp p' hp'
    exact (h.m p hpm).sublist hs
  · intro x hx y hy; exact h.qi x (hq.subset hx) y hy
  · intro p' hp' x hx y hy
    obtain ⟨p, hpm, hs⟩ := hp p' hp'
    exact h.mq p hpm x (hs.subset hx) y (hq.subset hy)
  · intro p' hp' x hx y hy
    obtain ⟨p, hpm, hs⟩ := hp p' hp'
    exact h.mi p hpm x (hs.subset hx) y hy

theorem PoolSub.of_eq {w w' : W} (h : w'.pool = w.pool) : PoolSub w w' :=
  fun p' hp' => ⟨p', by rw [← h]; exact hp', List.Sublist.refl _⟩

theorem PoolSub.trans {a b c : W} (h1 : PoolSub a b) (h2 : PoolSub b c) : PoolSub a c := by
  intro p'' hp''
  obtain ⟨p', hp', hs'⟩ := h2 p'' hp''
  obtain ⟨p, hp, hs⟩ := h1 p' hp'
  exact ⟨p, hp, hs'.trans hs⟩

theorem OrdH.of_eq {w w' : W} (h : OrdH I w) (hq : w'.queue = w.queue) (hp : w'.pool = w.pool) : OrdH I w' :=
  h.sub (by rw [hq]; exact List.Sublist.refl _) (PoolSub.of_eq hp)

theorem poolSub_setW {w w' : W} {wid : Nat} {p p' : WP} (hg : getW w.pool wid = some p) (hs : p'.mq.Sublist p.mq)
    (h1 : w'.pool = setW w.pool wid p') : PoolSub w w' := by
  intro x hx
  rw [h1] at hx
  rcases mem_setW hx with h | h
  · subst h; exact ⟨p, getW_mem hg, hs⟩
  · exact ⟨x, h, List.Sublist.refl _⟩

theorem poolSub_removeW {w w' : W} {wid : Nat} (h1 : w'.pool = removeW w.pool wid) : PoolSub w w' := by
  intro x hx
  rw [h1] at hx
  exact ⟨x, mem_removeW hx, List.Sublist.refl _⟩

theorem poolSub_map {w w' : W} (f : WP → WP) (hm : ∀ p, (f p).mq = p.mq) (h1 : w'.pool = w.pool.map f) : PoolSub w w' := by
  intro x hx
  rw [h1] at hx
  obtain ⟨y, hy, rfl⟩ := List.mem_map.mp hx
  exact ⟨y, hy, by rw [hm]; exact List.Sublist.refl _⟩

theorem prioOf_key (cfg : Cfg) (a b : Job) (h : a.key = b.key) : prioOf cfg a = prioOf cfg b := by
  unfold prioOf; rw [h]

/-- a job joins the tail of one worker's queue -/
theorem ordH_routeInner (w : W) (j : Job) (hint : Option Nat) (h : OrdH I w)
    (hj1 : ∀ p ∈ w.pool, ∀ x ∈ p.mq, KO x j) (hj2 : w.pool ≠ [] → ∀ y ∈ w.queue, KO j y) (hj3 : ∀ y ∈ I, KO j y) :
    OrdH I (w.routeInner j hint).2 := by
  unfold W.routeInner
  have hs := chooseTargetWorker_frame w j hint
  cases hc : w.chooseTargetWorker j hint with
  | mk t w1 =>
    rw [hc] at hs
    simp only at hs ⊢
    have h1 : OrdH I w1 := h.of_eq hs.queue hs.pool
    cases t with
    | none => exact h1
    | some wid =>
      simp only
      cases hg : getW w1.pool wid with
      | none => exact h1
      | some p =>
        simp only
        have hpm : p ∈ w.pool := by rw [← hs.pool]; exact getW_mem hg
        have hne : w.pool ≠ [] := fun hc => by rw [hc] at hpm; cases hpm
        have hsub := enqueueJob_mq_sublist p w1.env j
        cases he : p.enqueueJob w1.env j with
        | mk p' e' =>
          rw [he] at hsub
          simp only at hsub ⊢
          have hpw : (p.mq ++ [({ j with port := false } : Job)]).Pairwise KO := by
            refine List.pairwise_append.mpr ⟨h.m p hpm, List.pairwise_singleton _ _, ?_⟩
            intro a ha b hb
            simp only [List.mem_singleton] at hb; subst hb
            exact hj1 p hpm a ha
          refine ⟨by simp only; rw [hs.queue]; exact h.q, ?_, ?_, ?_, ?_⟩
          · intro x hx
            simp only at hx
            rcases mem_setW hx with hx | hx
            · subst hx; exact hpw.sublist hsub
            · exact h1.m x hx
          · intro x hx y hy; simp only at hx; exact h1.qi x hx y hy
          · intro x hx a ha y hy
            simp only at hx hy
            rcases mem_setW hx with hx | hx
            · subst hx
              rcases List.mem_append.mp (hsub.subset ha) with ha | ha
              · exact h1.mq p (getW_mem hg) a ha y hy
              · simp only [List.mem_singleton] at ha; subst ha
                exact hj2 hne y (by rw [← hs.queue]; exact hy)
            · exact h1.mq x hx a ha y hy
          · intro x hx a ha y hy
            simp only at hx
            rcases mem_setW hx with hx | hx
            · subst hx
              rcases List.mem_append.mp (hsub.subset ha) with ha | ha
              · exact h1.mi p (getW_mem hg) a ha y hy
              · simp only [List.mem_singleton] at ha; subst ha
                exact hj3 y hy
            · exact h1.mi x hx a ha y hy

theorem ordH_routeLimited (w : W) (j : Job) (hint : Option Nat) (h : OrdH I w)
    (hj1 : ∀ p ∈ w.pool, ∀ x ∈ p.mq, KO x j) (hj2 : w.pool ≠ [] → ∀ y ∈ w.queue, KO j y) (hj3 : ∀ y ∈ I, KO j y) :
    OrdH I (w.routeLimited j hint).2 := by
  unfold W.routeLimited
  split
  · exact ordH_routeInner w j hint h hj1 hj2 hj3
  · rename_i c lb _
    simp only
    have h0 : OrdH I { w with rl := some (c, (LeakyBucket.check c lb w.env.now).1) } := h.of_eq rfl rfl
    split
    · split
      · split
        · rename_i hh _
          have hf := availChange_frame ({ w with rl := some (c, (LeakyBucket.check c lb w.env.now).1) } : W) hh true
          exact h0.of_eq hf.queue hf.pool
        · exact h0
      · exact h0
    · have hi := ordH_routeInner _ j hint h0 hj1 hj2 hj3
      cases hr : W.routeInner { w with rl := some (c, (LeakyBucket.check c lb w.env.now).1) } j hint with
      | mk r w2 =>
        rw [hr] at hi
        simp only at hi ⊢
        split
        · exact hi.of_eq rfl rfl
        · exact hi

theorem ordH_routeMessage (w : W) (j : Job) (hint : Option Nat) (h : OrdH I w)
    (hj1 : ∀ p ∈ w.pool, ∀ x ∈ p.mq, KO x j) (hj2 : w.pool ≠ [] → ∀ y ∈ w.queue, KO j y) (hj3 : ∀ y ∈ I, KO j y) :
    OrdH I (w.routeMessage j hint).2 := by
  unfold W.routeMessage
  have hi := ordH_routeLimited w j hint h hj1 hj2 hj3
  cases hr : w.routeLimited j hint with
  | mk r w2 => rw [hr] at hi; exact hi.of_eq rfl rfl

theorem dropExpiredHead_pool (fuel : Nat) (w : W) : (W.dropExpiredHead fuel w).pool = w.pool :=
  (dropExpiredHead_samePool fuel w).1.pool

/-- the routing loop: the job it takes is the oldest of its key in the factory queue -/
theorem ordH_routeLoop (hint : Option Nat) (fuel : Nat) (w : W) (h : OrdH I w) : OrdH I (W.routeLoop hint fuel w) := by
  induction fuel generalizing w with
  | zero => exact h
  | succ fuel ih =>
    unfold W.routeLoop
    split
    · exact h
    · rename_i j _
      have hs := chooseTargetWorker_frame w j hint
      cases hc : w.chooseTargetWorker j hint with
      | mk t w1 =>
        rw [hc] at hs
        simp only at hs ⊢
        have h1 : OrdH I w1 := h.of_eq hs.queue hs.pool
        cases t with
        | none => exact h1
        | some worker =>
          simp only
          cases hp : qPopFront w1.cfg w1.queue with
          | none => exact h1
          | some jq =>
            obtain ⟨j', q'⟩ := jq
            simp only
            obtain ⟨_, _, _, _, pre, post, e1, e2, e3⟩ :=
              popByPrio_spec (show popByPrio w1.cfg prioUp w1.queue = some (j', q') from hp)
            have hsub : q'.Sublist w1.queue := by
              rw [e1, e2]; exact List.Sublist.append (List.Sublist.refl _) (List.sublist_cons_self _ _)
            have h2 : OrdH I ({ w1 with queue := q' } : W) := h1.sub hsub (PoolSub.of_eq rfl)
            have hjm : j' ∈ w1.queue := by rw [e1]; exact List.mem_append_right _ (List.mem_cons_self ..)
            have hr := ordH_routeMessage ({ w1 with queue := q' } : W) j' (some worker) h2
              (fun p hp x hx => h1.mq p hp x hx j' hjm)
              (fun _ y hy => by
                simp only at hy
                rw [e2] at hy
                rcases List.mem_append.mp hy with hy | hy
                · intro hk
                  exact absurd (prioOf_key w1.cfg y j' hk.symm) (e3 y hy)
                · have hq := h1.q
                  rw [e1] at hq
                  exact (List.pairwise_cons.mp (List.pairwise_append.mp hq).2.1).1 y hy)
              (fun y hy => h1.qi j' hjm y hy)
            cases hrm : W.routeMessage { w1 with queue := q' } j' (some worker) with
            | mk r w2 =>
              rw [hrm] at hr
              cases r with
              | handled => exact hr
              | rateLimited => exact ih _ (hr.of_eq rfl rfl)
              | backlog => exact hr.of_eq rfl rfl

theorem ordH_tryRoute (w : W) (hint : Option Nat) (h : OrdH I w) : OrdH I (w.tryRouteNextActiveJob hint) := by
  unfold W.tryRouteNextActiveJob
  apply ordH_routeLoop
  exact h.sub (qsub_dropExpiredHead _ w).queue (PoolSub.of_eq (dropExpiredHead_pool _ w))

theorem shedQueueOldest_sublist (limit fuel : Nat) (w : W) :
    (W.shedQueueOldest limit fuel w).queue.Sublist w.queue ∧ (W.shedQueueOldest limit fuel w).pool = w.pool := by
  induction fuel generalizing w with
  | zero => exact ⟨List.Sublist.refl _, rfl⟩
  | succ fuel ih =>
    unfold W.shedQueueOldest
    split
    · split
      · rename_i j q hp
        obtain ⟨i1, i2⟩ := ih ({ w with queue := q, env := w.env.discard w.handler .loadshed j } : W)
        exact ⟨i1.trans (popByPrio_sublist (show popByPrio w.cfg prioDown w.queue = some (j, q) from hp)), i2⟩
      · exact ih w
    · exact ⟨List.Sublist.refl _, rfl⟩

theorem maybeEnqueue_sublist (w : W) (j : Job) :
    (w.maybeEnqueue j).queue.Sublist (w.queue ++ [{ j with port := false }]) ∧ (w.maybeEnqueue j).pool = w.pool := by
  unfold W.maybeEnqueue
  split
  · split
    · exact ⟨List.sublist_append_left _ _, rfl⟩
    · exact ⟨List.Sublist.refl _, rfl⟩
  · dsimp only
    exact shedQueueOldest_sublist _ _ _
  · exact ⟨List.Sublist.refl _, rfl⟩

theorem routeInner_backlog_pool (w : W) (j : Job) (hint : Option Nat) (hb : (w.routeInner j hint).1 = .backlog) :
    (w.routeInner j hint).2.pool = w.pool := by
  unfold W.routeInner at hb ⊢
  have hs := chooseTargetWorker_frame w j hint
  cases hc : w.chooseTargetWorker j hint with
  | mk t w1 =>
    rw [hc] at hs hb
    simp only at hs hb ⊢
    cases t with
    | none => exact hs.pool
    | some wid =>
      simp only at hb ⊢
      cases hg : getW w1.pool wid with
      | none => simp only; exact hs.pool
      | some p => rw [hg] at hb; simp at hb

theorem routeMessage_backlog_pool (w : W) (j : Job) (hint : Option Nat) (hb : (w.routeMessage j hint).1 = .backlog) :
    (w.routeMessage j hint).2.pool = w.pool := by
  unfold W.routeMessage W.routeLimited at hb ⊢
  cases hrl : w.rl with
  | none =>
    simp only [hrl] at hb ⊢
    have := routeInner_backlog_pool w j hint
    cases hri : w.routeInner j hint with
    | mk r w2 =>
      rw [hri] at this hb
      simp only at this hb ⊢
      exact this hb
  | some cl =>
    obtain ⟨c, lb⟩ := cl
    simp only [hrl] at hb ⊢
    split at hb
    · simp at hb
    · rename_i hok
      simp only [hok, Bool.false_eq_true, if_false]
      have := routeInner_backlog_pool ({ w with rl := some (c, (LeakyBucket.check c lb w.env.now).1) } : W) j hint
      cases hri : W.routeInner { w with rl := some (c, (LeakyBucket.check c lb w.env.now).1) } j hint with
      | mk r w2 =>
        rw [hri] at this hb
        simp only at this hb ⊢
        split at hb
        · rename_i hh
          have : r = .handled := by simpa using hh
          subst this; simp at hb
        · rename_i hh
          simp only [hh, Bool.false_eq_true, if_false]
          exact this hb

/-- `dispatch` of the oldest dispatch in the mailbox -/
theorem ordH_dispatch (w : W) (j : Job) (h : OrdH I w) (hnb : w.pool ≠ [] → w.queue = [])
    (hjq : ∀ x ∈ w.queue, KO x j) (hj1 : ∀ p ∈ w.pool, ∀ x ∈ p.mq, KO x j) (hj3 : ∀ y ∈ I, KO j y) :
    OrdH I (w.dispatch j) := by
  unfold W.dispatch
  split
  · exact h.of_eq rfl rfl
  · split
    · have hf := routeMessage_frame w j none
      have hr := ordH_routeMessage w j none h hj1 (fun hne y hy => by rw [hnb hne] at hy; cases hy) hj3
      have hps := routeMessage_backlog_pool w j none
      cases hrm : w.routeMessage j none with
      | mk r w2 =>
        rw [hrm] at hf hr hps
        simp only at hf hr hps ⊢
        cases r with
        | handled => exact hr
        | rateLimited => exact hr.of_eq rfl rfl
        | backlog =>
          obtain ⟨ms, mp⟩ := maybeEnqueue_sublist w2 j
          have hq2 : (w2.queue ++ [({ j with port := false } : Job)]).Pairwise KO := by
            refine List.pairwise_append.mpr ⟨hr.q, List.pairwise_singleton _ _, ?_⟩
            intro a ha b hb
            simp only [List.mem_singleton] at hb; subst hb
            exact hjq a (by rw [← hf.queue]; exact ha)
          refine ⟨hq2.sublist ms, ?_, ?_, ?_, ?_⟩
          · intro p hp; rw [mp] at hp; exact hr.m p hp
          · intro x hx y hy
            rcases List.mem_append.mp (ms.subset hx) with hx | hx
            · exact hr.qi x hx y hy
            · simp only [List.mem_singleton] at hx; subst hx; exact hj3 y hy
          · intro p hp x hx y hy
            rw [mp] at hp
            rcases List.mem_append.mp (ms.subset hy) with hy | hy
            · exact hr.mq p hp x hx y hy
            · simp only [List.mem_singleton] at hy; subst hy
              -- every job in a worker queue after routing was there before, or is `j` itself — but `j` was not
              -- routed in this branch: the worker queues are those of `w`
              rw [hps rfl] at hp
              exact hj1 p hp x hx
          · intro p hp x hx y hy; rw [mp] at hp; exact hr.mi p hp x hx y hy
    · exact h.of_eq rfl rfl


/-! ## only `grow_pool` adds slots -/

theorem length_setW (pool : List WP) (wid : Nat) (p : WP) : (setW pool wid p).length = pool.length := by
  induction pool with
  | nil => rfl
  | cons x xs ih => unfold setW; split <;> simp [ih]

theorem length_removeW_le (pool : List WP) (wid : Nat) : (removeW pool wid).length ≤ pool.length := by
  induction pool with
  | nil => exact Nat.le_refl _
  | cons x xs ih => unfold removeW; split <;> simp <;> omega

/-- the pool got no new slot (only `grow_pool` adds slots) -/
structure PLen (w w' : W) : Prop where
  len : w'.pool.length ≤ w.pool.length

theorem PLen.refl (w : W) : PLen w w := ⟨Nat.le_refl _⟩
theorem PLen.trans {a b c : W} (h1 : PLen a b) (h2 : PLen b c) : PLen a c :=
  ⟨Nat.le_trans h2.len h1.len⟩

theorem plen_availChange (w : W) (wid : Nat) (b : Bool) : PLen w (w.availChange wid b) := by
  unfold W.availChange; split
  · split <;> exact ⟨Nat.le_refl _⟩
  · exact ⟨Nat.le_refl _⟩

theorem plen_choose (w : W) (j : Job) (hint : Option Nat) : PLen w (w.chooseTargetWorker j hint).2 := by
  unfold W.chooseTargetWorker
  split
  · split
    · exact ⟨Nat.le_refl _⟩
    · split
      · exact ⟨Nat.le_refl _⟩
      · split <;> exact ⟨Nat.le_refl _⟩
  · split <;> exact ⟨Nat.le_refl _⟩
  · split
    · exact ⟨Nat.le_refl _⟩
    · split
      · exact ⟨Nat.le_refl _⟩
      · split <;> exact ⟨Nat.le_refl _⟩
  · split
    · exact ⟨Nat.le_refl _⟩
    · split <;> exact ⟨Nat.le_refl _⟩
  · split <;> exact ⟨Nat.le_refl _⟩

theorem plen_routeInner (w : W) (j : Job) (hint : Option Nat) : PLen w (w.routeInner j hint).2 := by
  unfold W.routeInner
  have hs := plen_choose w j hint
  cases hc : w.chooseTargetWorker j hint with
  | mk t w1 =>
    rw [hc] at hs
    simp only at hs ⊢
    cases t with
    | none => exact hs
    | some wid =>
      simp only
      cases hg : getW w1.pool wid with
      | none => exact hs
      | some p => exact hs.trans ⟨by simp only [length_setW]; exact Nat.le_refl _⟩

theorem plen_routeLimited (w : W) (j : Job) (hint : Option Nat) : PLen w (w.routeLimited j hint).2 := by
  unfold W.routeLimited
  split
  · exact plen_routeInner w j hint
  · rename_i c lb _
    simp only
    have h0 : PLen w { w with rl := some (c, (LeakyBucket.check c lb w.env.now).1) } := ⟨Nat.le_refl _⟩
    split
    · split
      · split
        · rename_i hh _
          exact h0.trans (plen_availChange _ hh true)
        · exact h0
      · exact h0
    · have hi := plen_routeInner { w with rl := some (c, (LeakyBucket.check c lb w.env.now).1) } j hint
      cases hr : W.routeInner { w with rl := some (c, (LeakyBucket.check c lb w.env.now).1) } j hint with
      | mk r w2 =>
        rw [hr] at hi
        simp only at hi ⊢
        split
        · exact h0.trans (hi.trans ⟨Nat.le_refl _⟩)
        · exact h0.trans hi

theorem plen_routeMessage (w : W) (j : Job) (hint : Option Nat) : PLen w (w.routeMessage j hint).2 := by
  unfold W.routeMessage
  have hi := plen_routeLimited w j hint
  cases hr : w.routeLimited j hint with
  | mk r w2 => rw [hr] at hi; exact hi.trans ⟨Nat.le_refl _⟩

theorem plen_dropExpiredHead (fuel : Nat) (w : W) : PLen w (W.dropExpiredHead fuel w) := by
  induction fuel generalizing w with
  | zero => exact PLen.refl w
  | succ fuel ih =>
    unfold W.dropExpiredHead
    split
    · split
      · split
        · refine PLen.trans ?_ (ih _)
          exact ⟨Nat.le_refl _⟩
        · exact PLen.refl w
      · exact PLen.refl w
    · exact PLen.refl w

theorem plen_routeLoop (hint : Option Nat) (fuel : Nat) (w : W) : PLen w (W.routeLoop hint fuel w) := by
  induction fuel generalizing w with
  | zero => exact PLen.refl w
  | succ fuel ih =>
    unfold W.routeLoop
    split
    · exact PLen.refl w
    · rename_i j _
      have hs := plen_choose w j hint
      cases hc : w.chooseTargetWorker j hint with
      | mk t w1 =>
        rw [hc] at hs
        simp only at hs ⊢
        cases t with
        | none => exact hs
        | some worker =>
          simp only
          cases hp : qPopFront w1.cfg w1.queue with
          | none => exact hs
          | some jq =>
            obtain ⟨j', q⟩ := jq
            simp only
            have h1 : PLen w { w1 with queue := q } := hs.trans ⟨Nat.le_refl _⟩
            have hr := plen_routeMessage { w1 with queue := q } j' (some worker)
            cases hrm : W.routeMessage { w1 with queue := q } j' (some worker) with
            | mk r w2 =>
              rw [hrm] at hr
              cases r with
              | handled => exact h1.trans hr
              | rateLimited =>
                simp only
                refine (h1.trans hr).trans (PLen.trans ?_ (ih _))
                exact ⟨Nat.le_refl _⟩
              | backlog =>
                simp only
                exact (h1.trans hr).trans ⟨Nat.le_refl _⟩

theorem plen_tryRoute (w : W) (hint : Option Nat) : PLen w (w.tryRouteNextActiveJob hint) := by
  unfold W.tryRouteNextActiveJob
  exact (plen_dropExpiredHead _ w).trans (plen_routeLoop _ _ _)

theorem plen_shedQueueOldest (limit fuel : Nat) (w : W) : PLen w (W.shedQueueOldest limit fuel w) := by
  induction fuel generalizing w with
  | zero => exact PLen.refl w
  | succ fuel ih =>
    unfold W.shedQueueOldest
    split
    · split
      · refine PLen.trans ?_ (ih _)
        exact ⟨Nat.le_refl _⟩
      · exact ih w
    · exact PLen.refl w

theorem plen_maybeEnqueue (w : W) (j : Job) : PLen w (w.maybeEnqueue j) := by
  unfold W.maybeEnqueue
  split
  · split <;> exact ⟨Nat.le_refl _⟩
  · dsimp only
    refine PLen.trans ?_ (plen_shedQueueOldest _ _ _)
    exact ⟨Nat.le_refl _⟩
  · exact ⟨Nat.le_refl _⟩

theorem plen_foldl {f : W → Nat → W} (hf : ∀ w k, PLen w (f w k)) (l : List Nat) (w : W) : PLen w (l.foldl f w) := by
  induction l generalizing w with
  | nil => exact PLen.refl w
  | cons a l ih => exact (hf w a).trans (ih _)

theorem plen_shrinkOne (w : W) (wid : Nat) : PLen w (w.shrinkOne wid) := by
  unfold W.shrinkOne
  split
  · split
    · exact ⟨by simp only [length_setW]; exact Nat.le_refl _⟩
    · exact (plen_availChange w wid false).trans ⟨by simp only; exact length_removeW_le _ _⟩
  · exact PLen.refl w

theorem plen_shrinkPool (w : W) (n : Nat) : PLen w (w.shrinkPool n) := by
  unfold W.shrinkPool; exact plen_foldl (fun w k => plen_shrinkOne w _) _ w

theorem plen_flushAfterGrow (fuel : Nat) (w : W) : PLen w (W.flushAfterGrow fuel w) := by
  induction fuel generalizing w with
  | zero => exact PLen.refl w
  | succ fuel ih =>
    unfold W.flushAfterGrow
    simp only
    split
    · exact PLen.refl w
    · split
      · exact plen_tryRoute w none
      · exact (plen_tryRoute w none).trans (ih _)

theorem plen_dispatch (w : W) (j : Job) : PLen w (w.dispatch j) := by
  unfold W.dispatch
  split
  · exact ⟨Nat.le_refl _⟩
  · split
    · have hr := plen_routeMessage w j none
      cases hrm : w.routeMessage j none with
      | mk r w2 =>
        rw [hrm] at hr
        cases r with
        | handled => exact hr
        | rateLimited => exact hr.trans ⟨Nat.le_refl _⟩
        | backlog => exact hr.trans (plen_maybeEnqueue w2 j)
    · exact ⟨Nat.le_refl _⟩

theorem plen_ite (c : Prop) [Decidable c] (w a b : W) (ha : PLen w a) (hb : PLen w b) : PLen w (if c then a else b) := by
  split <;> assumption

theorem plen_workerFinishedJob (w : W) (who key : Nat) : PLen w (w.workerFinishedJob who key) := by
  unfold W.workerFinishedJob
  split
  · rename_i p _
    cases hwc : p.workerComplete w.env key with
    | mk p' e' =>
      simp only
      have h1 : PLen w { w with pool := setW w.pool who p', env := e' } := ⟨by simp only [length_setW]; exact Nat.le_refl _⟩
      split
      · split
        · exact ⟨by simp only; exact Nat.le_trans (length_removeW_le _ _) (by rw [length_setW]; exact Nat.le_refl _)⟩
        · exact h1
      · apply plen_ite
        · exact (h1.trans (plen_tryRoute _ _)).trans (plen_availChange _ _ _)
        · exact h1.trans (plen_tryRoute _ _)
  · exact plen_tryRoute w _

theorem plen_removeExpired (w : W) : PLen w w.removeExpired := by
  unfold W.removeExpired
  split
  · exact ⟨Nat.le_refl _⟩
  · exact PLen.refl w

theorem plen_calcRest (w : W) : PLen w w.calcRest := by
  unfold W.calcRest
  exact (plen_removeExpired w).trans ⟨Nat.le_refl _⟩

theorem plen_afterReplace (w : W) (wid : Nat) : PLen w (w.afterReplace wid) := by
  unfold W.afterReplace
  cases hret : w.retireIdleDrainingWorker wid with
  | some w2 =>
    simp only
    unfold W.retireIdleDrainingWorker at hret
    split at hret
    · split at hret
      · simp only [Option.some.injEq] at hret; subst hret
        exact ⟨by simp only; exact length_removeW_le _ _⟩
      · simp at hret
    · simp at hret
  | none =>
    simp only
    apply plen_ite
    · exact (plen_tryRoute _ _).trans (plen_availChange _ _ _)
    · exact plen_tryRoute _ _

theorem plen_handleSupervisorEvt (w : W) (who : Nat) : PLen w (w.handleSupervisorEvt who) := by
  unfold W.handleSupervisorEvt
  split
  · exact PLen.refl w
  · rename_i wid _
    split
    · exact PLen.refl w
    · rename_i p _
      simp only
      cases hrw : p.replaceWorker (w.env.spawn wid w.nextAid) w.nextAid with
      | mk p' e' =>
        simp only
        refine PLen.trans ?_ (plen_afterReplace _ wid)
        exact ⟨by simp only [length_setW]; exact Nat.le_refl _⟩



/-! ## the invariant through the factory's handlers -/

theorem ordH_growOne (w : W) (wid : Nat) (h : OrdH I w) : OrdH I (w.growOne wid) := by
  unfold W.growOne
  split
  · rename_i p hg
    dsimp only
    have h1 : OrdH I ({ w with pool := setW w.pool wid { p with draining := false } } : W) :=
      h.sub (List.Sublist.refl _) (poolSub_setW (p' := { p with draining := false }) hg (List.Sublist.refl _) rfl)
    split
    · have hf := availChange_frame ({ w with pool := setW w.pool wid { p with draining := false } } : W) wid true
      exact h1.of_eq hf.queue hf.pool
    · exact h1
  · dsimp only
    have hf := availChange_frame ({ w with
        nextAid := w.nextAid + 1
        env := w.env.spawn wid w.nextAid
        pool := w.pool ++ [({ wid := wid, actor := w.nextAid, disc := w.workerDiscard w.disc, handler := w.handler } : WP)]
        byActor := w.byActor ++ [(w.nextAid, wid)] } : W) wid true
    refine OrdH.of_eq ?_ hf.queue hf.pool
    refine ⟨h.q, ?_, h.qi, ?_, ?_⟩
    · intro p hp
      rcases List.mem_append.mp hp with hp | hp
      · exact h.m p hp
      · simp only [List.mem_singleton] at hp; subst hp; exact List.Pairwise.nil
    · intro p hp x hx y hy
      rcases List.mem_append.mp hp with hp | hp
      · exact h.mq p hp x hx y hy
      · simp only [List.mem_singleton] at hp; subst hp; cases hx
    · intro p hp x hx y hy
      rcases List.mem_append.mp hp with hp | hp
      · exact h.mi p hp x hx y hy
      · simp only [List.mem_singleton] at hp; subst hp; cases hx

theorem ordH_foldl {f : W → Nat → W} (hf : ∀ w k, OrdH I w → OrdH I (f w k)) (l : List Nat) (w : W)
    (h : OrdH I w) : OrdH I (l.foldl f w) := by
  induction l generalizing w with
  | nil => exact h
  | cons a l ih => exact ih _ (hf _ _ h)

theorem ordH_growPool (w : W) (n : Nat) (h : OrdH I w) : OrdH I (w.growPool n) := by
  unfold W.growPool
  exact ordH_foldl (fun w k hw => ordH_growOne w _ hw) _ w h

theorem ordH_shrinkOne (w : W) (wid : Nat) (h : OrdH I w) : OrdH I (w.shrinkOne wid) := by
  unfold W.shrinkOne
  split
  · rename_i p hg
    split
    · exact h.sub (List.Sublist.refl _) (poolSub_setW (p' := { p with draining := true }) hg (List.Sublist.refl _) rfl)
    · have hf := availChange_frame w wid false
      have h1 : OrdH I (w.availChange wid false) := h.of_eq hf.queue hf.pool
      exact h1.sub (List.Sublist.refl _) (poolSub_removeW rfl)
  · exact h

theorem ordH_shrinkPool (w : W) (n : Nat) (h : OrdH I w) : OrdH I (w.shrinkPool n) := by
  unfold W.shrinkPool
  exact ordH_foldl (fun w k hw => ordH_shrinkOne w _ hw) _ w h

theorem ordH_flushAfterGrow (fuel : Nat) (w : W) (h : OrdH I w) : OrdH I (W.flushAfterGrow fuel w) := by
  induction fuel generalizing w with
  | zero => exact h
  | succ fuel ih =>
    unfold W.flushAfterGrow
    simp only
    split
    · exact h
    · split
      · exact ordH_tryRoute w none h
      · exact ih _ (ordH_tryRoute w none h)

theorem ordH_resizePool (w : W) (n : Nat) (h : OrdH I w) : OrdH I (w.resizePool n) := by
  unfold W.resizePool
  split
  · exact h
  · simp only
    split
    · exact ordH_flushAfterGrow _ _ ((ordH_growPool w _ h).of_eq rfl rfl)
    · split
      · exact (ordH_shrinkPool w _ h).of_eq rfl rfl
      · exact h.of_eq rfl rfl

theorem ordH_ite (c : Prop) [Decidable c] (a b : W) (ha : OrdH I a) (hb : OrdH I b) : OrdH I (if c then a else b) := by
  split <;> assumption

theorem ordH_workerFinishedJob (w : W) (who key : Nat) (h : OrdH I w) : OrdH I (w.workerFinishedJob who key) := by
  unfold W.workerFinishedJob
  split
  · rename_i p hg
    have hsub := workerComplete_mq_sublist p w.env key
    cases hwc : p.workerComplete w.env key with
    | mk p' e' =>
      rw [hwc] at hsub
      simp only at hsub ⊢
      have h1 : OrdH I ({ w with pool := setW w.pool who p', env := e' } : W) :=
        h.sub (List.Sublist.refl _) (poolSub_setW hg hsub rfl)
      split
      · split
        · exact h1.sub (List.Sublist.refl _) (poolSub_removeW rfl)
        · exact h1
      · apply ordH_ite
        · have hf := availChange_frame (W.tryRouteNextActiveJob { w with pool := setW w.pool who p', env := e' } (some who)) who true
          exact (ordH_tryRoute _ _ h1).of_eq hf.queue hf.pool
        · exact ordH_tryRoute _ _ h1
  · exact ordH_tryRoute w _ h

theorem ordH_removeExpired (w : W) (h : OrdH I w) : OrdH I w.removeExpired := by
  unfold W.removeExpired
  split
  · exact h.sub List.filter_sublist (PoolSub.of_eq rfl)
  · exact h

theorem ordH_calcRest (w : W) (h : OrdH I w) : OrdH I w.calcRest := by
  unfold W.calcRest
  exact (ordH_removeExpired w h).of_eq rfl rfl

theorem ordH_updateSettings (w : W) (d : Option (Option (Nat × Mode))) (n : Option Nat) (h : OrdH I w) :
    OrdH I (w.updateSettings d n) := by
  unfold W.updateSettings
  have h1 : OrdH I (match d with
      | some d => { w with pool := w.pool.map (fun p => { p with disc := w.workerDiscard d }), disc := d }
      | none => w) := by
    cases d with
    | none => exact h
    | some d => exact h.sub (List.Sublist.refl _) (poolSub_map (fun p => { p with disc := w.workerDiscard d }) (fun _ => rfl) rfl)
  cases n with
  | none => exact h1
  | some n => exact ordH_resizePool _ n h1

theorem ordH_afterReplace (w : W) (wid : Nat) (h : OrdH I w) : OrdH I (w.afterReplace wid) := by
  unfold W.afterReplace
  cases hret : w.retireIdleDrainingWorker wid with
  | some w2 =>
    simp only
    unfold W.retireIdleDrainingWorker at hret
    split at hret
    · split at hret
      · simp only [Option.some.injEq] at hret; subst hret
        exact h.sub (List.Sublist.refl _) (poolSub_removeW rfl)
      · simp at hret
    · simp at hret
  | none =>
    simp only
    apply ordH_ite
    · have hf := availChange_frame (w.tryRouteNextActiveJob (some wid)) wid true
      exact (ordH_tryRoute _ _ h).of_eq hf.queue hf.pool
    · exact ordH_tryRoute _ _ h

theorem ordH_handleSupervisorEvt (w : W) (who : Nat) (h : OrdH I w) : OrdH I (w.handleSupervisorEvt who) := by
  unfold W.handleSupervisorEvt
  split
  · exact h
  · rename_i wid _
    split
    · exact h
    · rename_i p hg
      simp only
      have hsub := replaceWorker_mq_sublist p (w.env.spawn wid w.nextAid) w.nextAid
      cases hrw : p.replaceWorker (w.env.spawn wid w.nextAid) w.nextAid with
      | mk p' e' =>
        rw [hrw] at hsub
        simp only at hsub ⊢
        apply ordH_afterReplace
        exact h.sub (List.Sublist.refl _) (poolSub_setW hg hsub rfl)

theorem ordH_weaken {I' : List Job} {w : W} (h : OrdH I w) (hs : ∀ y ∈ I', y ∈ I) : OrdH I' w :=
  ⟨h.q, h.m, fun x hx y hy => h.qi x hx y (hs y hy), h.mq, fun p hp x hx y hy => h.mi p hp x hx y (hs y hy)⟩

/-- the combined invariant at handler level -/
structure KInv (I : List Job) (w : W) : Prop where
  ord : OrdH I w
  nb : NB w
  pz : w.poolSize = 0 → w.pool = []

theorem KInv.empty_queue {w : W} (h : KInv I w) : w.pool ≠ [] → w.queue = [] := by
  intro hp
  apply Classical.byContradiction
  intro hq
  exact hp (h.pz (h.nb.empty hq))

theorem KInv.step {w w' : W} (h : KInv I w) (ho : OrdH I w') (hn : NB w') (hl : PLen w w') (hp : PSz w w') : KInv I w' := by
  refine ⟨ho, hn, ?_⟩
  intro hz
  rw [hp.poolSize] at hz
  have := h.pz hz
  have hl' := hl.len
  rw [this] at hl'
  exact List.eq_nil_of_length_eq_zero (by simpa using hl')

theorem plen_handleMsg_other (w : W) (m : FMsg) (hm : ∀ n, m ≠ .adjust n) (hu : ∀ d n, m ≠ .updateSettings d n) :
    PLen w (w.handleMsg m) ∧ PSz w (w.handleMsg m) := by
  cases m with
  | dispatch j => exact ⟨plen_dispatch w j, psz_dispatch w j⟩
  | finished who key => exact ⟨plen_workerFinishedJob w who key, psz_workerFinishedJob w who key⟩
  | adjust n => exact absurd rfl (hm n)
  | updateSettings d n => exact absurd rfl (hu d n)
  | setHandler hd => exact ⟨⟨by simp [W.handleMsg, W.setHandler]⟩, ⟨rfl⟩⟩
  | drainRequests => exact ⟨⟨Nat.le_refl _⟩, ⟨rfl⟩⟩
  | calculate =>
    show PLen w (if w.cfg.hasCC && w.armed then { w with armed := false, blocked := true } else w.calcRest) ∧
      PSz w (if w.cfg.hasCC && w.armed then { w with armed := false, blocked := true } else w.calcRest)
    split
    · exact ⟨⟨Nat.le_refl _⟩, ⟨rfl⟩⟩
    · exact ⟨plen_calcRest w, psz_calcRest w⟩
  | getQueueDepth => exact ⟨⟨Nat.le_refl _⟩, ⟨rfl⟩⟩
  | getNumActiveWorkers => exact ⟨⟨Nat.le_refl _⟩, ⟨rfl⟩⟩
  | getAvailableCapacity => exact ⟨⟨Nat.le_refl _⟩, ⟨rfl⟩⟩

theorem pz_resizePool (w : W) (n : Nat) (h : w.poolSize = 0 → w.pool = []) :
    (w.resizePool n).poolSize = 0 → (w.resizePool n).pool = [] := by
  intro hz
  rw [resizePool_poolSize] at hz
  by_cases hn : n = 0
  · subst hn
    have : w.resizePool 0 = w := by unfold W.resizePool; simp
    rw [this]; simp only [if_true] at hz; exact h hz
  · simp only [hn, if_false] at hz
    unfold GLOBAL_WORKER_POOL_MAXIMUM at hz
    omega

/-- the inbox-independent messages -/
theorem kinv_handleMsg (w : W) (m : FMsg) (hm : ∀ j, m ≠ .dispatch j) (h : KInv I w) : KInv I (w.handleMsg m) := by
  have hnb := nb_handleMsg w m h.nb
  cases m with
  | dispatch j => exact absurd rfl (hm j)
  | finished who key =>
    exact h.step (ordH_workerFinishedJob w who key h.ord) hnb (plen_workerFinishedJob w who key) (psz_workerFinishedJob w who key)
  | adjust n => exact ⟨ordH_resizePool w n h.ord, hnb, pz_resizePool w n h.pz⟩
  | updateSettings d n =>
    refine ⟨ordH_updateSettings w d n h.ord, hnb, ?_⟩
    have h1 : (w.updateSettings d none).poolSize = 0 → (w.updateSettings d none).pool = [] := by
      cases d with
      | none => exact h.pz
      | some d =>
        intro hz
        have := h.pz hz
        show List.map _ w.pool = []
        rw [this]; rfl
    cases n with
    | none => exact h1
    | some n =>
      have : w.handleMsg (.updateSettings d (some n)) = (w.updateSettings d none).resizePool n := by
        show w.updateSettings d (some n) = _
        unfold W.updateSettings; rfl
      rw [this]; exact pz_resizePool _ n h1
  | setHandler hd =>
    exact h.step (h.ord.sub (List.Sublist.refl _) (poolSub_map (fun p => { p with handler := hd }) (fun _ => rfl) rfl)) hnb
      ⟨by simp [W.handleMsg, W.setHandler]⟩ ⟨rfl⟩
  | drainRequests => exact h.step (h.ord.of_eq rfl rfl) hnb ⟨Nat.le_refl _⟩ ⟨rfl⟩
  | calculate =>
    have hp := plen_handleMsg_other w .calculate (fun _ hc => by cases hc) (fun _ _ hc => by cases hc)
    refine h.step ?_ hnb hp.1 hp.2
    show OrdH I (if w.cfg.hasCC && w.armed then { w with armed := false, blocked := true } else w.calcRest)
    split
    · exact h.ord.of_eq rfl rfl
    · exact ordH_calcRest w h.ord
  | getQueueDepth => exact h.step (h.ord.of_eq rfl rfl) hnb ⟨Nat.le_refl _⟩ ⟨rfl⟩
  | getNumActiveWorkers => exact h.step (h.ord.of_eq rfl rfl) hnb ⟨Nat.le_refl _⟩ ⟨rfl⟩
  | getAvailableCapacity => exact h.step (h.ord.of_eq rfl rfl) hnb ⟨Nat.le_refl _⟩ ⟨rfl⟩

/-- the oldest dispatch of the mailbox is handled -/
theorem kinv_dispatch (w : W) (j : Job) (h : KInv (j :: I) w) (hi : (j :: I).Pairwise KO) : KInv I (w.dispatch j) := by
  have h0 : KInv I w := ⟨ordH_weaken h.ord (fun y hy => List.mem_cons_of_mem _ hy), h.nb, h.pz⟩
  refine h0.step ?_ (nb_dispatch w j h.nb) (plen_dispatch w j) (psz_dispatch w j)
  exact ordH_dispatch w j h0.ord h0.empty_queue
    (fun x hx => h.ord.qi x hx j (List.mem_cons_self ..))
    (fun p hp x hx => h.ord.mi p hp x hx j (List.mem_cons_self ..))
    (fun y hy => (List.pairwise_cons.mp hi).1 y hy)


/-! ## over a run -/

theorem KInv.same {w w' : W} (h : KInv I w) (hq : w'.queue = w.queue) (hp : w'.pool = w.pool) (hs : w'.poolSize = w.poolSize)
    (hc : w'.cfg = w.cfg) : KInv I w' :=
  ⟨h.ord.of_eq hq hp, nb_same h.nb hc hq hs hp, by rw [hs, hp]; exact h.pz⟩

/-- the invariant between two steps of the factory actor -/
structure KI (w : W) : Prop where
  k : KInv (inboxJobs w.inbox) w
  i : (inboxJobs w.inbox).Pairwise KO

theorem afterHandle_fields (w : W) : w.afterHandle.queue = w.queue ∧ w.afterHandle.pool = w.pool ∧
    w.afterHandle.poolSize = w.poolSize ∧ w.afterHandle.cfg = w.cfg ∧ w.afterHandle.inbox = w.inbox := by
  obtain ⟨f, hi, _⟩ := afterHandle_act w
  have hq := qsub_afterHandle w
  refine ⟨?_, f.pool, ?_, hq.cfg, hi⟩
  · unfold W.afterHandle
    split
    · rfl
    · obtain ⟨_, _, _, _, _, h6⟩ := isDrained_fields w
      cases hd : w.isDrained with
      | mk d w2 => rw [hd] at h6; simp only at h6 ⊢; split <;> exact h6
  · unfold W.afterHandle
    split
    · rfl
    · have := isDrained_poolSize w
      cases hd : w.isDrained with
      | mk d w2 => rw [hd] at this; simp only at this ⊢; split <;> exact this

theorem ki_loopStep (w w' : W) (h : KI w) (hl : w.loopStep = some w') : KI w' := by
  have hnb := nb_loopStep w w' h.k.nb hl
  unfold W.loopStep at hl
  split at hl
  · simp at hl
  · split at hl
    · simp only [Option.some.injEq] at hl; subst hl
      refine ⟨⟨?_, hnb, fun _ => rfl⟩, h.i⟩
      refine ⟨List.Pairwise.nil, ?_, ?_, ?_, ?_⟩
      · intro p hp; cases hp
      · intro x hx; cases hx
      · intro p hp; cases hp
      · intro p hp; cases hp
    · split at hl
      · rename_i who rest _
        simp only [Option.some.injEq] at hl; subst hl
        have hi := (ctl_handleSupervisorEvt ({ w with env := { w.env with sup := rest } } : W) who).inbox
        have h1 : KInv (inboxJobs w.inbox) ({ w with env := { w.env with sup := rest } } : W) := h.k.same rfl rfl rfl rfl
        have h2 := h1.step (ordH_handleSupervisorEvt _ who h1.ord) hnb (plen_handleSupervisorEvt _ who) (psz_handleSupervisorEvt _ who)
        refine ⟨by rw [hi]; exact h2, by rw [hi]; exact h.i⟩
      · split at hl
        · rename_i m rest hin
          simp only [Option.some.injEq] at hl; subst hl
          obtain ⟨f1, f2, f3, f4, f5⟩ := afterHandle_fields (W.handleMsg { w with inbox := rest } m)
          have hib : (W.handleMsg { w with inbox := rest } m).afterHandle.inbox = rest := by
            rw [f5, handleMsg_inbox]
          have hk := h.k
          have hi := h.i
          rw [hin] at hk hi
          have hmid : KInv (inboxJobs rest) (W.handleMsg { w with inbox := rest } m) ∧ (inboxJobs rest).Pairwise KO := by
            cases m with
            | dispatch j =>
              simp only [inboxJobs] at hk hi
              have hk' : KInv (j :: inboxJobs rest) ({ w with inbox := rest } : W) := hk.same rfl rfl rfl rfl
              exact ⟨kinv_dispatch _ j hk' hi, (List.pairwise_cons.mp hi).2⟩
            | finished who key =>
              exact ⟨kinv_handleMsg _ _ (fun _ hc => by cases hc) (hk.same rfl rfl rfl rfl), hi⟩
            | adjust n => exact ⟨kinv_handleMsg _ _ (fun _ hc => by cases hc) (hk.same rfl rfl rfl rfl), hi⟩
            | updateSettings d n => exact ⟨kinv_handleMsg _ _ (fun _ hc => by cases hc) (hk.same rfl rfl rfl rfl), hi⟩
            | setHandler hd => exact ⟨kinv_handleMsg _ _ (fun _ hc => by cases hc) (hk.same rfl rfl rfl rfl), hi⟩
            | drainRequests => exact ⟨kinv_handleMsg _ _ (fun _ hc => by cases hc) (hk.same rfl rfl rfl rfl), hi⟩
            | calculate => exact ⟨kinv_handleMsg _ _ (fun _ hc => by cases hc) (hk.same rfl rfl rfl rfl), hi⟩
            | getQueueDepth => exact ⟨kinv_handleMsg _ _ (fun _ hc => by cases hc) (hk.same rfl rfl rfl rfl), hi⟩
            | getNumActiveWorkers => exact ⟨kinv_handleMsg _ _ (fun _ hc => by cases hc) (hk.same rfl rfl rfl rfl), hi⟩
            | getAvailableCapacity => exact ⟨kinv_handleMsg _ _ (fun _ hc => by cases hc) (hk.same rfl rfl rfl rfl), hi⟩
          refine ⟨by rw [hib]; exact hmid.1.same f1 f2 f3 f4, by rw [hib]; exact hmid.2⟩
        · simp at hl

theorem ki_runQ (fuel : Nat) (w : W) (h : KI w) : KI (W.runQ fuel w) := by
  induction fuel generalizing w with
  | zero => exact h
  | succ fuel ih =>
    unfold W.runQ
    cases hl : w.loopStep with
    | some w' => simp only; exact ih _ (ki_loopStep w w' h hl)
    | none =>
      simp only
      have hs : KI (W.tryFinishStop { w with env := w.env.settle }) := by
        unfold W.tryFinishStop
        split
        · refine ⟨?_, List.Pairwise.nil⟩
          have := h.k.same (w' := ({ w with env := w.env.settle } : W)) rfl rfl rfl rfl
          exact ⟨(ordH_weaken (I' := []) this.ord (fun y hy => by cases hy)).of_eq rfl rfl, nb_same this.nb rfl rfl rfl rfl, this.pz⟩
        · exact ⟨h.k.same rfl rfl rfl rfl, h.i⟩
      split
      · exact hs
      · exact ih _ hs

/-- a message that is no dispatch joins the mailbox -/
theorem ki_send (w : W) (m : FMsg) (hm : ∀ j, m ≠ .dispatch j) (h : KI w) : KI (w.send m) := by
  unfold W.send
  split
  · exact h
  · have : inboxJobs (w.inbox ++ [m]) = inboxJobs w.inbox := by
      rw [inboxJobs_append]
      cases m <;> first | exact absurd rfl (hm _) | simp [inboxJobs]
    refine ⟨?_, ?_⟩
    · show KInv (inboxJobs (w.inbox ++ [m])) _
      rw [this]; exact h.k.same rfl rfl rfl rfl
    · show (inboxJobs (w.inbox ++ [m])).Pairwise KO
      rw [this]; exact h.i

/-- everything that still waits for a worker -/
def waiting (w : W) : List Job := inboxJobs w.inbox ++ w.queue ++ w.pool.flatMap (·.mq)

/-- a new dispatch joins the mailbox: it is younger than everything that waits -/
theorem ki_send_dispatch (w : W) (j : Job) (hf : ∀ x ∈ waiting w, KO x j) (h : KI w) : KI (w.send (.dispatch j)) := by
  unfold W.send
  split
  · exact h
  · have hI : inboxJobs (w.inbox ++ [.dispatch j]) = inboxJobs w.inbox ++ [j] := by
      rw [inboxJobs_append]; rfl
    have hfi : ∀ x ∈ inboxJobs w.inbox, KO x j := fun x hx =>
      hf x (List.mem_append_left _ (List.mem_append_left _ hx))
    have hfq : ∀ x ∈ w.queue, KO x j := fun x hx =>
      hf x (List.mem_append_left _ (List.mem_append_right _ hx))
    have hfm : ∀ p ∈ w.pool, ∀ x ∈ p.mq, KO x j := fun p hp x hx =>
      hf x (List.mem_append_right _ (List.mem_flatMap.mpr ⟨p, hp, hx⟩))
    refine ⟨?_, ?_⟩
    · show KInv (inboxJobs (w.inbox ++ [.dispatch j])) _
      rw [hI]
      have hk := h.k
      refine ⟨⟨hk.ord.q, hk.ord.m, ?_, hk.ord.mq, ?_⟩, nb_same hk.nb rfl rfl rfl rfl, hk.pz⟩
      · intro x hx y hy
        rcases List.mem_append.mp hy with hy | hy
        · exact hk.ord.qi x hx y hy
        · simp only [List.mem_singleton] at hy; subst hy; exact hfq x hx
      · intro p hp x hx y hy
        rcases List.mem_append.mp hy with hy | hy
        · exact hk.ord.mi p hp x hx y hy
        · simp only [List.mem_singleton] at hy; subst hy; exact hfm p hp x hx
    · show (inboxJobs (w.inbox ++ [.dispatch j])).Pairwise KO
      rw [hI]
      refine List.pairwise_append.mpr ⟨h.i, List.pairwise_singleton _ _, ?_⟩
      intro a ha b hb
      simp only [List.mem_singleton] at hb; subst hb
      exact hfi a ha

theorem KI.same {w w' : W} (h : KI w) (hq : w'.queue = w.queue) (hp : w'.pool = w.pool) (hs : w'.poolSize = w.poolSize)
    (hc : w'.cfg = w.cfg) (hi : w'.inbox = w.inbox) : KI w' :=
  ⟨by rw [hi]; exact h.k.same hq hp hs hc, by rw [hi]; exact h.i⟩

theorem ki_advanceTo (t fuel : Nat) (w : W) (h : KI w) : KI (W.advanceTo t fuel w) := by
  induction fuel generalizing w with
  | zero => exact h.same rfl rfl rfl rfl rfl
  | succ fuel ih =>
    unfold W.advanceTo
    split
    · simp only
      apply ih
      apply ki_runQ
      apply ki_send _ _ (fun _ hc => by cases hc)
      exact h.same rfl rfl rfl rfl rfl
    · exact h.same rfl rfl rfl rfl rfl

theorem ki_finish (w : W) (aid : Nat) (ok : Bool) (h : KI w) : KI (w.finish aid ok) := by
  unfold W.finish
  cases ha : w.env.getActor aid with
  | none => exact h
  | some a =>
    simp only
    cases hr : a.running with
    | none => exact h
    | some j =>
      simp only
      split
      · exact h
      · split
        · exact h.same rfl rfl rfl rfl rfl
        · have h1 : KI (W.send { w with env := (w.env.emit (.finishOk aid)).emit (.handled aid j.id) } (.finished a.wid j.key)) :=
            ki_send _ _ (fun _ hc => by cases hc) (h.same rfl rfl rfl rfl rfl)
          exact h1.same rfl rfl rfl rfl rfl

theorem ki_release_tail (w0 : W) (n : Nat) (h0 : KI w0) :
    KI ((if w0.poolSize != n then w0.resizePool n else w0).calcRest.afterHandle) := by
  have h1 : KI (if w0.poolSize != n then w0.resizePool n else w0) := by
    split
    · have hi := (ctl_resizePool w0 n).inbox
      exact ⟨by rw [hi]; exact ⟨ordH_resizePool w0 n h0.k.ord, nb_resizePool w0 n h0.k.nb, pz_resizePool w0 n h0.k.pz⟩,
        by rw [hi]; exact h0.i⟩
    · exact h0
  generalize (if w0.poolSize != n then w0.resizePool n else w0) = w1 at h1
  have h2 : KI w1.calcRest := by
    have hi := (ctl_calcRest w1).inbox
    have hk : KInv (inboxJobs w1.inbox) w1.calcRest :=
      h1.k.step (ordH_calcRest w1 h1.k.ord)
        (h1.k.nb.frames (qsub_calcRest w1) (psz_calcRest w1) (shapeInv_calcRest w1 h1.k.nb.shape))
        (plen_calcRest w1) (psz_calcRest w1)
    exact ⟨by rw [hi]; exact hk, by rw [hi]; exact h1.i⟩
  obtain ⟨f1, f2, f3, f4, f5⟩ := afterHandle_fields w1.calcRest
  exact h2.same f1 f2 f3 f4 f5

/-- the op is no dispatch, or the job it submits is younger than everything that waits -/
def opFresh (w : W) : Op → Prop
  | .dispatch id key _ _ _ => ∀ x ∈ waiting w, x.key = key → x.id < id
  | _ => True

theorem ki_applyOp (w : W) (op : Op) (hf : opFresh w op) (h : KI w) : KI (w.applyOp op) := by
  cases op with
  | dispatch id key hash ttl acc =>
    simp only [W.applyOp]
    split
    · exact h
    · apply ki_send_dispatch
      · intro x hx hk
        exact hf x hx hk
      · exact h.same rfl rfl rfl rfl rfl
  | finish aid ok => exact ki_finish w aid ok h
  | kill aid => exact h.same rfl rfl rfl rfl rfl
  | resize n => exact ki_send _ _ (fun _ hc => by cases hc) (h.same rfl rfl rfl rfl rfl)
  | settings d n =>
    simp only [W.applyOp]
    apply ki_send _ _ (fun _ hc => by cases hc)
    cases d with
    | none => cases n with
      | none => exact h
      | some n => exact h.same rfl rfl rfl rfl rfl
    | some d => cases n with
      | none => exact h.same rfl rfl rfl rfl rfl
      | some n => exact h.same rfl rfl rfl rfl rfl
  | drain => exact ki_send _ _ (fun _ hc => by cases hc) (h.same rfl rfl rfl rfl rfl)
  | setHandler hd => exact ki_send _ _ (fun _ hc => by cases hc) (h.same rfl rfl rfl rfl rfl)
  | advance => exact h
  | block => exact h.same rfl rfl rfl rfl rfl
  | release n =>
    simp only [W.applyOp]
    split
    · exact ki_release_tail ({ w.emit (.released n) with blocked := false } : W) n (h.same rfl rfl rfl rfl rfl)
    · exact h
  | nop => exact h

theorem ki_ask (w : W) (m : FMsg) (hm : ∀ j, m ≠ .dispatch j) (h : KI w) : KI (w.ask m) := by
  unfold W.ask
  split
  · exact h.same rfl rfl rfl rfl rfl
  · simp only
    have h1 := ki_runQ RUN_FUEL _ (ki_send w m hm h)
    split
    · exact h1.same rfl rfl rfl rfl rfl
    · exact h1

theorem ki_queries (w : W) (h : KI w) : KI w.queries := by
  unfold W.queries
  split
  · exact h.same rfl rfl rfl rfl rfl
  · exact ki_ask _ _ (fun _ hc => by cases hc) (ki_ask _ _ (fun _ hc => by cases hc)
      (ki_ask _ _ (fun _ hc => by cases hc) (h.same rfl rfl rfl rfl rfl)))

theorem ki_stepOp (w : W) (op : Op) (t0 tq te : Nat) (h : KI w)
    (hf : opFresh (W.advanceTo t0 (advanceFuel w t0) w) op) : KI (w.stepOp op t0 tq te) := by
  unfold W.stepOp
  simp only
  generalize hw1 : W.advanceTo t0 (advanceFuel w t0) w = w1 at hf
  have h1 : KI w1 := by rw [← hw1]; exact ki_advanceTo _ _ _ h
  generalize hw2 : W.runQ RUN_FUEL (w1.applyOp op) = w2
  have h2 : KI w2 := by rw [← hw2]; exact ki_runQ _ _ (ki_applyOp _ _ hf h1)
  generalize hw3 : W.advanceTo tq (advanceFuel w2 tq) w2 = w3
  have h3 : KI w3 := by rw [← hw3]; exact ki_advanceTo _ _ _ h2
  generalize hw4 : w3.queries = w4
  have h4 : KI w4 := by rw [← hw4]; exact ki_queries _ h3
  generalize hw5 : W.advanceTo te (advanceFuel w4 te) w4 = w5
  have h5 : KI w5 := by rw [← hw5]; exact ki_advanceTo _ _ _ h4
  exact h5.same rfl rfl rfl rfl rfl


/-! ## ids are handed out in increasing order: a new dispatch is younger than everything that waits -/

theorem runSteps_append (w : W) (a b : List Step) : w.runSteps (a ++ b) = (w.runSteps a).runSteps b := by
  induction a generalizing w with
  | nil => rfl
  | cons s rest ih => simp only [List.cons_append, W.runSteps]; exact ih _

theorem le_sum_of_mem {l : List Nat} {a : Nat} (h : a ∈ l) : a ≤ l.sum := by
  induction l with
  | nil => cases h
  | cons x xs ih =>
    simp only [List.sum_cons]
    rcases List.mem_cons.mp h with h | h
    · omega
    · have := ih h; omega

theorem cj_pos_of_mem {l : List Job} {x : Job} (h : x ∈ l) : 0 < cj x.id l := by
  unfold cj
  exact List.countP_pos_iff.mpr ⟨x, h, by simp⟩

theorem total_pos_of_waiting {w : W} {x : Job} (h : x ∈ waiting w) : 0 < total x.id w := by
  unfold waiting at h
  unfold total
  rcases List.mem_append.mp h with h | h
  · rcases List.mem_append.mp h with h | h
    · have : 0 < cInbox x.id w.inbox := by
        unfold cInbox
        apply List.countP_pos_iff.mpr
        -- the dispatch message that carries `x`
        have : ∀ (l : List FMsg), x ∈ inboxJobs l → ∃ m ∈ l, isDispatchOf x.id m = true := by
          intro l
          induction l with
          | nil => intro hx; cases hx
          | cons m r ih =>
            intro hx
            cases m with
            | dispatch j =>
              simp only [inboxJobs, List.mem_cons] at hx
              rcases hx with hx | hx
              · exact ⟨.dispatch j, List.mem_cons_self .., by simp [isDispatchOf, hx]⟩
              · obtain ⟨m', hm', hd⟩ := ih hx
                exact ⟨m', List.mem_cons_of_mem _ hm', hd⟩
            | _ =>
              simp only [inboxJobs] at hx
              obtain ⟨m', hm', hd⟩ := ih hx
              exact ⟨m', List.mem_cons_of_mem _ hm', hd⟩
        exact this w.inbox h
      omega
    · have := cj_pos_of_mem h
      omega
  · obtain ⟨p, hp, hx⟩ := List.mem_flatMap.mp h
    have h1 := cj_pos_of_mem hx
    have : cj x.id p.mq ≤ cPool x.id w.pool := by
      unfold cPool
      exact le_sum_of_mem (List.mem_map.mpr ⟨p, hp, rfl⟩)
    omega

/-- the id of the job a step submits -/
def Step.dispatchId (s : Step) : Option Nat :=
  match s.op with
  | .dispatch id _ _ _ _ => some id
  | _ => none

/-- the submitter numbers its jobs in increasing order -/
def idsIncreasing (steps : List Step) : Prop :=
  steps.Pairwise fun a b => ∀ ia ib, a.dispatchId = some ia → b.dispatchId = some ib → ia < ib

theorem fresh_of_increasing (c : CaseCfg) (pre : List Step) (id t : Nat)
    (hlt : ∀ s ∈ pre, ∀ i, s.dispatchId = some i → i < id) :
    ∀ x ∈ waiting (W.advanceTo t (advanceFuel ((init c).runSteps pre) t) ((init c).runSteps pre)), x.id < id := by
  intro x hx
  apply Classical.byContradiction
  intro hge
  have hpos := total_pos_of_waiting hx
  rw [total_advanceTo, total_runSteps, total_init, Nat.zero_add] at hpos
  have hle := accepted_le x.id (init c) pre
  have hz : pre.countP (isDispatchOp x.id) = 0 := by
    apply List.countP_eq_zero.mpr
    intro s hs hd
    obtain ⟨op, t0, tq, te⟩ := s
    cases op with
    | dispatch i k hh ttl acc =>
      simp only [isDispatchOp, beq_iff_eq] at hd
      have := hlt _ hs i rfl
      omega
    | _ => simp [isDispatchOp] at hd
  omega

theorem ki_init (c : CaseCfg) (hq : isFactoryQueueing c.cfg.router = false) : KI (init c) := by
  obtain ⟨f1, f2, f3, f4⟩ := init_fields c
  have hnb := nb_init c hq
  refine ⟨?_, by rw [f3]; exact List.Pairwise.nil⟩
  rw [f3]
  refine ⟨?_, hnb, ?_⟩
  · -- every slot starts with an empty queue
    unfold init
    simp only
    refine (ordH_growPool _ c.n ?_).of_eq rfl rfl
    refine ⟨List.Pairwise.nil, ?_, ?_, ?_, ?_⟩
    · intro p hp; cases hp
    · intro x hx; cases hx
    · intro p hp; cases hp
    · intro p hp; cases hp
  · intro hz
    have hps : (init c).poolSize = c.n := by unfold init; rfl
    rw [hps] at hz
    unfold init
    simp only
    show (W.growPool _ c.n).pool = []
    rw [hz]
    rfl

theorem ki_run_from (c : CaseCfg) (rest pre : List Step) (h : KI ((init c).runSteps pre))
    (hinc : idsIncreasing (pre ++ rest)) : KI ((init c).runSteps (pre ++ rest)) := by
  induction rest generalizing pre with
  | nil => rw [List.append_nil]; exact h
  | cons s rest ih =>
    have happ : pre ++ s :: rest = (pre ++ [s]) ++ rest := by simp
    rw [happ]
    apply ih
    · rw [runSteps_append]
      simp only [W.runSteps]
      apply ki_stepOp _ _ _ _ _ h
      unfold idsIncreasing at hinc
      have hp := List.pairwise_append.mp hinc
      obtain ⟨op, t0, tq, te⟩ := s
      cases op with
      | dispatch id key hh ttl acc =>
        simp only [opFresh]
        intro x hx _
        refine fresh_of_increasing c pre id t0 ?_ x hx
        intro s' hs' i hi
        exact hp.2.2 s' hs' _ (List.mem_cons_self ..) i id hi rfl
      | _ => simp [opFresh]
    · rw [← happ]; exact hinc

/-- the order invariant after every run whose job ids increase -/
theorem ki_always (c : CaseCfg) (hq : isFactoryQueueing c.cfg.router = false) (steps : List Step)
    (hinc : idsIncreasing steps) : KI ((init c).runSteps steps) := by
  have := ki_run_from c steps [] (ki_init c hq) (by simpa using hinc)
  simpa using this

end Factory
