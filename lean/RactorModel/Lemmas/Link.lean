import RactorModel.Model.Link
import RactorModel.Lemmas.Frames

/-! Lemmas for `Model/Link.lean`: the cascade invariant. -/

namespace Link
open Remote

/-- the invariant of the stop cascade -/
structure Inv {F : Type} (s : S F) : Prop where
  fault : s.faulted = true → s.sessStop = true ∨ s.sessUp = false
  sess : s.sessUp = false → (s.nodeNote = true ∨ s.nodeUp = false) ∧ s.writerUp = false ∧ s.readerUp = false
  node : s.nodeUp = false → s.mirror = {}
  lost : s.writerUp = true → s.lost = []
  acct : s.sent = s.wire ++ s.lost ++ s.chan

theorem inv_init {F : Type} : Inv ({} : S F) :=
  ⟨by simp, by simp, by simp, by simp, by simp⟩

theorem inv_step {F : Type} (s : S F) (e : Ev F) (h : Inv s) : Inv (step s e) := by
  obtain ⟨h1, h2, h3, h4, h5⟩ := h
  cases e with
  | send f =>
    simp only [step]
    split
    · constructor <;> simp_all
    · exact ⟨h1, h2, h3, h4, h5⟩
  | writer w fl =>
    simp only [step]
    split
    · next hc =>
      simp only [Bool.and_eq_true] at hc
      have hl := h4 hc.1
      cases w <;> cases fl <;> (constructor <;> simp_all)
    · exact ⟨h1, h2, h3, h4, h5⟩
  | read r =>
    simp only [step]
    split
    · cases r with
      | frame f =>
        simp only
        split
        · constructor <;> simp_all
        · exact ⟨h1, h2, h3, h4, h5⟩
      | err => constructor <;> simp_all
    · exact ⟨h1, h2, h3, h4, h5⟩
  | sessionStops =>
    simp only [step]
    split
    · constructor <;> simp_all
    · exact ⟨h1, h2, h3, h4, h5⟩
  | nodeNotices =>
    simp only [step]
    split
    · constructor <;> simp_all [Mirror.step]
    · exact ⟨h1, h2, h3, h4, h5⟩
  | ctl c =>
    simp only [step]
    split
    · constructor <;> simp_all
    · exact ⟨h1, h2, h3, h4, h5⟩
  | proxyStopped pid =>
    simp only [step]
    split
    · constructor <;> simp_all [Mirror.step]
    · exact ⟨h1, h2, h3, h4, h5⟩
  | sendVia pid =>
    simp only [step]
    split
    · exact ⟨h1, h2, h3, h4, h5⟩
    · exact ⟨h1, h2, h3, h4, h5⟩

theorem inv_run {F : Type} (evs : List (Ev F)) (s : S F) (h : Inv s) : Inv (run s evs) := by
  induction evs generalizing s with
  | nil => exact h
  | cons e evs ih => exact ih _ (inv_step s e h)

/-- nothing comes back up -/
structure Down {F : Type} (s : S F) : Prop where
  sess : s.sessUp = false
  node : s.nodeUp = false
  writer : s.writerUp = false
  reader : s.readerUp = false
  mirror : s.mirror = {}

theorem down_step {F : Type} (s : S F) (e : Ev F) (h : Down s) :
    Down (step s e) ∧ (step s e).accepted = s.accepted := by
  obtain ⟨h1, h2, h3, h4, h5⟩ := h
  cases e <;> simp [step, h1, h2, h3, h4, h5] <;> (first | exact ⟨h1, h2, h3, h4, h5⟩ | (constructor <;> simp_all))

theorem down_run {F : Type} (evs : List (Ev F)) (s : S F) (h : Down s) :
    Down (run s evs) ∧ (run s evs).accepted = s.accepted := by
  induction evs generalizing s with
  | nil => exact ⟨h, rfl⟩
  | cons e evs ih =>
    have h1 := down_step s e h
    have h2 := ih (step s e) h1.1
    exact ⟨h2.1, h2.2.trans h1.2⟩

theorem settle_down {F : Type} (s : S F) (h : Inv s) (hf : s.faulted = true) : Down (settle s) := by
  obtain ⟨h1, h2, h3, h4, h5⟩ := h
  unfold settle
  cases hs : s.sessUp <;> cases hn : s.nodeUp <;> cases hst : s.sessStop <;> cases hnote : s.nodeNote <;>
    simp_all [step, Mirror.step] <;> constructor <;> simp_all

/-- the reader's events over any stream end with an error: the reader always stops -/
theorem readerEvents_run {Msg : Type} (rs : List (Codec.FrameRes Msg)) (s : S Msg)
    (hstop : Codec.stopsAtFirstError rs = true) (hr : s.readerUp = true) :
    (run s (rs.map fun
      | .ok m => Ev.read (.frame m)
      | .err _ => Ev.read .err)).faulted = true := by
  induction rs generalizing s with
  | nil => simp [Codec.stopsAtFirstError] at hstop
  | cons r rs ih =>
    cases rs with
    | nil =>
      cases r with
      | ok m => simp [Codec.stopsAtFirstError, Codec.isErr] at hstop
      | err e => simp [run, step, hr]
    | cons r2 rs2 =>
      cases r with
      | err e => simp [Codec.stopsAtFirstError, Codec.isErr] at hstop
      | ok m =>
        simp only [Codec.stopsAtFirstError, Codec.isErr, Bool.not_false, Bool.true_and] at hstop
        simp only [List.map_cons, run, List.foldl_cons]
        apply ih _ hstop
        simp only [step, hr, if_true]
        split <;> simp_all

/-- the control messages a history hands to the node session -/
def ctls {F : Type} (evs : List (Ev F)) : List Ctl :=
  evs.filterMap fun
    | .ctl c => if isClose c then none else some c
    | _ => none

theorem nodeUp_mono_step {F : Type} (s : S F) (e : Ev F) (h : s.nodeUp = false) : (step s e).nodeUp = false := by
  cases e <;> simp only [step] <;> (repeat' split) <;> simp_all

theorem nodeUp_mono {F : Type} (evs : List (Ev F)) (s : S F) (h : s.nodeUp = false) : (run s evs).nodeUp = false := by
  induction evs generalizing s with
  | nil => exact h
  | cons e evs ih => exact ih _ (nodeUp_mono_step s e h)

/-- while the node session is up its proxies and memberships are the control stream's -/
theorem mirror_of_ctls {F : Type} (evs : List (Ev F)) (s : S F) (h : (run s evs).nodeUp = true) :
    (run s evs).mirror = Mirror.run s.mirror (ctls evs) := by
  induction evs generalizing s with
  | nil => rfl
  | cons e evs ih =>
    have hup : (step s e).nodeUp = true := by
      cases hc : (step s e).nodeUp with
      | true => rfl
      | false =>
        have := nodeUp_mono evs _ hc
        simp only [run, List.foldl_cons] at h
        simp only [run] at this
        rw [this] at h
        exact absurd h (by simp)
    have := ih (step s e) (by simpa [run] using h)
    simp only [run, List.foldl_cons] at this ⊢
    rw [this]
    cases e with
    | ctl c =>
      simp only [step] at hup ⊢
      split
      · next hc =>
        simp only [Bool.and_eq_true, Bool.not_eq_true'] at hc
        simp [ctls, hc.2, Mirror.run]
      · next hc =>
        have hs : s.nodeUp = true := by
          simp only [hc] at hup
          exact hup
        simp only [hs, Bool.true_and, Bool.not_eq_true', Bool.not_eq_false] at hc
        simp [ctls, hc]
    | proxyStopped pid =>
      simp only [step] at hup ⊢
      split
      · next hc => rw [if_pos hc] at hup; simp at hup
      · simp [ctls]
    | nodeNotices =>
      simp only [step] at hup ⊢
      split
      · next hc => rw [if_pos hc] at hup; simp at hup
      · simp [ctls]
    | sendVia pid => simp only [step]; split <;> simp [ctls]
    | send f => simp only [step]; split <;> simp [ctls]
    | writer w fl =>
      simp only [step]
      split
      · cases w <;> cases fl <;> simp [ctls]
      · simp [ctls]
    | read r =>
      simp only [step]
      split
      · cases r with
        | frame f => simp only; split <;> simp [ctls]
        | err => simp [ctls]
      · simp [ctls]
    | sessionStops => simp only [step]; split <;> simp [ctls]

/-- the frames a reader's life hands on -/
def oks {Msg : Type} : List (Codec.FrameRes Msg) → List Msg
  | [] => []
  | .ok m :: rs => m :: oks rs
  | .err _ :: rs => oks rs

/-- … and while session and node session are up, every decoded frame reaches the node session, in order -/
theorem readerEvents_recvd {Msg : Type} (rs : List (Codec.FrameRes Msg)) (s : S Msg)
    (hstop : Codec.stopsAtFirstError rs = true) (hr : s.readerUp = true) (hs : s.sessUp = true)
    (hn : s.nodeUp = true) :
    (run s (rs.map fun
      | .ok m => Ev.read (.frame m)
      | .err _ => Ev.read .err)).recvd = s.recvd ++ oks rs := by
  induction rs generalizing s with
  | nil => simp [Codec.stopsAtFirstError] at hstop
  | cons r rs ih =>
    cases rs with
    | nil =>
      cases r with
      | ok m => simp [Codec.stopsAtFirstError, Codec.isErr] at hstop
      | err e => simp [run, step, hr, oks]
    | cons r2 rs2 =>
      cases r with
      | err e => simp [Codec.stopsAtFirstError, Codec.isErr] at hstop
      | ok m =>
        simp only [Codec.stopsAtFirstError, Codec.isErr, Bool.not_false, Bool.true_and] at hstop
        have := ih (step s (.read (.frame m))) hstop (by simp [step, hr, hs, hn]) (by simp [step, hr, hs, hn])
          (by simp [step, hr, hs, hn])
        rw [List.map_cons, run, List.foldl_cons]
        simp only [run] at this
        rw [this]
        simp [step, hr, hs, hn, oks]

theorem readFrames_stops {Msg : Type} (dec : Codec.Bytes → Option Msg) (max : Nat) (chunks : List Codec.Bytes) :
    Codec.stopsAtFirstError (Codec.readFrames dec max chunks).1 = true := by
  have h : (Codec.framesObs dec max chunks).1 = (Codec.readFrames dec max chunks).1 := rfl
  rw [← h, Codec.framesObs_eq]
  exact Codec.stops_parseFrames dec max _ _ (by omega)

theorem readFrames_encode {Msg : Type} (dec : Codec.Bytes → Option Msg) (max : Nat) (ps : List Codec.Bytes)
    (chunks : List Codec.Bytes) (hs : chunks.flatten = ps.flatMap Codec.encodeFrame)
    (hmax : ∀ p ∈ ps, p.length ≤ max ∧ p.length ≤ Codec.isizeMax) (hdec : ∀ p ∈ ps, (dec p).isSome) :
    (Codec.readFrames dec max chunks).1 = ps.map (Codec.okOf dec) ++ [.err .eof] := by
  have h : (Codec.framesObs dec max chunks).1 = (Codec.readFrames dec max chunks).1 := rfl
  rw [← h, Codec.framesObs_eq, hs]
  have hlen : ps.length ≤ (ps.flatMap Codec.encodeFrame).length := by
    clear hs hmax hdec
    induction ps with
    | nil => simp
    | cons p ps ih =>
      simp only [List.flatMap_cons, List.length_append, Codec.length_encodeFrame, List.length_cons]
      omega
  rw [Codec.parseFrames_encode dec max ps hmax hdec _ (by omega)]

theorem oks_okOf {Msg : Type} (dec : Codec.Bytes → Option Msg) (ps : List Codec.Bytes)
    (hdec : ∀ p ∈ ps, (dec p).isSome) (tail : List (Codec.FrameRes Msg)) :
    oks (ps.map (Codec.okOf dec) ++ tail) = ps.filterMap dec ++ oks tail := by
  induction ps with
  | nil => simp
  | cons p ps ih =>
    have hp := hdec p (by simp)
    cases hd : dec p with
    | none => simp [hd] at hp
    | some m =>
      simp only [List.map_cons, List.cons_append, Codec.okOf, hd, oks, List.filterMap_cons]
      rw [ih (fun q hq => hdec q (by simp [hq]))]

end Link
