import RactorModel.Model.Life
import Driver.Common

/-! Driver for the `Life` model (C01, C03, C04).

ops (written by `harness/hcore/src/bin/life.rs` after executing them on the real code):
  `case n` · `spawn a sup=p|-` · `pollspawn a` · `dropspawn a` · `poll a` · `abort a`
  `resume a [sendself:m] [stopself[:r]] [killself] (tick|ok|err:n|panic:n)`
  `send a m` · `stop a r|-` · `kill a` · `drain a`
observation: `<notes joined by "; ">|- | <a:Status/sup/nkids …>|- | run=<ids>|-`

The model's observation is rendered from `World.step`; the oracles `C01.ok`, `C03.ok`, `C04.ok`
(the automata of `Model/Life.lean`) are run on the per-actor traces *derived from the
implementation's observation line* (notes, API results, status fields) — never from the model.
Model names `life-c01` / `life-c03` / `life-c04` select which property's clauses are reported;
the DIFF comparison is always on.
-/

namespace Driver.LifeDrv
open _root_.Life Driver

/-! ### rendering -/

def cbName : Cb → String
  | .preStart => "pre_start" | .postStart => "post_start" | .handle => "handle"
  | .sup => "sup" | .postStop => "post_stop"

def cbOf? : String → Option Cb
  | "pre_start" => some .preStart | "post_start" => some .postStart | "handle" => some .handle
  | "sup" => some .sup | "post_stop" => some .postStop | _ => none

def reasonStr : Reason → String
  | .none => "-" | .text s => s | .drained => "Drained" | .killed => "killed"
  | .cancelled => "actor_task_cancelled"

def reasonOf (s : String) : Reason :=
  if s == "-" then .none else if s == "Drained" then .drained else if s == "killed" then .killed
  else if s == "actor_task_cancelled" then .cancelled else .text s

def resStr : Res → String
  | .ok => "ok" | .err n => s!"err:{n}" | .panic n => s!"panic:{n}"

def supEvStr : SupEv → String
  | .started c => s!"Started {c}"
  | .terminated c st r => s!"Terminated {c} s{if st then 1 else 0} {reasonStr r}"
  | .failed c p n => s!"Failed {c} {if p then "panic" else "err"}-{n}"

def okErr (b : Bool) : String := if b then "Ok" else "Err"
def sendStr (b : Bool) : String := if b then "Ok" else "Err(SendErr)"

def spawnRetStr : SpawnRet → String
  | .ok => "Ok" | .killed => "Err(killed)" | .nolink => "Err(nolink)"
  | .startup p n => s!"Err(startup:{if p then "panic" else "err"}-{n})"

/-- The note the harness prints for this output of actor `a` (none for silent ones). -/
def renderOut (a : Nat) : Out → Option String
  | .ev (.enter cb arg) =>
    let t := match arg with
      | .none => "" | .msg m => s!" {m}" | .sup e => " " ++ supEvStr e
    some s!"enter {a} {cbName cb}{t}"
  | .ev (.tick cb) => some s!"tick {a} {cbName cb}"
  | .ev (.exit cb r) => some s!"exit {a} {cbName cb} {resStr r}"
  | .ev (.cancelled cb) => some s!"cancelled {a} {cbName cb}"
  | .ev (.sendRet self m ok) => some (if self then s!"fx sendself {m} {sendStr ok}" else s!"ret {sendStr ok}")
  | .ev (.stopRet self r ok) => some (if self then s!"fx stopself {reasonStr r} {okErr ok}" else s!"ret {okErr ok}")
  | .ev (.killRet self ok) => some (if self then s!"fx killself {okErr ok}" else s!"ret {okErr ok}")
  | .ev (.drainRet ok) => some s!"ret {sendStr ok}"
  | .ev (.spawnRet r) => some s!"ret {spawnRetStr r}"
  | .ev (.emit to e) => some s!"emit {to} {supEvStr e}"
  | .ev (.join r) => some s!"join {a} {match r with | .ok => "Ok" | .cancelled => "Cancelled" | .panic => "Panic"}"
  | .ev _ => none
  | .note s => some s
  | .eff _ => none

def statusStr : Status → String
  | .unstarted => "Un" | .starting => "St" | .running => "Ru" | .upgrading => "Up"
  | .draining => "Dr" | .stopping => "Sg" | .stopped => "Sd"

def renderWorld (w : World) : String :=
  let sts := w.actors.filterMap fun a =>
    if a.phase = .fresh then none
    else some s!"{a.id}:{statusStr a.status}/{match a.sup with | some p => toString p | none => "-"}/{(a.kids.getD []).length}"
  let run := w.actors.filterMap fun a => if a.phase.isTask && a.woken then some (toString a.id) else none
  let sts := if sts.isEmpty then "-" else " ".intercalate sts
  let run := if run.isEmpty then "-" else ",".intercalate run
  s!"{sts} | run={run}"

def renderLine (w : World) (own : List WOut) : String :=
  let notes := own.filterMap fun (a, o) => renderOut a o
  let notes := if notes.isEmpty then "-" else "; ".intercalate notes
  s!"{notes} | {renderWorld w}"

/-! ### parsing ops -/

def userReason (s : String) : Option String := if s == "-" then none else some s

def parseFx? (t : String) : Option Fx :=
  match t.splitOn ":" with
  | ["sendself", m] => m.toNat?.map .sendSelf
  | ["stopself"] => some (.stopSelf none)
  | ["stopself", r] => some (.stopSelf (userReason r))
  | ["killself"] => some .killSelf
  | _ => none

def parseTerm? (t : String) : Option Term :=
  match t.splitOn ":" with
  | ["tick"] => some .tick
  | ["ok"] => some .ok
  | ["err", n] => n.toNat?.map .err
  | ["panic", n] => n.toNat?.map .panic
  | _ => none

def parseSeg? (ts : List String) : Option Seg :=
  match ts.getLast? with
  | none => none
  | some last => do
    let term ← parseTerm? last
    let fx ← ts.dropLast.mapM parseFx?
    pure ⟨fx, term⟩

def parseOp? (line : String) : Option Op :=
  match words line with
  | ["case", _] => some .case
  | ["spawn", a, sup] => do
    let a ← a.toNat?
    match sup.splitOn "=" with
    | ["sup", "-"] => pure (.spawn a none)
    | ["sup", p] => do let p ← p.toNat?; pure (.spawn a (some p))
    | _ => none
  | ["pollspawn", a] => a.toNat?.map .pollSpawn
  | ["dropspawn", a] => a.toNat?.map .dropSpawn
  | ["poll", a] => a.toNat?.map .poll
  | ["abort", a] => a.toNat?.map .abort
  | "resume" :: a :: rest => do let a ← a.toNat?; let s ← parseSeg? rest; pure (.resume a s)
  | ["send", a, m] => do pure (.send (← a.toNat?) (← m.toNat?))
  | ["stop", a, r] => do pure (.stop (← a.toNat?) (userReason r))
  | ["kill", a] => a.toNat?.map .kill
  | ["drain", a] => a.toNat?.map .drain
  | _ => none

/-! ### deriving the per-actor traces from the implementation's observation -/

def parseFail? (t : String) : Option (Bool × Nat) :=
  match t.splitOn "-" with
  | ["err", n] => n.toNat?.map (false, ·)
  | ["panic", n] => n.toNat?.map (true, ·)
  | _ => none

def parseSupEv? : List String → Option SupEv
  | ["Started", c] => c.toNat?.map .started
  | ["Terminated", c, st, r] => do
    let c ← c.toNat?
    let st ← (if st == "s1" then some true else if st == "s0" then some false else none)
    pure (.terminated c st (reasonOf r))
  | ["Failed", c, t] => do
    let c ← c.toNat?
    let (p, n) ← parseFail? t
    pure (.failed c p n)
  | _ => none

def parseRes? (t : String) : Option Res :=
  match t.splitOn ":" with
  | ["ok"] => some .ok
  | ["err", n] => n.toNat?.map .err
  | ["panic", n] => n.toNat?.map .panic
  | _ => none

def parseSpawnRet? (t : String) : Option SpawnRet :=
  if t == "Ok" then some .ok
  else if t == "Err(killed)" then some .killed
  else if t == "Err(nolink)" then some .nolink
  else match t.splitOn "startup:" with
    | ["Err(", rest] =>
      match (rest.splitOn ")") with
      | [x, ""] => (parseFail? x).map fun (p, n) => .startup p n
      | _ => none
    | _ => none

/-- Events (tagged by actor) that one note of the implementation stands for; `none` = unparsable. -/
def noteEvents (op : Op) (note : String) : Option (List (Nat × Ev)) :=
  let tgt : Nat := match op.target with | some (a, _) => a | none => 0
  match words note with
  | "enter" :: a :: cb :: rest => do
    let a ← a.toNat?; let cb ← cbOf? cb
    let arg ← match cb, rest with
      | .handle, [m] => m.toNat?.map Arg.msg
      | .sup, r => (parseSupEv? r).map Arg.sup
      | _, [] => some Arg.none
      | _, _ => none
    pure [(a, .enter cb arg)]
  | ["tick", a, cb] => do pure [(← a.toNat?, .tick (← cbOf? cb))]
  | ["exit", a, cb, r] => do pure [(← a.toNat?, .exit (← cbOf? cb) (← parseRes? r))]
  | ["cancelled", a, cb] => do pure [(← a.toNat?, .cancelled (← cbOf? cb))]
  | ["fx", "sendself", m, r] => do pure [(tgt, .sendRet true (← m.toNat?) (r == "Ok"))]
  | ["fx", "stopself", r, x] => pure [(tgt, .stopRet true (reasonOf r) (x == "Ok"))]
  | ["fx", "killself", x] => pure [(tgt, .killRet true (x == "Ok"))]
  | ["ret", x] =>
    match op with
    | .send a m => pure [(a, .sendRet false m (x == "Ok"))]
    | .stop a r => pure [(a, .stopRet false (.ofUser r) (x == "Ok"))]
    | .kill a => pure [(a, .killRet false (x == "Ok"))]
    | .drain a => pure [(a, .drainRet (x == "Ok"))]
    | .spawn a _ | .pollSpawn a => do pure [(a, .spawnRet (← parseSpawnRet? x))]
    | _ => none
  | "emit" :: p :: rest => do
    let p ← p.toNat?
    let e ← parseSupEv? rest
    pure [(e.who, .emit p e), (p, .supArrive e)]
  | ["join", a, r] => do
    let a ← a.toNat?
    let r ← (if r == "Ok" then some JoinRes.ok else if r == "Cancelled" then some JoinRes.cancelled
             else if r == "Panic" then some JoinRes.panic else none)
    pure [(a, .join r)]
  | ["notask"] | ["nospawn"] | ["noopen"] | ["busy"] | ["respawn"] => pure []
  | _ => none

/-- Observed supervisor per actor from the status field `a:St/sup/k …`. -/
def parseSups (field : String) : List (Nat × Option Nat) :=
  (words field).filterMap fun w =>
    match w.splitOn ":" with
    | [a, rest] =>
      match rest.splitOn "/" with
      | [_, sup, _] => a.toNat?.map fun a => (a, sup.toNat?)
      | _ => none
    | _ => none

/-! ### driver state -/

inductive Prop3 | c01 | c03 | c04
  deriving DecidableEq

structure Mon where
  c01 : Except String C01.St := .ok {}
  c03 : Except String C03.St := .ok {}
  c04 : Except String C04.St := .ok {}
  /-- last observed supervisor (status field) -/
  sup : Option Nat := none

instance : Inhabited Mon := ⟨{}⟩

structure St where
  w : World := {}
  mons : Array Mon := #[]
  hist : UInt64 := 0

def feed {σ : Type} (next : σ → Ev → Except String σ) (m : Except String σ) (e : Ev) :
    Except String σ × Option String :=
  match m with
  | .error c => (.error c, none)           -- already reported for this actor
  | .ok s => match next s e with
    | .ok s' => (.ok s', none)
    | .error c => (.error c, some c)

/-- Feed one implementation-derived event of actor `a` to its three automata. -/
def feedEv (which : Prop3) (mons : Array Mon) (a : Nat) (e : Ev) : Array Mon × List String :=
  let mons := if a < mons.size then mons else mons ++ Array.replicate (a + 1 - mons.size) (default : Mon)
  let m := mons[a]!
  let (c01, f1) := feed C01.next m.c01 e
  let (c03, f3) := feed C03.next m.c03 e
  let (c04, f4) := feed (C04.next a) m.c04 e
  let fails := match which with
    | .c01 => f1.toList | .c03 => f3.toList | .c04 => f4.toList
  (mons.set! a { m with c01, c03, c04 }, fails)

def hasSub (s sub : String) : Bool := (s.splitOn sub).length > 1

def step (which : Prop3) (st : St) (opLine impl : String) : St × StepOut :=
  match parseOp? opLine with
  | none => (st, { model := "bad-op" })
  | some op =>
    let (w', own, _others) := st.w.step op
    let model := renderLine w' own
    let hist := if op = .case then 0 else mixHash st.hist (hash opLine)
    let st := if op = .case then { st with mons := #[] } else st
    -- implementation-derived events
    let fields := impl.splitOn " | "
    let notes := match fields with
      | n :: _ => if n == "-" then [] else n.splitOn "; "
      | [] => []
    let pre : List (Nat × Ev) := match op with
      | .abort a => if notes.contains "notask" then [] else [(a, .aborted)]
      | .dropSpawn a => if notes.contains "nospawn" then [] else [(a, .dropped)]
      | _ => []
    let (evsR, bad) := notes.foldl (fun (acc : List (Nat × Ev) × Bool) n =>
      match noteEvents op n with
      | some l => (acc.1 ++ l, acc.2)
      | none => (acc.1, true)) (pre, false)
    let (mons, fails) := evsR.foldl (fun (acc : Array Mon × List String) (a, e) =>
      let (m, f) := feedEv which acc.1 a e
      (m, acc.2 ++ f)) (st.mons, [])
    -- observed supervisors (status field), fed after the notes
    let sups := match fields with
      | _ :: f :: _ => parseSups f
      | _ => []
    let (mons, fails) := sups.foldl (fun (acc : Array Mon × List String) (a, p) =>
      let mons := if a < acc.1.size then acc.1 else acc.1 ++ Array.replicate (a + 1 - acc.1.size) (default : Mon)
      if mons[a]!.sup = p then (mons, acc.2)
      else
        let mons := mons.set! a { mons[a]! with sup := p }
        let (m, f) := feedEv which mons a (.supIs p)
        (m, acc.2 ++ f)) (mons, fails)
    let pfx := match which with | .c01 => "c01" | .c03 => "c03" | .c04 => "c04"
    let fails := if bad then fails ++ [pfx ++ ".unparsable"] else fails
    -- non-trivial: the op reached the property's interesting branch
    let tgtA : Option Actor := op.target.map fun (a, _) => st.w.get a
    let filled : Nat := match tgtA with
      | some a => (if a.sigVal then 1 else 0) + (if a.stopVal.isSome then 1 else 0)
                  + (if a.supQ.isEmpty then 0 else 1) + (if a.msgQ.isEmpty then 0 else 1)
      | none => 0
    let openCb : Bool := match tgtA with | some a => a.phase.openCb.isSome | none => false
    let isPoll := match op with | .poll _ | .pollSpawn _ => true | _ => false
    let nontrivial := match which with
      | .c01 => hasSub impl "cancelled" || hasSub impl " err:" || hasSub impl " panic:"
                || hasSub impl "post_stop" || hasSub impl "enter"
      | .c03 => (isPoll && (filled ≥ 2 || (filled ≥ 1 && openCb)))
                || ((match op with | .kill _ | .stop _ _ => true | _ => false) && hasSub impl "ret Ok" && (openCb || filled ≥ 1))
                || hasSub impl "fx killself Ok" || hasSub impl "fx stopself"
      | .c04 => hasSub impl "emit" || hasSub impl "ret Err(" || hasSub impl "join" || hasSub impl "cancelled"
    ({ w := w', mons, hist }, { model, oracle := fails, nontrivial, key := some (toString hist) })

def run (which : Prop3) (ops impl : Array String) : IO Tally :=
  replay ({} : St) (step which) ops impl

end Driver.LifeDrv
