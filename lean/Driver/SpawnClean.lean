import RactorModel.Model.SpawnClean
import Driver.Common

/-! Driver for the `SpawnClean` model (C08, round 4): one real spawn advanced from schedule point to
schedule point, the requests of other threads in between (harness hcore/src/bin/spawnclean.rs).

The oracle judges the spawns that the IMPLEMENTATION reported as failed (`at=done res=err|cut`), on
the implementation's own snapshot; `c08.failed-flag-mismatch` when the model disagrees about who failed. -/

namespace Driver.SpawnCleanD
open _root_.SpawnClean Driver

structure DS where
  c : Cfg := {}
  w : W := {}
  afterStarted : Bool := false   -- the actor runs free: observations are no longer compared
  key : String := ""

def atName : Pc → String
  | .init => "-" | .unstarted => "h.unstarted" | .pubStarting => "status.publish" | .pre => "h.pre"
  | .kTake => "tree.take" | .link => "tree.link" | .started => "h.started" | .selfLink => "tree.link"
  | .cStopping => "status.publish" | .cUnregPid => "status.unreg_pid" | .cUnregName => "status.unreg_name"
  | .cPgDemon => "status.pg_demonitor" | .cPgLeave => "status.pg_leave" | .cTerminate => "cleanup.terminate"
  | .cTake => "tree.take" | .cNotify => "cleanup.notify" | .cUnlink => "cleanup.unlink"
  | .cTreeUnlink => "tree.unlink" | .cStopped => "cleanup.stopped" | .cPubStopped => "status.publish"
  | .cStatusNotify => "status.notify" | .cNotifyWaiters => "notify.waiters" | .done => "done"

def statusName (n : Nat) : String :=
  match n with
  | 0 => "Unstarted" | 1 => "Starting" | 2 => "Running" | 3 => "Upgrading" | 4 => "Draining"
  | 5 => "Stopping" | _ => "Stopped"

def showRes : Res → String
  | .pending => "-" | .ok => "ok" | .errName => "err-name" | .err => "err" | .cut => "cut"

def showPort : PortSt → String
  | .waiting => "W" | .replied => "R" | .senderError => "S" | .sendErr => "E"

def sortNats (l : List Nat) : List Nat := (l.toArray.qsort (· < ·)).toList

/-- does anybody outside hold a reference to the cell? (plain flavours: only once pre_start ran) -/
def refKnown (c : Cfg) (w : W) : Bool :=
  w.exists_ && (c.instant || (w.pc != .init && w.pc != .pubStarting))

def snap (c : Cfg) (w : W) : String :=
  let res := if w.pc == .done || w.pc == .started then showRes w.res else "-"
  let p := "".intercalate (w.ports.map showPort)
  if !refKnown c w then
    s!"at={atName w.pc} res={res} st=NoCell name=- pid=- G=[] sup=00 W={w.waiting}/{w.released} P=[{p}] h={w.handled} ev={w.events}"
  else
    let name := if !c.named then "-" else if w.nameMine then "mine" else if c.nameTaken then "other" else "free"
    let pid := if c.cluster then (if w.pidReg then "1" else "0") else "-"
    let g := ",".intercalate ((sortNats w.members).map toString)
    let b := fun (x : Bool) => if x then "1" else "0"
    s!"at={atName w.pc} res={res} st={statusName w.status} name={name} pid={pid} G=[{g}] sup={b w.supSlot}{b w.supKids} W={w.waiting}/{w.released} P=[{p}] h={w.handled} ev={w.events}"

def parseList (s : String) : List Nat := if s == "-" then [] else (splitOnChar s '.').filterMap (·.toNat?)

def parseCase (ws : List String) : Option Cfg := do
  let mut c : Cfg := {}
  for kv in ws do
    match kv.splitOn "=" with
    | [k, v] =>
      if k == "cluster" then c := { c with cluster := v == "1" }
      else if k == "named" then c := { c with named := v == "1" }
      else if k == "taken" then c := { c with nameTaken := v == "1" }
      else if k == "linked" then c := { c with linked := v == "1" }
      else if k == "instant" then c := { c with instant := v == "1" }
      else if k == "cut0" then c := { c with cut0 := v == "1" }
      else if k == "joins" then c := { c with joins := parseList v }
      else if k == "mons" then c := { c with mons := parseList v }
      else if k == "selfsends" then c := { c with selfsends := v.toNat?.getD 0 }
      else if k == "selflink" then c := { c with selflink := v == "1" }
      else if k == "outcome" then
        c := { c with outcome := if v == "ok" then .ok else if v == "err" then .err else if v == "panic" then .panic
                                  else if v == "cut" then .cut else .yieldThenOk }
      else none
    | _ => none
  pure c

def field (s tag : String) : Option String :=
  match s.splitOn tag with
  | [_, rest] => (rest.splitOn " ").head?
  | _ => none

/-- C08 on the implementation's own snapshot of a spawn it reported as failed -/
def judge (impl : String) : List String :=
  let f := fun t => (field impl t).getD "?"
  (if f "st=" != "Stopped" then ["c08.failed-start-not-stopped"] else []) ++
  (if f "name=" == "mine" then ["c08.failed-start-keeps-name"] else []) ++
  (if f "pid=" == "1" then ["c08.pid-not-free"] else []) ++
  (if f "G=" != "[]" then ["c08.failed-start-still-in-group"] else []) ++
  (if f "sup=" != "00" then ["c08.failed-start-still-a-child"] else []) ++
  (if !(f "W=").startsWith "0/" then ["c08.waiters-not-released"] else []) ++
  (if ((f "P=").toList.any (· == 'W')) then ["c08.queued-call-left-hanging"] else []) ++
  (if f "h=" != "0" then ["c08.handler-ran-after-failed-start"] else []) ++
  (if f "ev=" != "0" then ["c08.supervision-event-for-failed-start"] else [])

def step (ds : DS) (op impl : String) : DS × StepOut :=
  match words op with
  | "case" :: rest =>
    match parseCase rest with
    | some c => ({ c := c, key := op }, { model := "ok" })
    | none => (ds, { model := "bad-case" })
  | ws =>
    let c := ds.c
    let w := ds.w
    let known := refKnown c w
    let needsRef := match ws with
      | ["cast"] | ["call"] | ["wait"] | ["stop"] | ["kill"] | ["drain"] | ["joinext", _] => true
      | _ => false
    let r : Option (W × String) :=
      if needsRef && !known then some (w, "noref") else
      match ws with
      | ["begin"] => if w.pc != .init then some (w, "begin=already") else
          let w' := SpawnClean.step c w .begin; some (w', atName w'.pc)
      | ["step"] => let w' := SpawnClean.step c w .step; some (w', atName w'.pc)
      | ["cast"] =>
        let w' := SpawnClean.step c w .cast
        some (w', if w'.mailbox.length > w.mailbox.length then "ok" else "err")
      | ["call"] => some (SpawnClean.step c w .call, "ok")
      | ["wait"] => some (SpawnClean.step c w .wait, "ok")
      | ["joinext", g] => (g.toNat?).map (fun g => (SpawnClean.step c w (.joinExt g), "ok"))
      | ["stop"] => some (SpawnClean.step c w .stop, "ok")
      | ["kill"] => some (SpawnClean.step c w .kill, "ok")
      | ["drain"] => some (SpawnClean.step c w .drain, if drainResult w then "ok" else "err")
      | ["supset", st] =>
        if !c.linked && !c.selflink then some (w, "nosup") else (st.toNat?).map (fun st => (SpawnClean.step c w (.supSet st), "ok"))
      | ["reuse"] =>
        some (w, if !c.named then "noname" else if !c.nameTaken && !w.nameMine then "ok" else "err")
      | _ => none
    match r with
    | none => (ds, { model := "bad-op" })
    | some (w', res) =>
      let key := ds.key ++ "|" ++ op
      if ds.afterStarted then
        -- the actor runs free (and may stop by itself at any moment): not compared, not judged
        ({ ds with w := w', key := key }, { model := impl })
      else
        let implDone := (field impl "at=") == some "done"
        let implRes := (field impl "res=").getD "-"
        let implFailed := implDone && (implRes == "err" || implRes == "cut")
        let modelFailed := w'.pc == .done && failed w'
        let orc :=
          (if implFailed then judge impl else []) ++
          (if implDone && implFailed != modelFailed then ["c08.failed-flag-mismatch"] else []) ++
          (if ws == ["reuse"] && implFailed && c.named && !c.nameTaken && (words impl).headD "" != "ok"
             then ["c08.name-not-free"] else [])
        ({ ds with w := w', key := key, afterStarted := w'.pc == .started },
         { model := s!"{res} {snap c w'}", oracle := orc,
           nontrivial := w'.pc.inCleanup || (w'.pc == .done && failed w'),
           key := some (key ++ " => " ++ impl) })

def run (ops impl : Array String) : IO Tally := replay ({} : DS) step ops impl

end Driver.SpawnCleanD
