import RactorModel.Model.RegistryConc

/-! Invariants of `Model/RegistryConc.lean`. -/

namespace Reg2

theorem upd_apply {α : Type} (f : Nat → α) (i x : Nat) (v : α) : upd f i v x = if x = i then v else f x := rfl

/-- the suffixes of the cleanup block -/
def suffixOk (rest : List Stmt) : Prop :=
  rest = [.demonitor, .unregPid, .unregName] ∨ rest = [.unregPid, .unregName] ∨ rest = [.unregName] ∨ rest = []

/-- what the program counter says about the status word -/
def pcOk (x : Actor) : Prop :=
  match x.pc with
  | .none => x = {}
  | .consName => x.status = 0 ∧ x.remote = false ∧ x.name.isSome
  | .consPid => x.status = 0 ∧ x.remote = false
  | .consRollback => x.status = 0 ∧ x.remote = false ∧ x.name.isSome
  | .failed => x.status = 0 ∧ x.remote = false
  | .live => True
  | .blk rest _ => stopping ≤ x.status ∧ suffixOk rest

structure RInv (s : State) : Prop where
  owner : ∀ n a, s.names n = some a → (s.act a).name = some n ∧ holds (s.act a) = true
  entry : ∀ a n, (s.act a).name = some n → holds (s.act a) = true → s.names n = some a
  pcs : ∀ a, pcOk (s.act a)
  pid : ∀ a, s.pids a = pidHeld (s.act a)
  bound : ∀ a, ((s.act a).pc ≠ .none → a < s.n) ∧ (s.mons a = true → a < s.n)
  evSp : ∀ e ∈ s.log, spawned (s.act e.2.2) = true
  evTm : ∀ e ∈ s.log, e.2.1 = false → terminated (s.act e.2.2) = true

theorem RInv.init : RInv init :=
  { owner := by intro n a h; simp [Reg2.init] at h
    entry := by intro a n h; simp [Reg2.init] at h
    pcs := by intro a; simp [Reg2.init, pcOk]
    pid := by intro a; simp [Reg2.init, pidHeld]
    bound := by intro a; simp [Reg2.init]
    evSp := by intro e h; simp [Reg2.init] at h
    evTm := by intro e h; simp [Reg2.init] at h }

theorem mem_fanout {s : State} {k : Bool} {a : Nat} {e : Nat × Bool × Nat} (h : e ∈ fanout s k a) :
    e.2.1 = k ∧ e.2.2 = a ∧ s.mons e.1 = true := by
  simp only [fanout, listeners, List.mem_map, List.mem_filter] at h
  obtain ⟨l, ⟨_, hl⟩, rfl⟩ := h
  exact ⟨rfl, rfl, hl⟩

end Reg2

namespace Reg2

theorem bp_name : blockProg.contains .unregName = true := by decide
theorem bp_pid : blockProg.contains .unregPid = true := by decide
theorem bp_suffix : suffixOk blockProg := .inl rfl

macro "reg_auto" : tactic =>
  `(tactic| ((try simp only [setPc, upd_apply] at *)
             grind [holds, pidHeld, spawned, terminated, pcOk, suffixOk, stopping, stopped, bp_name, bp_pid, bp_suffix]))

macro "reg_inv" h:ident : tactic => `(tactic| (
  have ho := ($h).owner; have he := ($h).entry; have hp := ($h).pcs; have hd := ($h).pid
  have hb := ($h).bound; have hs := ($h).evSp; have ht := ($h).evTm
  refine ⟨?_, ?_, ?_, ?_, ?_, ?_, ?_⟩ <;> intros <;> reg_auto))

theorem RInv.regName {s : State} (h : RInv s) (a : Nat) : RInv (step s (.regName a)) := by
  have hpa := h.pcs a
  simp only [step]
  split
  · split
    · reg_inv h
    · reg_inv h
  · exact h

theorem RInv.new {s : State} (h : RInv s) (a : Nat) (name : Option Nat) : RInv (step s (.new a name)) := by
  have hpa := h.pcs a
  simp only [step]
  split
  · reg_inv h
  · exact h

theorem RInv.newRemote {s : State} (h : RInv s) (a : Nat) (name : Option Nat) :
    RInv (step s (.newRemote a name)) := by
  have hpa := h.pcs a
  simp only [step]
  split
  · reg_inv h
  · exact h

theorem RInv.regPidFail {s : State} (h : RInv s) (a : Nat) : RInv (step s (.regPidFail a)) := by
  have hpa := h.pcs a
  simp only [step]
  split
  · reg_inv h
  · exact h

theorem RInv.rollback {s : State} (h : RInv s) (a : Nat) : RInv (step s (.rollback a)) := by
  have hpa := h.pcs a
  simp only [step]
  split
  · reg_inv h
  · exact h

theorem RInv.publish {s : State} (h : RInv s) (a st : Nat) : RInv (step s (.publish a st)) := by
  have hpa := h.pcs a
  simp only [step]
  split
  · reg_inv h
  · exact h

theorem RInv.monitor {s : State} (h : RInv s) (m : Nat) : RInv (step s (.monitor m)) := by
  simp only [step]
  reg_inv h

theorem RInv.demonitor {s : State} (h : RInv s) (m : Nat) : RInv (step s (.demonitor m)) := by
  simp only [step]
  reg_inv h

theorem RInv.regPid {s : State} (h : RInv s) (a : Nat) : RInv (step s (.regPid a)) := by
  have hpa := h.pcs a
  simp only [step]
  split
  · have ho := h.owner; have he := h.entry; have hp := h.pcs; have hd := h.pid
    have hb := h.bound; have hs := h.evSp; have ht := h.evTm
    refine ⟨?_, ?_, ?_, ?_, ?_, ?_, ?_⟩
    · intros; reg_auto
    · intros; reg_auto
    · intros; reg_auto
    · intros; reg_auto
    · intros; reg_auto
    · intro e hmem
      simp only [setPc, List.mem_append] at hmem
      rcases hmem with hmem | hmem
      · have := hs e hmem; reg_auto
      · have := mem_fanout hmem; reg_auto
    · intro e hmem hk
      simp only [setPc, List.mem_append] at hmem
      rcases hmem with hmem | hmem
      · have := ht e hmem hk; have := hs e hmem; reg_auto
      · have := mem_fanout hmem; reg_auto
  · exact h

theorem RInv.bstep {s : State} (h : RInv s) (a : Nat) : RInv (step s (.bstep a)) := by
  have hpa := h.pcs a
  have ho := h.owner; have he := h.entry; have hp := h.pcs; have hd := h.pid
  have hb := h.bound; have hs := h.evSp; have ht := h.evTm
  simp only [step]
  split
  · next stmt rest st hpc =>
    have hsuf : stopping ≤ (s.act a).status ∧ suffixOk (stmt :: rest) := by
      simpa only [pcOk, hpc] using hpa
    have hst := hsuf.1
    rcases hsuf.2 with e | e | e | e
    · -- demonitor
      injection e with e1 e2; subst e1 e2
      simp only [exec]
      refine ⟨?_, ?_, ?_, ?_, ?_, ?_, ?_⟩ <;> intros <;> reg_auto
    · -- unregister_pid
      injection e with e1 e2; subst e1 e2
      simp only [exec]
      split
      · refine ⟨?_, ?_, ?_, ?_, ?_, ?_, ?_⟩
        · intros; reg_auto
        · intros; reg_auto
        · intros; reg_auto
        · intros; reg_auto
        · intros; reg_auto
        · intro e hmem
          simp only [setPc, List.mem_append] at hmem
          rcases hmem with hmem | hmem
          · have := hs e hmem; reg_auto
          · have := mem_fanout hmem; reg_auto
        · intro e hmem hk
          simp only [setPc, List.mem_append] at hmem
          rcases hmem with hmem | hmem
          · have := ht e hmem hk; have := hs e hmem; reg_auto
          · have := mem_fanout hmem; reg_auto
      · refine ⟨?_, ?_, ?_, ?_, ?_, ?_, ?_⟩ <;> intros <;> reg_auto
    · -- registry::unregister
      injection e with e1 e2; subst e1 e2
      simp only [exec]
      split
      · split
        · refine ⟨?_, ?_, ?_, ?_, ?_, ?_, ?_⟩ <;> intros <;> reg_auto
        · refine ⟨?_, ?_, ?_, ?_, ?_, ?_, ?_⟩ <;> intros <;> reg_auto
      · refine ⟨?_, ?_, ?_, ?_, ?_, ?_, ?_⟩ <;> intros <;> reg_auto
    · cases e
  · refine ⟨?_, ?_, ?_, ?_, ?_, ?_, ?_⟩ <;> intros <;> reg_auto
  · exact h

theorem RInv.step {s : State} (h : RInv s) (op : Op) : RInv (step s op) := by
  cases op with
  | new a name => exact h.new a name
  | newRemote a name => exact h.newRemote a name
  | regName a => exact h.regName a
  | regPid a => exact h.regPid a
  | regPidFail a => exact h.regPidFail a
  | rollback a => exact h.rollback a
  | publish a st => exact h.publish a st
  | bstep a => exact h.bstep a
  | monitor m => exact h.monitor m
  | demonitor m => exact h.demonitor m

theorem RInv.run {s : State} (h : RInv s) (ops : List Op) : RInv (run s ops) := by
  induction ops generalizing s with
  | nil => exact h
  | cons op ops ih => exact ih (h.step op)

end Reg2
