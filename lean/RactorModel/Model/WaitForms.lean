import RactorModel.Model.ExitRace

/-!
# Model `WaitForms` — every wait form of `ActorCell`, and the supervisor-side children wrappers (C06)

A layer over `Model/ExitRace.lean`. One *kid* = one actor with its own complete `ExitRace.G`
(exit sequence, `Notify`, waiters, drainers, …) plus its one-shot ports. A *caller* is one call of

* `wait(None)` / `wait(Some t)`            — no send step;
* `stop_and_wait(reason, t)`  (`actor_cell.rs`, `actor_properties.rs::send_stop_and_wait`):
  `self.send_stop(reason)?` — `stop.lock().take()` and the oneshot `send`; the error is PROPAGATED,
  `wait()` is never reached then;
* `kill_and_wait(t)` (`send_signal_and_wait`): `let _ = self.send_signal(..)` — the error is IGNORED,
  `wait()` always follows;
* `drain_and_wait(t)`: `self.drain()?` — close admission, `fetch_update` of the status (base step
  `Tid.d`), `send_drain_marker` (fails only when the marker has to be enqueued and the mailbox
  receiver is gone); the error is propagated;
* the join handle of `Actor::spawn` / of the thread-local spawner (`form = join`): completes when
  the actor's task has returned, i.e. after the last statement of the exit sequence. `Res.ok` then
  means "the handle completed" — with `Ok(())`, or with `Err(JoinError::Panic)` when a statement of
  `cleanup` panicked (`Exiter.unwound`); C06 claims the full stop for either.

Each form is: a *send step that may fail*, then the `wait()` sub-machine of `ExitRace` (create
`Notified`, read the status, await), which a *timeout* may abandon: `tokio::time::timeout` polls the
inner future first, so a firing timer is one more poll of the waiter and, if that is still
pending, the drop of the `Notified` (`Tid.abandon`).

`stop_children_and_wait` / `drain_children_and_wait` (`supervision.rs`): `get_children()` snapshot,
one `JoinSet` task per child running `stop_and_wait` / `drain_and_wait`, then `join_next` until the
set is empty; `Ok(Ok(()))`, `Ok(Err(_))` are both DISCARDED (`_ => {}`), the wrapper returns `()`.
A `Wrapper` is the list of its callers; its only step returns once every one of them is done.

Racers: `XTid.stop k` / `XTid.kill k` = somebody else's `stop()` / `kill()` on kid `k` (takes the
one-shot port); whether and when the actor then starts its exit sequence is the schedule's choice
(`XTid.kid k .e`), as in `ExitRace`.
Core Lean only.
-/

namespace ExitRace

inductive Form where
  | wait | stopWait | killWait | drainWait | join
  deriving DecidableEq, Repr, Inhabited

/-- Result of a call. `ok snap`: returned `Ok(())`; `snap` = what a snapshot taken at that moment
shows (`okNow`: status `Stopped` and the exit clean-up complete). -/
inductive Res where
  | ok (snap : Bool)
  /-- `Err(RactorErr::Messaging(_))`: the send step failed, nothing was waited for -/
  | sendErr
  /-- `Err(RactorErr::Timeout)` / `Err(Timeout)` -/
  | timeout
  deriving DecidableEq, Repr, Inhabited

inductive CPc where
  | send
  | waiting
  | done (r : Res)
  deriving DecidableEq, Repr, Inhabited

/-- The one-shot ports of an actor as seen by senders. -/
structure Ports where
  /-- `stop: Mutex<Option<OneshotSender>>` still holds its sender -/
  stop : Bool := true
  /-- `signal: Mutex<Option<OneshotSender>>` still holds its sender -/
  signal : Bool := true
  /-- `DRAIN_MARKER_SENT` -/
  marker : Bool := false
  /-- the processing loop still owns the `ActorPortSet` when the exit sequence starts (false after a
  handler panic / error: the loop's future is dropped before `set_status(Stopping)`) -/
  rx0 : Bool := true
  deriving DecidableEq, Repr, Inhabited

structure Kid where
  g : G := {}
  ports : Ports := {}
  deriving Repr, Inhabited

/-- The receivers of the port set are dropped when `processing_loop` returns: after `post_stop` on a
graceful exit, after the first `set_status(Stopping)` otherwise — in both cases before `cleanup`. -/
def EPc.loopGone : EPc → Bool
  | .set1 _ | .postStop => false
  | _ => true

def Kid.rxAlive (k : Kid) : Bool := k.ports.rx0 && !k.g.exiter.pc.loopGone

/-- `verif_ports_open().0`: a `stop()` issued now would be accepted -/
def Kid.stopOpen (k : Kid) : Bool := k.ports.stop && k.rxAlive
def Kid.signalOpen (k : Kid) : Bool := k.ports.signal && k.rxAlive

/-- status `Stopped` and every clean-up step of the exit done — C06's "fully stopped" -/
def Kid.fullyStopped (k : Kid) : Bool := okNow k.g

structure Caller where
  kid : Nat := 0
  form : Form := .wait
  /-- called with `Some(timeout)` -/
  timed : Bool := false
  /-- its `Notified` slot in the kid's waiter list -/
  w : Nat := 0
  /-- its slot in the kid's drainer list (`drainWait`) -/
  d : Nat := 0
  pc : CPc := .send
  /-- ghost: the send step of THIS call was accepted (the call went on to `wait()`) -/
  accepted : Bool := false
  deriving DecidableEq, Repr, Inhabited

def Caller.isDone (c : Caller) : Bool :=
  match c.pc with
  | .done _ => true
  | _ => false

structure Wrapper where
  /-- the `JoinSet` tasks, one per child of the `get_children()` snapshot -/
  callers : List Nat := []
  returned : Bool := false
  deriving DecidableEq, Repr, Inhabited

structure X where
  kids : List Kid := []
  callers : List Caller := []
  wrappers : List Wrapper := []
  deriving Repr, Inhabited

inductive XTid where
  /-- any step of kid `k`'s own `ExitRace` machine (its exiter, other waiters, setters, drainers, …) -/
  | kid (k : Nat) (t : Tid)
  /-- the next step of caller `j` (its send step, or one poll of its wait) -/
  | call (j : Nat)
  /-- the timer of caller `j` fires -/
  | timeout (j : Nat)
  /-- somebody else's `stop()` / `kill()` on kid `k` -/
  | stop (k : Nat)
  | kill (k : Nat)
  /-- somebody else's `drain()` on kid `k` reaches `send_drain_marker` (its status `fetch_update` is
  the base step `Tid.d`) -/
  | mark (k : Nat)
  /-- wrapper `i`: `join_next` finds the set empty -/
  | wrap (i : Nat)
  deriving DecidableEq, Repr, Inhabited

/-- The send step of each form (first poll of the call, up to the creation of `Notified`). -/
def sendStep (kid : Kid) (c : Caller) : Kid × Caller :=
  match c.form with
  | .wait | .join => (kid, { c with pc := .waiting })
  | .stopWait =>
    if kid.ports.stop then
      let kid' := { kid with ports := { kid.ports with stop := false } }
      if kid.rxAlive then (kid', { c with pc := .waiting, accepted := true })
      else (kid', { c with pc := .done .sendErr })
    else (kid, { c with pc := .done .sendErr })
  | .killWait =>
    -- an accepted kill is the base step `Tid.kill`: before `post_stop` it turns a graceful exit into a
    -- killed one
    ({ kid with g := if kid.signalOpen then step kid.g .kill else kid.g,
                ports := { kid.ports with signal := false } },
     { c with pc := .waiting, accepted := kid.signalOpen })
  | .drainWait =>
    let g' := step kid.g (.d c.d)
    if kid.ports.marker then ({ kid with g := g' }, { c with pc := .waiting, accepted := true })
    else
      let kid' := { kid with g := g', ports := { kid.ports with marker := true } }
      if kid.rxAlive then (kid', { c with pc := .waiting, accepted := true })
      else (kid', { c with pc := .done .sendErr })

def waiterPc (g : G) (i : Nat) : Option WPc := (g.waiters[i]?).map (·.pc)

/-- One poll of the wait part. -/
def waitStep (kid : Kid) (c : Caller) : Kid × Caller :=
  match c.form with
  | .join =>
    if kid.g.exiter.finished then (kid, { c with pc := .done (.ok (okNow kid.g)) }) else (kid, c)
  | _ =>
    let g' := step kid.g (.w c.w)
    match waiterPc g' c.w with
    | some (.returned b) => ({ kid with g := g' }, { c with pc := .done (.ok b) })
    | _ => ({ kid with g := g' }, c)

def callStep (kid : Kid) (c : Caller) : Kid × Caller :=
  match c.pc with
  | .send => sendStep kid c
  | .waiting => waitStep kid c
  | .done _ => (kid, c)

/-- The timer fires: `Timeout::poll` polls the inner future once more, and reports `Elapsed`
(dropping the inner future) if it is still pending. Only a `timed` call that is waiting. -/
def timeoutStep (kid : Kid) (c : Caller) : Kid × Caller :=
  if c.timed && c.pc == .waiting && c.form != .join then
    let r := waitStep kid c
    if r.2.isDone then r
    else ({ r.1 with g := step r.1.g (.abandon c.w) }, { r.2 with pc := .done .timeout })
  else (kid, c)

def xstep (x : X) : XTid → X
  | .kid k t =>
    match x.kids[k]? with
    | none => x
    | some kid => { x with kids := x.kids.set k { kid with g := step kid.g t } }
  | .stop k =>
    match x.kids[k]? with
    | none => x
    | some kid => { x with kids := x.kids.set k { kid with ports := { kid.ports with stop := false } } }
  | .kill k =>
    match x.kids[k]? with
    | none => x
    | some kid =>
      { x with kids := x.kids.set k { kid with g := if kid.signalOpen then step kid.g .kill else kid.g,
                                               ports := { kid.ports with signal := false } } }
  | .mark k =>
    match x.kids[k]? with
    | none => x
    | some kid => { x with kids := x.kids.set k { kid with ports := { kid.ports with marker := true } } }
  | .call j =>
    match x.callers[j]? with
    | none => x
    | some c =>
      match x.kids[c.kid]? with
      | none => x
      | some kid =>
        let r := callStep kid c
        { x with kids := x.kids.set c.kid r.1, callers := x.callers.set j r.2 }
  | .timeout j =>
    match x.callers[j]? with
    | none => x
    | some c =>
      match x.kids[c.kid]? with
      | none => x
      | some kid =>
        let r := timeoutStep kid c
        { x with kids := x.kids.set c.kid r.1, callers := x.callers.set j r.2 }
  | .wrap i =>
    match x.wrappers[i]? with
    | none => x
    | some wr =>
      if wr.callers.all (fun j => match x.callers[j]? with | some c => c.isDone | none => true) then
        { x with wrappers := x.wrappers.set i { wr with returned := true } }
      else x

def xrun (x : X) (sched : List XTid) : X := sched.foldl xstep x

/-- Initial states: every kid's exit sequence has not started (status `Running` or `Draining`,
arbitrary ports: a racer may already have used the stop or the signal port), every call is still
ahead of its send step, no wrapper has returned. -/
structure XInitial (x : X) : Prop where
  kids : ∀ k ∈ x.kids, Initial k.g
  callers : ∀ c ∈ x.callers, c.pc = .send ∧ c.accepted = false
  wrappers : ∀ wr ∈ x.wrappers, wr.returned = false

/-- The run-time oracle of every wait form (the driver evaluates this on the implementation's
result and on the snapshot it took the moment the call returned): `Ok` ⇒ fully stopped. -/
def formOk (r : Res) : Bool :=
  match r with
  | .ok snap => snap
  | _ => true

/-- Oracle of the children wrappers, per child of the snapshot: when the wrapper has returned, a
child whose request was accepted by this call and whose wait did not time out is fully stopped. -/
def wrapperChildOk (accepted timedOut fullyStopped : Bool) : Bool :=
  !accepted || timedOut || fullyStopped

end ExitRace
