import RactorModel.Lemmas.Registry

/-! From the invariant to the observable predicate `Registry.ok`, the winner count, and
preservation of `noNamedProxy`. -/

namespace Registry

theorem status_lt_stopped_of_pc {l : Bool} {s : State} (h : Inv l s) {x : Actor} (hx : x ∈ s.actors)
    (hpc : x.pc < 3) : x.status < stopped := by
  have := h.pcs x hx
  simp only [stopping, stopped] at *
  omega

theorem pc_zero_of_live {l : Bool} {s : State} (h : Inv l s) {x : Actor} (hx : x ∈ s.actors)
    (hst : x.status < stopping) : x.pc = 0 := (h.pcs x hx).1.mpr hst

theorem ok_of_inv {l : Bool} {s : State} (h : Inv l s) (hc : l = true → noNamedProxy s) :
    ok (view s) = true := by
  simp only [ok, Bool.and_eq_true]
  refine ⟨⟨⟨⟨⟨?_, ?_⟩, ?_⟩, ?_⟩, ?_⟩, by simp [okPidEvents, view]⟩
  · simp only [okUnique, view]; exact decide_eq_true h.keys
  · simp only [okHolder, view, List.all_eq_true, List.any_eq_true, List.mem_map]
    intro p hp
    obtain ⟨x, hx, h1, h2, h3, h4⟩ := h.holder p hp
    refine ⟨_, ⟨x, hx, rfl⟩, ?_⟩
    have := status_lt_stopped_of_pc h hx h4
    simp [h1, h2, h3, this]
  · simp only [okVisible, view, List.all_eq_true, List.mem_map]
    rintro _ ⟨x, hx, rfl⟩
    simp only
    cases hn : x.name with
    | none => rfl
    | some n =>
      simp only [Bool.or_eq_true, decide_eq_true_eq, List.contains_iff_mem]
      by_cases hr : x.remote = true
      · exact Or.inl (Or.inl hr)
      · by_cases hs : x.status ≥ stopping
        · exact Or.inl (Or.inr hs)
        · right
          have hpc := pc_zero_of_live h hx (by omega)
          exact h.visible hc x hx (by simpa using hr) n hn (by omega)
  · simp only [okOneLive, view, decide_eq_true_eq, List.pairwise_map]
    refine h.ids.imp_of_mem ?_
    intro x y hx hy hne
    by_cases c : x.name = none ∨ x.name ≠ y.name ∨ x.remote = true ∨ y.remote = true ∨
        x.status ≥ stopping ∨ y.status ≥ stopping
    · exact c
    · exfalso
      simp only [not_or, Decidable.not_not, Bool.not_eq_true, Nat.not_le] at c
      obtain ⟨c1, c2, c3, c4, c5, c6⟩ := c
      obtain ⟨n, hn⟩ := Option.ne_none_iff_exists'.mp c1
      have hx' := h.visible hc x hx c3 n hn (by rw [pc_zero_of_live h hx c5]; omega)
      have hy' := h.visible hc y hy c4 n (c2 ▸ hn) (by rw [pc_zero_of_live h hy c6]; omega)
      exact hne (key_unique h.keys hx' hy')
  · simp only [okPids, view, Bool.and_eq_true, decide_eq_true_eq, List.all_eq_true, List.any_eq_true,
      List.mem_map]
    refine ⟨⟨h.pidKeys, ?_⟩, ?_⟩
    · intro b hb
      obtain ⟨x, hx, h1, h2, h3⟩ := h.pidHolder b hb
      refine ⟨_, ⟨x, hx, rfl⟩, ?_⟩
      have := status_lt_stopped_of_pc h hx (by omega)
      simp [h1, h2, this]
    · rintro _ ⟨x, hx, rfl⟩
      simp only [Bool.or_eq_true, decide_eq_true_eq, List.contains_iff_mem]
      by_cases hr : x.remote = true
      · exact Or.inl (Or.inl hr)
      · by_cases hs : x.status ≥ stopping
        · exact Or.inl (Or.inr hs)
        · right
          have hpc := pc_zero_of_live h hx (by omega)
          exact h.pidVisible x hx (by simpa using hr) (by omega)

end Registry

namespace Registry

theorem whereIs_congr {s s' : State} (h : s'.names = s.names) (n : Nat) : whereIs s' n = whereIs s n := by
  simp [whereIs, h]

theorem step_names (l : Bool) (s : State) (op : Op) (hu : isUnreg op = false) :
    (step l s op).1.names = s.names ∨
    ∃ a n, op = .register a n ∧ (step l s op).2 = .ok ∧ (whereIs s n).isSome = false ∧
      (step l s op).1.names = s.names ++ [(n, a)] := by
  cases op with
  | register a n =>
    unfold step
    by_cases hf : fresh s a = true
    · by_cases hw : (whereIs s n).isSome = true
      · left; simp [hf, hw]
      · right; exact ⟨a, n, rfl, by simp [hf, hw], by simpa using hw, by simp [hf, hw]⟩
    · left; simp [hf]
  | unregName a => simp [isUnreg] at hu
  | create a => left; simp only [step]; split <;> rfl
  | proxy a n => left; simp only [step]; split <;> rfl
  | publish a st => left; simp only [step]; split <;> (try rfl); split <;> (try rfl); split <;> rfl
  | unregPid a => left; simp only [step]; split <;> (try rfl); split <;> (try rfl); split <;> rfl
  | lookup n => left; rfl
  | lookupPid a => left; rfl
  | waitRet a => left; rfl
  | drain a => left; simp only [step]; split <;> (try rfl); split <;> rfl

theorem step_obs_register_ok {l : Bool} {s : State} {op : Op} {n : Nat}
    (h : isWin n (op, (step l s op).2) = true) :
    ∃ a, op = .register a n ∧ (step l s op).2 = .ok := by
  cases op with
  | register a m =>
    cases ho : (step l s (.register a m)).2 <;> simp_all [isWin]
  | _ => simp [isWin] at h

theorem step_occ (l : Bool) (s : State) (op : Op) (n : Nat) (hu : isUnreg op = false) :
    (if isWin n (op, (step l s op).2) then 1 else 0) + occ s n = occ (step l s op).1 n := by
  rcases step_names l s op hu with h | ⟨a, m, rfl, hok, hvac, hn⟩
  · have hw : isWin n (op, (step l s op).2) = false := by
      cases hwin : isWin n (op, (step l s op).2) with
      | false => rfl
      | true =>
        exfalso
        obtain ⟨a, rfl, hok⟩ := step_obs_register_ok hwin
        -- a successful registration changes the table
        unfold step at hok h
        by_cases hf : fresh s a = true
        · by_cases hw : (whereIs s n).isSome = true
          · simp [hf, hw] at hok
          · simp [hf, hw] at h
        · simp [hf] at hok
    simp [hw, occ, whereIs_congr h]
  · simp only [hok, isWin, occ]
    by_cases e : m = n
    · subst e
      have h1 : (whereIs (step l s (.register a m)).1 m).isSome = true := by
        simp only [whereIs, hn, List.find?_append]
        simp
      simp [hvac, h1]
    · have h1 : whereIs (step l s (.register a m)).1 n = whereIs s n := by
        simp only [whereIs, hn, List.find?_append]
        cases hfind : List.find? (fun x => x.1 == n) s.names <;> simp [e]
      simp [h1, e]

theorem winners_count (l : Bool) (n : Nat) (ops : List Op) (s : State)
    (hu : ∀ op ∈ ops, isUnreg op = false) :
    ((trace l s ops).filter (isWin n)).length + occ s n = occ (run l s ops) n := by
  induction ops generalizing s with
  | nil => simp [trace, run]
  | cons op ops ih =>
    have h1 := step_occ l s op n (hu op (by simp))
    have h2 := ih (step l s op).1 (fun o ho => hu o (by simp [ho]))
    simp only [trace, run, List.filter_cons]
    split at h1
    · next hw => rw [if_pos hw]; simp only [List.length_cons]; omega
    · next hw => rw [if_neg hw]; omega

theorem occ_mono (l : Bool) (n : Nat) (ops : List Op) (s : State)
    (hu : ∀ op ∈ ops, isUnreg op = false) : occ s n ≤ occ (run l s ops) n := by
  have := winners_count l n ops s hu; omega

/-- an attempt that really ran leaves the name taken -/
theorem attempt_occ (l : Bool) (s : State) (op : Op) (n : Nat)
    (h : isAttempt n (op, (step l s op).2) = true) : occ (step l s op).1 n = 1 := by
  cases op with
  | register a m =>
    unfold step at h ⊢
    by_cases hf : fresh s a = true
    · by_cases hw : (whereIs s m).isSome = true
      · simp only [hf, hw, Bool.not_true, Bool.false_eq_true, ↓reduceIte, isAttempt, beq_iff_eq] at h ⊢
        subst h; simp [occ, hw]
      · simp only [hf, hw, Bool.not_true, Bool.false_eq_true, ↓reduceIte, isAttempt, beq_iff_eq] at h ⊢
        subst h
        simp [occ, whereIs, List.find?_append]
    · simp [hf, isAttempt] at h
  | _ => simp [isAttempt] at h

end Registry

namespace Registry

theorem noNamedProxy_setA' {s : State} {a : Nat} {f : Actor → Actor}
    (hf : ∀ x, (f x).remote = x.remote ∧ (f x).name = x.name)
    (h : noNamedProxy s) : noNamedProxy (setA s a f) := by
  intro y hy hr
  obtain ⟨x, hx, rfl⟩ := mem_setA.mp hy
  have := h x hx
  split at hr <;> split <;> simp_all

theorem noNamedProxy_step (l : Bool) (s : State) (op : Op) (h : noNamedProxy s)
    (hop : noNamedRemoteProxy [op] = true) : noNamedProxy (step l s op).1 := by
  cases op with
  | register a n =>
    simp only [step]; split; exact h; split; exact h
    intro x hx hr
    rcases List.mem_append.mp hx with hx | hx
    · exact h x hx hr
    · simp only [List.mem_singleton] at hx; subst hx; simp at hr
  | create a =>
    simp only [step]; split; exact h
    intro x hx hr
    rcases List.mem_append.mp hx with hx | hx
    · exact h x hx hr
    · simp only [List.mem_singleton] at hx; subst hx; simp at hr
  | proxy a n =>
    cases n with
    | some n => simp [noNamedRemoteProxy] at hop
    | none =>
      simp only [step]; split; exact h
      intro x hx hr
      rcases List.mem_append.mp hx with hx | hx
      · exact h x hx hr
      · simp only [List.mem_singleton] at hx; subst hx; rfl
  | publish a st =>
    simp only [step]; split; exact h; split; exact h; split; exact h
    exact noNamedProxy_setA' (fun x => ⟨rfl, rfl⟩) h
  | unregPid a =>
    simp only [step]; split; exact h; split; exact h
    refine noNamedProxy_setA' (f := fun x => { x with pc := _ }) (fun x => ⟨rfl, rfl⟩) ?_
    split
    · exact h
    · exact h
  | unregName a =>
    simp only [step]; split; exact h; split; exact h
    refine noNamedProxy_setA' (f := fun x => { x with pc := _ }) (fun x => ⟨rfl, rfl⟩) ?_
    split
    · split
      · exact h
      · exact h
    · exact h
  | lookup n => exact h
  | lookupPid a => exact h
  | waitRet a => exact h
  | drain a =>
    simp only [step]; split; exact h; split
    · exact noNamedProxy_setA' (fun x => ⟨rfl, rfl⟩) h
    · exact h

theorem noNamedProxy_run (l : Bool) (ops : List Op) (s : State) (h : noNamedProxy s)
    (hop : noNamedRemoteProxy ops = true) : noNamedProxy (run l s ops) := by
  induction ops generalizing s with
  | nil => exact h
  | cons op ops ih =>
    simp only [noNamedRemoteProxy, List.all_cons, Bool.and_eq_true] at hop
    exact ih _ (noNamedProxy_step l s op h (by simp [noNamedRemoteProxy, hop.1])) hop.2

end Registry

namespace Registry

/-- "a local actor with id `a` exists" survives every step -/
theorem actor_persist (l : Bool) (s : State) (op : Op) (a : Nat)
    (h : ∃ x ∈ s.actors, x.id = a ∧ x.remote = false) :
    ∃ x ∈ (step l s op).1.actors, x.id = a ∧ x.remote = false := by
  obtain ⟨x, hx, h1, h2⟩ := h
  have happ : ∀ (extra : List Actor) (s' : State), s'.actors = s.actors ++ extra →
      ∃ y ∈ s'.actors, y.id = a ∧ y.remote = false := by
    intro extra s' e; exact ⟨x, by rw [e]; simp [hx], h1, h2⟩
  have hset : ∀ (s0 : State) (b : Nat) (f : Actor → Actor), s0.actors = s.actors →
      (∀ y, (f y).id = y.id ∧ (f y).remote = y.remote) →
      ∃ y ∈ (setA s0 b f).actors, y.id = a ∧ y.remote = false := by
    intro s0 b f e hf
    refine ⟨if x.id = b then f x else x, mem_setA.mpr ⟨x, e ▸ hx, rfl⟩, ?_⟩
    split
    · exact ⟨(hf x).1.trans h1, (hf x).2.trans h2⟩
    · exact ⟨h1, h2⟩
  cases op with
  | register b n =>
    simp only [step]; split
    · exact ⟨x, hx, h1, h2⟩
    · split
      · exact ⟨x, hx, h1, h2⟩
      · exact happ _ _ rfl
  | create b =>
    simp only [step]; split
    · exact ⟨x, hx, h1, h2⟩
    · exact happ _ _ rfl
  | proxy b n =>
    simp only [step]; split
    · exact ⟨x, hx, h1, h2⟩
    · exact happ _ _ rfl
  | publish b st =>
    simp only [step]; split
    · exact ⟨x, hx, h1, h2⟩
    · split
      · exact ⟨x, hx, h1, h2⟩
      · split
        · exact ⟨x, hx, h1, h2⟩
        · exact hset s b _ rfl (fun y => ⟨rfl, rfl⟩)
  | unregPid b =>
    simp only [step]; split
    · exact ⟨x, hx, h1, h2⟩
    · split
      · exact ⟨x, hx, h1, h2⟩
      · refine hset _ b _ ?_ (fun y => ⟨rfl, rfl⟩)
        split <;> rfl
  | unregName b =>
    simp only [step]; split
    · exact ⟨x, hx, h1, h2⟩
    · split
      · exact ⟨x, hx, h1, h2⟩
      · refine hset _ b _ ?_ (fun y => ⟨rfl, rfl⟩)
        split
        · split <;> rfl
        · rfl
  | lookup n => exact ⟨x, hx, h1, h2⟩
  | lookupPid b => exact ⟨x, hx, h1, h2⟩
  | waitRet b => exact ⟨x, hx, h1, h2⟩
  | drain b =>
    simp only [step]; split
    · exact ⟨x, hx, h1, h2⟩
    · split
      · exact hset s b _ rfl (fun y => ⟨rfl, rfl⟩)
      · exact ⟨x, hx, h1, h2⟩

theorem actor_persist_run (l : Bool) (ops : List Op) (s : State) (a : Nat)
    (h : ∃ x ∈ s.actors, x.id = a ∧ x.remote = false) :
    ∃ x ∈ (run l s ops).actors, x.id = a ∧ x.remote = false := by
  induction ops generalizing s with
  | nil => exact h
  | cons op ops ih => exact ih _ (actor_persist l s op a h)

/-- the events of one region concern a local actor that exists right after it -/
theorem pidEvents_actor (l : Bool) (s : State) (op : Op) (e : Bool × Nat) (he : e ∈ pidEvents s op) :
    ∃ x ∈ (step l s op).1.actors, x.id = e.2 ∧ x.remote = false := by
  cases op with
  | register a n =>
    simp only [pidEvents] at he
    by_cases c : (fresh s a && (whereIs s n).isNone) = true
    · rw [if_pos c] at he
      simp only [List.mem_singleton] at he; subst he
      simp only [Bool.and_eq_true, Option.isNone_iff_eq_none] at c
      have hw : (whereIs s n).isSome = false := by rw [c.2]; rfl
      simp only [step, c.1, hw, Bool.not_true, Bool.false_eq_true, ↓reduceIte]
      exact ⟨⟨a, some n, false, 0, 0⟩, by simp, rfl, rfl⟩
    · rw [if_neg c] at he; cases he
  | create a =>
    simp only [pidEvents] at he
    by_cases c : fresh s a = true
    · rw [if_pos c] at he
      simp only [List.mem_singleton] at he; subst he
      simp only [step, c, Bool.not_true, Bool.false_eq_true, ↓reduceIte]
      exact ⟨⟨a, none, false, 0, 0⟩, by simp, rfl, rfl⟩
    · rw [if_neg c] at he; cases he
  | unregPid a =>
    simp only [pidEvents] at he
    cases hg : getA s a with
    | none => rw [hg] at he; cases he
    | some x =>
      rw [hg] at he
      simp only at he
      by_cases c : x.pc = 1 ∧ x.remote = false ∧ a ∈ s.pids
      · rw [if_pos c] at he
        simp only [List.mem_singleton] at he; subst he
        obtain ⟨hx, hid⟩ := getA_some hg
        exact actor_persist l s (.unregPid a) a ⟨x, hx, hid, c.2.1⟩
      · rw [if_neg c] at he; cases he
  | proxy a n => cases he
  | publish a st => cases he
  | unregName a => cases he
  | lookup n => cases he
  | lookupPid a => cases he
  | waitRet a => cases he
  | drain a => cases he

theorem runEvents_actor (l : Bool) (ops : List Op) (s : State) (e : Bool × Nat)
    (he : e ∈ runEvents l s ops) : ∃ x ∈ (run l s ops).actors, x.id = e.2 ∧ x.remote = false := by
  induction ops generalizing s with
  | nil => cases he
  | cons op ops ih =>
    simp only [runEvents, List.mem_append] at he
    rcases he with he | he
    · exact actor_persist_run l ops _ _ (pidEvents_actor l s op e he)
    · exact ih _ he

end Registry
