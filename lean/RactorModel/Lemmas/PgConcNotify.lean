import RactorModel.Lemmas.PgConcRun

/-!
Notification accounting of `Pg.Conc`: along every schedule, what has been sent plus what the
in-flight operations still owe is, as a multiset, exactly one `notifyPending` per recorded change —
and a change record carries the recipients read in the region that made the change.
-/

namespace Pg.Conc
open AList Pg Pg.Fine

/-! ### two list facts -/

theorem flatMap_set_perm {α β : Type} [DecidableEq β] (f : α → List β) (l : List α) (i : Nat) (x y : α) (h : l[i]? = some y) :
    ((l.set i x).flatMap f ++ f y).Perm (l.flatMap f ++ f x) := by
  induction l generalizing i with
  | nil => simp at h
  | cons a l ih =>
    cases i with
    | zero =>
      simp only [List.getElem?_cons_zero, Option.some.injEq] at h
      subst h
      simp only [List.set_cons_zero, List.flatMap_cons]
      apply List.perm_iff_count.mpr
      intro e; simp only [List.count_append]; omega
    | succ i =>
      simp only [List.getElem?_cons_succ] at h
      simp only [List.set_cons_succ, List.flatMap_cons, List.append_assoc]
      exact List.Perm.append_left _ (ih i h)

theorem erase_eq_self_of_get_none {κ ν : Type} [DecidableEq κ] (l : List (κ × ν)) (k : κ) (h : get l k = none) :
    erase l k = l := by
  induction l with
  | nil => rfl
  | cons p l ih =>
    rw [get_cons] at h
    by_cases e : p.1 = k
    · simp [e] at h
    · simp only [e, ↓reduceIte] at h
      simp only [erase, List.filter_cons, e, decide_false, Bool.not_false, ↓reduceIte]
      congr 1
      exact ih h

theorem get_none_of_pairwise {κ ν : Type} [DecidableEq κ] (p : κ × ν) (l : List (κ × ν))
    (h : ∀ q ∈ l, p.1 ≠ q.1) : get l p.1 = none := by
  induction l with
  | nil => rfl
  | cons q l ih =>
    rw [get_cons]
    have : ¬ q.1 = p.1 := fun e => h q (List.mem_cons_self) e.symm
    simp only [this, ↓reduceIte]
    exact ih (fun r hr => h r (List.mem_cons_of_mem _ hr))

theorem flatMap_erase_perm {κ ν β : Type} [DecidableEq κ] (F : κ × ν → List β) (l : List (κ × ν)) (hn : NodupKeys l)
    (k : κ) (dflt : ν) (hd : F (k, dflt) = []) :
    (l.flatMap F).Perm ((erase l k).flatMap F ++ F (k, (get l k).getD dflt)) := by
  induction l with
  | nil => simp [erase, hd]
  | cons p l ih =>
    rw [NodupKeys, List.pairwise_cons] at hn
    rw [get_cons]
    by_cases e : p.1 = k
    · have hnone : get l k = none := by rw [← e]; exact get_none_of_pairwise p l hn.1
      have : erase (p :: l) k = l := by
        simp only [erase, List.filter_cons, e, decide_true, Bool.not_true, Bool.false_eq_true, ↓reduceIte]
        exact erase_eq_self_of_get_none l k hnone
      rw [this, if_pos e]
      simp only [Option.getD_some, List.flatMap_cons]
      have : (k, p.2) = p := by rw [← e]
      rw [this]
      exact List.perm_append_comm
    · rw [if_neg e]
      have : erase (p :: l) k = p :: erase l k := by
        simp only [erase, List.filter_cons, e, decide_false, Bool.not_false, ↓reduceIte]
      rw [this]
      simp only [List.flatMap_cons, List.append_assoc]
      exact List.Perm.append_left _ (ih hn.2)

theorem flatMap_aset_count {κ ν β : Type} [DecidableEq κ] [BEq β] [LawfulBEq β] (F : κ × ν → List β)
    (l : List (κ × ν)) (hn : NodupKeys l) (k : κ) (v dflt : ν) (hd : F (k, dflt) = []) (e : β) :
    ((AList.set l k v).flatMap F).count e + (F (k, (get l k).getD dflt)).count e = (l.flatMap F).count e + (F (k, v)).count e := by
  have h1 := (flatMap_erase_perm F l hn k dflt hd).count_eq e
  simp only [AList.set, List.flatMap_append, List.flatMap_cons, List.flatMap_nil, List.append_nil, List.count_append] at h1 ⊢
  omega

/-! ### what one region does to the account -/

theorem notify_recPending (b : Nat) (r : Key × List Nat) :
    notifyPending (recPending b r) = r.2.map (fun m => Ev.mk m false r.1.1 r.1.2 [b]) := rfl

theorem finishLeave_evs (st : State) (b : Nat) (rm : List (Key × List Nat)) :
    (finishLeave st b rm).2 = (rm.map (recPending b)).flatMap notifyPending := by
  simp only [finishLeave, List.flatMap_map, notify_recPending]

theorem exstep_owed (st : State) (b : Nat) (ph : Phase) (r : ExReg) :
    exEvs st b ph r ++ phOwed b (fstep b ⟨st, ph⟩ r.toFOp).ph =
      phOwed b ph ++ (exRecs st b ph r).flatMap notifyPending := by
  cases r with
  | mark => cases ph <;> simp [exEvs, exRecs, phOwed, fstep, ExReg.toFOp]
  | demTake => cases ph <;> simp [exEvs, exRecs, phOwed, fstep, ExReg.toFOp]
  | demKey k =>
    cases ph with
    | demon gk wk => by_cases c : k ∈ gk <;> simp [exEvs, exRecs, phOwed, fstep, ExReg.toFOp, c]
    | _ => simp [exEvs, exRecs, phOwed, fstep, ExReg.toFOp]
  | demWKey s =>
    cases ph with
    | demon gk wk => by_cases c : s ∈ wk <;> simp [exEvs, exRecs, phOwed, fstep, ExReg.toFOp, c]
    | _ => simp [exEvs, exRecs, phOwed, fstep, ExReg.toFOp]
  | demDone =>
    cases ph with
    | demon gk wk =>
      cases gk with
      | nil => cases wk <;> simp [exEvs, exRecs, phOwed, fstep, ExReg.toFOp]
      | cons _ _ => simp [exEvs, exRecs, phOwed, fstep, ExReg.toFOp]
    | _ => simp [exEvs, exRecs, phOwed, fstep, ExReg.toFOp]
  | take => cases ph <;> simp [exEvs, exRecs, phOwed, fstep, ExReg.toFOp]
  | lvKey k =>
    cases ph with
    | leaving mk rm =>
      simp only [exEvs, exRecs, phOwed, fstep, ExReg.toFOp]
      by_cases c : k ∈ mk
      · simp only [c, ↓reduceIte, List.nil_append, phOwed, List.map_append, List.flatMap_append]
        cases (leaveKey st b k).2 <;> simp
      · simp [c, phOwed]
    | _ => simp [exEvs, exRecs, phOwed, fstep, ExReg.toFOp]
  | finish =>
    cases ph with
    | leaving mk rm =>
      cases mk with
      | nil => simp [exEvs, exRecs, phOwed, fstep, ExReg.toFOp, finishLeave_evs]
      | cons _ _ => simp [exEvs, exRecs, phOwed, fstep, ExReg.toFOp]
    | _ => simp [exEvs, exRecs, phOwed, fstep, ExReg.toFOp]

theorem callstep_owed (st : State) (pc : Pc) :
    (callStep st pc).2.2.2 ++ pcOwed (callStep st pc).2.1 =
      pcOwed pc ++ (callStep st pc).2.2.1.flatMap notifyPending := by
  cases pc with
  | join s g as => by_cases c : as.filter (alive st) = [] <;> simp [callStep, pcOwed, c]
  | joinFiltered s g as => simp [callStep, pcOwed]
  | joinIn s g as todo => simp [callStep, pcOwed]
  | joinEntered s g as p => cases p <;> simp [callStep, pcOwed]
  | notify p => simp [callStep, pcOwed]
  | leave s g as =>
    simp only [callStep, pcOwed]
    cases (leaveEntry st s g as).2 <;> simp [pcOwed]
  | monitor g b => simp [callStep, pcOwed]
  | monitorRel g b => simp [callStep, pcOwed]
  | monitorRecheck g b => simp [callStep, pcOwed]
  | monitorScope s b => simp [callStep, pcOwed]
  | monitorScopeRel s b => simp [callStep, pcOwed]
  | monitorScopeRecheck s b => simp [callStep, pcOwed]
  | demonitor g b => simp [callStep, pcOwed]
  | demonitorScope s b => simp [callStep, pcOwed]
  | demonitorCall g b => by_cases c : (get st.rel b).isSome = true <;> simp [callStep, pcOwed, c]
  | demonitorScopeCall s b => by_cases c : (get st.rel b).isSome = true <;> simp [callStep, pcOwed, c]
  | demonitorFwd g b => simp [callStep, pcOwed]
  | demonitorScopeFwd s b => simp [callStep, pcOwed]
  | done => simp [callStep, pcOwed]

/-! ### the account -/

structure Acct (g : G) : Prop where
  kEx : NodupKeys g.exits
  bal : ∀ e : Ev, (g.sent ++ owed g).count e = (g.changes.flatMap notifyPending).count e

theorem acct_start (st : State) (calls : List Pc) (h : ∀ pc ∈ calls, pcOwed pc = []) : Acct (start st calls) := by
  refine ⟨nodupKeys_nil, ?_⟩
  intro e
  have : calls.flatMap pcOwed = [] := by
    apply List.flatMap_eq_nil_iff.mpr; exact h
  simp [start, owed, this]

/-- a step that only replaces thread `i`'s pc, appends `new` records and sends nothing -/
theorem acct_thr {g g' : G} (h : Acct g) (i : Nat) (pc pc' : Pc) (new : List Pending) (hp : g.thr[i]? = some pc)
    (he : g'.exits = g.exits) (ht : g'.thr = g.thr.set i pc') (hs : g'.sent = g.sent)
    (hc : g'.changes = g.changes ++ new) (ho : pcOwed pc' = pcOwed pc ++ new.flatMap notifyPending) : Acct g' := by
  refine ⟨by rw [he]; exact h.kEx, ?_⟩
  intro e
  have h0 := h.bal e
  have h1 := (flatMap_set_perm pcOwed g.thr i pc' pc hp).count_eq e
  have h2 := congrArg (List.count e) ho
  simp only [owed, he, ht, hs, hc, List.count_append, List.flatMap_append] at h0 h1 h2 ⊢
  omega

theorem acct_step {g : G} (h : Acct g) (t : Tid) : Acct (step g t) := by
  cases t with
  | ex b r =>
    by_cases hg : exSkip g b r
    · rw [step_ex_skip g b r hg]; exact h
    · rw [step_ex g b r hg]
      refine ⟨nodupKeys_set h.kEx _ _, ?_⟩
      intro e
      have h0 := h.bal e
      have h1 := flatMap_aset_count (fun p : Nat × Phase => phOwed p.1 p.2) g.exits h.kEx b
        (fstep b ⟨g.st, phaseOf g b⟩ r.toFOp).ph .live rfl e
      have h2 := congrArg (List.count e) (exstep_owed g.st b (phaseOf g b) r)
      simp only [owed, List.count_append, List.flatMap_append, phaseOf] at h0 h1 h2 ⊢
      omega
  | call i =>
    cases hp : g.thr[i]? with
    | none => rw [step_call_none g i hp]; exact h
    | some pc =>
      by_cases hb : blocked g pc
      · rw [step_call_blocked g i pc hp hb]; exact h
      · by_cases c1 : ∃ s g' as, pc = .joinFiltered s g' as
        · obtain ⟨s, g', as, rfl⟩ := c1
          rw [step_call_lock g i s g' as hp hb]
          exact acct_thr h i _ _ [] hp rfl rfl rfl (by simp) (by simp [pcOwed])
        · by_cases c2 : ∃ s g' as todo, pc = .joinIn s g' as todo
          · obtain ⟨s, g', as, todo, rfl⟩ := c2
            cases todo with
            | nil =>
              rw [step_call_commit g i s g' as hp]
              refine acct_thr h i _ _ (commitRec g s g').toList hp rfl rfl rfl rfl ?_
              cases commitRec g s g' <;> simp [pcOwed]
            | cons x todo =>
              rw [step_call_one g i s g' as x todo hp]
              exact acct_thr h i _ _ [] hp rfl rfl rfl (by simp) (by simp [pcOwed])
          · have h1 : ∀ s g' as, pc ≠ .joinFiltered s g' as := fun s g' as e => c1 ⟨s, g', as, e⟩
            have h2 : ∀ s g' as todo, pc ≠ .joinIn s g' as todo := fun s g' as todo e => c2 ⟨s, g', as, todo, e⟩
            rw [step_call_other g i pc hp hb h1 h2]
            refine ⟨h.kEx, ?_⟩
            intro e
            have h0 := h.bal e
            have h1 := (flatMap_set_perm pcOwed g.thr i (callStep g.st pc).2.1 pc hp).count_eq e
            have h2 := congrArg (List.count e) (callstep_owed g.st pc)
            simp only [owed, List.count_append, List.flatMap_append] at h0 h1 h2 ⊢
            omega

theorem acct_run {g : G} (h : Acct g) (sched : List Tid) : Acct (run g sched) := by
  unfold run
  induction sched generalizing g with
  | nil => exact h
  | cons t ts ih => exact ih (acct_step h t)

/-- nothing is owed at rest -/
theorem owed_atRest {g : G} (hk : NodupKeys g.exits) (h : atRest g) : owed g = [] := by
  unfold owed
  have h1 : g.thr.flatMap pcOwed = [] := by
    apply List.flatMap_eq_nil_iff.mpr
    intro pc hpc; rw [h.1 pc hpc]; rfl
  have h2 : g.exits.flatMap (fun p => phOwed p.1 p.2) = [] := by
    apply List.flatMap_eq_nil_iff.mpr
    intro p hp
    have hg : get g.exits p.1 = some p.2 := get_of_mem hk hp
    have := h.2.1 p.1
    unfold phaseOf at this
    rw [hg] at this
    simp only [Option.getD_some] at this
    rcases this with e | e <;> rw [e] <;> rfl
  rw [h1, h2]; rfl

end Pg.Conc
