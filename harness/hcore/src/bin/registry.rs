//! C10 harness: name registry (and, in the `cluster` build, pid registry) of the REAL ractor.
//!
//! Two engines, one line protocol (see lean/Driver/Registry.lean):
//!  * `--mode lts`: API level on a paused current_thread runtime, run to quiescence between
//!    ops: named/unnamed spawns, failed starts (pre_start Err), stop/kill/drain, exits held in
//!    `post_stop` (status Stopping, name already released), lookups tagged with the returned
//!    cell's status, `wait()`, respawns; in the cluster build also remote proxies carrying a
//!    name (`ActorRuntime::spawn_linked_remote`) and the pid table.
//!  * `--mode thr`: 2-3 OS threads, each with its own runtime, parked at every
//!    `verif::point`; the controller grants one atomic region at a time following a PRNG
//!    schedule and maps the point a thread was parked at to the model's atomic op.
//!
//! This file is also compiled into hcluster (`registry_cl`, feature `cluster`).

use std::collections::{BTreeMap, HashMap};
use std::sync::atomic::{AtomicBool, Ordering};
use std::sync::{Arc, Mutex};
use std::time::Duration;

use hutil::{Args, Log, Rng, Stats};
use ractor::verif::{self, ThreadCtl, ThreadPhase};
use ractor::{registry, Actor, ActorCell, ActorProcessingErr, ActorRef, ActorStatus, SupervisionEvent};

const PREFIX: &str = "c10-";

fn nm(n: u64) -> String {
    format!("{PREFIX}{n}")
}

fn nm_back(s: &str) -> Option<u64> {
    s.strip_prefix(PREFIX)?.parse().ok()
}

fn status_num(s: ActorStatus) -> u64 {
    s as u8 as u64
}

/// The test actor: `pre_start` stores its own cell (so that a failed start can still be
/// observed) and fails on request; `post_stop` waits at a gate when asked to.
struct TA {
    fail: bool,
    slot: Arc<Mutex<Option<ActorCell>>>,
    hold: Arc<AtomicBool>,
    gate: Arc<tokio::sync::Notify>,
}

impl Actor for TA {
    type Msg = ();
    type State = ();
    type Arguments = ();

    async fn pre_start(&self, myself: ActorRef<()>, _: ()) -> Result<(), ActorProcessingErr> {
        *self.slot.lock().unwrap() = Some(myself.get_cell());
        if self.fail {
            Err("refused".into())
        } else {
            Ok(())
        }
    }

    async fn post_stop(&self, _: ActorRef<()>, _: &mut ()) -> Result<(), ActorProcessingErr> {
        if self.hold.load(Ordering::SeqCst) {
            self.gate.notified().await;
        }
        Ok(())
    }

    async fn handle_supervisor_evt(
        &self,
        _: ActorRef<()>,
        _: SupervisionEvent,
        _: &mut (),
    ) -> Result<(), ActorProcessingErr> {
        Ok(())
    }
}

/// The same test actor in the shape the thread-local spawner wants (`Default`, everything in the
/// arguments): `thread_local/inner.rs` has its own copy of the registration code.
#[derive(Default)]
struct TLA;

struct TlArgs {
    fail: bool,
    slot: Arc<Mutex<Option<ActorCell>>>,
    hold: Arc<AtomicBool>,
    gate: Arc<tokio::sync::Notify>,
    in_post: Arc<AtomicBool>,
}

struct TlState {
    hold: Arc<AtomicBool>,
    gate: Arc<tokio::sync::Notify>,
    in_post: Arc<AtomicBool>,
}

impl Actor for TLA {
    type Msg = ();
    type State = TlState;
    type Arguments = TlArgs;

    async fn pre_start(&self, myself: ActorRef<()>, a: TlArgs) -> Result<TlState, ActorProcessingErr> {
        *a.slot.lock().unwrap() = Some(myself.get_cell());
        if a.fail {
            Err("refused".into())
        } else {
            Ok(TlState { hold: a.hold, gate: a.gate, in_post: a.in_post })
        }
    }

    async fn post_stop(&self, _: ActorRef<()>, s: &mut TlState) -> Result<(), ActorProcessingErr> {
        if s.hold.load(Ordering::SeqCst) {
            s.in_post.store(true, Ordering::SeqCst);
            s.gate.notified().await;
        }
        Ok(())
    }

    async fn handle_supervisor_evt(&self, _: ActorRef<()>, _: SupervisionEvent, _: &mut TlState) -> Result<(), ActorProcessingErr> {
        Ok(())
    }
}

fn tl_spawner() -> ractor::thread_local::ThreadLocalActorSpawner {
    static S: std::sync::OnceLock<ractor::thread_local::ThreadLocalActorSpawner> = std::sync::OnceLock::new();
    S.get_or_init(ractor::thread_local::ThreadLocalActorSpawner::new).clone()
}

/// Thread-local actors live on another OS thread with a real clock: wait (real time) until `p`.
fn settle(p: impl Fn() -> bool) {
    let t0 = std::time::Instant::now();
    while !p() && t0.elapsed() < Duration::from_secs(5) {
        std::thread::sleep(Duration::from_micros(50));
    }
}

#[derive(Clone)]
struct Rec {
    cell: ActorCell,
    name: Option<u64>,
    remote: bool,
    hold: Arc<AtomicBool>,
    gate: Arc<tokio::sync::Notify>,
    /// thread-local actor: set when it sits in `post_stop`
    tl: Option<Arc<AtomicBool>>,
}

/// What the harness knows of the current case: actor index -> real cell.
type PidLog = Arc<Mutex<Vec<(bool, ractor::ActorId)>>>;

#[derive(Default)]
struct World {
    recs: BTreeMap<u64, Rec>,
    cluster: bool,
    /// cluster build: an actor subscribed with `pid_registry::monitor`, and what it was told
    pidmon: Option<(ActorCell, PidLog)>,
    /// a supervisor outside the model for the `linked` spawn flavour (never exits during a case)
    hidden_sup: Option<ActorCell>,
}

impl World {
    fn k_of(&self, cell: &ActorCell) -> u64 {
        self.recs
            .iter()
            .find(|(_, r)| r.cell.get_id() == cell.get_id())
            .map(|(k, _)| *k)
            .unwrap_or(999)
    }

    /// The observable view, read off the real tables.
    fn view(&self) -> String {
        let mut names: Vec<(u64, u64)> = Vec::new();
        for n in registry::registered() {
            if let Some(nn) = nm_back(&n) {
                if let Some(c) = registry::where_is(n.clone()) {
                    names.push((nn, self.k_of(&c)));
                }
            }
        }
        names.sort();
        let ns = if names.is_empty() {
            "-".to_string()
        } else {
            names.iter().map(|(n, k)| format!("{n}:{k}")).collect::<Vec<_>>().join(",")
        };
        let ps = self.pids_view();
        let acts = if self.recs.is_empty() {
            "-".to_string()
        } else {
            self.recs
                .iter()
                .map(|(k, r)| {
                    format!(
                        "{k}:{}:{}:{}",
                        r.name.map(|n| n.to_string()).unwrap_or("-".into()),
                        if r.remote { "R" } else { "L" },
                        status_num(r.cell.get_status())
                    )
                })
                .collect::<Vec<_>>()
                .join(",")
        };
        let ev = match &self.pidmon {
            None => "x".to_string(),
            Some((_, log)) => {
                let evs: Vec<_> = std::mem::take(&mut *log.lock().unwrap());
                if evs.is_empty() {
                    "-".to_string()
                } else {
                    evs.iter()
                        .map(|(spawn, id)| {
                            let k = self.recs.iter().find(|(_, r)| r.cell.get_id() == *id).map(|(k, _)| *k).unwrap_or(999);
                            format!("{}{k}", if *spawn { "S" } else { "T" })
                        })
                        .collect::<Vec<_>>()
                        .join(",")
                }
            }
        };
        format!("names={ns} pids={ps} actors={acts} ev={ev}")
    }

    #[cfg(not(feature = "cluster"))]
    fn pids_view(&self) -> String {
        "x".into()
    }

    #[cfg(feature = "cluster")]
    fn pids_view(&self) -> String {
        if !self.cluster {
            return "x".into();
        }
        // every pid of the table that belongs to this case; a pid entry of an unknown cell
        // created by this harness cannot exist (all cells are recorded)
        let mut v: Vec<u64> = Vec::new();
        for c in registry::get_all_pids() {
            let k = self.k_of(&c);
            if k != 999 {
                v.push(k);
            }
        }
        v.sort();
        hutil::show_u64s(&v)
    }
}

async fn quiesce() {
    tokio::time::sleep(Duration::from_millis(1)).await;
}

fn opt_name(s: &str) -> Option<Option<u64>> {
    if s == "-" {
        Some(None)
    } else {
        s.parse().ok().map(Some)
    }
}

/// Execute one E-LTS op line on the real code and record it.
async fn exec(w: &mut World, log: &mut Log, st: &mut Stats, line: &str) {
    let t: Vec<&str> = line.split_whitespace().collect();
    let ans: String = match t.as_slice() {
        ["case", ..] => {
            // tear the previous case down completely: nothing may survive into the next one
            for r in w.recs.values() {
                r.hold.store(false, Ordering::SeqCst);
                r.gate.notify_one();
                r.cell.kill();
            }
            quiesce().await;
            quiesce().await;
            for r in w.recs.values().filter(|r| r.tl.is_some()) {
                let c = r.cell.clone();
                settle(move || c.get_status() == ActorStatus::Stopped);
            }
            if let Some((c, _)) = w.pidmon.take() {
                c.kill();
                quiesce().await;
            }
            if let Some(c) = w.hidden_sup.take() {
                c.kill();
                quiesce().await;
            }
            let cluster = line.contains("pid=1");
            *w = World { recs: BTreeMap::new(), cluster, pidmon: None, hidden_sup: None };
            // created before the pid listener subscribes, so that it stays invisible to it
            let ta = TA {
                fail: false,
                slot: Arc::new(Mutex::new(None)),
                hold: Arc::new(AtomicBool::new(false)),
                gate: Arc::new(tokio::sync::Notify::new()),
            };
            if let Ok((a, _)) = Actor::spawn(None, ta, ()).await {
                w.hidden_sup = Some(a.get_cell());
            }
            quiesce().await;
            if line.contains("ev=1") {
                w.pidmon = spawn_pidmon().await;
            }
            st.bump("cases");
            "ok".into()
        }
        ["spawn", k, n, how, ..] => match (k.parse::<u64>(), opt_name(n)) {
            (Ok(k), Some(n)) if !w.recs.contains_key(&k) => {
                let flavour = t.get(4).copied().unwrap_or("plain");
                let slot = Arc::new(Mutex::new(None));
                let hold = Arc::new(AtomicBool::new(false));
                let gate = Arc::new(tokio::sync::Notify::new());
                let fail = *how == "fail";
                let ta = TA { fail, slot: slot.clone(), hold: hold.clone(), gate: gate.clone() };
                let mut tl: Option<Arc<AtomicBool>> = None;
                // a live local actor to link to (the `linked` flavours)
                let sup = w.hidden_sup.clone();
                let classify = |e: &ractor::SpawnErr| match e {
                    ractor::SpawnErr::ActorAlreadyRegistered(_) => "dup",
                    ractor::SpawnErr::StartupFailed(_) => "fail",
                    _ => "err",
                };
                let ans: &str = match (flavour, sup) {
                    ("instant", _) => match ractor::ActorRuntime::<TA>::spawn_instant(n.map(nm), ta, ()) {
                        Err(e) => classify(&e),
                        Ok((_, h)) => match h.await {
                            Ok(Ok(_)) => "ok",
                            Ok(Err(e)) => classify(&e),
                            Err(_) => "err",
                        },
                    },
                    ("linked", Some(sup)) => match Actor::spawn_linked(n.map(nm), ta, (), sup).await {
                        Ok(_) => "ok",
                        Err(e) => classify(&e),
                    },
                    ("tl", _) | ("tlinstant", _) => {
                        use ractor::thread_local::ThreadLocalActor;
                        let in_post = Arc::new(AtomicBool::new(false));
                        tl = Some(in_post.clone());
                        let args = TlArgs { fail, slot: slot.clone(), hold: hold.clone(), gate: gate.clone(), in_post };
                        let r = if flavour == "tl" {
                            <TLA as ThreadLocalActor>::spawn(n.map(nm), args, tl_spawner()).await.map(|_| ())
                        } else {
                            match <TLA as ThreadLocalActor>::spawn_instant(n.map(nm), args, tl_spawner()) {
                                Err(e) => Err(e),
                                Ok((_, h)) => match h.await {
                                    Ok(Ok(_)) => Ok(()),
                                    Ok(Err(e)) => Err(e),
                                    Err(_) => Err(ractor::SpawnErr::ActorAlreadyStarted),
                                },
                            }
                        };
                        // the other thread runs on its own: wait until the spawn has settled
                        let sl = slot.clone();
                        match &r {
                            Ok(_) => settle(|| sl.lock().unwrap().as_ref().map(|c: &ActorCell| c.get_status() == ActorStatus::Running).unwrap_or(false)),
                            Err(ractor::SpawnErr::StartupFailed(_)) => {
                                settle(|| sl.lock().unwrap().as_ref().map(|c: &ActorCell| c.get_status() == ActorStatus::Stopped).unwrap_or(false))
                            }
                            Err(_) => {}
                        }
                        match r {
                            Ok(_) => "ok",
                            Err(e) => classify(&e),
                        }
                    }
                    _ => match Actor::spawn(n.map(nm), ta, ()).await {
                        Ok(_) => "ok",
                        Err(e) => classify(&e),
                    },
                };
                quiesce().await;
                let cell = slot.lock().unwrap().clone();
                st.bump(&format!("spawn_{ans}"));
                st.bump(&format!("flavour_{flavour}"));
                if let Some(cell) = cell {
                    w.recs.insert(k, Rec { cell, name: n, remote: false, hold, gate, tl });
                }
                ans.into()
            }
            _ => "bad".into(),
        },
        ["spawnproxy", k, n] => match (k.parse::<u64>(), opt_name(n)) {
            (Ok(k), Some(n)) if !w.recs.contains_key(&k) => spawn_proxy(w, st, k, n).await,
            _ => "bad".into(),
        },
        ["exit", k, how] => match k.parse::<u64>().ok().and_then(|k| w.recs.get(&k).cloned()) {
            Some(r) => {
                match *how {
                    "stop" => r.cell.stop(None),
                    "drain" => {
                        let _ = r.cell.drain();
                    }
                    _ => r.cell.kill(),
                }
                // an actor already held in post_stop only reacts to kill or to the gate
                if r.cell.get_status() >= ActorStatus::Stopping {
                    r.hold.store(false, Ordering::SeqCst);
                    r.gate.notify_one();
                }
                quiesce().await;
                quiesce().await;
                if r.tl.is_some() {
                    let c = r.cell.clone();
                    settle(move || c.get_status() == ActorStatus::Stopped);
                    quiesce().await; // let listeners on this runtime handle what the other thread sent
                }
                st.bump(&format!("exit_{how}"));
                "ok".into()
            }
            None => "noactor".into(),
        },
        ["exitbegin", k] => match k.parse::<u64>().ok().and_then(|k| w.recs.get(&k).cloned()) {
            Some(r) => {
                if r.cell.get_status() < ActorStatus::Stopping {
                    r.hold.store(true, Ordering::SeqCst);
                }
                let was_live = r.cell.get_status() < ActorStatus::Stopping;
                r.cell.stop(None);
                quiesce().await;
                if let (Some(flag), true) = (&r.tl, was_live) {
                    let f = flag.clone();
                    settle(move || f.load(Ordering::SeqCst));
                    quiesce().await;
                }
                st.bump("exitbegin");
                "ok".into()
            }
            None => "noactor".into(),
        },
        ["exitend", k] => match k.parse::<u64>().ok().and_then(|k| w.recs.get(&k).cloned()) {
            Some(r) => {
                r.hold.store(false, Ordering::SeqCst);
                r.gate.notify_one();
                quiesce().await;
                if r.tl.is_some() && r.cell.get_status() >= ActorStatus::Stopping {
                    let c = r.cell.clone();
                    settle(move || c.get_status() == ActorStatus::Stopped);
                    quiesce().await;
                }
                st.bump("exitend");
                "ok".into()
            }
            None => "noactor".into(),
        },
        // `killwait`: two parties end the same actor with no poll in between: `kill()`, then
        // `kill_and_wait()`; `stopwait`: `stop_and_wait()`. When the waiting call returns Ok, the actor
        // must be Stopped and its name free — judged at once, before anything else runs.
        ["killwait", k] | ["stopwait", k] => match k.parse::<u64>().ok().and_then(|k| w.recs.get(&k).cloned()) {
            Some(r) if r.cell.get_status() < ActorStatus::Stopping => {
                let kill = t[0] == "killwait";
                // `res`: the waiting call said Ok. (A thread-local actor runs in real time on another
                // thread, so no timeout on the paused clock of this runtime.)
                let res = if kill {
                    r.cell.kill();
                    r.cell.kill_and_wait(None).await.is_ok()
                } else {
                    r.cell.stop_and_wait(None, None).await.is_ok()
                };
                let stopped_now = r.cell.get_status() == ActorStatus::Stopped;
                let held_now = r.name.map(|n| registry::where_is(nm(n)).map(|c| c.get_id() == r.cell.get_id()).unwrap_or(false)).unwrap_or(false);
                quiesce().await;
                quiesce().await;
                if r.tl.is_some() {
                    let c = r.cell.clone();
                    settle(move || c.get_status() == ActorStatus::Stopped);
                    quiesce().await;
                }
                st.bump(t[0]);
                if !res {
                    "err".into()
                } else if !stopped_now || held_now {
                    "early".into()
                } else {
                    "ok".into()
                }
            }
            Some(_) => "notlive".into(),
            None => "noactor".into(),
        },
        // a call through a stale reference to an actor that sits in post_stop (status Stopping):
        // `drain()` must not rewind its status, `stop()` has nobody left to listen
        ["late", k, how] => match k.parse::<u64>().ok().and_then(|k| w.recs.get(&k).cloned()) {
            Some(r) if r.cell.get_status() >= ActorStatus::Stopping => {
                match *how {
                    "drain" => {
                        let _ = r.cell.drain();
                    }
                    _ => r.cell.stop(None),
                }
                quiesce().await;
                st.bump(&format!("late_{how}"));
                "ok".into()
            }
            Some(_) => "notparked".into(),
            None => "noactor".into(),
        },
        ["lookup", n] => match n.parse::<u64>() {
            Ok(n) => match registry::where_is(nm(n)) {
                Some(c) => {
                    let stn = status_num(c.get_status());
                    st.bump(if stn >= 5 { "lookup_stopping" } else { "lookup_found" });
                    format!("found {} {}", w.k_of(&c), stn)
                }
                None => {
                    st.bump("lookup_none");
                    "none".into()
                }
            },
            Err(_) => "bad".into(),
        },
        ["lookuppid", k] => match k.parse::<u64>() {
            Ok(k) => lookup_pid(w, st, k),
            Err(_) => "bad".into(),
        },
        ["waitret", k] => match k.parse::<u64>().ok().and_then(|k| w.recs.get(&k).cloned()) {
            Some(r) => match tokio::time::timeout(Duration::from_millis(1), r.cell.wait(None)).await {
                Ok(_) => {
                    st.bump("waitret");
                    "ok".into()
                }
                Err(_) => "pending".into(),
            },
            None => "bad".into(),
        },
        _ => "bad-op".into(),
    };
    log.rec(line, format!("{ans} | {}", w.view()));
}

#[cfg(not(feature = "cluster"))]
async fn spawn_pidmon() -> Option<(ActorCell, PidLog)> {
    None
}

/// An actor that subscribes to the pid registry's lifecycle events and logs them.
#[cfg(feature = "cluster")]
struct PidMon {
    log: PidLog,
}

#[cfg(feature = "cluster")]
impl Actor for PidMon {
    type Msg = ();
    type State = ();
    type Arguments = ();
    async fn pre_start(&self, _: ActorRef<()>, _: ()) -> Result<(), ActorProcessingErr> {
        Ok(())
    }
    async fn handle_supervisor_evt(&self, _: ActorRef<()>, ev: SupervisionEvent, _: &mut ()) -> Result<(), ActorProcessingErr> {
        if let SupervisionEvent::PidLifecycleEvent(e) = ev {
            match e {
                registry::PidLifecycleEvent::Spawn(c) => self.log.lock().unwrap().push((true, c.get_id())),
                registry::PidLifecycleEvent::Terminate(c) => self.log.lock().unwrap().push((false, c.get_id())),
            }
        }
        Ok(())
    }
}

#[cfg(feature = "cluster")]
async fn spawn_pidmon() -> Option<(ActorCell, PidLog)> {
    let log: PidLog = Arc::new(Mutex::new(Vec::new()));
    let (a, _) = Actor::spawn(None, PidMon { log: log.clone() }, ()).await.ok()?;
    quiesce().await;
    registry::pid_registry::monitor(a.get_cell());
    Some((a.get_cell(), log))
}

#[cfg(not(feature = "cluster"))]
async fn spawn_proxy(_w: &mut World, _st: &mut Stats, _k: u64, _n: Option<u64>) -> String {
    "unsupported".into()
}

#[cfg(not(feature = "cluster"))]
fn lookup_pid(_w: &World, _st: &mut Stats, _k: u64) -> String {
    "unsupported".into()
}

#[cfg(feature = "cluster")]
async fn spawn_proxy(w: &mut World, st: &mut Stats, k: u64, n: Option<u64>) -> String {
    // any live local actor can act as the supervisor the API demands
    let Some(sup) = w
        .recs
        .values()
        .find(|r| !r.remote && r.cell.get_status() == ActorStatus::Running)
        .map(|r| r.cell.clone())
    else {
        return "nosup".into();
    };
    let slot = Arc::new(Mutex::new(None));
    let hold = Arc::new(AtomicBool::new(false));
    let gate = Arc::new(tokio::sync::Notify::new());
    let ta = TA { fail: false, slot: slot.clone(), hold: hold.clone(), gate: gate.clone() };
    let id = ractor::ActorId::Remote { node_id: 7, pid: 1000 + k };
    let r = ractor::ActorRuntime::spawn_linked_remote(n.map(nm), ta, id, (), sup).await;
    quiesce().await;
    match r {
        Ok((a, _)) => {
            st.bump(if n.is_some() { "proxy_named" } else { "proxy_unnamed" });
            w.recs.insert(k, Rec { cell: a.get_cell(), name: n, remote: true, hold, gate, tl: None });
            "ok".into()
        }
        Err(_) => "err".into(),
    }
}

#[cfg(feature = "cluster")]
fn lookup_pid(w: &World, st: &mut Stats, k: u64) -> String {
    match w.recs.get(&k) {
        Some(r) => match registry::where_is_pid(r.cell.get_id()) {
            Some(c) => {
                st.bump("lookuppid_found");
                format!("found {}", w.k_of(&c))
            }
            None => {
                st.bump("lookuppid_none");
                "none".into()
            }
        },
        None => "none".into(),
    }
}

fn case_line(cluster: bool) -> String {
    if cluster {
        "case pid=1 ev=1".to_string()
    } else {
        "case pid=0".to_string()
    }
}

/// One generated E-LTS case.
async fn gen_case(w: &mut World, log: &mut Log, st: &mut Stats, rng: &mut Rng, cluster: bool, len: u64) {
    exec(w, log, st, &case_line(cluster)).await;
    let mut next: u64 = 0;
    let n_names = rng.range(1, 3);
    if cluster {
        // the supervisor the proxies link to; never exited by the generator
        exec(w, log, st, &format!("spawn {next} - ok")).await;
        next += 1;
    }
    for _ in 0..len {
        let live: Vec<u64> = w
            .recs
            .iter()
            .filter(|(k, r)| r.cell.get_status() < ActorStatus::Stopping && !(cluster && **k == 0))
            .map(|(k, _)| *k)
            .collect();
        let held: Vec<u64> = w
            .recs
            .iter()
            .filter(|(_, r)| r.cell.get_status() == ActorStatus::Stopping)
            .map(|(k, _)| *k)
            .collect();
        let dead: Vec<u64> = w
            .recs
            .iter()
            .filter(|(_, r)| r.cell.get_status() == ActorStatus::Stopped)
            .map(|(k, _)| *k)
            .collect();
        let n = rng.below(n_names);
        let c = rng.below(100);
        let flavour = *rng.pick(&["plain", "plain", "plain", "instant", "linked", "tl", "tl", "tlinstant"]);
        let line = if c < 26 {
            next += 1;
            format!("spawn {} {n} ok {flavour}", next - 1)
        } else if c < 34 {
            next += 1;
            format!("spawn {} {n} fail {flavour}", next - 1)
        } else if c < 38 {
            next += 1;
            format!("spawn {} - ok", next - 1)
        } else if c < 48 && cluster {
            next += 1;
            if rng.chance(3, 4) {
                format!("spawnproxy {} {n}", next - 1)
            } else {
                format!("spawnproxy {} -", next - 1)
            }
        } else if c < 53 && !live.is_empty() {
            format!("{} {}", *rng.pick(&["killwait", "stopwait"]), rng.pick(&live))
        } else if c < 66 && !live.is_empty() {
            let how = *rng.pick(&["stop", "kill", "drain"]);
            format!("exit {} {how}", rng.pick(&live))
        } else if c < 73 && !live.is_empty() {
            format!("exitbegin {}", rng.pick(&live))
        } else if c < 82 && !held.is_empty() {
            match rng.below(6) {
                0 | 1 => format!("exit {} kill", rng.pick(&held)),
                2 => format!("late {} drain", rng.pick(&held)),
                3 => format!("late {} stop", rng.pick(&held)),
                _ => format!("exitend {}", rng.pick(&held)),
            }
        } else if c < 88 && !dead.is_empty() {
            format!("waitret {}", rng.pick(&dead))
        } else if c < 92 && cluster && !w.recs.is_empty() {
            let ks: Vec<u64> = w.recs.keys().cloned().collect();
            format!("lookuppid {}", rng.pick(&ks))
        } else {
            format!("lookup {n}")
        };
        exec(w, log, st, &line).await;
    }
}

/// Re-execute a recorded op file (corpus entry / replay segment). E-LTS lines are
/// self-contained; a `thrcase` line regenerates that whole threaded case from its seed.
async fn replay_file(w: &mut World, log: &mut Log, st: &mut Stats, path: &str, cluster: bool) {
    let text = std::fs::read_to_string(path).unwrap_or_default();
    let mut in_thr = false;
    let mut started = false;
    for line in text.lines() {
        let line = line.trim();
        if line.is_empty() || line.starts_with('#') {
            continue;
        }
        st.bump("replayed_ops");
        if line.starts_with("thrcase ") {
            in_thr = true;
            started = true;
            let tag = line.split_whitespace().nth(1).unwrap_or("1").to_string();
            thr::run_tagged(log, st, &tag);
            continue;
        }
        if line.starts_with("case") {
            in_thr = false;
            started = true;
        }
        if in_thr {
            continue; // the regenerated case already produced these lines
        }
        if !started {
            // a shrunk segment may have lost its case line
            exec(w, log, st, &case_line(cluster)).await;
            started = true;
        }
        exec(w, log, st, line).await;
    }
}

pub fn main_with(cluster: bool) {
    let args = Args::parse();
    let seed = args.u64("seed", 1);
    let cases = args.u64("cases", 100);
    let out = args.str("out", "/tmp/c10");
    let mode = args.str("mode", "lts");
    let len = args.u64("len", 30);
    let mut rng = Rng::new(seed);
    let mut log = Log::create(std::path::Path::new(&out)).unwrap();
    let mut st = Stats::default();

    let rt = tokio::runtime::Builder::new_current_thread()
        .enable_all()
        .start_paused(true)
        .build()
        .unwrap();
    let replay = args.str("replay-ops", "");
    let only_replay = args.u64("only-replay", 0) == 1;
    rt.block_on(async {
        let mut w = World::default();
        for f in replay.split(',').filter(|f| !f.is_empty()) {
            replay_file(&mut w, &mut log, &mut st, f, cluster).await;
        }
        if !only_replay && mode == "lts" {
            for _ in 0..cases {
                gen_case(&mut w, &mut log, &mut st, &mut rng, cluster, len).await;
            }
        }
        // leave nothing behind
        exec(&mut w, &mut log, &mut st, &case_line(cluster)).await;
    });
    if !only_replay && mode == "thr" {
        for _ in 0..cases {
            let s = rng.next_u64() % 1_000_000_000;
            thr::run_case(&mut log, &mut st, s);
        }
        // free-running races (no schedule control): support for the atomic-entry axiom
        let rounds = args.u64("stress", 150);
        log.rec("case pid=0", "ok | names=- pids=x actors=- ev=x");
        for i in 0..rounds {
            thr::race_round(&mut log, &mut st, i, 4);
        }
    }
    if !only_replay && mode == "thrx" {
        // exhaustive: every interleaving of the fixed small programs (cases = cap per scenario)
        thr::exhaustive(&mut log, &mut st, cases);
    }
    st.add("lines", log.lines);
    st.write_json(&std::path::Path::new(&out).join("stats.json"));
    log.finish();
}

#[allow(dead_code)]
fn main() {
    main_with(false)
}

// =====================================================================================
// E-THR: OS threads parked at schedule points
// =====================================================================================
mod thr {
    use super::*;

    #[derive(Clone, Debug)]
    enum Act {
        Spawn { k: u64, n: u64, fail: bool },
        Exit { k: u64, kill: bool },
        Lookup { n: u64 },
        /// `drain()` through a stale reference on ANOTHER thread's actor, only once it is stopping
        LateDrain { k: u64 },
        /// wave 2: the owner only waits for its actor `k` to exit (`wait()`); somebody else ends it
        AwaitExit { k: u64 },
        /// wave 2: `kill()` (or `stop()`) of ANOTHER thread's actor through the shared reference, only while
        /// its owner sits in `AwaitExit` (so every region of the exit runs inside an action that names `k`)
        EndOther { k: u64, kill: bool },
    }

    #[derive(Clone, Debug)]
    enum Ev {
        SpawnRet { k: u64, res: &'static str },
        WaitRet { k: u64 },
        Lookup { found: Option<(ractor::ActorId, u64)> },
    }

    struct Shared {
        ctx: Mutex<HashMap<usize, Act>>,
        events: Mutex<Vec<Ev>>,
        /// cells by actor index, filled in by the controller as soon as a registration is seen
        cells: Mutex<HashMap<u64, ActorCell>>,
        /// actors whose owner is inside `AwaitExit`
        awaiting: Mutex<Vec<u64>>,
        done: std::sync::Barrier,
    }

    fn thread_body(tid: usize, prog: Vec<Act>, sh: Arc<Shared>, ctl: Arc<ThreadCtl>) {
        verif::thread_register(ctl.clone());
        let rt = tokio::runtime::Builder::new_current_thread().enable_all().build().unwrap();
        rt.block_on(async {
            let mut mine: HashMap<u64, ActorCell> = HashMap::new();
            for act in prog {
                sh.ctx.lock().unwrap().insert(tid, act.clone());
                verif::point("h.act");
                match act {
                    Act::Spawn { k, n, fail } => {
                        let ta = TA {
                            fail,
                            slot: Arc::new(Mutex::new(None)),
                            hold: Arc::new(AtomicBool::new(false)),
                            gate: Arc::new(tokio::sync::Notify::new()),
                        };
                        let r = Actor::spawn(Some(nm(n)), ta, ()).await;
                        let res = match &r {
                            Ok(_) => "ok",
                            Err(ractor::SpawnErr::ActorAlreadyRegistered(_)) => "dup",
                            Err(ractor::SpawnErr::StartupFailed(_)) => "fail",
                            Err(_) => "err",
                        };
                        if let Ok((a, _)) = r {
                            // let the new actor reach Running inside this action
                            while a.get_status() < ActorStatus::Running {
                                tokio::task::yield_now().await;
                            }
                            mine.insert(k, a.get_cell());
                        }
                        sh.events.lock().unwrap().push(Ev::SpawnRet { k, res });
                    }
                    Act::Exit { k, kill } => {
                        if let Some(c) = mine.get(&k) {
                            if kill {
                                c.kill();
                            } else {
                                c.stop(None);
                            }
                            let _ = c.wait(None).await;
                            sh.events.lock().unwrap().push(Ev::WaitRet { k });
                        }
                    }
                    Act::Lookup { n } => {
                        let found = registry::where_is(nm(n)).map(|c| (c.get_id(), status_num(c.get_status())));
                        sh.events.lock().unwrap().push(Ev::Lookup { found });
                    }
                    Act::LateDrain { k } => {
                        let c = sh.cells.lock().unwrap().get(&k).cloned();
                        if let Some(c) = c {
                            // statuses only grow: once Stopping has been seen the drain is a late one
                            if c.get_status() >= ActorStatus::Stopping {
                                let _ = c.drain();
                            }
                        }
                    }
                    Act::AwaitExit { k } => {
                        sh.awaiting.lock().unwrap().push(k);
                        if let Some(c) = mine.get(&k) {
                            // no blocking wait: an idle runtime is not a schedule point. Every turn is one, and
                            // lets the actor's task (on this runtime) run its regions up to their own points
                            while c.get_status() != ActorStatus::Stopped {
                                verif::point("h.spin");
                                tokio::task::yield_now().await;
                            }
                            let _ = c.wait(None).await;
                            sh.events.lock().unwrap().push(Ev::WaitRet { k });
                        }
                    }
                    Act::EndOther { k, kill } => {
                        // turn (through schedule points) until the owner waits; its spawn may have failed
                        while !sh.awaiting.lock().unwrap().contains(&k) {
                            verif::point("h.spin");
                        }
                        let c = sh.cells.lock().unwrap().get(&k).cloned();
                        if let Some(c) = c {
                            if kill {
                                c.kill();
                            } else {
                                c.stop(None);
                            }
                        }
                    }
                }
            }
        });
        // the case is over for this thread; actors it still owns are torn down (unobserved) only
        // when every thread is done, so that the tables stay put while others are still stepping
        verif::thread_unregister();
        ctl.finish();
        sh.done.wait();
        drop(rt);
    }

    /// Programs: every thread spawns under shared names, looks names up, exits its own
    /// actors and respawns; the last actions exit whatever the thread still owns.
    fn gen_programs(rng: &mut Rng, seed: u64) -> Vec<Vec<Act>> {
        if seed % 5 == 2 {
            // wave 2: an actor ended from ANOTHER OS thread (kill/stop through the shared reference) while its
            // owner waits; lookups and a same-name respawn race the exit
            let kill = rng.chance(2, 3);
            let mut t1 = Vec::new();
            for _ in 0..rng.below(3) {
                t1.push(Act::Lookup { n: 0 });
            }
            t1.push(Act::EndOther { k: 0, kill });
            for _ in 0..rng.range(1, 3) {
                t1.push(Act::Lookup { n: 0 });
            }
            t1.push(Act::Spawn { k: 1, n: 0, fail: false });
            t1.push(Act::Lookup { n: 0 });
            t1.push(Act::Exit { k: 1, kill: false });
            let mut progs = vec![vec![Act::Spawn { k: 0, n: 0, fail: false }, Act::AwaitExit { k: 0 }], t1];
            if rng.chance(1, 2) {
                progs.push(vec![Act::Lookup { n: 0 }, Act::Lookup { n: 0 }, Act::Lookup { n: 0 }]);
            }
            return progs;
        }
        if rng.chance(1, 4) {
            // the late-drain window: thread 0's actor exits; thread 1 drains it through a stale
            // reference while it is stopping, takes the name, drains again
            let kill = rng.chance(1, 3);
            let mut t1 = vec![Act::LateDrain { k: 0 }];
            for _ in 0..rng.range(1, 3) {
                t1.push(match rng.below(3) {
                    0 => Act::Lookup { n: 0 },
                    _ => Act::LateDrain { k: 0 },
                });
            }
            t1.push(Act::Spawn { k: 1, n: 0, fail: false });
            t1.push(Act::LateDrain { k: 0 });
            t1.push(Act::Lookup { n: 0 });
            t1.push(Act::Exit { k: 1, kill: false });
            return vec![vec![Act::Spawn { k: 0, n: 0, fail: false }, Act::Exit { k: 0, kill }], t1];
        }
        let nthreads = rng.range(2, 3) as usize;
        let n_names = rng.range(1, 2);
        let mut k = 0u64;
        let mut progs = Vec::new();
        for _ in 0..nthreads {
            let mut p = Vec::new();
            let mut own: Vec<u64> = Vec::new(); // spawn attempts not yet exited (may have failed)
            for _ in 0..rng.range(2, 5) {
                let c = rng.below(100);
                if c < 45 {
                    let fail = rng.chance(1, 5);
                    p.push(Act::Spawn { k, n: rng.below(n_names), fail });
                    if !fail {
                        own.push(k);
                    }
                    k += 1;
                } else if c < 70 && !own.is_empty() {
                    let i = rng.below(own.len() as u64) as usize;
                    p.push(Act::Exit { k: own.remove(i), kill: rng.chance(1, 3) });
                } else {
                    p.push(Act::Lookup { n: rng.below(n_names) });
                }
            }
            for k in own {
                p.push(Act::Exit { k, kill: false });
            }
            progs.push(p);
        }
        progs
    }

    /// `t` uncontrolled OS threads spawn under one name at the same moment (barrier); exactly
    /// one must win and `where_is` must return it (C10.exactly_one_winner on the real code).
    pub fn race_round(log: &mut Log, st: &mut Stats, round: u64, t: usize) {
        let name = format!("c10race-{round}");
        let barrier = Arc::new(std::sync::Barrier::new(t));
        let mut hs = Vec::new();
        for _ in 0..t {
            let (b, name) = (barrier.clone(), name.clone());
            hs.push(std::thread::spawn(move || {
                let rt = tokio::runtime::Builder::new_current_thread().enable_all().build().unwrap();
                rt.block_on(async move {
                    let ta = TA {
                        fail: false,
                        slot: Arc::new(Mutex::new(None)),
                        hold: Arc::new(AtomicBool::new(false)),
                        gate: Arc::new(tokio::sync::Notify::new()),
                    };
                    b.wait();
                    let r = Actor::spawn(Some(name.clone()), ta, ()).await;
                    b.wait();
                    // everybody looks the name up while all winners are still alive
                    let seen = registry::where_is(name.clone()).map(|c| c.get_id());
                    b.wait();
                    let mine = r.as_ref().ok().map(|(a, _)| a.get_id());
                    if let Ok((a, h)) = r {
                        a.stop(None);
                        let _ = h.await;
                    }
                    (mine, seen)
                })
            }));
        }
        let res: Vec<_> = hs.into_iter().filter_map(|h| h.join().ok()).collect();
        let winners: Vec<_> = res.iter().filter_map(|(m, _)| *m).collect();
        let agree = winners.len() == 1 && res.iter().all(|(_, s)| *s == Some(winners[0]));
        let free = registry::where_is(name).is_none();
        st.bump("race_rounds");
        log.rec(
            format!("race {t}"),
            format!("winners={} agree={} free={} | names=- pids=x actors=- ev=x", winners.len(), agree as u8, free as u8),
        );
    }

    pub enum Sched {
        Random { rng: Rng, sticky: u64 },
        /// scripted prefix (index into the parked list at every branching step), then always 0
        Script { prefix: Vec<usize>, taken: Vec<usize>, opts: Vec<usize> },
    }

    /// fixed small programs of the exhaustive sweep
    fn scenario(i: u64) -> Option<Vec<Vec<Act>>> {
        Some(match i {
            // two threads race for one name (the winner is stopped when the case is over)
            0 => vec![vec![Act::Spawn { k: 0, n: 0, fail: false }], vec![Act::Spawn { k: 1, n: 0, fail: false }]],
            // an exit raced by lookups
            1 => vec![vec![Act::Spawn { k: 0, n: 0, fail: false }, Act::Exit { k: 0, kill: false }],
                      vec![Act::Lookup { n: 0 }, Act::Lookup { n: 0 }, Act::Lookup { n: 0 }]],
            // three threads: two spawns under one name and lookups
            2 => vec![vec![Act::Spawn { k: 0, n: 0, fail: false }], vec![Act::Spawn { k: 1, n: 0, fail: false }],
                      vec![Act::Lookup { n: 0 }, Act::Lookup { n: 0 }]],
            // a failing start (the lifecycle guard releases the name) raced by a spawn under that name
            3 => vec![vec![Act::Spawn { k: 0, n: 0, fail: true }], vec![Act::Spawn { k: 1, n: 0, fail: false }]],
            _ => return None,
        })
    }

    /// `thrcase <seed>` (random) or `thrcase x:<scenario>:<choices>` (scripted schedule)
    pub fn run_tagged(log: &mut Log, st: &mut Stats, tag: &str) {
        if let Some(rest) = tag.strip_prefix("x:") {
            let mut it = rest.split(':');
            let scn: u64 = it.next().and_then(|x| x.parse().ok()).unwrap_or(0);
            let prefix: Vec<usize> = it.next().unwrap_or("").chars().filter_map(|c| c.to_digit(10).map(|d| d as usize)).collect();
            if let Some(progs) = scenario(scn) {
                let mut sched = Sched::Script { prefix, taken: vec![], opts: vec![] };
                run_progs(log, st, tag.to_string(), progs, &mut sched);
            }
        } else {
            run_case(log, st, tag.parse().unwrap_or(1));
        }
    }

    /// every schedule of every fixed scenario (stateless DFS), at most `max_runs` per scenario
    pub fn exhaustive(log: &mut Log, st: &mut Stats, max_runs: u64) {
        let mut scn = 0;
        while scenario(scn).is_some() {
            let mut stack: Vec<Vec<usize>> = vec![vec![]];
            let mut runs = 0u64;
            while let Some(prefix) = stack.pop() {
                if runs >= max_runs {
                    st.bump("thrx_truncated");
                    break;
                }
                let plen = prefix.len();
                let tag = format!("x:{scn}:{}", prefix.iter().map(|c| c.to_string()).collect::<String>());
                let mut sched = Sched::Script { prefix, taken: vec![], opts: vec![] };
                run_progs(log, st, tag, scenario(scn).unwrap(), &mut sched);
                runs += 1;
                if let Sched::Script { taken, opts, .. } = sched {
                    for i in (plen..taken.len()).rev() {
                        for alt in 1..opts[i] {
                            let mut p = taken[..i].to_vec();
                            p.push(alt);
                            stack.push(p);
                        }
                    }
                }
            }
            st.add(&format!("thrx_schedules_scn{scn}"), runs);
            scn += 1;
        }
    }

    pub fn run_case(log: &mut Log, st: &mut Stats, seed: u64) {
        let mut rng = Rng::new(seed);
        let progs = gen_programs(&mut rng, seed);
        let sticky = rng.below(4); // 0: uniform; else: keep running the same thread with prob.
        let mut sched = Sched::Random { rng, sticky };
        run_progs(log, st, seed.to_string(), progs, &mut sched);
    }

    /// a cell of the pid table that the harness has not recorded yet (cluster build only)
    #[cfg(feature = "cluster")]
    fn window_cell(w: &World) -> Option<ActorCell> {
        // ids are handed out in increasing order: the youngest unknown cell is the one under construction
        registry::get_all_pids().into_iter().filter(|c| c.get_id().is_local() && w.k_of(c) == 999).max_by_key(|c| c.get_id().pid())
    }
    #[cfg(not(feature = "cluster"))]
    fn window_cell(_w: &World) -> Option<ActorCell> {
        None
    }

    fn run_progs(log: &mut Log, st: &mut Stats, seed: String, progs: Vec<Vec<Act>>, sched: &mut Sched) {
        let sh = Arc::new(Shared {
            ctx: Mutex::new(HashMap::new()),
            events: Mutex::new(Vec::new()),
            cells: Mutex::new(HashMap::new()),
            awaiting: Mutex::new(Vec::new()),
            done: std::sync::Barrier::new(progs.len() + 1), // the threads and the controller
        });
        // in the cluster build the pid table is compared too
        let cluster = cfg!(feature = "cluster");
        let mut w = World { cluster, ..World::default() };
        log.rec(format!("thrcase {seed} pid={}", cluster as u8), format!("ok | {}", w.view()));
        st.bump("thr_cases");
        let mut ctls = Vec::new();
        let mut handles = Vec::new();
        for (tid, p) in progs.iter().enumerate() {
            let ctl = ThreadCtl::new();
            ctls.push(ctl.clone());
            let (p, sh2) = (p.clone(), sh.clone());
            handles.push(std::thread::spawn(move || thread_body(tid, p, sh2, ctl)));
        }
        // publish scripts: what each set_status call of an actor publishes, in order
        let mut pubs: HashMap<u64, Vec<u64>> = HashMap::new();
        let mut names_of: HashMap<u64, u64> = HashMap::new();
        for p in &progs {
            for a in p {
                if let Act::Spawn { k, n, fail } = a {
                    pubs.insert(*k, if *fail { vec![6, 5, 1] } else { vec![6, 5, 5, 2, 1] });
                    names_of.insert(*k, *n);
                }
            }
        }
        let mut last: Option<usize> = None;
        let mut steps = 0u64;
        loop {
            // wait until every thread is parked or done
            let mut parked: Vec<(usize, &'static str)> = Vec::new();
            let mut hung = false;
            for (tid, c) in ctls.iter().enumerate() {
                match c.wait_parked_timeout(Duration::from_secs(20)) {
                    Some(ThreadPhase::AtPoint(p)) => parked.push((tid, p)),
                    Some(_) => {}
                    None => hung = true,
                }
            }
            if hung {
                log.rec("skip hung", "thread-hung | names=- pids=x actors=- ev=x");
                for c in &ctls {
                    c.release();
                }
                break;
            }
            if parked.is_empty() {
                break;
            }
            let pick = match sched {
                Sched::Random { rng, sticky } => match last {
                    Some(l) if *sticky > 0 && parked.iter().any(|(t, _)| *t == l) && rng.chance(*sticky, 4) => {
                        parked.iter().position(|(t, _)| *t == l).unwrap()
                    }
                    _ => rng.below(parked.len() as u64) as usize,
                },
                Sched::Script { prefix, taken, opts } => {
                    if parked.len() > 1 {
                        let c = prefix.get(taken.len()).copied().unwrap_or(0).min(parked.len() - 1);
                        taken.push(c);
                        opts.push(parked.len());
                        c
                    } else {
                        0
                    }
                }
            };
            let (tid, point) = parked[pick];
            last = Some(tid);
            let act = sh.ctx.lock().unwrap().get(&tid).cloned().unwrap();
            ctls[tid].grant();
            let mut ph = ctls[tid].wait_parked_timeout(Duration::from_secs(20));
            // cluster build: `ActorCell::new` has a point between its two registry operations. The model
            // `Model/Registry.lean` has them as one region (`reg k n`): the thread is taken through the point
            // at once - always under a scripted schedule (the `thrx` enumeration and old replay files stay as
            // they were), and under a random schedule with probability 1/2. Otherwise the thread stays parked
            // INSIDE the constructor window (name inserted, pid not yet): the step is logged as `regname k n`,
            // the thread shows up in `parked` at `new.reg_pid` and its next step is `regpid k`
            // (`Model/RegistryWindow.lean`); whatever other threads do meanwhile runs inside the window.
            // The coin is only tossed when the point is reached, i.e. never in the non-cluster build.
            let mut window_opened = false;
            while ph == Some(ThreadPhase::AtPoint("new.reg_pid")) {
                // (`h.act`: a constructor that reaches the window without having entered `registry::register`
                // at all - impossible in the code as it is; reported as `regname` too, the oracle then reads
                // off the tables that the name is not there)
                if point == "reg.entry" || (point == "h.act" && matches!(act, Act::Spawn { .. })) {
                    if let Sched::Random { rng, .. } = sched {
                        if rng.chance(1, 2) {
                            window_opened = true;
                            break;
                        }
                    }
                }
                ctls[tid].grant();
                ph = ctls[tid].wait_parked_timeout(Duration::from_secs(20));
            }
            steps += 1;
            // steps of OTHER threads taken while some thread sits in the window
            if parked.iter().any(|(t, p)| *t != tid && *p == "new.reg_pid") {
                st.bump("thr_window_foreign_steps");
                let what = match point {
                    "reg.entry" => "reg",
                    "h.act" => "act",
                    "new.reg_pid" => "regpid",
                    "status.publish" => "pub",
                    _ => "other",
                };
                st.bump(&format!("thr_window_foreign_{what}"));
            }
            let k = match &act {
                Act::Spawn { k, .. } | Act::Exit { k, .. } | Act::LateDrain { k } => *k,
                Act::AwaitExit { k } | Act::EndOther { k, .. } => *k,
                Act::Lookup { .. } => 0,
            };
            let mut events: Vec<Ev> = std::mem::take(&mut *sh.events.lock().unwrap());
            let (op, ans): (String, String) = match if window_opened { "reg.entry" } else { point } {
                "reg.entry" => {
                    let n = names_of[&k];
                    // who holds the name now? an unknown cell is the one just registered
                    let mut newc = registry::where_is(nm(n)).filter(|c| w.k_of(c) == 999);
                    // a thread parked at `new.reg_pid` is past the first registry operation of its constructor,
                    // which therefore answered Ok: should the name table not show the cell (it must), the cell
                    // is taken from the pid table so that the view - and the oracle - can speak about it
                    if window_opened && newc.is_none() {
                        newc = window_cell(&w);
                    }
                    let ans = match newc {
                        Some(c) => {
                            let rec = Rec {
                                cell: c,
                                name: Some(n),
                                remote: false,
                                hold: Arc::new(AtomicBool::new(false)),
                                gate: Arc::new(tokio::sync::Notify::new()),
                                tl: None,
                            };
                            sh.cells.lock().unwrap().insert(k, rec.cell.clone());
                            w.recs.insert(k, rec);
                            "ok"
                        }
                        None if window_opened => "ok",
                        None => "dup",
                    };
                    st.bump(&format!("thr_reg_{ans}"));
                    if window_opened {
                        st.bump("thr_window_opened");
                        (format!("regname {k} {n}"), ans.into())
                    } else {
                        (format!("reg {k} {n}"), ans.into())
                    }
                }
                // the second half of a constructor left parked in the window: `register_pid`
                "new.reg_pid" => {
                    st.bump("thr_window_closed");
                    (format!("regpid {k}"), "ok".into())
                }
                "status.publish" => {
                    if matches!(act, Act::AwaitExit { .. }) {
                        st.bump("thr_cross_end_publishes");
                    }
                    let s = pubs.get_mut(&k).and_then(|v| v.pop()).unwrap_or(9);
                    (format!("pub {k} {s}"), "ok".into())
                }
                "drain.status" if matches!(act, Act::LateDrain { .. }) => {
                    st.bump("thr_late_drain");
                    (format!("drain {k}"), "ok".into())
                }
                "status.unreg_pid" => (format!("unregpid {k}"), "ok".into()),
                "reg.remove" => (format!("unregname {k}"), "ok".into()),
                "h.act" => match &act {
                    Act::Lookup { n } => {
                        let pos = events.iter().position(|e| matches!(e, Ev::Lookup { .. }));
                        let ans = match pos.map(|i| events.remove(i)) {
                            Some(Ev::Lookup { found: Some((id, stn)) }) => {
                                let kk = w.recs.iter().find(|(_, r)| r.cell.get_id() == id).map(|(k, _)| *k).unwrap_or(999);
                                st.bump(if stn >= 5 { "thr_lookup_stopping" } else { "thr_lookup_found" });
                                format!("found {kk} {stn}")
                            }
                            _ => {
                                st.bump("thr_lookup_none");
                                "none".into()
                            }
                        };
                        (format!("lookup {n}"), ans)
                    }
                    Act::EndOther { .. } => {
                        st.bump("thr_cross_end");
                        ("skip h.act".into(), "ok".into())
                    }
                    _ => ("skip h.act".into(), "ok".into()),
                },
                p => (format!("skip {p}"), "ok".into()),
            };
            log.rec(op, format!("{ans} | {}", w.view()));
            for e in events.drain(..) {
                match e {
                    Ev::SpawnRet { k, res } => {
                        st.bump(&format!("thr_spawn_{res}"));
                        log.rec(format!("spawnret {k}"), format!("{res} | {}", w.view()));
                    }
                    Ev::WaitRet { k } => {
                        st.bump("thr_waitret");
                        let stopped = w.recs.get(&k).map(|r| r.cell.get_status() == ActorStatus::Stopped).unwrap_or(false);
                        log.rec(format!("waitret {k}"), format!("{} | {}", if stopped { "ok" } else { "early" }, w.view()));
                    }
                    Ev::Lookup { .. } => {}
                }
            }
        }
        // everything is logged: now the threads may tear their runtimes down
        sh.done.wait();
        for h in handles {
            let _ = h.join();
        }
        st.add("thr_steps", steps);
    }
}
