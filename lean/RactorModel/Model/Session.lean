import RactorModel.Model.Auth

/-!
# Session — the gate of `NodeSession` (C17)

Transcription of `ractor_cluster/src/node/node_session.rs`: `NodeSession::handle`
(`MessageReceived`), `handle_auth`, `handle_node`, `handle_control`, `after_authenticated`,
`NodeSessionState::authorized_local_actor`, and the `PidLifecycleEvent` arm of
`handle_supervisor_evt`, as a pure function

  `handle : Cfg → SState → Env → In → SState × List Effect`.

Everything the session learns from its environment while handling one input is a field of
`Env` (the `NodeServer`'s answers to `CheckSession`, the challenge drawn by `rand`, the
remotable local actors and groups found at authentication time, whether a pid is a live
remotable actor right now); theorems quantify over every `Env`, so the `NodeServer`, the
registries and `rand` are arbitrary.

Core Lean only.
-/

namespace Session
open Auth

/-- `auth.proto` `ServerStatus.Status`; prost's `status()` maps an unknown value to the default `Ok`. -/
inductive Status where
  | ok | okSimultaneous | notOk | notAllowed | alive
  deriving DecidableEq, Repr

def Status.ofWire : Nat → Status
  | 1 => .okSimultaneous
  | 2 => .notOk
  | 3 => .notAllowed
  | 4 => .alive
  | _ => .ok

def Status.toWire : Status → Nat
  | .ok => 0 | .okSimultaneous => 1 | .notOk => 2 | .notAllowed => 3 | .alive => 4

/-- Outcome of `node_server.call(CheckSession, 500ms)`. -/
inductive Check where
  | noOther | thisContinues | otherContinues | duplicate | failed
  deriving DecidableEq, Repr

/-- `impl From<SessionCheckReply> for Status` -/
def Check.status : Check → Option Status
  | .noOther => some .ok
  | .thisContinues => some .okSimultaneous
  | .otherContinues => some .notOk
  | .duplicate => some .alive
  | .failed => none

inductive AuthSt (D : Type) where
  | server (s : Server D)
  | client (c : Client D)
  deriving DecidableEq, Repr

def AuthSt.isOk {D : Type} : AuthSt D → Bool
  | .server s => s.isOk
  | .client c => c.isOk

def AuthSt.isClose {D : Type} : AuthSt D → Bool
  | .server s => s.isClose
  | .client c => c.isClose

/-- State invariant: a waiting state expects the digest of the challenge it holds. -/
def AuthSt.wf {C D : Type} (H : C → Nat → D) (cookie : C) : AuthSt D → Prop
  | .server s => s.wf H cookie
  | .client c => c.wf H cookie

/-- The authentication messages the current state goes on with (right kind, right digest). -/
def AuthSt.accepts {D : Type} [DecidableEq D] : AuthSt D → Msg D → Bool
  | .server s, m => s.accepts m
  | .client c, m => c.accepts m

inductive Ready where
  | open | syncSent | syncReceived | ready
  deriving DecidableEq, Repr

/-- `node.proto` `NodeMessage.msg` (payload bytes are irrelevant to the gate). -/
inductive NodeMsg where
  | cast (to : Nat)
  | call (to tag : Nat)
  | reply (to tag : Nat)
  | empty
  deriving DecidableEq, Repr

/-- `control.proto` `ControlMessage.msg`; actors by pid. -/
inductive CtlMsg where
  | ready
  | spawn (pids : List Nat)
  | terminate (pids : List Nat)
  | ping
  | pong
  | pgJoin (scope group : String) (pids : List Nat)
  | pgLeave (scope group : String) (pids : List Nat)
  | enumerate (name conn : String)
  | nodeSessions (peers : List (String × String))
  | empty
  deriving DecidableEq, Repr

/-- `meta.proto` `NetworkMessage.message` -/
inductive Frame (D : Type) where
  | auth (m : Msg D)
  | node (n : NodeMsg)
  | control (c : CtlMsg)
  | empty
  deriving DecidableEq, Repr

/-- One input of the session actor: a frame from the peer, or a local `PidLifecycleEvent`
(delivered only while the session monitors the pid registry). -/
inductive In (D : Type) where
  | frame (f : Frame D)
  | pidSpawn (pid : Nat) (remotable : Bool)
  | pidTerminate (pid : Nat) (remotable : Bool)
  /-- `ProcessGroupChanged(Join | Leave)` of local actors; `pids` = the remotable ones -/
  | pgChanged (join : Bool) (scope group : String) (pids : List Nat)
  deriving DecidableEq, Repr

/-- What the environment answers while one input is handled. -/
structure Env where
  /-- `CheckSession` issued on receiving the peer's `Name` (server side) -/
  check : Check
  /-- `CheckSession` issued on authentication answered `NoOtherConnection | ThisConnectionContinues` -/
  elected : Bool
  /-- the challenge drawn -/
  fresh : Nat
  /-- remotable local pids found by `get_all_pids()` in `after_authenticated` -/
  localPids : List Nat
  /-- remotable local members of every scope/group at that time -/
  groups : List (String × String × List Nat)
  /-- `where_is_pid(pid)` is a live actor that supports remoting -/
  remotable : Nat → Bool
  /-- `GetSessions` answered; the authenticated peers `(name, connection string)` it listed -/
  sessions : Option (List (String × String))

inductive Note where
  | updateSession | checkSession | connectionReady | getSessions
  deriving DecidableEq, Repr

/-- Everything a session does to the rest of the system. -/
inductive Effect (D : Type) where
  /-- `send_serialized` to a local actor (cast / call) -/
  | deliverLocal (pid : Nat) (isCall : Bool)
  /-- `CallReply` handed to a `RemoteActor` proxy -/
  | deliverProxy (pid : Nat)
  | spawnProxy (pid : Nat)
  | stopProxy (pid : Nat)
  | pgJoin (scope group : String) (pids : List Nat)
  | pgLeave (scope group : String) (pids : List Nat)
  /-- `ConnectionAuthenticated` cast: from now on `GetSessions` lists this session -/
  | authenticated
  /-- transitive connection attempt to a peer-supplied address -/
  | connect (addr : String)
  /-- start of the ping loop, pid-registry and pg monitoring -/
  | monitor
  | send (f : Frame D)
  | notify (n : Note)
  | stopSelf (reason : String)
  | stopTcp
  deriving DecidableEq, Repr

/-- The effects the property gates behind authentication. -/
def Effect.gated {D : Type} : Effect D → Bool
  | .deliverLocal _ _ => true
  | .deliverProxy _ => true
  | .spawnProxy _ => true
  | .stopProxy _ => true
  | .pgJoin _ _ _ => true
  | .pgLeave _ _ _ => true
  | .authenticated => true
  | .connect _ => true
  | .monitor => true
  | _ => false

structure Cfg (C : Type) where
  isServer : Bool
  cookie : C
  thisName : String
  thisConn : String
  transitive : Bool
  /-- the nonce of a client-side session -/
  connId : Nat

structure SState (D : Type) where
  auth : AuthSt D
  /-- peer `(name, connection string)` once announced -/
  name : Option (String × String)
  connId : Nat
  ready : Ready
  /-- keys of `remote_actors` -/
  proxies : List Nat
  /-- `advertised_local_pids` -/
  advertised : List Nat
  /-- `after_authenticated` ran: ping loop, pid/pg monitors installed -/
  monitoring : Bool
  /-- `myself.stop(..)` was called: the actor handles nothing further -/
  stopped : Bool
  deriving Repr

def init {C D : Type} (cfg : Cfg C) : SState D :=
  { auth := if cfg.isServer then .server Server.init else .client Client.init
    name := none, connId := if cfg.isServer then 0 else cfg.connId, ready := .open
    proxies := [], advertised := [], monitoring := false, stopped := false }

section
variable {C D : Type} [DecidableEq D] (H : C → Nat → D)

/-- `handle_auth`, client side. -/
def authClient (cfg : Cfg C) (st : SState D) (env : Env) (c : Client D) (m : Msg D) :
    SState D × List (Effect D) :=
  let next := c.next H cfg.cookie env.fresh m
  let (next, st, eff) : Client D × SState D × List (Effect D) :=
    match next with
    | .waitingChallenge s =>
      match Status.ofWire s with
      | .ok => (next, st, [])
      | .okSimultaneous => (next, st, [])
      | .notOk => (.close, st, [])
      | .notAllowed => (.close, st, [])
      | .alive => (next, st, [.send (.auth (.clientStatus true))])
    | .waitingAck n cs _ reply ours _ =>
      (next, { st with name := some (n, cs) },
        [.notify .updateSession, .send (.auth (.clientChallenge ours reply))])
    | _ => (next, st, [])
  let (st, eff) := if next.isClose then ({ st with stopped := true }, eff ++ [.stopSelf "auth_fail"]) else (st, eff)
  ({ st with auth := .client next }, eff)

/-- `handle_auth`, server side. -/
def authServer (cfg : Cfg C) (st : SState D) (env : Env) (s : Server D) (m : Msg D) :
    SState D × List (Effect D) :=
  let next := s.next H cfg.cookie env.fresh m
  let (next, st, eff) : Server D × SState D × List (Effect D) :=
    match next with
    | .havePeerName n =>
      let st := { st with name := some (n.name, n.conn), connId := n.connId }
      let eff : List (Effect D) := [.notify .updateSession, .notify .checkSession]
      match env.check.status with
      | none => (.close, st, eff)
      | some status =>
        let eff := eff ++ [.send (.auth (.serverStatus status.toWire))]
        match status with
        | .ok | .okSimultaneous =>
          let next' := Server.startChallenge H cfg.cookie env.fresh next
          match next' with
          | .waitingReply c _ =>
            (next', st, eff ++ [.send (.auth (.serverChallenge cfg.thisName cfg.thisConn c))])
          | _ => (next', st, eff)
        | .notOk | .notAllowed => (.close, st, eff)
        | .alive => (.waitingClientStatus, st, eff)
    | .ok d => (next, st, [.send (.auth (.serverAck d))])
    | _ => (next, st, [])
  let (st, eff) := if next.isClose then ({ st with stopped := true }, eff ++ [.stopSelf "auth_fail"]) else (st, eff)
  ({ st with auth := .server next }, eff)

/-- `handle_auth` -/
def handleAuth (cfg : Cfg C) (st : SState D) (env : Env) (m : Msg D) : SState D × List (Effect D) :=
  if st.auth.isOk then (st, [])
  else
    let (st, eff0) : SState D × List (Effect D) :=
      if st.auth.isClose then ({ st with stopped := true }, [.stopSelf "auth_fail", .stopTcp]) else (st, [])
    let (st, eff) := match st.auth with
      | .client c => authClient H cfg st env c m
      | .server s => authServer H cfg st env s m
    (st, eff0 ++ eff)

end

section
variable {D : Type}

/-- `after_authenticated` -/
def afterAuthenticated {C : Type} (cfg : Cfg C) (st : SState D) (env : Env) : SState D × List (Effect D) :=
  let eff : List (Effect D) :=
    [.monitor] ++
    (if cfg.transitive then [.send (.control (.enumerate cfg.thisName cfg.thisConn))] else []) ++
    (if env.localPids.isEmpty then [] else [.send (.control (.spawn env.localPids))]) ++
    ((env.groups.filter (fun g => !g.2.2.isEmpty)).map (fun g => .send (.control (.pgJoin g.1 g.2.1 g.2.2)))) ++
    [.send (.control .ready)]
  let rdy := match st.ready with
    | .open => .syncSent
    | .syncReceived => .ready
    | r => r
  ({ st with advertised := st.advertised ++ env.localPids, monitoring := true, ready := rdy }, eff)

/-- `authorized_local_actor` -/
def authorized (st : SState D) (env : Env) (pid : Nat) : SState D × Bool :=
  if st.advertised.contains pid then
    if env.remotable pid then (st, true)
    else ({ st with advertised := st.advertised.filter (· != pid) }, false)
  else (st, false)

/-- `handle_node` -/
def handleNode (st : SState D) (env : Env) (n : NodeMsg) : SState D × List (Effect D) :=
  if !st.auth.isOk then (st, [])
  else match n with
    | .cast to =>
      let (st, ok) := authorized st env to
      (st, if ok then [.deliverLocal to false] else [])
    | .call to _ =>
      let (st, ok) := authorized st env to
      (st, if ok then [.deliverLocal to true] else [])
    | .reply to _ => (st, if st.proxies.contains to then [.deliverProxy to] else [])
    | .empty => (st, [])

/-- `get_or_spawn_remote_actor` for a list of pids -/
def spawnMissing (st : SState D) : List Nat → SState D × List (Effect D)
  | [] => (st, [])
  | p :: ps =>
    if st.proxies.contains p then spawnMissing st ps
    else
      let (st', eff) := spawnMissing { st with proxies := st.proxies ++ [p] } ps
      (st', .spawnProxy p :: eff)

def terminateAll (st : SState D) : List Nat → SState D × List (Effect D)
  | [] => (st, [])
  | p :: ps =>
    if st.proxies.contains p then
      let (st', eff) := terminateAll { st with proxies := st.proxies.filter (· != p) } ps
      (st', .stopProxy p :: eff)
    else terminateAll st ps

/-- `handle_control` -/
def handleControl {C : Type} (cfg : Cfg C) (st : SState D) (env : Env) (c : CtlMsg) :
    SState D × List (Effect D) :=
  if !st.auth.isOk then (st, [])
  else match c with
    | .ready =>
      match st.ready with
      | .open => ({ st with ready := .syncReceived }, [])
      | .syncSent => ({ st with ready := .ready }, [.notify .connectionReady])
      | _ => (st, [])
    | .spawn pids => spawnMissing st pids
    | .terminate pids => terminateAll st pids
    | .ping => (st, [.send (.control .pong)])
    | .pong => (st, [])
    | .pgJoin scope group pids =>
      let (st, eff) := spawnMissing st pids
      (st, eff ++ (if pids.isEmpty then [] else [.pgJoin scope group pids]))
    | .pgLeave scope group pids =>
      let known := pids.filter st.proxies.contains
      (st, if known.isEmpty then [] else [.pgLeave scope group known])
    | .enumerate name conn =>
      match env.sessions with
      | some ss =>
        (st, [.notify .getSessions,
              .send (.control (.nodeSessions (ss.filter (fun s => name != s.1 && conn != s.2))))])
      | none => (st, [.notify .getSessions])
    | .nodeSessions peers =>
      if cfg.transitive then
        let existing : List String := match env.sessions with
          | some ss => ss.flatMap (fun s => [s.1, s.2])
          | none => []
        let todo := peers.filter (fun p =>
          !(existing.contains p.1 || existing.contains p.2 || p.1 == cfg.thisName || p.2 == cfg.thisConn))
        (st, [.notify .getSessions] ++ todo.map (fun p => .connect p.2))
      else (st, [])
    | .empty => (st, [])

end

section
variable {C D : Type} [DecidableEq D] (H : C → Nat → D)

/-- The `Auth` arm of `NodeSession::handle`: `handle_auth`, and on the transition to
authenticated `ConnectionAuthenticated`, the election check and `after_authenticated`. -/
def onAuthFrame (cfg : Cfg C) (st : SState D) (env : Env) (m : Msg D) : SState D × List (Effect D) :=
  let p := st.auth.isOk
  let r := handleAuth H cfg st env m
  if !p && r.1.auth.isOk then
    let eff := r.2 ++ [.authenticated, .notify .checkSession]
    if r.1.name.isSome && env.elected then
      let r2 := afterAuthenticated cfg r.1 env
      (r2.1, eff ++ r2.2 ++ (if r2.1.ready == .ready then [.notify .connectionReady] else []))
    else ({ r.1 with stopped := true }, eff ++ [.stopSelf "session_election_lost"])
  else r

/-- The self-connection check at the top of `NodeSession::handle`. -/
def selfConnection (cfg : Cfg C) (st : SState D) : Bool :=
  match st.name with
  | some (n, cs) => cfg.thisConn == cs || cfg.thisName == n
  | none => false

/-- `NodeSession::handle` for `MessageReceived`, plus the `PidLifecycleEvent` /
`ProcessGroupChanged` arms of `handle_supervisor_evt`. A stopped actor handles nothing. -/
def handle (cfg : Cfg C) (st : SState D) (env : Env) (i : In D) : SState D × List (Effect D) :=
  if st.stopped then (st, [])
  else match i with
    | .pidSpawn pid rem =>
      if st.monitoring && rem then
        ({ st with advertised := st.advertised ++ [pid] }, [.send (.control (.spawn [pid]))])
      else (st, [])
    | .pidTerminate pid rem =>
      if st.monitoring && rem then
        ({ st with advertised := st.advertised.filter (· != pid) }, [.send (.control (.terminate [pid]))])
      else (st, [])
    | .pgChanged join scope group pids =>
      if st.monitoring && !pids.isEmpty then
        (st, [.send (.control (if join then .pgJoin scope group pids else .pgLeave scope group pids))])
      else (st, [])
    | .frame f =>
      -- self-connection check, before anything else
      if selfConnection cfg st then ({ st with stopped := true }, [.stopSelf "self_connection"])
      else match f with
        | .auth m => onAuthFrame H cfg st env m
        | .node n => handleNode st env n
        | .control c => handleControl cfg st env c
        | .empty => (st, [])

/-- Input `i`, arriving in authentication state `auth`, is the handshake message that carries
exactly the digest `H cookie c` of the challenge `c` this session holds: the client's
`ChallengeReply` on a server-side session, the server's `ChallengeAck` on a client-side one. -/
def presents (cookie : C) (auth : AuthSt D) (i : In D) : Prop :=
  match auth, i with
  | .server (.waitingReply c d), .frame (.auth (.clientChallenge _ dg)) => dg = d ∧ d = H cookie c
  | .client (.waitingAck _ _ _ _ ours e), .frame (.auth (.serverAck dg)) => dg = e ∧ e = H cookie ours
  | _, _ => False

/-- The digest an input carries, if it is one of the two handshake messages that carry one. -/
def digestOf : In D → Option D
  | .frame (.auth (.clientChallenge _ dg)) => some dg
  | .frame (.auth (.serverAck dg)) => some dg
  | _ => none

/-- The session's life: states and effects after each input. -/
def run (cfg : Cfg C) (st : SState D) : List (Env × In D) → List (SState D × List (Effect D))
  | [] => []
  | (env, i) :: rest =>
    let r := handle H cfg st env i
    r :: run cfg r.1 rest

/-- State after a whole input sequence. -/
def stateAfter (cfg : Cfg C) (st : SState D) : List (Env × In D) → SState D
  | [] => st
  | (env, i) :: rest => stateAfter cfg (handle H cfg st env i).1 rest

end

end Session
