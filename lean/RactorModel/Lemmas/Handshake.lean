import RactorModel.Model.Handshake
import RactorModel.Lemmas.Agreement

/-! Invariant of the two-node handshake transition system (`Model/Handshake.lean`). -/

namespace Election

/-- the connection the accepting node keeps among ALL connections: a survivor of the direction
and nonce rules with the smallest session id on the accepting node -/
def IsWinner (o : Ordering) (cs : List Conn) (acc : Conn) : Prop :=
  acc ∈ survivors o cs ∧
  (acc.aInit = false → ∀ c ∈ survivors o cs, acc.idA ≤ c.idA) ∧
  (acc.aInit = true → ∀ c ∈ survivors o cs, acc.idB ≤ c.idB)

theorem exists_winner (o : Ordering) (ho : o ≠ .eq) (cs : List Conn) (hne : cs ≠ [])
    (hA : (cs.map (·.idA)).Nodup) (hB : (cs.map (·.idB)).Nodup) : ∃ acc, IsWinner o cs acc := by
  obtain ⟨_, _, acc, hacc, h1, h2⟩ := agreement_core o ho cs hne hA hB
  exact ⟨acc, hacc, fun h => (h1 h).2.2, fun h => (h2 h).2.2⟩

structure Ctx (o : Ordering) (cs : List Conn) (acc : Conn) : Prop where
  ho : o ≠ .eq
  hA : (cs.map (·.idA)).Nodup
  hB : (cs.map (·.idB)).Nodup
  win : IsWinner o cs acc

section
variable {o : Ordering} {cs : List Conn} {acc : Conn}

theorem Ctx.mem (X : Ctx o cs acc) : acc ∈ cs := (survivors_sublist o cs).subset X.win.1

theorem Ctx.inElectA (X : Ctx o cs acc) {R : List Conn} (hR : R.Sublist cs) (h : acc ∈ R) :
    acc.idA ∈ electA o R := by
  obtain ⟨h1, h2⟩ := winner_survives_every_partial_election_core o X.ho cs R X.hA X.hB hR acc X.win.1 h
  cases hai : acc.aInit
  · rw [(h1 hai (X.win.2.1 hai)).1]; simp
  · exact (h2 hai (X.win.2.2 hai)).2

theorem Ctx.inElectB (X : Ctx o cs acc) {R : List Conn} (hR : R.Sublist cs) (h : acc ∈ R) :
    acc.idB ∈ electB o R := by
  obtain ⟨h1, h2⟩ := winner_survives_every_partial_election_core o X.ho cs R X.hA X.hB hR acc X.win.1 h
  cases hai : acc.aInit
  · exact (h1 hai (X.win.2.1 hai)).2
  · rw [(h2 hai (X.win.2.2 hai)).1]; simp

theorem Ctx.electA_acceptor (X : Ctx o cs acc) (hai : acc.aInit = false) {R : List Conn}
    (hR : R.Sublist cs) (h : acc ∈ R) : electA o R = [acc.idA] :=
  ((winner_survives_every_partial_election_core o X.ho cs R X.hA X.hB hR acc X.win.1 h).1 hai
    (X.win.2.1 hai)).1

theorem Ctx.electB_acceptor (X : Ctx o cs acc) (hai : acc.aInit = true) {R : List Conn}
    (hR : R.Sublist cs) (h : acc ∈ R) : electB o R = [acc.idB] :=
  ((winner_survives_every_partial_election_core o X.ho cs R X.hA X.hB hR acc X.win.1 h).2 hai
    (X.win.2.2 hai)).1

end

/-! ### list plumbing -/

theorem filter_sublist_filter {α : Type} {p q : α → Bool} (l : List α) (h : ∀ a ∈ l, p a = true → q a = true) :
    (l.filter p).Sublist (l.filter q) := by
  have : l.filter p = (l.filter q).filter p := by
    rw [List.filter_filter]
    apply List.filter_congr
    intro x hx
    cases hp : p x
    · simp
    · simp [h x hx hp]
  rw [this]; exact List.filter_sublist

theorem sublist_singleton_of_mem {α : Type} {R : List α} {x : α} (h : R.Sublist [x]) (hx : x ∈ R) : R = [x] := by
  match R, h, hx with
  | [], _, hx => simp at hx
  | [y], _, hx => simp at hx; rw [hx]
  | y :: z :: t, h, _ => exact absurd h.length_le (by simp)

/-- the projection of a filtered world to its connections, for any update that keeps `.c` -/
theorem map_c_map {f : Link → Link} (hf : ∀ l, (f l).c = l.c) (w : List Link) :
    (w.map f).map (·.c) = w.map (·.c) := by
  rw [List.map_map]; apply List.map_congr_left; intro l _; exact hf l

theorem filter_map_c {f : Link → Link} (hf : ∀ l, (f l).c = l.c) (p : Link → Bool) (w : List Link) :
    ((w.map f).filter p).map (·.c) = (w.filter (p ∘ f)).map (·.c) := by
  rw [List.filter_map, List.map_map]; apply List.map_congr_left; intro l _; exact hf l

theorem activeA_sublist (w : List Link) : (activeA w).Sublist (w.map (·.c)) :=
  List.filter_sublist.map _
theorem activeB_sublist (w : List Link) : (activeB w).Sublist (w.map (·.c)) :=
  List.filter_sublist.map _
theorem candA_sublist (w : List Link) (a : Nat) : (candA w a).Sublist (w.map (·.c)) :=
  List.filter_sublist.map _
theorem candB_sublist (w : List Link) (b : Nat) : (candB w b).Sublist (w.map (·.c)) :=
  List.filter_sublist.map _

theorem mem_activeA {w : List Link} {c : Conn} :
    c ∈ activeA w ↔ ∃ l ∈ w, l.c = c ∧ l.authA = true ∧ l.openA = true := by
  simp only [activeA, List.mem_map, List.mem_filter, Bool.and_eq_true]
  constructor
  · rintro ⟨l, ⟨hl, ha, ho⟩, rfl⟩; exact ⟨l, hl, rfl, ha, ho⟩
  · rintro ⟨l, hl, rfl, ha, ho⟩; exact ⟨l, ⟨hl, ha, ho⟩, rfl⟩

theorem mem_activeB {w : List Link} {c : Conn} :
    c ∈ activeB w ↔ ∃ l ∈ w, l.c = c ∧ l.authB = true ∧ l.openB = true := by
  simp only [activeB, List.mem_map, List.mem_filter, Bool.and_eq_true]
  constructor
  · rintro ⟨l, ⟨hl, ha, ho⟩, rfl⟩; exact ⟨l, hl, rfl, ha, ho⟩
  · rintro ⟨l, hl, rfl, ha, ho⟩; exact ⟨l, ⟨hl, ha, ho⟩, rfl⟩

/-- `activeA` after an update that keeps `.c` -/
theorem activeA_map {f : Link → Link} (hf : ∀ l, (f l).c = l.c) (w : List Link) :
    activeA (w.map f) = (w.filter (fun l => (f l).authA && (f l).openA)).map (·.c) := by
  unfold activeA; rw [filter_map_c hf]; rfl
theorem activeB_map {f : Link → Link} (hf : ∀ l, (f l).c = l.c) (w : List Link) :
    activeB (w.map f) = (w.filter (fun l => (f l).authB && (f l).openB)).map (·.c) := by
  unfold activeB; rw [filter_map_c hf]; rfl

/-- an update that touches neither `authA` nor `openA` leaves node A's knowledge alone -/
theorem activeA_map_same {f : Link → Link} (hf : ∀ l, (f l).c = l.c)
    (h : ∀ l, (f l).authA = l.authA ∧ (f l).openA = l.openA) (w : List Link) :
    activeA (w.map f) = activeA w := by
  rw [activeA_map hf]; unfold activeA
  congr 1; apply List.filter_congr; intro l _; rw [(h l).1, (h l).2]
theorem activeB_map_same {f : Link → Link} (hf : ∀ l, (f l).c = l.c)
    (h : ∀ l, (f l).authB = l.authB ∧ (f l).openB = l.openB) (w : List Link) :
    activeB (w.map f) = activeB w := by
  rw [activeB_map hf]; unfold activeB
  congr 1; apply List.filter_congr; intro l _; rw [(h l).1, (h l).2]

/-- an update that only closes sessions shrinks node A's knowledge -/
theorem activeA_map_shrink {f : Link → Link} (hf : ∀ l, (f l).c = l.c) (w : List Link)
    (h : ∀ l ∈ w, ((f l).authA && (f l).openA) = true → (l.authA && l.openA) = true) :
    (activeA (w.map f)).Sublist (activeA w) := by
  rw [activeA_map hf]; unfold activeA
  exact (filter_sublist_filter w h).map _
theorem activeB_map_shrink {f : Link → Link} (hf : ∀ l, (f l).c = l.c) (w : List Link)
    (h : ∀ l ∈ w, ((f l).authB && (f l).openB) = true → (l.authB && l.openB) = true) :
    (activeB (w.map f)).Sublist (activeB w) := by
  rw [activeB_map hf]; unfold activeB
  exact (filter_sublist_filter w h).map _

theorem activeA_closeLosers (w : List Link) (el : List Nat) :
    activeA (closeLosersA w el) = (activeA w).filter (fun c => el.contains c.idA) := by
  unfold closeLosersA
  rw [activeA_map (by intro l; split <;> rfl)]
  unfold activeA
  rw [List.filter_map, List.filter_filter]
  congr 1; apply List.filter_congr; intro l _
  by_cases he : el.contains l.c.idA = true <;> cases ha : l.authA <;> cases ho : l.openA <;> simp_all

theorem activeB_closeLosers (w : List Link) (el : List Nat) :
    activeB (closeLosersB w el) = (activeB w).filter (fun c => el.contains c.idB) := by
  unfold closeLosersB
  rw [activeB_map (by intro l; split <;> rfl)]
  unfold activeB
  rw [List.filter_map, List.filter_filter]
  congr 1; apply List.filter_congr; intro l _
  by_cases he : el.contains l.c.idB = true <;> cases ha : l.authB <;> cases ho : l.openB <;> simp_all


/-! ### the invariant -/

structure HInv (cs : List Conn) (acc : Conn) (w : List Link) : Prop where
  conns : w.map (·.c) = cs
  /-- the winner is never closed, on either node -/
  accOpen : ∀ l ∈ w, l.c = acc → l.openA = true ∧ l.openB = true
  /-- once the winner has authenticated on the accepting node, it is all that node retains -/
  accA : acc.aInit = false → ∀ l ∈ w, l.c = acc → l.authA = true → activeA w = [acc]
  accB : acc.aInit = true → ∀ l ∈ w, l.c = acc → l.authB = true → activeB w = [acc]

def mkA (a : Nat) (l : Link) : Link := if l.c.idA == a then { l with authA := true } else l
def mkB (b : Nat) (l : Link) : Link := if l.c.idB == b then { l with authB := true } else l
def clA (el : List Nat) (l : Link) : Link :=
  if l.authA && l.openA && !el.contains l.c.idA then { l with openA := false } else l
def clB (el : List Nat) (l : Link) : Link :=
  if l.authB && l.openB && !el.contains l.c.idB then { l with openB := false } else l
def dropA (a : Nat) (l : Link) : Link := if l.c.idA == a then { l with openA := false } else l
def dropB (b : Nat) (l : Link) : Link := if l.c.idB == b then { l with openB := false } else l
def seeAf (a : Nat) (l : Link) : Link := if l.c.idA == a && !l.openB then { l with openA := false } else l
def seeBf (b : Nat) (l : Link) : Link := if l.c.idB == b && !l.openA then { l with openB := false } else l

theorem markA_eq (w : List Link) (a : Nat) : markA w a = w.map (mkA a) := rfl
theorem markB_eq (w : List Link) (b : Nat) : markB w b = w.map (mkB b) := rfl
theorem closeLosersA_eq (w : List Link) (el : List Nat) : closeLosersA w el = w.map (clA el) := rfl
theorem closeLosersB_eq (w : List Link) (el : List Nat) : closeLosersB w el = w.map (clB el) := rfl

theorem mkA_c (a : Nat) (l : Link) : (mkA a l).c = l.c := by unfold mkA; split <;> rfl
theorem mkB_c (b : Nat) (l : Link) : (mkB b l).c = l.c := by unfold mkB; split <;> rfl
theorem clA_c (el : List Nat) (l : Link) : (clA el l).c = l.c := by unfold clA; split <;> rfl
theorem clB_c (el : List Nat) (l : Link) : (clB el l).c = l.c := by unfold clB; split <;> rfl
theorem dropA_c (a : Nat) (l : Link) : (dropA a l).c = l.c := by unfold dropA; split <;> rfl
theorem dropB_c (b : Nat) (l : Link) : (dropB b l).c = l.c := by unfold dropB; split <;> rfl
theorem seeAf_c (a : Nat) (l : Link) : (seeAf a l).c = l.c := by unfold seeAf; split <;> rfl
theorem seeBf_c (b : Nat) (l : Link) : (seeBf b l).c = l.c := by unfold seeBf; split <;> rfl

theorem mkA_fields (a : Nat) (l : Link) :
    (mkA a l).openA = l.openA ∧ (mkA a l).openB = l.openB ∧ (mkA a l).authB = l.authB ∧
    (l.authA = true → (mkA a l).authA = true) := by
  unfold mkA; split <;> simp
theorem mkB_fields (b : Nat) (l : Link) :
    (mkB b l).openA = l.openA ∧ (mkB b l).openB = l.openB ∧ (mkB b l).authA = l.authA ∧
    (l.authB = true → (mkB b l).authB = true) := by
  unfold mkB; split <;> simp
theorem clA_fields (el : List Nat) (l : Link) :
    (clA el l).authA = l.authA ∧ (clA el l).authB = l.authB ∧ (clA el l).openB = l.openB := by
  unfold clA; split <;> simp
theorem clB_fields (el : List Nat) (l : Link) :
    (clB el l).authA = l.authA ∧ (clB el l).authB = l.authB ∧ (clB el l).openA = l.openA := by
  unfold clB; split <;> simp

section
variable {o : Ordering} {cs : List Conn} {acc : Conn} {w : List Link}

theorem hsInit_inv (cs : List Conn) (acc : Conn) : HInv cs acc (hsInit cs) := by
  refine ⟨?_, ?_, ?_, ?_⟩
  · unfold hsInit; rw [List.map_map]
    have : ((fun x : Link => x.c) ∘ fun c => ({ c := c } : Link)) = id := rfl
    rw [this, List.map_id]
  · intro l hl _; unfold hsInit at hl; obtain ⟨c, _, rfl⟩ := List.mem_map.mp hl; exact ⟨rfl, rfl⟩
  · intro _ l hl _ ha; unfold hsInit at hl; obtain ⟨c, _, rfl⟩ := List.mem_map.mp hl; exact absurd ha (by simp)
  · intro _ l hl _ ha; unfold hsInit at hl; obtain ⟨c, _, rfl⟩ := List.mem_map.mp hl; exact absurd ha (by simp)

theorem HInv.mem_cs (I : HInv cs acc w) {l : Link} (hl : l ∈ w) : l.c ∈ cs :=
  I.conns ▸ List.mem_map.mpr ⟨l, hl, rfl⟩

theorem HInv.eq_of_idA (X : Ctx o cs acc) (I : HInv cs acc w) {l : Link} (hl : l ∈ w)
    (h : l.c.idA = acc.idA) : l.c = acc :=
  nodup_map_inj' (·.idA) X.hA (I.mem_cs hl) X.mem h

theorem HInv.eq_of_idB (X : Ctx o cs acc) (I : HInv cs acc w) {l : Link} (hl : l ∈ w)
    (h : l.c.idB = acc.idB) : l.c = acc :=
  nodup_map_inj' (·.idB) X.hB (I.mem_cs hl) X.mem h

theorem nodupA_of_sublist (X : Ctx o cs acc) {R : List Conn} (hR : R.Sublist cs) : (R.map (·.idA)).Nodup :=
  (hR.map _).nodup X.hA
theorem nodupB_of_sublist (X : Ctx o cs acc) {R : List Conn} (hR : R.Sublist cs) : (R.map (·.idB)).Nodup :=
  (hR.map _).nodup X.hB

/-- `authA`: commit_authenticated on node A -/
theorem HInv.stepAuthA (X : Ctx o cs acc) (I : HInv cs acc w) (a : Nat) : HInv cs acc (stepAuthA o w a) := by
  unfold Election.stepAuthA
  split
  case isFalse => exact I
  rw [closeLosersA_eq, markA_eq]
  have hc1 : (w.map (mkA a)).map (·.c) = cs := by rw [map_c_map (mkA_c a)]; exact I.conns
  have hsub : (activeA (w.map (mkA a))).Sublist cs := hc1 ▸ activeA_sublist _
  refine ⟨?_, ?_, ?_, ?_⟩
  · rw [map_c_map (clA_c _)]; exact hc1
  · intro l2 hl2 hacc
    obtain ⟨l1, hl1, rfl⟩ := List.mem_map.mp hl2
    obtain ⟨l, hl, rfl⟩ := List.mem_map.mp hl1
    rw [clA_c, mkA_c] at hacc
    obtain ⟨hoA, hoB⟩ := I.accOpen l hl hacc
    have hf := mkA_fields a l
    refine ⟨?_, by rw [(clA_fields _ _).2.2, hf.2.1]; exact hoB⟩
    unfold clA
    split
    next hcond =>
      exfalso
      simp only [Bool.and_eq_true, Bool.not_eq_true', ] at hcond
      have hin : acc ∈ activeA (w.map (mkA a)) :=
        mem_activeA.mpr ⟨mkA a l, hl1, by rw [mkA_c]; exact hacc, hcond.1.1, hcond.1.2⟩
      have := X.inElectA hsub hin
      rw [mkA_c, hacc] at hcond
      have h2 : (electA o (activeA (w.map (mkA a)))).contains acc.idA = true := by simpa using this
      rw [h2] at hcond; exact absurd hcond.2 (by simp)
    next => rw [hf.1]; exact hoA
  · intro hai l2 hl2 hacc hau
    obtain ⟨l1, hl1, rfl⟩ := List.mem_map.mp hl2
    rw [clA_c] at hacc
    rw [(clA_fields _ _).1] at hau
    obtain ⟨l, hl, rfl⟩ := List.mem_map.mp hl1
    have hoA : (mkA a l).openA = true := by
      rw [(mkA_fields a l).1]; rw [mkA_c] at hacc; exact (I.accOpen l hl hacc).1
    have hin : acc ∈ activeA (w.map (mkA a)) := mem_activeA.mpr ⟨mkA a l, hl1, hacc, hau, hoA⟩
    rw [← closeLosersA_eq, activeA_closeLosers, X.electA_acceptor hai hsub hin]
    exact filter_key_singleton (·.idA) hin (nodupA_of_sublist X hsub)
  · intro hai l2 hl2 hacc hau
    obtain ⟨l1, hl1, rfl⟩ := List.mem_map.mp hl2
    obtain ⟨l, hl, rfl⟩ := List.mem_map.mp hl1
    rw [clA_c, mkA_c] at hacc
    rw [(clA_fields _ _).2.1, (mkA_fields a l).2.2.1] at hau
    rw [activeB_map_same (clA_c _) (fun l => ⟨(clA_fields _ l).2.1, (clA_fields _ l).2.2⟩),
      activeB_map_same (mkA_c a) (fun l => ⟨(mkA_fields a l).2.2.1, (mkA_fields a l).2.1⟩)]
    exact I.accB hai l hl hacc hau


/-- a step in which node A only closes sessions other than the winner -/
theorem HInv.closeA_step (I : HInv cs acc w) (f : Link → Link) (hc : ∀ l, (f l).c = l.c)
    (hk : ∀ l, (f l).authA = l.authA ∧ (f l).authB = l.authB ∧ (f l).openB = l.openB ∧
      ((f l).openA = true → l.openA = true))
    (hacc : ∀ l ∈ w, l.c = acc → f l = l) : HInv cs acc (w.map f) := by
  refine ⟨?_, ?_, ?_, ?_⟩
  · rw [map_c_map hc]; exact I.conns
  · intro l2 hl2 h
    obtain ⟨l, hl, rfl⟩ := List.mem_map.mp hl2
    rw [hc] at h; rw [hacc l hl h]; exact I.accOpen l hl h
  · intro hai l2 hl2 h hau
    obtain ⟨l, hl, rfl⟩ := List.mem_map.mp hl2
    rw [hc] at h
    have hfl := hacc l hl h
    rw [hfl] at hau
    have hbefore := I.accA hai l hl h hau
    have hsub : (activeA (w.map f)).Sublist [acc] := by
      rw [← hbefore]
      apply activeA_map_shrink hc
      intro l' _ h'
      simp only [Bool.and_eq_true] at h' ⊢
      exact ⟨(hk l').1 ▸ h'.1, (hk l').2.2.2 h'.2⟩
    have hin : acc ∈ activeA (w.map f) :=
      mem_activeA.mpr ⟨l, by rw [← hfl]; exact hl2, h, hau, (I.accOpen l hl h).1⟩
    exact sublist_singleton_of_mem hsub hin
  · intro hai l2 hl2 h hau
    obtain ⟨l, hl, rfl⟩ := List.mem_map.mp hl2
    rw [hc] at h; rw [(hk l).2.1] at hau
    rw [activeB_map_same hc (fun l => ⟨(hk l).2.1, (hk l).2.2.1⟩)]
    exact I.accB hai l hl h hau

theorem dropA_keeps (a : Nat) (l : Link) :
    (dropA a l).authA = l.authA ∧ (dropA a l).authB = l.authB ∧ (dropA a l).openB = l.openB ∧
      ((dropA a l).openA = true → l.openA = true) := by
  unfold dropA; split <;> simp
theorem seeAf_keeps (a : Nat) (l : Link) :
    (seeAf a l).authA = l.authA ∧ (seeAf a l).authB = l.authB ∧ (seeAf a l).openB = l.openB ∧
      ((seeAf a l).openA = true → l.openA = true) := by
  unfold seeAf; split <;> simp

/-- `preA`: check_candidate for a not yet authenticated session on node A -/
theorem HInv.stepPreA (X : Ctx o cs acc) (I : HInv cs acc w) (a : Nat) : HInv cs acc (stepPreA o w a) := by
  unfold Election.stepPreA
  split
  case isFalse => exact I
  next hcond =>
  simp only [Bool.and_eq_true, Bool.not_eq_true'] at hcond
  apply I.closeA_step (dropA a) (dropA_c a) (dropA_keeps a)
  intro l hl hacc
  unfold dropA
  split
  next hid =>
    exfalso
    have hida : l.c.idA = a := by simpa using hid
    have hop := (I.accOpen l hl hacc).1
    have hin : acc ∈ candA w a := by
      unfold candA
      exact List.mem_map.mpr ⟨l, List.mem_filter.mpr ⟨hl, by simp [hida, hop]⟩, hacc⟩
    have hsub : (candA w a).Sublist cs := I.conns ▸ candA_sublist w a
    have := X.inElectA hsub hin
    have h3 : acc.idA = a := by rw [← hacc]; exact hida
    have h2 : (electA o (candA w a)).contains a = true := by simpa using (h3 ▸ this)
    rw [h2] at hcond; exact absurd hcond.2 (by simp)
  next => rfl

/-- `seeA`: node A notices that node B closed a connection -/
theorem HInv.stepSeeA (I : HInv cs acc w) (a : Nat) : HInv cs acc (stepSeeA w a) := by
  apply I.closeA_step (seeAf a) (seeAf_c a) (seeAf_keeps a)
  intro l hl hacc
  unfold seeAf
  rw [(I.accOpen l hl hacc).2]; simp

/-! #### the same for node B -/
/-- a step in which node B only closes sessions other than the winner -/
theorem HInv.closeB_step (I : HInv cs acc w) (f : Link → Link) (hc : ∀ l, (f l).c = l.c)
    (hk : ∀ l, (f l).authB = l.authB ∧ (f l).authA = l.authA ∧ (f l).openA = l.openA ∧
      ((f l).openB = true → l.openB = true))
    (hacc : ∀ l ∈ w, l.c = acc → f l = l) : HInv cs acc (w.map f) := by
  refine ⟨?_, ?_, ?_, ?_⟩
  · rw [map_c_map hc]; exact I.conns
  · intro l2 hl2 h
    obtain ⟨l, hl, rfl⟩ := List.mem_map.mp hl2
    rw [hc] at h; rw [hacc l hl h]; exact I.accOpen l hl h
  · intro hai l2 hl2 h hau
    obtain ⟨l, hl, rfl⟩ := List.mem_map.mp hl2
    rw [hc] at h; rw [(hk l).2.1] at hau
    rw [activeA_map_same hc (fun l => ⟨(hk l).2.1, (hk l).2.2.1⟩)]
    exact I.accA hai l hl h hau
  · intro hai l2 hl2 h hau
    obtain ⟨l, hl, rfl⟩ := List.mem_map.mp hl2
    rw [hc] at h
    have hfl := hacc l hl h
    rw [hfl] at hau
    have hbefore := I.accB hai l hl h hau
    have hsub : (activeB (w.map f)).Sublist [acc] := by
      rw [← hbefore]
      apply activeB_map_shrink hc
      intro l' _ h'
      simp only [Bool.and_eq_true] at h' ⊢
      exact ⟨(hk l').1 ▸ h'.1, (hk l').2.2.2 h'.2⟩
    have hin : acc ∈ activeB (w.map f) :=
      mem_activeB.mpr ⟨l, by rw [← hfl]; exact hl2, h, hau, (I.accOpen l hl h).2⟩
    exact sublist_singleton_of_mem hsub hin

theorem dropB_keeps (a : Nat) (l : Link) :
    (dropB a l).authB = l.authB ∧ (dropB a l).authA = l.authA ∧ (dropB a l).openA = l.openA ∧
      ((dropB a l).openB = true → l.openB = true) := by
  unfold dropB; split <;> simp
theorem seeBf_keeps (a : Nat) (l : Link) :
    (seeBf a l).authB = l.authB ∧ (seeBf a l).authA = l.authA ∧ (seeBf a l).openA = l.openA ∧
      ((seeBf a l).openB = true → l.openB = true) := by
  unfold seeBf; split <;> simp

/-- `preA`: check_candidate for a not yet authenticated session on node B -/
theorem HInv.stepPreB (X : Ctx o cs acc) (I : HInv cs acc w) (a : Nat) : HInv cs acc (stepPreB o w a) := by
  unfold Election.stepPreB
  split
  case isFalse => exact I
  next hcond =>
  simp only [Bool.and_eq_true, Bool.not_eq_true'] at hcond
  apply I.closeB_step (dropB a) (dropB_c a) (dropB_keeps a)
  intro l hl hacc
  unfold dropB
  split
  next hid =>
    exfalso
    have hida : l.c.idB = a := by simpa using hid
    have hop := (I.accOpen l hl hacc).2
    have hin : acc ∈ candB w a := by
      unfold candB
      exact List.mem_map.mpr ⟨l, List.mem_filter.mpr ⟨hl, by simp [hida, hop]⟩, hacc⟩
    have hsub : (candB w a).Sublist cs := I.conns ▸ candB_sublist w a
    have := X.inElectB hsub hin
    have h3 : acc.idB = a := by rw [← hacc]; exact hida
    have h2 : (electB o (candB w a)).contains a = true := by simpa using (h3 ▸ this)
    rw [h2] at hcond; exact absurd hcond.2 (by simp)
  next => rfl

/-- `seeA`: node B notices that node A closed a connection -/
theorem HInv.stepSeeB (I : HInv cs acc w) (a : Nat) : HInv cs acc (stepSeeB w a) := by
  apply I.closeB_step (seeBf a) (seeBf_c a) (seeBf_keeps a)
  intro l hl hacc
  unfold seeBf
  rw [(I.accOpen l hl hacc).1]; simp


/-- `authB`: commit_authenticated on node B -/
theorem HInv.stepAuthB (X : Ctx o cs acc) (I : HInv cs acc w) (b : Nat) : HInv cs acc (stepAuthB o w b) := by
  unfold Election.stepAuthB
  split
  case isFalse => exact I
  rw [closeLosersB_eq, markB_eq]
  have hc1 : (w.map (mkB b)).map (·.c) = cs := by rw [map_c_map (mkB_c b)]; exact I.conns
  have hsub : (activeB (w.map (mkB b))).Sublist cs := hc1 ▸ activeB_sublist _
  refine ⟨?_, ?_, ?_, ?_⟩
  · rw [map_c_map (clB_c _)]; exact hc1
  · intro l2 hl2 hacc
    obtain ⟨l1, hl1, rfl⟩ := List.mem_map.mp hl2
    obtain ⟨l, hl, rfl⟩ := List.mem_map.mp hl1
    rw [clB_c, mkB_c] at hacc
    obtain ⟨hoA, hoB⟩ := I.accOpen l hl hacc
    have hf := mkB_fields b l
    refine ⟨by rw [(clB_fields _ _).2.2, hf.1]; exact hoA, ?_⟩
    unfold clB
    split
    next hcond =>
      exfalso
      simp only [Bool.and_eq_true, Bool.not_eq_true', ] at hcond
      have hin : acc ∈ activeB (w.map (mkB b)) :=
        mem_activeB.mpr ⟨mkB b l, hl1, by rw [mkB_c]; exact hacc, hcond.1.1, hcond.1.2⟩
      have := X.inElectB hsub hin
      rw [mkB_c, hacc] at hcond
      have h2 : (electB o (activeB (w.map (mkB b)))).contains acc.idB = true := by simpa using this
      rw [h2] at hcond; exact absurd hcond.2 (by simp)
    next => rw [hf.2.1]; exact hoB
  · intro hai l2 hl2 hacc hau
    obtain ⟨l1, hl1, rfl⟩ := List.mem_map.mp hl2
    obtain ⟨l, hl, rfl⟩ := List.mem_map.mp hl1
    rw [clB_c, mkB_c] at hacc
    rw [(clB_fields _ _).1, (mkB_fields b l).2.2.1] at hau
    rw [activeA_map_same (clB_c _) (fun l => ⟨(clB_fields _ l).1, (clB_fields _ l).2.2⟩),
      activeA_map_same (mkB_c b) (fun l => ⟨(mkB_fields b l).2.2.1, (mkB_fields b l).1⟩)]
    exact I.accA hai l hl hacc hau
  · intro hai l2 hl2 hacc hau
    obtain ⟨l1, hl1, rfl⟩ := List.mem_map.mp hl2
    rw [clB_c] at hacc
    rw [(clB_fields _ _).2.1] at hau
    obtain ⟨l, hl, rfl⟩ := List.mem_map.mp hl1
    have hoB : (mkB b l).openB = true := by
      rw [(mkB_fields b l).2.1]; rw [mkB_c] at hacc; exact (I.accOpen l hl hacc).2
    have hin : acc ∈ activeB (w.map (mkB b)) := mem_activeB.mpr ⟨mkB b l, hl1, hacc, hau, hoB⟩
    rw [← closeLosersB_eq, activeB_closeLosers, X.electB_acceptor hai hsub hin]
    exact filter_key_singleton (·.idB) hin (nodupB_of_sublist X hsub)

/-- every step keeps the invariant -/
theorem HInv.step (X : Ctx o cs acc) (I : HInv cs acc w) (op : HOp) : HInv cs acc (hsStep o w op) := by
  cases op with
  | authA a => exact I.stepAuthA X a
  | authB b => exact I.stepAuthB X b
  | preA a => exact I.stepPreA X a
  | preB b => exact I.stepPreB X b
  | seeA a => exact I.stepSeeA a
  | seeB b => exact I.stepSeeB b

theorem hsRun_inv (X : Ctx o cs acc) (ops : List HOp) : HInv cs acc (hsRun o cs ops) := by
  unfold hsRun
  suffices h : ∀ w, HInv cs acc w → HInv cs acc (ops.foldl (hsStep o) w) from h _ (hsInit_inv cs acc)
  induction ops with
  | nil => intro w I; exact I
  | cons op t ih => intro w I; exact ih _ (I.step X op)

/-- at rest, both nodes hold exactly the winner -/
theorem HInv.quiescent (X : Ctx o cs acc) (I : HInv cs acc w) (hq : hsQuiescent w = true) :
    openOnA w = [acc] ∧ openOnB w = [acc] := by
  unfold hsQuiescent at hq
  rw [List.all_eq_true] at hq
  have hq' : ∀ l ∈ w, l.openA = l.openB ∧ (l.openA = true → l.authA = true ∧ l.authB = true) := by
    intro l hl
    have := hq l hl
    simp only [Bool.and_eq_true, beq_iff_eq, Bool.or_eq_true, Bool.not_eq_true'] at this
    refine ⟨this.1, fun ho => ?_⟩
    rcases this.2 with h | h
    · rw [ho] at h; exact absurd h (by simp)
    · exact h
  have hAB : openOnB w = openOnA w := by
    unfold openOnA openOnB; congr 1; apply List.filter_congr; intro l hl; exact (hq' l hl).1.symm
  -- the winner's link
  have hmem : acc ∈ w.map (·.c) := I.conns ▸ X.mem
  obtain ⟨l, hl, hlc⟩ := List.mem_map.mp hmem
  obtain ⟨hoA, hoB⟩ := I.accOpen l hl hlc
  obtain ⟨hauA, hauB⟩ := (hq' l hl).2 hoA
  have hA1 : openOnA w = activeA w := by
    unfold openOnA activeA; congr 1; apply List.filter_congr; intro l' hl'
    cases ho : l'.openA
    · simp
    · simp [((hq' l' hl').2 ho).1]
  have hB1 : openOnB w = activeB w := by
    unfold openOnB activeB; congr 1; apply List.filter_congr; intro l' hl'
    cases ho : l'.openB
    · simp
    · have : l'.openA = true := by rw [(hq' l' hl').1]; exact ho
      simp [((hq' l' hl').2 this).2]
  cases hai : acc.aInit
  · have := I.accA hai l hl hlc hauA
    rw [hAB, hA1, this]; exact ⟨rfl, rfl⟩
  · have := I.accB hai l hl hlc hauB
    rw [← hAB, hB1, this]; exact ⟨rfl, rfl⟩

end

end Election
